package main

// C19 — kubectl-eds commands change only what they document.

import (
	"fmt"
	"go/token"
	"go/types"
	"sort"
	"strings"

	"golang.org/x/tools/go/ssa"
)

func init() {
	register("C19", "Decides, for the run methods of canary.{pause,validate,fail}Options, pause.pauseOptions and freeze.freezeOptions: (R1) exactly one API write site is reachable, of the documented verb and kind (Patch of the ExtendedDaemonSet; Status().Update of the replica set for fail), not in a loop, and no other kubectl-eds code writes to the API; (R2) the written object is DeepCopy() of the object read by Get with the user's namespace/name (for fail: of the replica set named by status.canary.replicaSet of that object, same namespace), the read object is never modified, the patch base is MergeFrom(read object), the copy is modified only by creating the annotation map and by annotation writes whose final key/value set on every path to the write is one of the command's documented tables (validate: canary-valid = status.canary.replicaSet of the object read; fail: one append to Status.Conditions of a condition whose constructor puts type Canary-Failed and status True), and the table written is the one of the command word that the cobra constructor binds to the mode field tested on that path; (R3) the write is dominated by the canary precondition (status.canary != nil, plus spec.strategy.canary != nil for pause/fail; status.canary == nil for rolling-update pause and freeze); (R4) every annotation key written is looked up by a function reachable from the controllers' Reconcile, the reader compares with a constant the writer writes (or, for canary-valid, with a name parameter), and the condition type/status written by fail are the constants the controller's failed-reader tests; (R5) reader side of validate: status.activeReplicaSet comes from one decision function, and on every path of it on which IsCanaryDeploymentValid(daemonset annotations, up-to-date replica set name) is true the up-to-date replica set is returned (no pause/fail/time condition can mask a validation); (R6) reader side of unpause: Result.IsUnpaused is stored only from IsCanaryDeploymentUnpaused applied to the parent's annotations, every store IsPaused=true reachable from the canary strategy is under the must-fact IsUnpaused=false of the same Result (an unpaused canary is not re-paused by the per-pod evaluation), IsPaused is otherwise stored only from the persisted reader, and a store IsPaused=false under IsUnpaused=true exists; (R7) refusal table: every path of a canary command's run() that returns an error without reaching the write carries a documented refusal reason — a Get error, spec.strategy.canary == nil / status.canary == nil (as documented for the command), or an equality between the looked-up annotation of a documented key and the very value the command would write for the mode of that path (the annotation is present and already expresses the requested state); a refusal on the mere absence of the annotation (an auto-paused canary has no annotation) is reported. The rolling-update and freeze commands, whose documented behaviour refuses unpause/unfreeze on absence, are not subject to R7; (R8, imported C06.R3) the replica-set sync starts IsFailed from the persisted Canary-Failed condition that `canary fail` appends, never resets it and rewrites the condition from it; (R9) in every function reachable from the ExtendedDaemonSet Reconcile that assigns status.canary, every path that leaves status.canary non-nil (created on the path, or tested non-nil and kept) stores status.canary.replicaSet = Name of the replica set the promotion decision treats as up-to-date — the name `canary validate` writes into the annotation and `canary fail` looks the replica set up by is the current canary, not one cached from an earlier reconcile. (R10) the wiring that decides which object a command targets: every cobra handler that reaches a run method calls run only on paths that know complete(cmd, args) == nil for the one method that stores the name and namespace fields used as the Get key (called with the handler's own parameters), returns run's own result, and otherwise returns a value known to be a non-nil error; on every successful path of that method the name is last stored from args[0] unless the argument list is known to be empty, the namespace is the --namespace flag when the path knows it non-empty and the kubeconfig namespace when it knows it empty, and no call is known to have failed; complete and every other gate (validate) return an error only on a path that knows a call to have failed or the argument list to be empty; the constructor registers the options' ConfigFlags on the command's flag set on every path, and the command is added, on every path, to a command that is in turn added up to the root command built by a main package. Paths on which the lookup of the registered string flag fails are infeasible under the flag-registration clause and are skipped.", runC19)
}

type c19Cmd struct {
	label        string
	pkg, typ     string
	write        string // expected write effect
	statusCanary string // "present" or "absent"
	specCanary   bool
	tables       map[string]map[string]string // command word -> key -> value
	cond         bool
}

const c19CanaryRS = "status.canary.replicaSet of the object read"

func c19Const(r *Run, name string) string {
	s, ok := r.Prog.constStr(pkgAPI, name)
	if !ok {
		r.Fatal("constant %s.%s not found", pkgAPI, name)
	}
	return s
}

func runC19(r *Run) {
	r.RuleDoc("C19.R1", "exactly one API write site per command, of the documented verb and kind; no other write in kubectl-eds code")
	r.RuleDoc("C19.R2", "written object = DeepCopy of the object read with the user's key; only the documented annotations/condition are changed; table ↔ command word binding; patch base = object read")
	r.RuleDoc("C19.R3", "the write is dominated by the command's canary precondition")
	r.RuleDoc("C19.R4", "wire agreement: written keys/values/condition are the ones the controller's readers test")
	r.Floor("C19.R1", 6)
	r.Floor("C19.R2", 30)
	r.Floor("C19.R3", 7)
	r.Floor("C19.R4", 7)
	r.RuleDoc("C19.R5", "reader side of validate: every path of the promotion decision with canary-valid true returns the up-to-date replica set")
	r.RuleDoc("C19.R6", "reader side of unpause: IsUnpaused is the canary-unpaused reader on the parent's annotations; IsPaused=true is stored only under IsUnpaused=false; the unpause reset exists")
	r.Floor("C19.R5", 3)
	r.Floor("C19.R6", 4)
	r.RuleDoc("C19.R7", "refusal table of the canary commands: an error return before the write carries Get failure, a missing canary precondition, or the annotation present with the value that already expresses the requested state")
	r.Floor("C19.R7", 8)
	r.RuleDoc("C19.R9", "status.canary.replicaSet (the name validate and fail act on) is rewritten with the up-to-date replica set's name on every path that leaves status.canary set")
	r.Floor("C19.R9", 2)
	r.NotCovered("what the controller does in the following reconciles (C05/C07/C08 decide the reader side structurally); the 'already in that state' refusals (dropping one only makes the command rewrite the same value); a pre-existing Canary-Failed condition with status False on the canary replica set (fail appends a second condition, the reader takes the first); concurrent changes between the Get and the write")

	pausedK := c19Const(r, "ExtendedDaemonSetCanaryPausedAnnotationKey")
	unpausedK := c19Const(r, "ExtendedDaemonSetCanaryUnpausedAnnotationKey")
	validK := c19Const(r, "ExtendedDaemonSetCanaryValidAnnotationKey")
	ruK := c19Const(r, "ExtendedDaemonSetRollingUpdatePausedAnnotationKey")
	frozenK := c19Const(r, "ExtendedDaemonSetRolloutFrozenAnnotationKey")
	tr, fa := c19Const(r, "ValueStringTrue"), c19Const(r, "ValueStringFalse")
	if len(r.fatal) > 0 {
		return
	}
	cmds := []*c19Cmd{
		{label: "canary pause/unpause", pkg: pkgPlugCanary, typ: "pauseOptions", write: "Patch(ExtendedDaemonSet)", statusCanary: "present", specCanary: true,
			tables: map[string]map[string]string{"pause": {pausedK: tr, unpausedK: fa}, "unpause": {pausedK: fa, unpausedK: tr}}},
		{label: "canary validate", pkg: pkgPlugCanary, typ: "validateOptions", write: "Patch(ExtendedDaemonSet)", statusCanary: "present",
			tables: map[string]map[string]string{"validate": {validK: c19CanaryRS}}},
		{label: "canary fail", pkg: pkgPlugCanary, typ: "failOptions", write: "Status.Update(ExtendedDaemonSetReplicaSet)", statusCanary: "present", specCanary: true, cond: true},
		{label: "rolling-update pause/unpause", pkg: pkgPlugPause, typ: "pauseOptions", write: "Patch(ExtendedDaemonSet)", statusCanary: "absent",
			tables: map[string]map[string]string{"pause-rolling-update": {ruK: tr}, "unpause-rolling-update": {ruK: fa}}},
		{label: "rollout freeze/unfreeze", pkg: pkgPlugFreeze, typ: "freezeOptions", write: "Patch(ExtendedDaemonSet)", statusCanary: "absent",
			tables: map[string]map[string]string{"freeze-rollout": {frozenK: tr}, "unfreeze-rollout": {frozenK: fa}}},
	}
	runFns := map[*ssa.Function]bool{}
	runReach := map[*ssa.Function]bool{} // the run methods and the helpers they call
	var failCond *c19CondWrite
	for _, c := range cmds {
		run := r.Prog.declaredMethod(c.pkg, c.typ, "run")
		if run == nil {
			r.Fatal("anchor (%s.%s).run not found", c.pkg, c.typ)
			continue
		}
		runFns[run] = true
		for f := range r.Prog.reachableFuncs(run) {
			runReach[f] = true
		}
		if cw := c19Command(r, c, run); cw != nil {
			failCond = cw
		}
	}
	// R1: no other write effect in kubectl-eds code
	plugin := map[*ssa.Function]bool{}
	for _, fn := range r.Prog.RepoFuncs() {
		root := fn
		for root.Parent() != nil {
			root = root.Parent()
		}
		if root.Pkg != nil && strings.HasPrefix(root.Pkg.Pkg.Path(), repoMod+"/pkg/plugin") {
			plugin[fn] = true
		}
	}
	extra := 0
	for _, e := range effectsOf(plugin) {
		if isWriteVerb(e.Verb) && !runReach[e.Fn] {
			extra++
			r.Check("C19.R1", "write outside the documented commands: "+e.String(), r.Prog.Pos(e.Call.Pos()), shortFunc(e.Fn), "kubectl-eds writes to the API only in the run methods of the pause/validate/fail/freeze commands", false, e.String())
		}
	}
	if extra == 0 {
		r.Check("C19.R1", "no write outside the documented commands", "-", "pkg/plugin/...", "kubectl-eds writes to the API only in the run methods of the pause/validate/fail/freeze commands", true, fmt.Sprintf("%d functions scanned", len(plugin)))
	}
	_ = failCond
	wantT, _ := r.Prog.constStr(pkgAPI, "ConditionTypeCanaryFailed")
	wantS, _ := r.Prog.constStr(pkgCoreV1, "ConditionTrue")
	c19Wire(r, cmds, &c19CondWrite{typ: wantT, status: wantS})
	site, utd := c19ValidateReader(r)
	c19UnpauseReader(r)
	// R8: the failed mark set by `canary fail` survives the replica-set sync (same structural clause
	// as C06.R3: IsFailed starts from the persisted Canary-Failed condition, is never reset, and the
	// condition is rewritten from it)
	r.Floor("C19.R8", 4)
	r.ImportFrom(runC06, map[string]string{"C06.R3": "C19.R8"}, map[string]string{
		"C19.R8": "reader side of fail: the replica-set sync starts IsFailed from the persisted Canary-Failed condition (the one `canary fail` appends), never resets it, and rewrites the condition from it — a manual fail is not erased before the rollback"})
	c19CanaryNameFresh(r, site, utd)
	c19Wiring(r, cmds)
}

// c19CondWrite is what the fail command appends.
type c19CondWrite struct {
	typ, status string
}

func c19ShortFacts(s factSet) string {
	str := strings.ReplaceAll(s.String(), repoMod+"/", "")
	if len(str) > 400 {
		str = str[:400] + "…"
	}
	return str
}

type c19Mods struct {
	updates  []*ssa.MapUpdate   // annotation writes on the copy
	condSets []*ssa.Store       // stores to Status.Conditions
	copied   map[ssa.Value]bool // fresh maps that first take every entry of the object's annotations
	bad      bool
}

type c19Mode struct{ field, val string }

func c19TableString(t map[string]string) string {
	var ks []string
	for k := range t {
		ks = append(ks, k)
	}
	sort.Strings(ks)
	var out []string
	for _, k := range ks {
		short := k
		if i := strings.LastIndex(k, "/"); i >= 0 {
			short = k[i+1:]
		}
		out = append(out, short+"="+t[k])
	}
	return "{" + strings.Join(out, ", ") + "}"
}

func c19SameTable(a, b map[string]string) bool {
	if len(a) != len(b) {
		return false
	}
	for k, v := range a {
		if b[k] != v {
			return false
		}
	}
	return true
}

// c19StatusConst evaluates a condition status argument: a constant, or f(const bool) for a
// repository function whose paths under that parameter value all return one constant.
func c19StatusConst(r *Run, v ssa.Value) (string, bool) {
	if s, ok := constString(v); ok {
		return s, true
	}
	c, ok := v.(*ssa.Call)
	if !ok || len(c.Call.Args) != 1 {
		return "", false
	}
	arg, isB := constBool(c.Call.Args[0])
	cal := staticCallee(&c.Call)
	if !isB || cal == nil || !r.Prog.IsRuleSite(cal) || len(cal.Params) != 1 {
		return "", false
	}
	paths, _, okp := funcPaths(cal, 100)
	r.paths += len(paths)
	if !okp {
		return "", false
	}
	out, n := "", 0
	for _, p := range paths {
		feasible := true
		for _, br := range pathBranches(p) {
			cond, pol := stripNot(br.Cond, br.Pol)
			if cond != ssa.Value(cal.Params[0]) {
				return "", false
			}
			if pol != arg {
				feasible = false
			}
		}
		if !feasible {
			continue
		}
		ret := returnOf(p.Blocks[len(p.Blocks)-1])
		s, isC := constString(p.Resolve(ret.Results[0]))
		if !isC || n > 0 && s != out {
			return "", false
		}
		out = s
		n++
	}
	return out, n > 0
}

// ---------------------------------------------------------------------------------------------
// R4

type c19Reader struct {
	fn      *ssa.Function
	consts  map[string]bool
	dynamic bool
}

func c19Wire(r *Run, cmds []*c19Cmd, cw *c19CondWrite) {
	var roots []*ssa.Function
	for _, pkg := range []string{pkgEDS, pkgERS} {
		if fn := r.Prog.Method(pkg, "Reconciler", "Reconcile"); fn != nil {
			roots = append(roots, fn)
		} else {
			r.Fatal("anchor (%s.Reconciler).Reconcile not found", pkg)
		}
	}
	reach := r.Prog.reachableFuncs(roots...)
	readers := map[string][]*c19Reader{}
	for _, fn := range sortedFuncs(reach) {
		for _, b := range fn.Blocks {
			for _, in := range b.Instrs {
				lk, ok := in.(*ssa.Lookup)
				if !ok {
					continue
				}
				mt, isM := lk.X.Type().Underlying().(*types.Map)
				if !isM || !types.Identical(mt.Elem(), types.Typ[types.String]) {
					continue
				}
				// the key: a constant, or a parameter of a generic annotation reader that its
				// call sites (reachable from the controllers) instantiate with constants
				var keys []string
				if key, isC := constString(lk.Index); isC {
					keys = append(keys, key)
				} else if par, isP := unwrap(lk.Index).(*ssa.Parameter); isP {
					for _, cs := range callSitesOf(fn, reach) {
						if k2, isC2 := constString(cs.Common().Args[paramIndex(par)]); isC2 {
							keys = append(keys, k2)
						}
					}
				}
				if len(keys) == 0 {
					continue
				}
				rd := &c19Reader{fn: fn, consts: map[string]bool{}}
				var vals []ssa.Value
				if lk.CommaOk {
					for _, rr := range refs(lk) {
						if ex, isE := rr.(*ssa.Extract); isE && ex.Index == 0 {
							vals = append(vals, ex)
						}
					}
				} else {
					vals = append(vals, lk)
				}
				for _, v := range vals {
					for _, rr := range refs(v) {
						bo, isB := rr.(*ssa.BinOp)
						if !isB || bo.Op != token.EQL && bo.Op != token.NEQ {
							continue
						}
						other := bo.X
						if other == v {
							other = bo.Y
						}
						if s, isS := constString(other); isS {
							rd.consts[s] = true
						} else if _, isP := unwrap(other).(*ssa.Parameter); isP {
							rd.dynamic = true
						}
					}
				}
				for _, key := range keys {
					readers[key] = append(readers[key], rd)
				}
			}
		}
	}
	written := map[string]map[string]bool{}
	var keys []string
	for _, c := range cmds {
		for _, t := range c.tables {
			for k, v := range t {
				if written[k] == nil {
					written[k] = map[string]bool{}
					keys = append(keys, k)
				}
				written[k][v] = true
			}
		}
	}
	sort.Strings(keys)
	for _, k := range keys {
		rds := readers[k]
		short := k[strings.LastIndex(k, "/")+1:]
		var where []string
		match, dyn := false, false
		for _, rd := range rds {
			where = append(where, shortFunc(rd.fn))
			for cst := range rd.consts {
				if written[k][cst] {
					match = true
				}
			}
			if rd.dynamic {
				dyn = true
			}
		}
		pos, fn := "-", "-"
		if len(rds) > 0 {
			pos, fn = r.Prog.Pos(rds[0].fn.Pos()), shortFunc(rds[0].fn)
		}
		var ws []string
		for v := range written[k] {
			ws = append(ws, v)
		}
		sort.Strings(ws)
		if written[k][c19CanaryRS] {
			r.Check("C19.R4", "reader of annotation "+short, pos, fn, "a function reachable from the controllers looks the key up and compares the value with a name it is given", len(rds) > 0 && dyn, "readers: "+strings.Join(where, ", "))
			continue
		}
		r.Check("C19.R4", "reader of annotation "+short, pos, fn, "a function reachable from the controllers looks the key up and compares the value with a constant the command writes; the command writes two distinct values", len(rds) > 0 && match && len(ws) >= 2,
			fmt.Sprintf("written values %v; readers: %s", ws, strings.Join(where, ", ")))
	}
	// fail: condition type and status
	if cw == nil {
		r.Check("C19.R4", "reader of the failed condition", "-", "-", "the condition appended by fail is known", false, "the appended condition could not be resolved (see C19.R2)")
		return
	}
	isTrue := r.Prog.Func(pkgERSCond, "IsConditionTrue")
	if isTrue == nil {
		r.Fatal("anchor %s.IsConditionTrue not found", pkgERSCond)
		return
	}
	var sites []string
	var first ssa.CallInstruction
	for _, fn := range sortedFuncs(reach) {
		for _, ci := range callsIn(fn) {
			if staticCallee(ci.Common()) != isTrue || len(ci.Common().Args) < 2 {
				continue
			}
			if s, ok := constString(ci.Common().Args[1]); ok && s == cw.typ {
				sites = append(sites, shortFunc(fn))
				if first == nil {
					first = ci
				}
			}
		}
	}
	pos, fn := "-", "-"
	if first != nil {
		pos, fn = r.Prog.Pos(first.Pos()), shortFunc(first.Parent())
	}
	r.Check("C19.R4", "reader of the failed condition: type", pos, fn, fmt.Sprintf("the controllers test the condition type %q that fail appends", cw.typ), len(sites) > 0, "tested in: "+strings.Join(sites, ", "))
	// IsConditionTrue compares the condition's Status with the constant fail writes
	cmp := false
	for _, b := range isTrue.Blocks {
		for _, in := range b.Instrs {
			if bo, ok := in.(*ssa.BinOp); ok && bo.Op == token.EQL {
				for _, pr := range [][2]ssa.Value{{bo.X, bo.Y}, {bo.Y, bo.X}} {
					if s, isC := constString(pr[1]); isC && s == cw.status && hasPathSuffix(pr[0], "Status") {
						cmp = true
					}
				}
			}
		}
	}
	r.Check("C19.R4", "reader of the failed condition: status", r.Prog.Pos(isTrue.Pos()), shortFunc(isTrue), fmt.Sprintf("the condition reader tests Status == %q, the status fail writes", cw.status), cmp, "")
}

// ---------------------------------------------------------------------------------------------
// R5: reader side of validate

func c19ValidateReader(r *Run) (*decisionSite, *ssa.Parameter) {
	site := c19FindDecision(r)
	if site == nil {
		return nil, nil
	}
	fn := site.decision
	// Roles of the decision's parameters, read off the decision function itself (with the
	// same-package helpers it calls expanded): the replica set whose name is compared with the
	// canary-valid annotation is the one validate promotes; the other replica-set parameter is the
	// one that is kept. (Which replica sets the caller passes is C05.R4's question.)
	var ds *ssa.Parameter
	var ersParams []*ssa.Parameter
	for _, p := range fn.Params {
		switch {
		case isPtrToNamed(p.Type(), pkgAPI, "ExtendedDaemonSet"):
			ds = p
		case isPtrToNamed(p.Type(), pkgAPI, "ExtendedDaemonSetReplicaSet"):
			ersParams = append(ersParams, p)
		}
	}
	paths, ok := enumIPaths(fn, samePkgInliner(r.Prog, fn, nil), 20000)
	r.paths += len(paths)
	if !ok {
		r.Undecided("C19.R5", "validate table", r.Prog.Pos(fn.Pos()), shortFunc(fn), "path cap exceeded")
		return nil, nil
	}
	rootParam := func(c *icall, v ssa.Value) *ssa.Parameter {
		if p, isP := v.(*ssa.Parameter); isP && c != nil && c.parent == nil {
			return p
		}
		return nil
	}
	// X.Name / X.GetName(), X.Annotations / X.GetAnnotations() of a root parameter X
	metaOf := func(c *icall, v ssa.Value, field, getter string) *ssa.Parameter {
		cc, vv := ideep(c, v)
		if call, isCall := vv.(*ssa.Call); isCall && strings.HasSuffix(calleeName(&call.Call), "."+getter) {
			if call.Call.IsInvoke() {
				rc, rv := iunwrap(cc, call.Call.Value)
				return rootParam(rc, rv)
			}
			if len(call.Call.Args) == 1 {
				rc, root, _ := iaccess(cc, call.Call.Args[0])
				return rootParam(rc, root)
			}
			return nil
		}
		rc, root, f := iaccess(cc, vv)
		if len(f) == 0 || f[len(f)-1] != field {
			return nil
		}
		for _, x := range f[:len(f)-1] {
			if x != "ObjectMeta" {
				return nil
			}
		}
		return rootParam(rc, root)
	}
	// the validated parameter
	var utd *ssa.Parameter
	isValidCall := func(c *icall, v ssa.Value) (*ssa.Parameter, bool) {
		cc, vv := ideep(c, v)
		call, isCall := vv.(*ssa.Call)
		if !isCall || calleeName(&call.Call) != pkgEDS+".IsCanaryDeploymentValid" || len(call.Call.Args) != 2 {
			return nil, false
		}
		if ds == nil || metaOf(cc, call.Call.Args[0], "Annotations", "GetAnnotations") != ds {
			return nil, false
		}
		p := metaOf(cc, call.Call.Args[1], "Name", "GetName")
		return p, p != nil
	}
	for _, p := range paths {
		for _, ev := range p.events {
			if call, isCall := ev.in.(*ssa.Call); isCall {
				if q, ok := isValidCall(ev.c, call); ok {
					for _, e := range ersParams {
						if e == q {
							utd = q
						}
					}
				}
			}
		}
	}
	var act *ssa.Parameter
	for _, e := range ersParams {
		if e != utd {
			act = e
		}
	}
	rolesOK := ds != nil && utd != nil && act != nil && len(ersParams) == 2
	r.Check("C19.R5", "roles of the decision's parameters", r.Prog.Pos(fn.Pos()), shortFunc(fn),
		"the decision takes the ExtendedDaemonSet, the replica set whose name is compared with the canary-valid annotation of that ExtendedDaemonSet, and one other replica set", rolesOK,
		fmt.Sprintf("%d replica-set parameters; validated parameter found=%v", len(ersParams), utd != nil))
	if !rolesOK {
		return nil, nil
	}
	type atoms struct{ eqActive, activeNil, noCanary, valid *bool }
	describe := func(a atoms) string {
		var out []string
		add := func(n string, b *bool) {
			if b != nil {
				out = append(out, fmt.Sprintf("%s=%v", n, *b))
			}
		}
		add("active==upToDate", a.eqActive)
		add("active==nil", a.activeNil)
		add("noCanary", a.noCanary)
		add("valid", a.valid)
		return strings.Join(out, " ")
	}
	type agg struct {
		ok     bool
		need   string
		detail string
		pos    token.Pos
	}
	res := map[string]*agg{}
	var order []string
	n := 0
	for _, p := range paths {
		var a atoms
		for _, br := range p.branches {
			bc, bv, pol := ibool(br)
			if q, ok := isValidCall(bc, bv); ok && q == utd {
				a.valid = bptr(pol)
				continue
			}
			c, l, rgt, equal, isEq := ieq(br)
			if !isEq {
				continue
			}
			lc, lv := ideep(c, l)
			rc, rv := ideep(c, rgt)
			lp, rp := rootParam(lc, lv), rootParam(rc, rv)
			switch {
			case lp != nil && rp != nil && (lp == act && rp == utd || lp == utd && rp == act):
				a.eqActive = bptr(equal)
			case isNilConst(lv) && rp == act || isNilConst(rv) && lp == act:
				a.activeNil = bptr(equal)
			case isNilConst(lv) || isNilConst(rv):
				oc, ov := rc, rv
				if isNilConst(rv) {
					oc, ov = lc, lv
				}
				if xc, root, f := iaccess(oc, ov); rootParam(xc, root) == ds && len(f) == 3 && f[0] == "Spec" && f[1] == "Strategy" && f[2] == "Canary" {
					a.noCanary = bptr(equal)
				}
			}
		}
		if p.ret == nil || len(p.ret.Results) == 0 {
			continue
		}
		rc, rv := ideep(p.root, p.ret.Results[0])
		res0 := rootParam(rc, rv)
		construct, need, good, detail := "", "", true, ""
		if !is(a.valid, true) {
			// a path that keeps the active replica set although a canary is in progress must have
			// refuted the validation first: otherwise validation is not consulted at all on that path
			if !(res0 == act && is(a.eqActive, false) && is(a.activeNil, false) && is(a.noCanary, false)) {
				continue
			}
			construct = "keeps active on path [" + describe(a) + "]"
			need = "the active replica set is kept during a canary only on paths where canary-valid was evaluated and is false"
			good = is(a.valid, false)
			detail = "this path decides not to promote without consulting the canary-valid annotation"
		} else {
			n++
			good = res0 == utd || res0 == act && is(a.eqActive, true)
			what := "the up-to-date replica set"
			if !good {
				what = "the active replica set (the validation is ignored)"
				if res0 != act {
					what = rv.String()
				}
			}
			construct = "return on path [" + describe(a) + "]"
			need = "when the canary-valid annotation names the up-to-date replica set, that replica set becomes the active one whatever the pause/fail/time state"
			detail = "returns " + what
		}
		ag := res[construct]
		if ag == nil {
			ag = &agg{ok: true, need: need, pos: instrPos(p.ret)}
			res[construct] = ag
			order = append(order, construct)
		}
		if !good {
			ag.ok = false
		}
		if ag.detail == "" || !good {
			ag.detail = detail
		}
	}
	sort.Strings(order)
	for _, cst := range order {
		a := res[cst]
		d := a.detail
		if a.ok && strings.HasPrefix(cst, "keeps active") {
			d = ""
		}
		r.Check("C19.R5", cst, r.Prog.Pos(a.pos), shortFunc(fn), a.need, a.ok, d)
	}
	if n == 0 {
		r.Check("C19.R5", "validate table", r.Prog.Pos(fn.Pos()), shortFunc(fn), "the promotion decision branches on IsCanaryDeploymentValid(daemonset annotations, up-to-date replica set name)", false,
			"no path carries the fact canary-valid=true")
	}
	return site, utd
}

// ---------------------------------------------------------------------------------------------
// R6: reader side of unpause

func c19UnpauseReader(r *Run) {
	_, reach := c06CanaryEntry(r)
	if reach == nil {
		return
	}
	// (a) the source of IsUnpaused
	nSrc := 0
	unpausedWriters := map[*ssa.Function]bool{}
	for _, fn := range repoFuncs(r.Prog) {
		for _, st := range storesToFieldOf(fn, pkgStrategy, "Result", "IsUnpaused") {
			nSrc++
			unpausedWriters[fn] = true
			call, ok := stripConv(st.Val).(*ssa.Call)
			good := ok && calleeName(&call.Call) == pkgEDS+".IsCanaryDeploymentUnpaused"
			detail := "stored from " + describeVal(st.Val)
			if good && !c06IsParentAnnotations(r, fn, call.Call.Args[0]) {
				good, detail = false, "the reader is not applied to the parent ExtendedDaemonSet's annotations"
			}
			r.Check("C19.R6", "store IsUnpaused", r.Prog.Pos(instrPos(st)), shortFunc(fn), "IsUnpaused is the canary-unpaused annotation reader applied to the parent's annotations", good, detail)
		}
	}
	if nSrc == 0 {
		r.Check("C19.R6", "store IsUnpaused", "-", "-", "IsUnpaused is read from the canary-unpaused annotation", false, "no store to Result.IsUnpaused")
	}
	// (b) stores to IsPaused reachable from the canary strategy
	nPause, nReset := 0, 0
	for _, fn := range sortedFuncs(reach) {
		sts := storesToFieldOf(fn, pkgStrategy, "Result", "IsPaused")
		if len(sts) == 0 {
			continue
		}
		ff := computeFacts(fn)
		for i, st := range sts {
			pos := r.Prog.Pos(instrPos(st))
			root, _ := accessPath(st.Addr)
			flagFact := func(pol bool) bool {
				return ff.Holds(st.Block(), pol, func(v ssa.Value, _ string) bool {
					if !isLoadOfField(v, pkgStrategy, "Result", "IsUnpaused") {
						return false
					}
					lr, _ := accessPath(v)
					return lr == root
				})
			}
			b, isC := constBool(st.Val)
			switch {
			case isC && b:
				nPause++
				reason := c06ReasonInBlock(st, "PausedReason")
				construct := "store IsPaused=true [reason " + reason + "]"
				if reason == "?" {
					construct = fmt.Sprintf("store IsPaused=true #%d", i+1)
				}
				good := flagFact(false) && !unpausedWriters[fn]
				detail := "under IsUnpaused=false of the same Result"
				if !good {
					detail = "IsUnpaused=false is not established where the canary is paused: a manually unpaused canary is paused again on the next sync; must-facts: " + shortSet(ff.At(st.Block()))
					if unpausedWriters[fn] {
						detail = "IsUnpaused is written in the same function; the fact cannot be relied on"
					}
				}
				r.Check("C19.R6", construct, pos, shortFunc(fn), "the per-pod evaluation pauses the canary only when it was not manually unpaused (canary-unpaused annotation)", good, detail)
			case isC && !b:
				if flagFact(true) {
					nReset++
					r.Check("C19.R6", "store IsPaused=false under IsUnpaused", pos, shortFunc(fn), "the manual unpause clears the paused flag", true, "")
				} else {
					o := r.Check("C19.R6", fmt.Sprintf("store IsPaused=false #%d", i+1), pos, shortFunc(fn), "clearing the paused flag is always allowed here", true, "")
					o.Trivial = true
				}
			default:
				ex, isEx := stripConv(st.Val).(*ssa.Extract)
				var call *ssa.Call
				if isEx {
					call, _ = ex.Tuple.(*ssa.Call)
				}
				good := call != nil && calleeName(&call.Call) == pkgEDS+".IsCanaryDeploymentPaused" && ex.Index == 0
				o := r.Check("C19.R6", "store IsPaused=persisted state", pos, shortFunc(fn), "IsPaused is otherwise only initialised from the persisted paused reader", good, "stored from "+describeVal(st.Val))
				o.Trivial = good
			}
		}
	}
	if nPause == 0 {
		r.Check("C19.R6", "store IsPaused=true", "-", "-", "the canary strategy has an auto-pause store", false, "none found")
	}
	if nReset == 0 {
		r.Check("C19.R6", "store IsPaused=false under IsUnpaused", "-", "-", "somewhere in the canary strategy IsUnpaused=true clears IsPaused (canary unpause returns to state Canary)", false, "no store IsPaused=false under the must-fact IsUnpaused=true")
	}
}

// ---------------------------------------------------------------------------------------------
// R7: refusal table of the canary commands

func c19Uniq(in []string) []string {
	var out []string
	for i, x := range in {
		if i == 0 || x != in[i-1] {
			out = append(out, x)
		}
	}
	return out
}

// ---------------------------------------------------------------------------------------------
// Command analysis on inlined paths (R1, R2, R3, R7). The run method is analysed together with
// the same-package helpers it calls: the object read, the copy and the branch facts are followed
// through parameters and results.

type c19Run struct {
	r      *Run
	c      *c19Cmd
	run    *ssa.Function
	recv   *ssa.Parameter
	fn     string
	inl    func(*ssa.Function) bool
	reach  map[*ssa.Function]bool
	paths  []*ipath
	w      *Effect
	wcall  *ssa.Call
	gets   map[ssa.Instruction]*Effect
	bind   map[string]c19Mode
	bindEr string
	tables map[*ssa.Global]map[string]ssa.Value
}

type c19Prov struct {
	p      *ipath
	wi     int
	cw     *icall
	co     *icall
	O      ssa.Value
	cg     *icall
	G      ssa.Value
	ce     *icall
	E      ssa.Value
	getG   ievent
	getE   ievent
	hasG   bool
	hasE   bool
	reason string
}

func sameIV(c1 *icall, v1 ssa.Value, c2 *icall, v2 ssa.Value) bool { return c1 == c2 && v1 == v2 }

func c19Command(r *Run, c *c19Cmd, run *ssa.Function) *c19CondWrite {
	x := &c19Run{r: r, c: c, run: run, recv: run.Params[0], fn: shortFunc(run), gets: map[ssa.Instruction]*Effect{}, tables: map[*ssa.Global]map[string]ssa.Value{}}
	pos := r.Prog.Pos(run.Pos())
	x.reach = r.Prog.reachableFuncs(run)
	x.inl = samePkgInliner(r.Prog, run, nil)
	var writes []*Effect
	for _, e := range effectsOf(x.reach) {
		if isWriteVerb(e.Verb) {
			writes = append(writes, e)
		} else if e.Verb == "Get" {
			x.gets[e.Call] = e
		}
	}
	// R1
	var w *Effect
	for _, e := range writes {
		if e.String() == c.write && w == nil {
			w = e
			continue
		}
		r.Check("C19.R1", c.label+": undocumented write "+e.String(), r.Prog.Pos(e.Call.Pos()), shortFunc(e.Fn), "the command performs exactly one write: "+c.write, false, "found "+e.String())
	}
	reported := w != nil
	if w == nil {
		if len(writes) != 1 {
			r.Check("C19.R1", c.label+": write", pos, x.fn, "the command performs exactly one write: "+c.write, false, fmt.Sprintf("%d write site(s), none is %s", len(writes), c.write))
			return nil
		}
		w = writes[0] // reported above; the other rules are still evaluated on it
	}
	x.w = w
	x.wcall, _ = w.Call.(*ssa.Call)
	if x.wcall == nil {
		r.Undecided("C19.R2", c.label+": written object", r.Prog.Pos(w.Call.Pos()), x.fn, "the write is a go/defer statement")
		return nil
	}
	paths, ok := enumIPaths(run, x.inl, 20000)
	r.paths += len(paths)
	if !ok {
		r.Undecided("C19.R2", c.label+": paths", pos, x.fn, "path cap exceeded")
		return nil
	}
	x.paths = paths
	var wpaths []*ipath
	maxW := 0
	for _, p := range paths {
		n := 0
		for _, ev := range p.events {
			if ev.in == ssa.Instruction(x.wcall) {
				n++
			}
		}
		if n > 0 {
			wpaths = append(wpaths, p)
		}
		if n > maxW {
			maxW = n
		}
	}
	if reported {
		loop := inAnyLoop(w.Fn, w.Call.Block())
		r.Check("C19.R1", c.label+": write", r.Prog.Pos(w.Call.Pos()), shortFunc(w.Fn), "the command performs exactly one write: "+c.write+", once", !loop && maxW == 1,
			fmt.Sprintf("in a loop=%v; executions of the write site on one path of run (helpers expanded): at most %d", loop, maxW))
	}
	if len(wpaths) == 0 {
		return nil
	}
	x.bind, x.bindEr = c19Bindings(r, c)

	// provenance of the written object on every path to the write
	var provs []*c19Prov
	firstBad := ""
	Ovals, Gvals, Evals := map[ssa.Value]bool{}, map[ssa.Value]bool{}, map[ssa.Value]bool{}
	noEDS := false
	for _, p := range wpaths {
		pv := x.provenance(p)
		provs = append(provs, pv)
		if pv.reason != "" && firstBad == "" {
			firstBad = pv.reason
		}
		if !pv.hasE {
			noEDS = true
		}
		if pv.reason == "" {
			Ovals[pv.O] = true
			Gvals[pv.G] = true
		}
		if pv.hasE {
			Evals[pv.E] = true
		}
	}
	r.Check("C19.R2", c.label+": written object", r.Prog.Pos(w.Call.Pos()), x.fn, "the written object is DeepCopy() of the object read by Get in this command", firstBad == "", firstBad)
	if noEDS {
		r.Check("C19.R2", c.label+": read", pos, x.fn, "the command reads the targeted ExtendedDaemonSet with Get", false, "a path reaches the write without a Get(ExtendedDaemonSet)")
		return nil
	}
	x.preconditions(provs)
	if firstBad != "" {
		return nil
	}
	x.keys(provs)
	x.readOnly(Gvals, Evals)
	if w.Verb == "Patch" {
		x.patchBase(provs)
	}
	mods := x.copyMods(Ovals, Gvals, Evals)
	var cw *c19CondWrite
	if c.cond {
		cw = x.conditionAppend(provs, mods)
	} else {
		x.annotationTables(provs, mods)
		x.annotationMap(provs, mods)
	}
	x.refusals(provs)
	x.writeOutcome(provs)
	return cw
}

// provenance resolves, on one path to the write, the copy, the object it was copied from and the
// ExtendedDaemonSet read.
func (x *c19Run) provenance(p *ipath) *c19Prov {
	pv := &c19Prov{p: p, wi: p.eventIndex(x.wcall)}
	pv.cw = p.events[pv.wi].c
	pv.co, pv.O = iunwrap(pv.cw, x.w.Obj)
	for i := 0; i < pv.wi; i++ {
		ev := p.events[i]
		g := x.gets[ev.in]
		if g == nil {
			continue
		}
		co, obj := iunwrap(ev.c, g.Obj)
		if shortKind(g.Kind) == "ExtendedDaemonSet" {
			pv.ce, pv.E, pv.getE, pv.hasE = co, obj, ev, true
		}
	}
	dc, isCall := pv.O.(*ssa.Call)
	if !isCall || !strings.HasSuffix(calleeName(&dc.Call), ".DeepCopy") || dc.Call.IsInvoke() || len(dc.Call.Args) != 1 {
		pv.reason = "written object: " + pv.O.String()
		// the object read itself may be written: preconditions are still evaluated against it
		return pv
	}
	pv.cg, pv.G = iunwrap(pv.co, dc.Call.Args[0])
	di := p.eventIndex(dc)
	for i := 0; i < pv.wi; i++ {
		ev := p.events[i]
		g := x.gets[ev.in]
		if g == nil {
			continue
		}
		co, obj := iunwrap(ev.c, g.Obj)
		if sameIV(co, obj, pv.cg, pv.G) && i < di {
			pv.getG, pv.hasG = ev, true
		}
	}
	if !pv.hasG {
		pv.reason = "the copied object " + pv.G.String() + " is not the object of a Get executed before the copy"
	}
	return pv
}

func (x *c19Run) isEDSRoot(pv *c19Prov, c *icall, v ssa.Value) bool {
	if pv.hasE && sameIV(c, v, pv.ce, pv.E) {
		return true
	}
	// the copy (or the written object itself) stands for the object read when it is a copy of it
	if sameIV(c, v, pv.co, pv.O) && (pv.hasE && (sameIV(pv.cg, pv.G, pv.ce, pv.E) || sameIV(pv.co, pv.O, pv.ce, pv.E))) {
		return true
	}
	return false
}

// nilFact reports whether the path carries, before event `upto`, a nil test of E.<fields> and its
// polarity (equal to nil).
func (x *c19Run) nilFact(pv *c19Prov, upto int, fields ...string) (found, equalNil bool) {
	for _, br := range pv.p.branches {
		if upto >= 0 && br.at > upto {
			continue
		}
		c, a, b, equal, ok := ieq(br)
		if !ok {
			continue
		}
		var other ssa.Value
		switch {
		case iisNil(c, a):
			other = b
		case iisNil(c, b):
			other = a
		default:
			continue
		}
		rc, root, f := iaccess(c, other)
		if !x.isEDSRoot(pv, rc, root) || len(f) != len(fields) {
			continue
		}
		same := true
		for i := range f {
			if f[i] != fields[i] {
				same = false
			}
		}
		if same {
			found, equalNil = true, equal
		}
	}
	return
}

// preconditions: R3 on every path to the write.
func (x *c19Run) preconditions(provs []*c19Prov) {
	r, c := x.r, x.c
	wantNil := c.statusCanary == "absent"
	okS, okC := true, true
	for _, pv := range provs {
		f, eq := x.nilFact(pv, pv.wi, "Status", "Canary")
		if !f || eq != wantNil {
			okS = false
		}
		if c.specCanary {
			f, eq := x.nilFact(pv, pv.wi, "Spec", "Strategy", "Canary")
			if !f || eq {
				okC = false
			}
		}
	}
	need := "status.canary != nil (an active canary) holds on every path to the write"
	if wantNil {
		need = "status.canary == nil (no active canary) holds on every path to the write"
	}
	detail := func(ok bool) string {
		if ok {
			return fmt.Sprintf("%d path(s) to the write (helpers expanded)", len(provs))
		}
		return "a path reaches the write without this test of the object read"
	}
	r.Check("C19.R3", c.label+": status.canary precondition", r.Prog.Pos(x.w.Call.Pos()), x.fn, need, okS, detail(okS))
	if c.specCanary {
		r.Check("C19.R3", c.label+": spec.strategy.canary precondition", r.Prog.Pos(x.w.Call.Pos()), x.fn, "spec.strategy.canary != nil holds on every path to the write", okC, detail(okC))
	}
}

// recvField: v is a load of a field of the options object the command runs on.
func (x *c19Run) recvField(c *icall, v ssa.Value) string {
	cc, vv := iunwrap(c, v)
	ld, ok := vv.(*ssa.UnOp)
	if !ok || ld.Op != token.MUL {
		return ""
	}
	rc, root, f := iaccess(cc, ld)
	if rc != nil && rc.parent == nil && root == ssa.Value(x.recv) && len(f) >= 1 {
		// fields of embedded option structs are reached through the embedding field
		return strings.Join(f, ".")
	}
	return ""
}

// keys: the Get keys on every path.
func (x *c19Run) keys(provs []*c19Prov) {
	r, c := x.r, x.c
	type res struct {
		ok     bool
		detail string
		pos    token.Pos
	}
	out := map[string]*res{}
	keyFields := func(ev ievent) (nsC *icall, ns []ssa.Value, nameC *icall, name []ssa.Value, ok bool) {
		kc, kv := iresolve(ev.c, ev.in.(ssa.CallInstruction).Common().Args[1])
		u, isU := kv.(*ssa.UnOp)
		if !isU || u.Op != token.MUL {
			return nil, nil, nil, nil, false
		}
		return kc, fieldStores(u.X, "Namespace"), kc, fieldStores(u.X, "Name"), true
	}
	for _, pv := range provs {
		// the ExtendedDaemonSet
		cst := c.label + ": key of Get(ExtendedDaemonSet)"
		if out[cst] == nil {
			out[cst] = &res{ok: true, pos: pv.getE.in.Pos()}
		}
		nsC, ns, nameC, name, ok := keyFields(pv.getE)
		nsF, nameF := "", ""
		if ok && len(ns) == 1 && len(name) == 1 {
			nsF, nameF = x.recvField(nsC, ns[0]), x.recvField(nameC, name[0])
		}
		if nsF == "" || nameF == "" || nsF == nameF {
			out[cst].ok = false
		}
		out[cst].detail = fmt.Sprintf("namespace from field %q, name from field %q", nsF, nameF)
		if sameIV(pv.cg, pv.G, pv.ce, pv.E) {
			continue
		}
		cst2 := c.label + ": key of Get(" + shortKind(x.gets[pv.getG.in].Kind) + ")"
		if out[cst2] == nil {
			out[cst2] = &res{ok: true, pos: pv.getG.in.Pos()}
		}
		nsC2, ns2, nameC2, name2, ok2 := keyFields(pv.getG)
		good := false
		nsF2 := ""
		if ok2 && len(ns2) == 1 && len(name2) == 1 {
			nsF2 = x.recvField(nsC2, ns2[0])
			rc, root, f := iaccess(nameC2, name2[0])
			good = nsF2 != "" && nsF2 == nsF && sameIV(rc, root, pv.ce, pv.E) && len(f) == 3 && f[0] == "Status" && f[1] == "Canary" && f[2] == "ReplicaSet"
		}
		if !good {
			out[cst2].ok = false
		}
		out[cst2].detail = fmt.Sprintf("namespace from field %q (ExtendedDaemonSet: %q), name is status.canary.replicaSet of the ExtendedDaemonSet read=%v", nsF2, nsF, good)
	}
	var ks []string
	for k := range out {
		ks = append(ks, k)
	}
	sort.Strings(ks)
	for _, k := range ks {
		need := "the targeted object is read with the namespace and name given by the user (two fields of the options)"
		if !strings.HasSuffix(k, "Get(ExtendedDaemonSet)") {
			need = "the replica set read is the one named by status.canary.replicaSet of the ExtendedDaemonSet read, in the same namespace"
		}
		r.Check("C19.R2", k, r.Prog.Pos(out[k].pos), x.fn, need, out[k].ok, out[k].detail)
	}
}

// readOnly: the objects read (and every alias through helper parameters/results) are only read.
func (x *c19Run) readOnly(Gvals, Evals map[ssa.Value]bool) {
	r, c := x.r, x.c
	all := map[ssa.Value]bool{}
	for v := range Gvals {
		all[v] = true
	}
	for v := range Evals {
		all[v] = true
	}
	var vals []ssa.Value
	for v := range all {
		vals = append(vals, v)
	}
	sort.Slice(vals, func(i, j int) bool { return vals[i].Pos() < vals[j].Pos() })
	for _, obj := range vals {
		o := &roOpts{
			allowCall: func(ci ssa.CallInstruction, _ ssa.Value) bool {
				if g := x.gets[ci]; g != nil {
					return true
				}
				n := calleeName(ci.Common())
				return n == pkgClient+".MergeFrom" || strings.HasSuffix(n, ".DeepCopy") && !ci.Common().IsInvoke()
			},
			follow:  x.inl,
			callers: func(f *ssa.Function) []ssa.CallInstruction { return callSitesOf(f, x.reach) },
			seen:    map[ssa.Value]bool{},
		}
		ok, why := readOnlyValue2(obj, o, 0)
		kind := shortKind(typeName(obj.Type()))
		r.Check("C19.R2", c.label+": object read ("+kind+") is not modified", r.Prog.Pos(obj.Pos()), shortFunc(obj.Parent()), "the object returned by Get is only read (it is the patch base / the source of the copy), also inside the helpers it is handed to", ok, why)
	}
}

func (x *c19Run) patchBase(provs []*c19Prov) {
	ok, detail := true, "client.MergeFrom(object read)"
	for _, pv := range provs {
		args := x.wcall.Call.Args
		good := false
		d := "no patch argument"
		if len(args) >= 3 {
			cp, pvv := iunwrap(pv.cw, args[2])
			d = pvv.String()
			if pc, isC := pvv.(*ssa.Call); isC && calleeName(&pc.Call) == pkgClient+".MergeFrom" && len(pc.Call.Args) == 1 {
				cb, base := iunwrap(cp, pc.Call.Args[0])
				good = sameIV(cb, base, pv.cg, pv.G)
			}
		}
		if !good {
			ok, detail = false, d
		}
	}
	x.r.Check("C19.R2", x.c.label+": patch base", x.r.Prog.Pos(x.w.Call.Pos()), x.fn, "the patch is the merge difference from the object read (only the changed annotations are sent)", ok, detail)
}

// copyMods walks every use of the copy, following it into the helpers it is handed to.
func (x *c19Run) copyMods(Ovals, Gvals, Evals map[ssa.Value]bool) *c19Mods {
	r, c := x.r, x.c
	m := &c19Mods{copied: map[ssa.Value]bool{}}
	construct := c.label + ": modification of the copy"
	needTxt := "between DeepCopy and the write the copy is changed only in the documented annotations" + map[bool]string{true: " / by one appended condition", false: ""}[c.cond]
	bad := func(in ssa.Instruction, what string, more ...string) {
		m.bad = true
		detail := what
		if len(more) > 0 {
			detail += " " + strings.Join(more, " ")
		}
		r.Check("C19.R2", construct+": "+what, r.Prog.Pos(instrPos(in)), shortFunc(in.Parent()), needTxt, false, detail)
	}
	isAnn := func(p []string) bool {
		return len(p) >= 1 && p[len(p)-1] == "Annotations" && (len(p) == 1 || len(p) == 2 && p[0] == "ObjectMeta")
	}
	isCond := func(p []string) bool { return c.cond && len(p) == 2 && p[0] == "Status" && p[1] == "Conditions" }
	seenParam := map[ssa.Value]bool{}
	argIndex := func(ci ssa.CallInstruction, v ssa.Value) int {
		for i, a := range ci.Common().Args {
			if a == v {
				return i
			}
		}
		return -1
	}
	var walk func(v ssa.Value, path []string, depth int)
	var loaded func(ld ssa.Value, path []string, depth int)
	loaded = func(ld ssa.Value, path []string, depth int) {
		switch {
		case isAnn(path):
			for _, rr := range refs(ld) {
				switch y := rr.(type) {
				case *ssa.DebugRef, *ssa.BinOp, *ssa.Range:
				case *ssa.Lookup:
					if y.X != ld {
						bad(y, "annotation map used as a key")
					}
				case *ssa.MapUpdate:
					if y.Map == ld {
						m.updates = append(m.updates, y)
					} else {
						bad(y, "annotation map stored into another map")
					}
				case ssa.CallInstruction:
					if b, isB := y.Common().Value.(*ssa.Builtin); isB && b.Name() == "len" {
						continue
					}
					if b, isB := y.Common().Value.(*ssa.Builtin); isB && b.Name() == "delete" {
						k := "?"
						if s, okc := constString(y.Common().Args[1]); okc {
							k = s
						}
						bad(y, "annotation "+k+" is deleted")
						continue
					}
					if cal := staticCallee(y.Common()); cal != nil && x.inl(cal) && depth < 6 {
						if j := argIndex(y, ld); j >= 0 && j < len(cal.Params) && !seenParam[cal.Params[j]] {
							seenParam[cal.Params[j]] = true
							loaded(cal.Params[j], path, depth+1)
						}
						continue
					}
					bad(y, "annotation map passed to a call", calleeName(y.Common()))
				default:
					bad(rr, "annotation map used in an unexpected way", rr.String())
				}
			}
		case isCond(path):
			for _, rr := range refs(ld) {
				if ci, isC := rr.(*ssa.Call); isC {
					if b, isB := ci.Call.Value.(*ssa.Builtin); isB && (b.Name() == "append" && ci.Call.Args[0] == ld || b.Name() == "len") {
						continue
					}
				}
				if _, isD := rr.(*ssa.DebugRef); isD {
					continue
				}
				bad(rr, "Status.Conditions of the copy used in an unexpected way", rr.String())
			}
		default:
			if isRefType(ld.Type()) {
				o := &roOpts{follow: x.inl, seen: map[ssa.Value]bool{}}
				if ok, why := readOnlyValue2(ld, o, 0); !ok {
					if in, isIn := ld.(ssa.Instruction); isIn {
						bad(in, strings.Join(path, ".")+" of the copy: "+why)
					}
				}
			}
		}
	}
	walk = func(v ssa.Value, path []string, depth int) {
		if depth > 8 {
			return
		}
		for _, rr := range refs(v) {
			switch y := rr.(type) {
			case *ssa.DebugRef:
			case *ssa.FieldAddr:
				if y.X == v {
					walk(y, append(append([]string{}, path...), fieldName(y)), depth+1)
				}
			case *ssa.UnOp:
				if y.Op == token.MUL {
					loaded(y, path, depth)
				}
			case *ssa.Store:
				if y.Addr != v {
					bad(y, "address of "+strings.Join(path, ".")+" of the copy is stored")
					continue
				}
				switch {
				case isAnn(path):
					mm, isMM := y.Val.(*ssa.MakeMap)
					if !isMM {
						// a map built by a helper: a fresh map that first takes every annotation of the
						// object read (or of the copy) and then the documented writes
						if !x.builtAnnotationMap(m, y, Ovals, Gvals, Evals, bad) {
							bad(y, "annotation map replaced by a value that is not a new map", y.Val.String())
						}
						continue
					}
					for _, r2 := range refs(mm) {
						switch z := r2.(type) {
						case *ssa.DebugRef, *ssa.Lookup:
						case *ssa.Store:
							if z != y {
								bad(z, "the new annotation map is also stored elsewhere")
							}
						case *ssa.MapUpdate:
							if z.Map == ssa.Value(mm) {
								m.updates = append(m.updates, z)
							} else {
								bad(z, "the new annotation map is stored into another map")
							}
						default:
							bad(r2, "the new annotation map is used in an unexpected way", r2.String())
						}
					}
				case isCond(path):
					m.condSets = append(m.condSets, y)
				default:
					bad(y, "store into "+strings.Join(path, ".")+" of the copy")
				}
			case *ssa.MakeInterface:
				for _, r2 := range refs(y) {
					if r2 == ssa.Instruction(x.wcall) {
						continue
					}
					if _, isD := r2.(*ssa.DebugRef); isD {
						continue
					}
					bad(r2, "the copy is handed to another call", r2.String())
				}
			case *ssa.IndexAddr:
				bad(y, "element of "+strings.Join(path, ".")+" of the copy addressed")
			case *ssa.Return:
				// a helper that builds the copy returns it: its call sites' results are followed
				for _, cs := range callSitesOf(v.Parent(), x.reach) {
					if cv, isV := cs.(*ssa.Call); isV && !seenParam[cv] {
						seenParam[cv] = true
						idx := -1
						for i, res := range y.Results {
							if res == v {
								idx = i
							}
						}
						if len(y.Results) == 1 {
							walk(cv, path, depth+1)
						} else {
							for _, r3 := range refs(cv) {
								if ex, isEx := r3.(*ssa.Extract); isEx && ex.Index == idx {
									walk(ex, path, depth+1)
								}
							}
						}
					}
				}
			case ssa.CallInstruction:
				if cal := staticCallee(y.Common()); cal != nil && x.inl(cal) && depth < 6 {
					if j := argIndex(y, v); j >= 0 && j < len(cal.Params) {
						if !seenParam[cal.Params[j]] {
							seenParam[cal.Params[j]] = true
							walk(cal.Params[j], path, depth+1)
						}
						continue
					}
				}
				bad(y, "the copy ("+strings.Join(path, ".")+") is passed to a call", calleeName(y.Common()))
			default:
				bad(rr, "the copy is used in an unexpected way", rr.String())
			}
		}
	}
	var os []ssa.Value
	for o := range Ovals {
		os = append(os, o)
	}
	sort.Slice(os, func(i, j int) bool { return os[i].Pos() < os[j].Pos() })
	for _, o := range os {
		walk(o, nil, 0)
	}
	if !m.bad {
		r.Check("C19.R2", construct, r.Prog.Pos(instrPos(x.wcall)), x.fn, needTxt, true, fmt.Sprintf("%d annotation write(s), %d condition store(s)", len(m.updates), len(m.condSets)))
	}
	return m
}

// builtAnnotationMap accepts `copy.Annotations = h(obj.Annotations, …)` where the unexported
// helper h returns, on every return, one fresh map into which it first copies every entry of the
// map it is handed (an unconditional m[k] = v in a range over that parameter) — the argument being
// the annotations of the object read or of the copy — and then writes constant keys; those writes
// are recorded as annotation writes of the command.
func (x *c19Run) builtAnnotationMap(m *c19Mods, st *ssa.Store, Ovals, Gvals, Evals map[ssa.Value]bool, bad func(ssa.Instruction, string, ...string)) bool {
	var call *ssa.Call
	idx := 0
	switch y := st.Val.(type) {
	case *ssa.Call:
		call = y
	case *ssa.Extract:
		call, _ = y.Tuple.(*ssa.Call)
		idx = y.Index
	}
	if call == nil {
		return false
	}
	h := staticCallee(&call.Call)
	if h == nil || !x.inl(h) {
		return false
	}
	var mm *ssa.MakeMap
	for _, b := range h.Blocks {
		ret := returnOf(b)
		if ret == nil || idx >= len(ret.Results) {
			continue
		}
		r0, isMM := ret.Results[idx].(*ssa.MakeMap)
		if !isMM || (mm != nil && mm != r0) {
			return false
		}
		mm = r0
	}
	if mm == nil {
		return false
	}
	copies := 0
	for _, rr := range refs(mm) {
		switch u := rr.(type) {
		case *ssa.DebugRef, *ssa.Lookup, *ssa.Return:
		case *ssa.MapUpdate:
			if u.Map != ssa.Value(mm) {
				bad(u, "the new annotation map is stored into another map")
				continue
			}
			ke, isKE := u.Key.(*ssa.Extract)
			ve, isVE := u.Value.(*ssa.Extract)
			if isKE && isVE && ke.Tuple == ve.Tuple && ke.Index == 1 && ve.Index == 2 {
				if nx, isNext := ke.Tuple.(*ssa.Next); isNext {
					if rg, isRange := nx.Iter.(*ssa.Range); isRange {
						par, isPar := rg.X.(*ssa.Parameter)
						// unconditional in the loop body: the block of the update is entered straight from
						// the loop test on this iterator
						uncond := false
						if preds := u.Block().Preds; len(preds) == 1 && u.Block() == ke.Block() {
							if iff, isIf := preds[0].Instrs[len(preds[0].Instrs)-1].(*ssa.If); isIf {
								if okEx, isEx := iff.Cond.(*ssa.Extract); isEx && okEx.Tuple == ssa.Value(nx) && okEx.Index == 0 && preds[0].Succs[0] == u.Block() {
									uncond = true
								}
							}
						}
						if isPar && par.Parent() == h && uncond {
							arg := call.Call.Args[paramIndex(par)]
							root, pth := accessPath(arg)
							if (Ovals[root] || Gvals[root] || Evals[root]) && len(pth) > 0 && pth[len(pth)-1] == "Annotations" {
								copies++
								continue
							}
						}
					}
				}
			}
			m.updates = append(m.updates, u)
		default:
			bad(rr, "the new annotation map is used in an unexpected way", rr.String())
		}
	}
	if copies == 0 {
		return false
	}
	m.copied[mm] = true
	return true
}

// ---------------------------------------------------------------------------------------------
// modes

type c19Assume struct {
	word string
	mode c19Mode
	has  bool
}

// assumptions lists the command words with the mode their constructor binds.
func (x *c19Run) assumptions() []c19Assume {
	if len(x.c.tables) <= 1 {
		for w := range x.c.tables {
			return []c19Assume{{word: w}}
		}
		return []c19Assume{{}}
	}
	var ws []string
	for w := range x.c.tables {
		ws = append(ws, w)
	}
	sort.Strings(ws)
	var out []c19Assume
	for _, w := range ws {
		if b, ok := x.bind[w]; ok {
			out = append(out, c19Assume{word: w, mode: b, has: true})
		}
	}
	return out
}

// constTable returns the entries of a package-level map[string-like]string that is only ever
// assigned one literal with constant entries and is never written otherwise.
func (x *c19Run) constTable(g *ssa.Global) (map[string]string, bool) {
	tv, ok := x.constTableV(g)
	if !ok {
		return nil, false
	}
	out := map[string]string{}
	for k, v := range tv {
		s, isC := constString(v)
		if !isC {
			return nil, false
		}
		out[k] = s
	}
	return out, true
}

// constTableV returns the entries (values as written in the package initialiser) of a
// package-level map with constant string keys that is assigned one literal and never written
// otherwise.
func (x *c19Run) constTableV(g *ssa.Global) (map[string]ssa.Value, bool) {
	if t, ok := x.tables[g]; ok {
		return t, t != nil
	}
	x.tables[g] = nil
	var fns []*ssa.Function
	for _, fn := range x.r.Prog.RepoFuncs() {
		root := fn
		for root.Parent() != nil {
			root = root.Parent()
		}
		if root.Pkg == g.Pkg {
			fns = append(fns, fn)
		}
	}
	if init := g.Pkg.Func("init"); init != nil {
		fns = append(fns, init)
	}
	var lit *ssa.MakeMap
	nStores := 0
	for _, fn := range fns {
		for _, b := range fn.Blocks {
			for _, in := range b.Instrs {
				uses := false
				for _, op := range in.Operands(nil) {
					if *op == ssa.Value(g) {
						uses = true
					}
				}
				if !uses {
					continue
				}
				switch y := in.(type) {
				case *ssa.Store:
					if y.Addr != ssa.Value(g) {
						return nil, false
					}
					nStores++
					lit, _ = y.Val.(*ssa.MakeMap)
				case *ssa.UnOp:
					if y.Op != token.MUL {
						return nil, false
					}
					for _, rr := range refs(y) {
						switch z := rr.(type) {
						case *ssa.Lookup:
							if z.X != ssa.Value(y) {
								return nil, false
							}
						case *ssa.Range, *ssa.DebugRef:
						case ssa.CallInstruction:
							if b, isB := z.Common().Value.(*ssa.Builtin); !isB || b.Name() != "len" {
								return nil, false
							}
						default:
							return nil, false
						}
					}
				default:
					return nil, false
				}
			}
		}
	}
	if nStores != 1 || lit == nil {
		return nil, false
	}
	t := map[string]ssa.Value{}
	for _, rr := range refs(lit) {
		switch y := rr.(type) {
		case *ssa.MapUpdate:
			k, ok1 := constString(y.Key)
			if y.Map != ssa.Value(lit) || !ok1 {
				return nil, false
			}
			t[k] = y.Value
		case *ssa.Store, *ssa.DebugRef:
		default:
			return nil, false
		}
	}
	x.tables[g] = t
	return t, true
}

// tableLookup recognises v as tbl[options.<field>] of a constant package-level table.
func (x *c19Run) tableLookup(c *icall, v ssa.Value) (lk *ssa.Lookup, lc *icall, tbl map[string]string, field string, ok bool) {
	lk, lc, tv, field, ok := x.tableLookupV(c, v)
	if !ok {
		return nil, nil, nil, "", false
	}
	tbl = map[string]string{}
	for k, e := range tv {
		s, isC := constString(e)
		if !isC {
			s = "<struct>"
		}
		tbl[k] = s
	}
	return lk, lc, tbl, field, true
}

// tableLookupV recognises v as tbl[options.<field>] of a constant package-level table.
func (x *c19Run) tableLookupV(c *icall, v ssa.Value) (lk *ssa.Lookup, lc *icall, tbl map[string]ssa.Value, field string, ok bool) {
	cc, vv := iunwrap(c, v)
	switch y := vv.(type) {
	case *ssa.Lookup:
		lk = y
	case *ssa.Extract:
		lk, _ = y.Tuple.(*ssa.Lookup)
	}
	if lk == nil {
		return nil, nil, nil, "", false
	}
	_, mv := iunwrap(cc, lk.X)
	ld, isLd := mv.(*ssa.UnOp)
	if !isLd || ld.Op != token.MUL {
		return nil, nil, nil, "", false
	}
	g, isG := ld.X.(*ssa.Global)
	if !isG {
		return nil, nil, nil, "", false
	}
	field = x.recvField(cc, lk.Index)
	tbl, okT := x.constTableV(g)
	if field == "" || !okT {
		return nil, nil, nil, "", false
	}
	return lk, cc, tbl, field, true
}

// consistent reports whether the branches of the path taken before event upto (-1: all) are
// compatible with the options' mode field holding the assumed constant.
func (x *c19Run) consistent(p *ipath, upto int, a c19Assume) bool {
	var brs []ibranch
	for _, br := range p.branches {
		if upto >= 0 && br.at > upto {
			continue
		}
		brs = append(brs, br)
	}
	return x.consistentB(brs, a)
}

func (x *c19Run) consistentB(brs []ibranch, a c19Assume) bool {
	if !a.has {
		return true
	}
	for _, br := range brs {
		bc, bv, pol := ibool(br)
		if f := x.recvField(bc, bv); f == a.mode.field {
			if fmt.Sprint(pol) != a.mode.val {
				return false
			}
			continue
		}
		if ex, isEx := bv.(*ssa.Extract); isEx && ex.Index == 1 {
			if _, _, tbl, f, ok := x.tableLookup(bc, ex); ok && f == a.mode.field {
				if _, present := tbl[a.mode.val]; present != pol {
					return false
				}
				continue
			}
		}
		c, l, rgt, equal, ok := ieq(br)
		if !ok {
			continue
		}
		for _, pr := range [][2]ssa.Value{{l, rgt}, {rgt, l}} {
			if x.recvField(c, pr[0]) != a.mode.field {
				continue
			}
			_, cv := iunwrap(c, pr[1])
			if s, isS := constString(cv); isS {
				if equal && s != a.mode.val || !equal && s == a.mode.val {
					return false
				}
			} else if b, isB := constBool(cv); isB {
				if fmt.Sprint(b == equal) != a.mode.val {
					return false
				}
			}
		}
	}
	return true
}

// structField resolves a read of field f of a struct value to the value stored in that field:
// the struct is a composite literal (possibly returned by an inlined helper, possibly copied into a
// local), or the entry of a constant package-level table selected by the options' mode field.
func (x *c19Run) structField(c *icall, v ssa.Value, a c19Assume, depth int) (*icall, ssa.Value, bool) {
	if depth > 6 {
		return nil, nil, false
	}
	cc, vv := iunwrap(c, v)
	var base ssa.Value
	f := ""
	switch y := vv.(type) {
	case *ssa.Field:
		base, f = y.X, fieldName(y)
	case *ssa.UnOp:
		fa, ok := y.X.(*ssa.FieldAddr)
		if y.Op != token.MUL || !ok {
			return nil, nil, false
		}
		f = fieldName(fa)
		ac, av := iunwrap(cc, fa.X)
		al, isAl := av.(*ssa.Alloc)
		if !isAl {
			return nil, nil, false
		}
		if fs := fieldStores(al, f); len(fs) == 1 {
			return ac, fs[0], true
		} else if len(fs) > 1 {
			return nil, nil, false
		}
		var whole []ssa.Value
		for _, rr := range refs(al) {
			if st, isSt := rr.(*ssa.Store); isSt && st.Addr == ssa.Value(al) {
				whole = append(whole, st.Val)
			}
		}
		if len(whole) != 1 {
			return nil, nil, false
		}
		cc, base = ac, whole[0]
	default:
		return nil, nil, false
	}
	bc, bv := iunwrap(cc, base)
	// entry of a constant table
	if a.has {
		if _, _, tbl, field, ok := x.tableLookupV(bc, bv); ok && field == a.mode.field {
			if ev, present := tbl[a.mode.val]; present {
				bc, bv = &icall{fn: ev.Parent(), sub: map[*ssa.Call]*icall{}}, ev
			}
		}
	}
	if ld, isLd := bv.(*ssa.UnOp); isLd && ld.Op == token.MUL {
		if al, isAl := ld.X.(*ssa.Alloc); isAl {
			if fs := fieldStores(al, f); len(fs) == 1 {
				return bc, fs[0], true
			}
		}
	}
	return nil, nil, false
}

// valueOf classifies a written / compared annotation value under a mode assumption.
func (x *c19Run) valueOf(pv *c19Prov, c *icall, v ssa.Value, a c19Assume) string {
	cc, vv := iunwrap(c, v)
	if s, ok := constString(vv); ok {
		return s
	}
	for i := 0; i < 6; i++ {
		fc, fv, ok := ifield(cc, vv)
		if !ok {
			fc, fv, ok = x.structField(cc, vv, a, 0)
		}
		if !ok {
			break
		}
		cc, vv = iunwrap(fc, fv)
		if s, isC := constString(vv); isC {
			return s
		}
	}
	rc, root, f := iaccess(cc, vv)
	if (sameIV(rc, root, pv.cg, pv.G) || sameIV(rc, root, pv.co, pv.O) || pv.hasE && sameIV(rc, root, pv.ce, pv.E)) && len(f) == 3 && f[0] == "Status" && f[1] == "Canary" && f[2] == "ReplicaSet" {
		return c19CanaryRS
	}
	if a.has {
		if _, _, tbl, field, ok := x.tableLookup(cc, vv); ok && field == a.mode.field {
			if s, present := tbl[a.mode.val]; present {
				return s
			}
		}
	}
	return "<" + strings.TrimSpace(pathString(vv)) + ">"
}

func c19Short(key string) string { return key[strings.LastIndex(key, "/")+1:] }

// annotationTables: on every path to the write and for every command word whose mode is
// compatible with the path, the annotation writes are exactly the word's documented table.
func (x *c19Run) annotationTables(provs []*c19Prov, mods *c19Mods) {
	r, c := x.r, x.c
	isUpd := map[ssa.Instruction]bool{}
	for _, u := range mods.updates {
		isUpd[u] = true
	}
	as := x.assumptions()
	if len(c.tables) > 1 && (x.bindEr != "" || len(as) != len(c.tables)) {
		why := x.bindEr
		if why == "" {
			why = "not every command word is bound to a constant mode by a cobra constructor"
		}
		r.Undecided("C19.R2", c.label+": command word binding", r.Prog.Pos(x.run.Pos()), x.fn, why)
		return
	}
	type agg struct {
		ok     bool
		detail string
		need   string
		pos    token.Pos
		triv   bool
	}
	res := map[string]*agg{}
	var order []string
	written := map[string]bool{}
	for _, pv := range provs {
		for _, a := range as {
			if !x.consistent(pv.p, pv.wi, a) {
				continue
			}
			delta := map[string]string{}
			var lastU ssa.Instruction
			for i := 0; i < pv.wi; i++ {
				ev := pv.p.events[i]
				u, isU := ev.in.(*ssa.MapUpdate)
				if !isU || !isUpd[ev.in] {
					continue
				}
				// the map written must be the copy's on this path
				rc, root, f := iaccess(ev.c, u.Map)
				if _, isMM := root.(*ssa.MakeMap); !isMM && !(sameIV(rc, root, pv.co, pv.O) && len(f) > 0 && f[len(f)-1] == "Annotations") {
					continue
				}
				lastU = ev.in
				key, isC := iconstString(ev.c, u.Key)
				if !isC {
					key = "<dynamic key>"
				}
				delta[key] = x.valueOf(pv, ev.c, u.Value, a)
			}
			mode := ""
			if a.has {
				mode = a.mode.field + "=" + a.mode.val
			}
			construct := c.label + ": annotations written for `" + a.word + "` [" + mode + "] " + c19TableString(delta)
			ag := res[construct]
			if ag == nil {
				ag = &agg{ok: true, pos: x.wcall.Pos()}
				if lastU != nil {
					ag.pos = instrPos(lastU)
				}
				res[construct] = ag
				order = append(order, construct)
			}
			want := c.tables[a.word]
			ag.need = "the annotations written when the command is `" + a.word + "` are exactly its documented table " + c19TableString(want)
			switch {
			case len(delta) == 0:
				ag.need = "a path that writes no annotation changes nothing"
				ag.triv = true
			case c19SameTable(want, delta):
				written[a.word] = true
				ag.detail = "table of `" + a.word + "`"
				if a.has {
					ag.detail += ", the mode its constructor sets (" + mode + ") is compatible with the path"
				}
			default:
				ag.ok = false
				ag.detail = "writes " + c19TableString(delta) + " when the options hold the mode of `" + a.word + "`"
			}
		}
	}
	sort.Strings(order)
	anyBad := false
	for _, cst := range order {
		a := res[cst]
		o := r.Check("C19.R2", cst, r.Prog.Pos(a.pos), x.fn, a.need, a.ok, a.detail)
		o.Trivial = a.triv
		if !a.ok {
			anyBad = true
		}
	}
	if anyBad {
		return
	}
	var ws []string
	for w := range c.tables {
		ws = append(ws, w)
	}
	sort.Strings(ws)
	for _, w := range ws {
		r.Check("C19.R2", c.label+": table of `"+w+"` is written", r.Prog.Pos(x.wcall.Pos()), x.fn, "the command word `"+w+"` has a path that writes "+c19TableString(c.tables[w]), written[w], "")
	}
}

// annotationMap: the copy's annotation map is created only where it is known to be nil (creating
// it otherwise drops every other annotation through the merge patch), and annotations are written
// only where the map is known not to be nil (a copy of an object without annotations has a nil
// map; writing into it panics before anything is sent).
func (x *c19Run) annotationMap(provs []*c19Prov, mods *c19Mods) {
	r, c := x.r, x.c
	isUpd := map[ssa.Instruction]bool{}
	for _, u := range mods.updates {
		isUpd[u] = true
	}
	createOK, writeOK := true, true
	cDetail, wDetail := "", ""
	var cAt, wAt ssa.Instruction = x.wcall, x.wcall
	nCreate, nWrite := 0, 0
	for _, pv := range provs {
		p := pv.p
		state := 0 // 0 unknown, 1 nil, 2 not nil
		bi := 0
		for i := 0; i < pv.wi; i++ {
			for bi < len(p.branches) && p.branches[bi].at <= i {
				br := p.branches[bi]
				bi++
				bc, l, rg, equal, ok := ieq(br)
				if !ok || !(iisNil(bc, l) || iisNil(bc, rg)) {
					continue
				}
				o := l
				if iisNil(bc, l) {
					o = rg
				}
				rc, root, f := iaccess(bc, o)
				if (sameIV(rc, root, pv.co, pv.O) || sameIV(rc, root, pv.cg, pv.G)) && len(f) > 0 && f[len(f)-1] == "Annotations" {
					if equal {
						state = 1
					} else {
						state = 2
					}
				}
			}
			ev := p.events[i]
			switch y := ev.in.(type) {
			case *ssa.Store:
				rc, root, f := iaccess(ev.c, y.Addr)
				if !sameIV(rc, root, pv.co, pv.O) || len(f) == 0 || f[len(f)-1] != "Annotations" {
					continue
				}
				if _, vv := iunwrap(ev.c, y.Val); vv != nil {
					if mm, isMM := vv.(*ssa.MakeMap); isMM {
						if mods.copied[mm] {
							state = 2 // a full copy of the existing annotations plus the writes
							continue
						}
						nCreate++
						if state != 1 {
							createOK, cAt = false, y
							cDetail = "the annotation map of the copy is replaced by a new map on a path where it is not known to be nil: the merge patch then removes every other annotation of the object"
						}
						state = 2
					}
				}
			case *ssa.MapUpdate:
				if !isUpd[y] {
					continue
				}
				rc, root, f := iaccess(ev.c, y.Map)
				if _, isMM := root.(*ssa.MakeMap); isMM {
					continue
				}
				if !sameIV(rc, root, pv.co, pv.O) || len(f) == 0 || f[len(f)-1] != "Annotations" {
					continue
				}
				nWrite++
				if state != 2 {
					writeOK, wAt = false, y
					wDetail = "an annotation is written on a path where the copy's annotation map may be nil (object without annotations): the assignment panics and nothing is sent"
				}
			}
		}
	}
	if nCreate > 0 {
		r.Check("C19.R2", c.label+": annotation map created only when nil", r.Prog.Pos(instrPos(cAt)), x.fn, "a new annotation map is stored into the copy only under Annotations == nil (the other annotations of the object are left alone)", createOK, cDetail)
	}
	if nWrite > 0 {
		r.Check("C19.R2", c.label+": annotations written into a non-nil map", r.Prog.Pos(instrPos(wAt)), x.fn, "every annotation write on the copy is preceded, on its path, by Annotations != nil or by the creation of the map", writeOK, wDetail)
	}
}

// conditionAppend: fail appends exactly one condition {type Canary-Failed, status True} on every
// path to the write.
func (x *c19Run) conditionAppend(provs []*c19Prov, mods *c19Mods) *c19CondWrite {
	r, c := x.r, x.c
	pos := r.Prog.Pos(x.wcall.Pos())
	construct := c.label + ": appended condition"
	if len(mods.updates) > 0 {
		r.Check("C19.R2", c.label+": no annotation write", r.Prog.Pos(instrPos(mods.updates[0])), x.fn, "fail changes only the replica set's conditions", false, "annotation written on the replica set copy")
	}
	isSet := map[ssa.Instruction]*ssa.Store{}
	for _, st := range mods.condSets {
		isSet[st] = st
	}
	wantT, _ := r.Prog.constStr(pkgAPI, "ConditionTypeCanaryFailed")
	wantS, _ := r.Prog.constStr(pkgCoreV1, "ConditionTrue")
	var out *c19CondWrite
	okAll, detail := true, ""
	var at ssa.Instruction = x.wcall
	for _, pv := range provs {
		var sets []ievent
		for i := 0; i < pv.wi; i++ {
			if isSet[pv.p.events[i].in] != nil {
				sets = append(sets, pv.p.events[i])
			}
		}
		if len(sets) != 1 {
			okAll, detail = false, fmt.Sprintf("%d stores to Status.Conditions of the copy on a path to the write", len(sets))
			continue
		}
		ev := sets[0]
		st := ev.in.(*ssa.Store)
		at = st
		ac, av := iresolve(ev.c, st.Val)
		ap, isAp := av.(*ssa.Call)
		okShape := false
		var elems []ssa.Value
		if isAp {
			if b, isB := ap.Call.Value.(*ssa.Builtin); isB && b.Name() == "append" && len(ap.Call.Args) == 2 {
				rc, base, bp := iaccess(ac, ap.Call.Args[0])
				var complete bool
				elems, complete = varargElems(ap.Call.Args[1])
				okShape = sameIV(rc, base, pv.co, pv.O) && len(bp) == 2 && bp[0] == "Status" && bp[1] == "Conditions" && complete && len(elems) == 1
			}
		}
		if !okShape {
			okAll, detail = false, "Status.Conditions of the copy is not append(its own conditions, one condition)"
			continue
		}
		typV, statV, why := c19CondFields(r, elems[0], 0)
		if why != "" {
			okAll, detail = false, "undecided: "+why
			continue
		}
		gotT, okT := constString(typV)
		gotS, okS := c19StatusConst(r, statV)
		if !(okT && okS && gotT == wantT && gotS == wantS) {
			okAll = false
		}
		detail = fmt.Sprintf("type=%q (const=%v) status=%q (decided=%v)", gotT, okT, gotS, okS)
		if okT && okS {
			out = &c19CondWrite{typ: gotT, status: gotS}
		}
	}
	_ = pos
	r.Check("C19.R2", construct, r.Prog.Pos(instrPos(at)), x.fn, fmt.Sprintf("on every path to the write exactly one condition is appended to the copy's own conditions, of type %q and status %q", wantT, wantS), okAll, detail)
	return out
}

// c19CondFields resolves the Type and Status of a condition value: a local composite literal, or
// the result of (possibly nested) repository constructors that store their parameters in those
// fields. The values returned are expressed in the context of the outermost call.
func c19CondFields(r *Run, el ssa.Value, depth int) (typ, status ssa.Value, why string) {
	fromAlloc := func(a ssa.Value) (t, s ssa.Value) {
		ts, ss := fieldStores(a, "Type"), fieldStores(a, "Status")
		if len(ts) == 1 && len(ss) == 1 {
			return ts[0], ss[0]
		}
		return nil, nil
	}
	if depth > 4 {
		return nil, nil, "condition constructors nested too deeply"
	}
	switch y := el.(type) {
	case *ssa.UnOp:
		if y.Op == token.MUL {
			if t, s := fromAlloc(y.X); t != nil {
				return t, s, ""
			}
		}
	case *ssa.Call:
		cal := staticCallee(&y.Call)
		if cal == nil || !r.Prog.IsRuleSite(cal) {
			return nil, nil, "the appended condition is built by a function outside the repository"
		}
		var t, s ssa.Value
		n := 0
		for _, b := range cal.Blocks {
			ret := returnOf(b)
			if ret == nil {
				continue
			}
			n++
			var w string
			t, s, w = c19CondFields(r, ret.Results[0], depth+1)
			if w != "" {
				return nil, nil, w
			}
		}
		if n != 1 || t == nil {
			return nil, nil, "condition constructor does not have a single return of a composite literal / constructor call"
		}
		subst := func(v ssa.Value) ssa.Value {
			if p, ok := v.(*ssa.Parameter); ok && p.Parent() == cal {
				return y.Call.Args[paramIndex(p)]
			}
			return v
		}
		return subst(t), subst(s), ""
	}
	return nil, nil, "the appended condition is not a composite literal or a constructor call: " + el.String()
}

// refusals: R7 on every path of run (helpers expanded) that returns an error without writing.
// Documented reasons: a Get error; the command's canary precondition; a documented annotation
// already expressing the requested state — present with the value the command would write for the
// mode of the path, or, for the rolling-update / freeze commands only (whose readers treat an
// absent annotation as "off"; a canary can be paused without any annotation), absent when the
// requested value is the "off" value. A refusal decided by a function value taken from a constant
// table (one refusal function per mode) is analysed in that function, its parameters standing for
// the call's arguments.
func (x *c19Run) refusals(provs []*c19Prov) {
	r, c := x.r, x.c
	ref := provs[0]
	as := x.assumptions()
	offVal, _ := r.Prog.constStr(pkgAPI, "ValueStringFalse")
	absentIsOff := c.statusCanary == "absent"
	type agg struct {
		ok     bool
		pos    token.Pos
		detail string
	}
	res := map[string]*agg{}
	var order []string
	for _, p := range x.paths {
		if p.eventIndex(x.wcall) >= 0 || p.ret == nil || len(p.ret.Results) == 0 {
			continue
		}
		rcx, rvx := iunwrap(p.root, p.ret.Results[len(p.ret.Results)-1])
		if isNilConst(rvx) {
			continue
		}
		// objects on this path
		pv := &c19Prov{p: p, wi: -1}
		for _, ev := range p.events {
			g := x.gets[ev.in]
			if g == nil {
				continue
			}
			co, obj := iunwrap(ev.c, g.Obj)
			if shortKind(g.Kind) == "ExtendedDaemonSet" {
				pv.ce, pv.E, pv.hasE = co, obj, true
			}
			if obj == ref.G {
				pv.cg, pv.G = co, obj
			}
		}
		for _, ev := range p.events {
			if ev.in == ssa.Instruction(ref.O.(ssa.Instruction)) {
				pv.co, pv.O = ev.c, ref.O
			}
		}
		isObj := func(rc *icall, root ssa.Value) bool {
			return pv.hasE && sameIV(rc, root, pv.ce, pv.E) || pv.G != nil && sameIV(rc, root, pv.cg, pv.G) || pv.O != nil && sameIV(rc, root, pv.co, pv.O)
		}
		// annotation look-up behind a value (the value, or the presence flag)
		annLookup := func(cc *icall, vv ssa.Value, idx int) (string, bool) {
			var lk *ssa.Lookup
			switch y := vv.(type) {
			case *ssa.Lookup:
				if !y.CommaOk && idx == 0 {
					lk = y
				}
			case *ssa.Extract:
				if l2, isL := y.Tuple.(*ssa.Lookup); isL && y.Index == idx {
					lk = l2
				}
			}
			if lk == nil {
				return "", false
			}
			rc, root, f := iaccess(cc, lk.X)
			key, isC := iconstString(cc, lk.Index)
			if !isObj(rc, root) || len(f) == 0 || f[len(f)-1] != "Annotations" || !isC {
				return "", false
			}
			return key, true
		}
		type annEq struct {
			c     *icall
			key   string
			other ssa.Value
		}
		// classify a list of branches
		classify := func(brs []ibranch) (generic, atoms []string, eqs []annEq, absent []string) {
			for _, br := range brs {
				bc, l, rgt, equal, ok := ieq(br)
				if !ok {
					cc, bv, pol := ibool(br)
					cc, bv = iunwrap(cc, bv)
					if key, isAnn := annLookup(cc, bv, 1); isAnn {
						atoms = append(atoms, fmt.Sprintf("%s present:%v", c19Short(key), pol))
						if !pol {
							absent = append(absent, key)
						}
					}
					continue
				}
				if iisNil(bc, l) || iisNil(bc, rgt) {
					v := l
					if iisNil(bc, l) {
						v = rgt
					}
					cv, vv := iunwrap(bc, v)
					if call, isCall := vv.(*ssa.Call); isCall && x.gets[call] != nil {
						if !equal {
							generic = append(generic, "Get failed")
						} else {
							atoms = append(atoms, "get=ok")
						}
						continue
					}
					rc, root, f := iaccess(cv, vv)
					switch {
					case isObj(rc, root) && len(f) == 2 && f[0] == "Status" && f[1] == "Canary":
						switch {
						case equal && c.statusCanary == "present":
							generic = append(generic, "status.canary == nil")
						case !equal && c.statusCanary == "absent":
							generic = append(generic, "status.canary != nil")
						default:
							atoms = append(atoms, fmt.Sprintf("status.canary==nil:%v", equal))
						}
					case isObj(rc, root) && len(f) == 3 && f[0] == "Spec" && f[1] == "Strategy" && f[2] == "Canary":
						if equal && c.specCanary {
							generic = append(generic, "spec.strategy.canary == nil")
						} else {
							atoms = append(atoms, fmt.Sprintf("spec.canary==nil:%v", equal))
						}
					case isObj(rc, root) && len(f) > 0 && f[len(f)-1] == "Annotations":
						atoms = append(atoms, fmt.Sprintf("annotations==nil:%v", equal))
					}
					continue
				}
				for _, pr := range [][2]ssa.Value{{l, rgt}, {rgt, l}} {
					cc, vv := iunwrap(bc, pr[0])
					key, isAnn := annLookup(cc, vv, 0)
					if !isAnn {
						continue
					}
					if equal {
						eqs = append(eqs, annEq{bc, key, pr[1]})
					} else {
						val := "<name>"
						if s, isS := iconstString(bc, pr[1]); isS {
							val = s
						}
						atoms = append(atoms, fmt.Sprintf("%s==%s:false", c19Short(key), val))
					}
				}
			}
			return
		}
		pvv := &c19Prov{cg: pv.cg, G: pv.G, co: pv.co, O: pv.O, ce: pv.ce, E: pv.E, hasE: pv.hasE}
		// the cases to justify: (branches, command word)
		type kase struct {
			brs []ibranch
			a   c19Assume
		}
		var cases []kase
		undecided := ""
		dyn, isDyn := rvx.(*ssa.Call)
		if isDyn && (staticCallee(&dyn.Call) != nil || dyn.Call.IsInvoke()) {
			isDyn = false
		}
		for _, a := range as {
			if !x.consistent(p, -1, a) {
				continue
			}
			if !isDyn {
				cases = append(cases, kase{p.branches, a})
				continue
			}
			// the error is the result of a call through a function value: resolve it for this mode
			var fn *ssa.Function
			fc, fv := iunwrap(rcx, dyn.Call.Value)
			for i := 0; i < 6; i++ {
				if f, ok := fv.(*ssa.Function); ok {
					fn = f
					break
				}
				if mc, ok := fv.(*ssa.MakeClosure); ok && len(mc.Bindings) == 0 {
					fn, _ = mc.Fn.(*ssa.Function)
					break
				}
				nc, nv, ok := ifield(fc, fv)
				if !ok {
					nc, nv, ok = x.structField(fc, fv, a, 0)
				}
				if !ok {
					break
				}
				fc, fv = iunwrap(nc, nv)
			}
			if fn == nil || len(fn.Blocks) == 0 || len(fn.FreeVars) > 0 {
				undecided = "the refusal is decided by a function value that cannot be resolved: " + dyn.String()
				continue
			}
			at := p.eventIndex(dyn)
			var pre []ibranch
			for _, br := range p.branches {
				if br.at <= at {
					pre = append(pre, br)
				}
			}
			fps, okF := enumIPaths(fn, x.inl, 2000)
			r.paths += len(fps)
			if !okF {
				undecided = "path cap exceeded in " + shortFunc(fn)
				continue
			}
			for _, fp := range fps {
				if fp.ret == nil || len(fp.ret.Results) == 0 || iisNil(fp.root, fp.ret.Results[len(fp.ret.Results)-1]) {
					continue
				}
				// the function's parameters stand for the arguments of the call
				fp.root.parent, fp.root.site = rcx, dyn
				brs := append(append([]ibranch{}, pre...), fp.branches...)
				if x.consistentB(brs, a) {
					cases = append(cases, kase{brs, a})
				}
			}
		}
		if len(cases) == 0 && undecided == "" {
			continue // no command word's mode is compatible with the branches taken: the path is infeasible
		}
		good := undecided == ""
		var allReasons, allAtoms []string
		words := ""
		for _, k := range cases {
			generic, atoms, eqs, absent := classify(k.brs)
			words += k.a.word + " "
			allAtoms = append(allAtoms, atoms...)
			if len(generic) > 0 {
				allReasons = append(allReasons, generic...)
				continue
			}
			want := c.tables[k.a.word]
			found := false
			for _, e := range eqs {
				val := "<name>"
				if s, isS := iconstString(e.c, e.other); isS {
					val = s
				}
				if want != nil && want[e.key] != "" && pv.G != nil && x.valueOf(pvv, e.c, e.other, k.a) == want[e.key] {
					found = true
					allReasons = append(allReasons, fmt.Sprintf("annotation %s already %s", c19Short(e.key), map[bool]string{true: "<name>", false: want[e.key]}[want[e.key] == c19CanaryRS]))
				} else {
					allAtoms = append(allAtoms, fmt.Sprintf("%s==%s:true", c19Short(e.key), val))
				}
			}
			if absentIsOff && want != nil {
				for _, key := range absent {
					if want[key] == offVal {
						found = true
						allReasons = append(allReasons, fmt.Sprintf("annotation %s absent (already off)", c19Short(key)))
					}
				}
			}
			if !found {
				good = false
			}
		}
		sort.Strings(allReasons)
		sort.Strings(allAtoms)
		reasons, atoms := c19Uniq(allReasons), c19Uniq(allAtoms)
		ws := c19Uniq(strings.Fields(words))
		construct := c.label + ": refusal [" + strings.Join(reasons, "; ") + "]"
		if !good {
			construct = c.label + ": refusal without a documented reason [" + strings.Join(ws, " ") + " " + strings.Join(atoms, " ") + "]"
		}
		a := res[construct]
		if a == nil {
			a = &agg{ok: good, pos: instrPos(p.events[len(p.events)-1].in)}
			for i := len(p.events) - 1; i >= 0; i-- {
				if rt, isR := p.events[i].in.(*ssa.Return); isR && len(rt.Results) > 0 {
					if _, vv := iunwrap(p.events[i].c, rt.Results[len(rt.Results)-1]); !isNilConst(vv) {
						if _, isCall := vv.(*ssa.Call); isCall {
							a.pos = instrPos(rt)
						}
					}
				}
			}
			if !good {
				a.detail = "the command returns an error here although the object was read, the canary precondition holds and no documented annotation already expresses the requested state; facts: " + strings.Join(atoms, " ")
				if undecided != "" {
					a.detail = "undecided: " + undecided
				}
			}
			res[construct] = a
			order = append(order, construct)
		}
	}
	sort.Strings(order)
	need := "an error return before the write has a documented reason: Get failed, the canary precondition is missing, or the annotation is present with the value that already expresses the requested state (never the mere absence of the annotation)"
	if absentIsOff {
		need = "an error return before the write has a documented reason: Get failed, an active canary, or the annotation already expresses the requested state (present with the value the command would write; absent counts as already off)"
	}
	for _, cst := range order {
		a := res[cst]
		r.Check("C19.R7", cst, r.Prog.Pos(a.pos), x.fn, need, a.ok, a.detail)
	}
}

// writeOutcome: on the paths through the write the command's result tells what happened — nil
// exactly when the write returned nil.
func (x *c19Run) writeOutcome(provs []*c19Prov) {
	r, c := x.r, x.c
	okAll, detail := true, ""
	var at ssa.Instruction = x.wcall
	n := 0
	for _, pv := range provs {
		p := pv.p
		if p.ret == nil || len(p.ret.Results) == 0 {
			continue
		}
		n++
		rc, rv := iunwrap(p.root, p.ret.Results[len(p.ret.Results)-1])
		var failed *bool
		for _, br := range p.branches {
			if br.at <= pv.wi {
				continue
			}
			bc, l, rg, equal, ok := ieq(br)
			if !ok || !(iisNil(bc, l) || iisNil(bc, rg)) {
				continue
			}
			o := l
			if iisNil(bc, l) {
				o = rg
			}
			if _, ov := iunwrap(bc, o); ov == ssa.Value(x.wcall) {
				failed = bptr(!equal)
			}
		}
		switch {
		case rv == ssa.Value(x.wcall) && rc == pv.cw:
			// the write's error is returned as it is
		case failed == nil:
			okAll, detail, at = false, "the error of the write is not tested on a path through it", p.ret
		case *failed && isNilConst(rv):
			okAll, detail, at = false, "a failed write is reported as success (nil returned)", p.ret
		case !*failed && !isNilConst(rv):
			okAll, detail, at = false, "a successful write is reported as an error", p.ret
		}
	}
	if n == 0 {
		return
	}
	r.Check("C19.R7", c.label+": outcome of the write", r.Prog.Pos(instrPos(at)), x.fn, "after the write the command returns nil exactly when the write returned nil (an error means the command did not act, success means it did)", okAll, detail)
}

// ---------------------------------------------------------------------------------------------
// bindings: command word -> mode constant

type c19Sym struct {
	param int // >= 0: parameter index of the enclosing function
	s     string
	ok    bool
}

func c19SymOf(v ssa.Value, word bool) c19Sym {
	if s, ok := constString(v); ok {
		if word {
			s = firstWord(s)
		}
		return c19Sym{param: -1, s: s, ok: true}
	}
	if b, ok := constBool(v); ok && !word {
		return c19Sym{param: -1, s: fmt.Sprint(b), ok: true}
	}
	if p, ok := unwrap(v).(*ssa.Parameter); ok {
		return c19Sym{param: paramIndex(p), ok: true}
	}
	if word {
		// name + " [args]": the word is the left operand when the right one starts with a blank
		if bo, ok := v.(*ssa.BinOp); ok && bo.Op == token.ADD {
			l := c19SymOf(bo.X, true)
			if l.ok && l.param < 0 && strings.ContainsAny(l.s, " \t") {
				return l
			}
			if r, isC := constString(bo.Y); isC && l.ok && (strings.HasPrefix(r, " ") || l.param < 0) {
				if l.param < 0 {
					l.s = firstWord(l.s + r)
				}
				return l
			}
		}
	}
	return c19Sym{}
}

// c19Bindings maps the command word (first word of cobra.Command.Use) to the constant the options'
// mode field is built with. The functions that build a cobra command are evaluated on their
// inlined paths, once per (chain of) call site(s) when word or mode come through parameters: the
// parameters stand for the constant arguments, branches on them are decided, and the Use string
// and the constants stored into basic-typed fields of the options are read off the path. The mode
// field is the stored field whose values tell the command words apart; it must be written nowhere
// else.
func c19Bindings(r *Run, c *c19Cmd) (map[string]c19Mode, string) {
	out := map[string]c19Mode{}
	named := r.Prog.Named(c.pkg, c.typ)
	if named == nil {
		return out, "options type not found"
	}
	isOpt := func(t types.Type) bool {
		p, ok := t.(*types.Pointer)
		return ok && types.Identical(p.Elem(), named)
	}
	var pkgFns []*ssa.Function
	inPkg := map[*ssa.Function]bool{}
	for _, fn := range r.Prog.RepoFuncs() {
		root := fn
		for root.Parent() != nil {
			root = root.Parent()
		}
		if root.Pkg != nil && root.Pkg.Pkg.Path() == c.pkg {
			pkgFns = append(pkgFns, fn)
			inPkg[fn] = true
		}
	}
	isUseStore := func(in ssa.Instruction) (*ssa.Store, bool) {
		st, ok := in.(*ssa.Store)
		if !ok {
			return nil, false
		}
		fa, isFA := st.Addr.(*ssa.FieldAddr)
		return st, isFA && fieldName(fa) == "Use" && typeName(fa.X.Type()) == "github.com/spf13/cobra.Command"
	}
	// evalStr evaluates a string built from constants and resolved values, left to right; ok=false
	// when nothing could be evaluated, partial=true when it stopped at an unknown operand
	var evalStr func(c *icall, v ssa.Value, d int) (string, bool, bool)
	evalStr = func(ic *icall, v ssa.Value, d int) (string, bool, bool) {
		cc, vv := iunwrap(ic, v)
		if s, ok := constString(vv); ok {
			return s, true, false
		}
		if bo, ok := vv.(*ssa.BinOp); ok && bo.Op == token.ADD && d < 8 {
			l, okL, partL := evalStr(cc, bo.X, d+1)
			if !okL || partL {
				return l, okL, true
			}
			rr, okR, partR := evalStr(cc, bo.Y, d+1)
			if !okR {
				return l, true, true
			}
			return l + rr, true, partR
		}
		return "", false, true
	}
	// grafts of fn: (activation of the caller, call site) pairs, one per chain of call sites inside
	// the package; the parameters of fn then resolve to the arguments along the chain
	type graft struct {
		parent *icall
		site   *ssa.Call
	}
	var graftsOf func(fn *ssa.Function, depth int) []graft
	graftsOf = func(fn *ssa.Function, depth int) []graft {
		var sites []*ssa.Call
		if depth < 3 {
			for _, cs := range callSitesOf(fn, inPkg) {
				if call, isCall := cs.(*ssa.Call); isCall {
					sites = append(sites, call)
				}
			}
		}
		if len(sites) == 0 {
			return []graft{{}}
		}
		var out []graft
		for _, call := range sites {
			for _, gg := range graftsOf(call.Parent(), depth+1) {
				out = append(out, graft{&icall{id: -1 - depth, fn: call.Parent(), parent: gg.parent, site: gg.site, sub: map[*ssa.Call]*icall{}}, call})
			}
		}
		return out
	}
	type cand struct{ fields map[string]string }
	cands := map[string]*cand{}
	onPath := map[*ssa.Function]bool{}
	inl := func(cal *ssa.Function) bool {
		return inPkg[cal] && r.Prog.IsRuleSite(cal) && cal.Synthetic == "" && !token.IsExported(cal.Name())
	}
	for _, fn := range pkgFns {
		hasUse := false
		for _, b := range fn.Blocks {
			for _, in := range b.Instrs {
				if _, ok := isUseStore(in); ok {
					hasUse = true
				}
			}
		}
		if !hasUse {
			continue
		}
		paths, ok := enumIPaths(fn, inl, 2000)
		r.paths += len(paths)
		if !ok {
			return out, "path cap exceeded in " + shortFunc(fn)
		}
		for _, g := range graftsOf(fn, 0) {
			for _, p := range paths {
				p.root.parent, p.root.site = g.parent, g.site
				feasible := true
				for _, br := range p.branches {
					if b, decided := iconstBool(br.c, br.cond); decided && b != br.pol {
						feasible = false
						break
					}
				}
				if !feasible {
					continue
				}
				word := ""
				fields := map[string]string{}
				for _, ev := range p.events {
					onPath[ev.c.fn] = true
					st, isSt := ev.in.(*ssa.Store)
					if !isSt {
						continue
					}
					if _, isUse := isUseStore(ev.in); isUse {
						str, okS, partial := evalStr(ev.c, st.Val, 0)
						switch {
						case !okS:
						case strings.ContainsAny(str, " \t"):
							word = firstWord(str)
						case !partial:
							word = str
						}
						continue
					}
					fa, isFA := st.Addr.(*ssa.FieldAddr)
					if !isFA || !isOpt(fa.X.Type()) {
						continue
					}
					if _, basic := st.Val.Type().Underlying().(*types.Basic); !basic {
						continue
					}
					_, vv := iunwrap(ev.c, st.Val)
					if b, isB := constBool(vv); isB {
						fields[fieldName(fa)] = fmt.Sprint(b)
					} else if sv, isS := constString(vv); isS {
						fields[fieldName(fa)] = sv
					}
				}
				p.root.parent, p.root.site = nil, nil
				if word == "" {
					continue
				}
				if cands[word] == nil {
					cands[word] = &cand{fields: map[string]string{}}
				}
				for f, v := range fields {
					if old, has := cands[word].fields[f]; has && old != v {
						cands[word].fields[f] = "\x00conflict"
					} else {
						cands[word].fields[f] = v
					}
				}
			}
		}
	}
	// the mode field: present for every documented word, with pairwise distinct values
	var words []string
	for w := range c.tables {
		words = append(words, w)
	}
	sort.Strings(words)
	fieldSet := map[string]bool{}
	for _, w := range words {
		if cands[w] != nil {
			for f := range cands[w].fields {
				fieldSet[f] = true
			}
		}
	}
	var fs []string
	for f := range fieldSet {
		fs = append(fs, f)
	}
	sort.Strings(fs)
	mode := ""
	for _, f := range fs {
		seen := map[string]bool{}
		good := true
		for _, w := range words {
			if cands[w] == nil {
				good = false
				break
			}
			v, has := cands[w].fields[f]
			if !has || v == "\x00conflict" || seen[v] {
				good = false
				break
			}
			seen[v] = true
		}
		if good && len(words) > 0 {
			mode = f
			break
		}
	}
	if mode == "" {
		return out, ""
	}
	for _, w := range words {
		out[w] = c19Mode{mode, cands[w].fields[mode]}
	}
	// the mode field is written nowhere else
	for _, fn := range pkgFns {
		if onPath[fn] {
			continue
		}
		for _, b := range fn.Blocks {
			for _, in := range b.Instrs {
				if st, ok := in.(*ssa.Store); ok {
					if fa, isFA := st.Addr.(*ssa.FieldAddr); isFA && isOpt(fa.X.Type()) && fieldName(fa) == mode {
						return map[string]c19Mode{}, "mode field " + mode + " is also written in " + shortFunc(fn)
					}
				}
			}
		}
	}
	return out, ""
}

// ---------------------------------------------------------------------------------------------
// R9: status.canary.replicaSet names the current canary

func c19CanaryNameFresh(r *Run, site *decisionSite, utd *ssa.Parameter) {
	if site == nil || utd == nil {
		r.Check("C19.R9", "canary name", "-", "-", "the promotion decision and its up-to-date parameter are known (see C19.R5)", false, "not resolved")
		return
	}
	rec, reach := edsReconcile(r)
	if rec == nil {
		return
	}
	// the values that denote the up-to-date replica set: the decision's argument, followed through
	// helper parameters and results
	follow := func(f *ssa.Function) bool { return reach[f] && r.Prog.IsRuleSite(f) }
	// forward only (into callees): the decision itself returns one of its two replica sets, so
	// following results would make "current" an alias of "up-to-date"
	utdArg := site.call.Call.Args[paramIndex(utd)]
	utdA := aliasClosure(utdArg, follow, nil)
	isStatusPtr := func(t types.Type) bool { return isPtrToNamed(t, pkgAPI, "ExtendedDaemonSetStatus") }
	isCanaryPtr := func(t types.Type) bool { return isPtrToNamed(t, pkgAPI, "ExtendedDaemonSetStatusCanary") }
	nFns := 0
	for _, fn := range sortedFuncs(reach) {
		if !r.Prog.IsRuleSite(fn) {
			continue
		}
		assigns := false
		for _, b := range fn.Blocks {
			for _, in := range b.Instrs {
				if st, ok := in.(*ssa.Store); ok {
					if fa, isFA := st.Addr.(*ssa.FieldAddr); isFA && fieldName(fa) == "Canary" && isStatusPtr(fa.X.Type()) && !isNilConst(unwrap(st.Val)) {
						assigns = true
					}
				}
			}
		}
		if !assigns {
			continue
		}
		nFns++
		paths, ok := enumIPaths(fn, samePkgInliner(r.Prog, fn, nil), 20000)
		r.paths += len(paths)
		if !ok {
			r.Undecided("C19.R9", "canary name", r.Prog.Pos(fn.Pos()), shortFunc(fn), "path cap exceeded")
			continue
		}
		type iv struct {
			c *icall
			v ssa.Value
		}
		type agg struct {
			ok     bool
			detail string
			pos    token.Pos
		}
		res := map[string]*agg{}
		var order []string
		for _, p := range paths {
			lastCanary := map[iv]string{} // "nil" / "set"
			nameOf := map[iv]ievent{}     // the store of ReplicaSet that applies to X's current canary
			hasName := map[iv]bool{}
			litName := map[iv]ievent{} // ReplicaSet stored into a not yet assigned literal
			notNil := map[iv]bool{}    // fact X.Canary != nil
			var xs []iv
			seenX := map[iv]bool{}
			note := func(x iv) {
				if !seenX[x] {
					seenX[x] = true
					xs = append(xs, x)
				}
			}
			bi := 0
			for i := 0; i <= len(p.events); i++ {
				for bi < len(p.branches) && p.branches[bi].at <= i {
					br := p.branches[bi]
					bi++
					c, l, rg, equal, isEq := ieq(br)
					if !isEq || !(iisNil(c, l) || iisNil(c, rg)) {
						continue
					}
					o := l
					if iisNil(c, l) {
						o = rg
					}
					oc, ov := iunwrap(c, o)
					if ld, isLd := ov.(*ssa.UnOp); isLd && ld.Op == token.MUL {
						if fa, isFA := ld.X.(*ssa.FieldAddr); isFA && fieldName(fa) == "Canary" && isStatusPtr(fa.X.Type()) {
							bc, bv := iunwrap(oc, fa.X)
							x := iv{bc, bv}
							note(x)
							if lastCanary[x] == "" {
								notNil[x] = !equal
							}
						}
					}
				}
				if i == len(p.events) {
					break
				}
				ev := p.events[i]
				st, isSt := ev.in.(*ssa.Store)
				if !isSt {
					continue
				}
				fa, isFA := st.Addr.(*ssa.FieldAddr)
				if !isFA {
					continue
				}
				switch {
				case fieldName(fa) == "Canary" && isStatusPtr(fa.X.Type()):
					bc, bv := iunwrap(ev.c, fa.X)
					x := iv{bc, bv}
					note(x)
					vc, vv := iunwrap(ev.c, st.Val)
					if isNilConst(vv) {
						lastCanary[x] = "nil"
						hasName[x] = false
						continue
					}
					lastCanary[x] = "set"
					hasName[x] = false
					if ln, has := litName[iv{vc, vv}]; has {
						nameOf[x], hasName[x] = ln, true
					}
				case fieldName(fa) == "ReplicaSet" && isCanaryPtr(fa.X.Type()):
					bc, bv := iunwrap(ev.c, fa.X)
					if ld, isLd := bv.(*ssa.UnOp); isLd && ld.Op == token.MUL {
						if fa2, isFA2 := ld.X.(*ssa.FieldAddr); isFA2 && fieldName(fa2) == "Canary" && isStatusPtr(fa2.X.Type()) {
							xc, xv := iunwrap(bc, fa2.X)
							x := iv{xc, xv}
							note(x)
							nameOf[x], hasName[x] = ev, true
							continue
						}
					}
					litName[iv{bc, bv}] = ev
				}
			}
			for _, x := range xs {
				live := lastCanary[x] == "set" || lastCanary[x] == "" && notNil[x]
				if !live {
					continue
				}
				how := "created on the path"
				if lastCanary[x] == "" {
					how = "already set and kept"
				}
				good, detail := false, "status.canary.replicaSet is not stored on this path: it keeps the name cached by an earlier reconcile"
				var at ssa.Instruction = p.ret
				if hasName[x] {
					ev := nameOf[x]
					at = ev.in
					vc, vv := iunwrap(ev.c, ev.in.(*ssa.Store).Val)
					var root ssa.Value
					if call, isCall := vv.(*ssa.Call); isCall && strings.HasSuffix(calleeName(&call.Call), ".GetName") {
						if call.Call.IsInvoke() {
							_, root = iunwrap(vc, call.Call.Value)
						} else if len(call.Call.Args) == 1 {
							_, root, _ = iaccess(vc, call.Call.Args[0])
						}
					} else if _, rt, f := iaccess(vc, vv); len(f) >= 1 && f[len(f)-1] == "Name" {
						root = rt
					}
					good = root != nil && utdA[root]
					detail = "stored from " + pathString(ev.in.(*ssa.Store).Val)
					if !good {
						detail += ", which is not the Name of the replica set the promotion decision treats as up-to-date"
					}
				}
				construct := "status.canary " + how
				a := res[construct]
				if a == nil {
					a = &agg{ok: true, pos: instrPos(at)}
					res[construct] = a
					order = append(order, construct)
				}
				if !good {
					a.ok, a.pos = false, instrPos(at)
				}
				if a.detail == "" || !good {
					a.detail = detail
				}
			}
		}
		sort.Strings(order)
		for _, cst := range order {
			a := res[cst]
			r.Check("C19.R9", cst, r.Prog.Pos(a.pos), shortFunc(fn), "every path that leaves status.canary set stores status.canary.replicaSet = Name of the up-to-date replica set (the canary `validate` and `fail` act on)", a.ok, a.detail)
		}
	}
	if nFns == 0 {
		r.Check("C19.R9", "canary name", "-", "-", "a function reachable from the ExtendedDaemonSet Reconcile assigns status.canary", false, "none found")
	}
}

// c19FindDecision anchors the promotion decision by what it does for validate: the function
// reachable from the ExtendedDaemonSet Reconcile that chooses between two replica sets (takes the
// ExtendedDaemonSet and at least two replica sets, returns a replica set) and consults
// IsCanaryDeploymentValid, directly or through its helpers. (That status.activeReplicaSet is stored
// from its result is C05.R4's clause.)
func c19FindDecision(r *Run) *decisionSite {
	rec, reach := edsReconcile(r)
	if rec == nil {
		return nil
	}
	valid := r.Prog.Func(pkgEDS, "IsCanaryDeploymentValid")
	if valid == nil {
		r.Fatal("anchor %s.IsCanaryDeploymentValid not found", pkgEDS)
		return nil
	}
	isERS := func(t types.Type) bool { return isPtrToNamed(t, pkgAPI, "ExtendedDaemonSetReplicaSet") }
	var cands []*ssa.Function
	for _, fn := range sortedFuncs(reach) {
		if !r.Prog.IsRuleSite(fn) || fn == rec {
			continue
		}
		res := fn.Signature.Results()
		if res.Len() == 0 || !isERS(res.At(0).Type()) {
			continue
		}
		nERS, hasEDS := 0, false
		for _, p := range fn.Params {
			if isERS(p.Type()) {
				nERS++
			}
			if isPtrToNamed(p.Type(), pkgAPI, "ExtendedDaemonSet") {
				hasEDS = true
			}
		}
		if nERS < 2 || !hasEDS || !r.Prog.reachableFuncs(fn)[valid] {
			continue
		}
		cands = append(cands, fn)
	}
	if len(cands) != 1 {
		r.Check("C19.R5", "promotion decision", "-", "-", "one function reachable from the ExtendedDaemonSet Reconcile chooses between two replica sets and consults IsCanaryDeploymentValid", false, fmt.Sprintf("%d candidate(s)", len(cands)))
		return nil
	}
	fn := cands[0]
	var call *ssa.Call
	n := 0
	for _, cs := range callSitesOf(fn, reach) {
		if c, ok := cs.(*ssa.Call); ok {
			call = c
			n++
		}
	}
	r.Check("C19.R5", "promotion decision", r.Prog.Pos(fn.Pos()), shortFunc(fn), "the promotion decision is called from one site under the ExtendedDaemonSet Reconcile", n == 1, fmt.Sprintf("%d call site(s)", n))
	if n != 1 {
		return nil
	}
	return &decisionSite{decision: fn, call: call, caller: call.Parent()}
}
