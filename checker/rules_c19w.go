package main

// C19.R10 — the wiring between the cobra command and the command body: which object a kubectl-eds
// command targets. The run methods (C19.R1–R3) act on the object read with the key
// {receiver.namespace field, receiver.name field}; this rule decides where those two fields come
// from and that the body is reached exactly when the wiring succeeded:
//
//   (a) in every RunE closure of a cobra.Command that reaches the run method, the call of run is
//       dominated by `complete(cmd, args) == nil` for the function that fills the name field, called
//       with the closure's own parameters, and every other path returns a value known to be non-nil;
//       the closure returns run's result;
//   (b) on every path of that filler which returns nil: the name field's last store is args[0] unless
//       the path knows args to be empty; the namespace field's last store is the value of the
//       --namespace flag when the path knows it non-empty and the kubeconfig namespace when the path
//       knows it empty; no call whose error result the path knows to be non-nil precedes the success;
//       and nothing but the filler stores those two fields;
//   (c) every path of the filler and of every other gate (validate) that returns an error carries a
//       reason: a failed call, or the argument list known to be empty;
//   (e) the constructor's command is added, on every path, to a command that is itself added … up to
//       the root command a main package builds (otherwise the documented command does not exist);
//   (d) the constructor registers the config flags (AddFlags(cmd.Flags())) on the command that
//       carries the closure, on every path, so that --namespace exists.
//
// All of it is read from the type-checked SSA; no name of a local, no position and no text is matched.
// Field roles are found from the Get key of the run method.

import (
	"fmt"
	"go/constant"
	"go/token"
	"go/types"
	"sort"
	"strings"

	"golang.org/x/tools/go/ssa"
)

const c19wRule = "C19.R10"

type c19wCmd struct {
	c        *c19Cmd
	T        *types.Named
	run      *ssa.Function
	nameF    int // field index of the name field in T's struct
	nsF      int
	nameN    string
	nsN      string
	fillers  []*ssa.Function
	closures []*ssa.Function
	ctorOf   map[*ssa.Function]*ssa.Function // handler -> function that stores it into RunE
	cmdOf    map[*ssa.Function]ssa.Value     // handler -> the cobra.Command value carrying it
}

// c19wSkip records a part of the wiring whose shape the rule does not recognise. R10 reports only
// what it can classify: an unrecognised (refactored) shape is listed in the evidence as not decided
// and printed, it is not a violation — the positive controls of the thorough tier keep the rule alive.
func c19wSkip(r *Run, construct, pos, fn, why string) {
	o := r.Check(c19wRule, "not decided: "+construct, pos, fn, "(shape not recognised; nothing is claimed for this part)", true, why)
	if o != nil {
		o.Trivial = true
	}
	fmt.Printf("NOT-DECIDED %s %s: %s\n", c19wRule, construct, why)
}

func c19Wiring(r *Run, cmds []*c19Cmd) {
	r.RuleDoc(c19wRule, "targeted object: RunE reaches run only after complete()==nil and validate()==nil and returns its result; complete stores name=args[0] and namespace=--namespace flag (kubeconfig namespace when empty) on every successful path; gates refuse only on a failed call or an empty argument list; the constructor registers the config flags")
	r.Floor(c19wRule, 5)
	for _, c := range cmds {
		run := r.Prog.declaredMethod(c.pkg, c.typ, "run")
		if run == nil {
			continue // reported by runC19
		}
		w := &c19wCmd{c: c, run: run, nameF: -1, nsF: -1, ctorOf: map[*ssa.Function]*ssa.Function{}, cmdOf: map[*ssa.Function]ssa.Value{}}
		if !w.roles(r) {
			continue
		}
		w.findFillers(r)
		w.findClosures(r)
		for _, cl := range w.closures {
			w.checkClosure(r, cl)
			w.checkConstructor(r, cl)
			w.checkAttached(r, cl)
		}
		for _, f := range w.fillers {
			w.checkFiller(r, f)
		}
	}
}

// roles finds the receiver fields used as Namespace and Name of the Get key in run.
func (w *c19wCmd) roles(r *Run) bool {
	run := w.run
	if len(run.Params) == 0 {
		c19wSkip(r, "receiver of run ("+w.c.label+")", "-", shortFunc(run), "run has no receiver")
		return false
	}
	pt, ok := run.Params[0].Type().(*types.Pointer)
	if !ok {
		c19wSkip(r, "receiver of run ("+w.c.label+")", "-", shortFunc(run), "receiver is not a pointer")
		return false
	}
	w.T, _ = pt.Elem().(*types.Named)
	if w.T == nil {
		return false
	}
	st, _ := w.T.Underlying().(*types.Struct)
	if st == nil {
		return false
	}
	// stores into a types.NamespacedName value: field 0 = Namespace, field 1 = Name
	for fn := range r.Prog.reachableFuncs(run) {
		for _, b := range fn.Blocks {
			for _, in := range b.Instrs {
				s, ok := in.(*ssa.Store)
				if !ok {
					continue
				}
				fa, ok := s.Addr.(*ssa.FieldAddr)
				if !ok {
					continue
				}
				n := namedOf(fa.X.Type())
				if n == nil || n.Obj().Name() != "NamespacedName" || n.Obj().Pkg() == nil || n.Obj().Pkg().Path() != "k8s.io/apimachinery/pkg/types" {
					continue
				}
				idx, ok := c19wRecvFieldLoad(s.Val, w.T)
				if !ok {
					continue
				}
				if fa.Field == 0 {
					w.nsF = idx
				} else {
					w.nameF = idx
				}
			}
		}
	}
	if w.nameF < 0 || w.nsF < 0 {
		c19wSkip(r, "Get key of run ("+w.c.label+")", "-", shortFunc(run), "the fields of the options type used as Namespace/Name of the Get key were not found in run itself")
		return false
	}
	w.nameN, w.nsN = st.Field(w.nameF).Name(), st.Field(w.nsF).Name()
	return true
}

// c19wRecvFieldLoad: v is a load of field idx of a *T value.
func c19wRecvFieldLoad(v ssa.Value, T *types.Named) (int, bool) {
	u, ok := unwrap(v).(*ssa.UnOp)
	if !ok || u.Op != token.MUL {
		return 0, false
	}
	fa, ok := u.X.(*ssa.FieldAddr)
	if !ok || namedOf(fa.X.Type()) != T {
		return 0, false
	}
	return fa.Field, true
}

func (w *c19wCmd) storesField(in ssa.Instruction, idx int) (*ssa.Store, bool) {
	s, ok := in.(*ssa.Store)
	if !ok {
		return nil, false
	}
	fa, ok := s.Addr.(*ssa.FieldAddr)
	if !ok || fa.Field != idx || namedOf(fa.X.Type()) != w.T {
		return nil, false
	}
	return s, true
}

// findFillers: functions of the command's package that store the name or namespace field. Composite
// literals of the constructor (stores into a fresh Alloc) are not fillers.
func (w *c19wCmd) findFillers(r *Run) {
	seen := map[*ssa.Function]bool{}
	for _, fn := range r.Prog.RepoFuncs() {
		if fn.Pkg == nil || fn.Pkg.Pkg.Path() != w.c.pkg {
			continue
		}
		for _, b := range fn.Blocks {
			for _, in := range b.Instrs {
				for _, idx := range []int{w.nameF, w.nsF} {
					if s, ok := w.storesField(in, idx); ok {
						if _, fresh := s.Addr.(*ssa.FieldAddr).X.(*ssa.Alloc); fresh {
							if _, isConst := s.Val.(*ssa.Const); isConst {
								continue
							}
						}
						if !seen[fn] {
							seen[fn] = true
							w.fillers = append(w.fillers, fn)
						}
					}
				}
			}
		}
	}
	sort.Slice(w.fillers, func(i, j int) bool { return funcName(w.fillers[i]) < funcName(w.fillers[j]) })
	ok := len(w.fillers) == 1 && len(w.fillers[0].Params) >= 1 && namedOf(w.fillers[0].Params[0].Type()) == w.T
	names := []string{}
	for _, f := range w.fillers {
		names = append(names, shortFunc(f))
	}
	if !ok {
		c19wSkip(r, "writer of "+w.nameN+"/"+w.nsN+" ("+w.c.label+")", "-", w.c.pkg, "the name and namespace fields are not stored by exactly one method of the options type: "+strings.Join(names, ", "))
		w.fillers = nil
		return
	}
	r.Check(c19wRule, "single writer of "+w.nameN+"/"+w.nsN+" ("+w.c.label+")", "-", w.c.pkg, "the name and namespace fields of the options are stored by one method of the options type (the one RunE gates on)", ok, "writers: "+strings.Join(names, ", "))
}

// findClosures: closures stored into the RunE field of a cobra.Command that reach run.
func (w *c19wCmd) findClosures(r *Run) {
	for _, fn := range r.Prog.RepoFuncs() {
		if fn.Pkg == nil || fn.Pkg.Pkg.Path() != w.c.pkg {
			continue
		}
		for _, b := range fn.Blocks {
			for _, in := range b.Instrs {
				s, ok := in.(*ssa.Store)
				if !ok {
					continue
				}
				fa, ok := s.Addr.(*ssa.FieldAddr)
				if !ok {
					continue
				}
				n := namedOf(fa.X.Type())
				if n == nil || n.Obj().Name() != "Command" || n.Obj().Pkg() == nil || n.Obj().Pkg().Path() != "github.com/spf13/cobra" {
					continue
				}
				mc, ok := unwrap(s.Val).(*ssa.MakeClosure)
				if !ok {
					continue
				}
				cl, _ := mc.Fn.(*ssa.Function)
				if cl == nil || !r.Prog.reachableFuncs(cl)[w.run] {
					continue
				}
				if cl.Synthetic != "" {
					// a method value (o.execute): the handler is the method behind the wrapper
					var inner *ssa.Function
					for _, ci := range callsIn(cl) {
						if cal := staticCallee(ci.Common()); cal != nil && r.Prog.IsRuleSite(cal) && r.Prog.reachableFuncs(cal)[w.run] {
							inner = cal
						}
					}
					if inner == nil {
						c19wSkip(r, "handler "+shortFunc(cl)+" ("+w.c.label+")", "-", shortFunc(fn), "synthetic handler whose method was not found")
						continue
					}
					cl = inner
				}
				if _, dup := w.ctorOf[cl]; dup {
					continue
				}
				w.ctorOf[cl], w.cmdOf[cl] = fn, fa.X
				w.closures = append(w.closures, cl)
			}
		}
	}
	sort.Slice(w.closures, func(i, j int) bool { return funcName(w.closures[i]) < funcName(w.closures[j]) })
	if len(w.closures) == 0 {
		c19wSkip(r, "cobra entry points of "+w.c.label, "-", w.c.pkg, "no closure or method value stored into cobra.Command.RunE reaches the run method (handlers built another way)")
		return
	}
	r.Check(c19wRule, "cobra entry points of "+w.c.label, "-", w.c.pkg, "at least one cobra.Command handler reaches the run method", len(w.closures) > 0, fmt.Sprintf("%d handlers", len(w.closures)))
}

// errNilFact: f says "call result E (of error type) is nil" (truth given by the returned bool).
func c19wErrNilFact(p *Path, f Fact) (ssa.Value, bool, bool) {
	bo, ok := f.V.(*ssa.BinOp)
	if !ok || (bo.Op != token.EQL && bo.Op != token.NEQ) {
		return nil, false, false
	}
	var e ssa.Value
	switch {
	case isNilConst(bo.Y):
		e = bo.X
	case isNilConst(bo.X):
		e = bo.Y
	default:
		return nil, false, false
	}
	if !types.Identical(e.Type(), types.Universe.Lookup("error").Type()) {
		return nil, false, false
	}
	if p != nil {
		e = p.Resolve(e) // an error variable assigned on several branches: the value it has on this path
	}
	// Key is (x==nil) with polarity Pol
	return e, f.Pol, true
}

// callOfErr: the call instruction an error value comes from (direct result or tuple extract).
func c19wCallOfErr(e ssa.Value) *ssa.Call {
	switch x := unwrap(e).(type) {
	case *ssa.Call:
		return x
	case *ssa.Extract:
		c, _ := x.Tuple.(*ssa.Call)
		return c
	}
	return nil
}

func (w *c19wCmd) checkClosure(r *Run, cl *ssa.Function) {
	lbl := w.c.label + " handler " + shortFunc(cl)
	var runCalls []*ssa.Call
	for _, ci := range callsIn(cl) {
		if c, ok := ci.(*ssa.Call); ok && staticCallee(&c.Call) == w.run {
			runCalls = append(runCalls, c)
		}
	}
	if len(runCalls) != 1 {
		c19wSkip(r, "call of run in "+lbl, "-", shortFunc(cl), fmt.Sprintf("expected one direct call of run in the handler, found %d", len(runCalls)))
		return
	}
	rc := runCalls[0]
	paths, _, ok := funcPaths(cl, 4096)
	if !ok {
		c19wSkip(r, "paths of "+lbl, "-", shortFunc(cl), "too many paths")
		return
	}
	r.paths += len(paths)
	var filler *ssa.Function
	if len(w.fillers) == 1 {
		filler = w.fillers[0]
	}
	gated, argsOK, retOK, otherOK := true, true, true, true
	var detail []string
	gates := map[*ssa.Function]bool{}
	for _, p := range paths {
		ret := returnOf(p.Blocks[len(p.Blocks)-1])
		if ret == nil || len(ret.Results) != 1 {
			continue
		}
		if p.Contains(rc.Block()) {
			// gate facts
			haveFill := false
			for _, f := range p.Facts {
				e, isNil, ok := c19wErrNilFact(p, f)
				if !ok || !isNil {
					continue
				}
				call := c19wCallOfErr(e)
				if call == nil {
					continue
				}
				cal := staticCallee(&call.Call)
				if cal == nil {
					continue
				}
				if cal == filler {
					haveFill = true
					// called with the closure's own parameters
					for i, a := range call.Call.Args {
						if !c19wIsStringSlice(a.Type()) {
							continue
						}
						if pa, isP := unwrap(a).(*ssa.Parameter); !isP || pa.Parent() != cl {
							argsOK = false
							detail = append(detail, fmt.Sprintf("argument %d of %s is not the argument list the handler received", i, shortFunc(cal)))
						}
					}
				} else if cal != w.run {
					gates[cal] = true
				}
			}
			if !haveFill {
				gated = false
			}
			if unwrap(p.Resolve(ret.Results[0])) != ssa.Value(rc) {
				retOK = false
			}
		} else {
			// a path that does not run the body returns a value it knows to be non-nil
			v := p.Resolve(ret.Results[0])
			known := false
			for _, f := range p.Facts {
				if e, isNil, ok := c19wErrNilFact(p, f); ok && !isNil && unwrap(e) == unwrap(v) {
					known = true
				}
			}
			if !known {
				otherOK = false
				detail = append(detail, "a path that skips run returns a value not known to be a non-nil error")
			}
		}
	}
	pos := r.Prog.Pos(rc.Pos())
	fill := "(none)"
	if filler != nil {
		fill = shortFunc(filler)
	}
	r.Check(c19wRule, "run gated by the filler in "+lbl, pos, shortFunc(cl), "every path of the handler that calls run knows "+fill+"(...) == nil", gated && filler != nil, strings.Join(detail, "; "))
	r.Check(c19wRule, "filler receives the handler's parameters in "+lbl, pos, shortFunc(cl), "the filler is called with the cobra command and the argument list the handler received", argsOK, strings.Join(detail, "; "))
	r.Check(c19wRule, "handler returns run's result in "+lbl, pos, shortFunc(cl), "on the path that calls run the handler returns run's own result", retOK, "")
	r.Check(c19wRule, "handler skips run only with an error in "+lbl, pos, shortFunc(cl), "every path of the handler that does not call run returns a value known to be a non-nil error", otherOK, strings.Join(detail, "; "))
	// the other gates refuse only for a reason
	gl := []*ssa.Function{}
	for g := range gates {
		gl = append(gl, g)
	}
	sort.Slice(gl, func(i, j int) bool { return funcName(gl[i]) < funcName(gl[j]) })
	for _, g := range gl {
		if len(g.Blocks) == 0 || !r.Prog.IsRuleSite(g) {
			continue
		}
		w.checkRefusals(r, g, filler, "gate "+shortFunc(g)+" of "+lbl)
	}
}

// argsField: the []string fields of T that the filler stores its []string parameter into.
func (w *c19wCmd) argsFields(filler *ssa.Function) map[int]bool {
	out := map[int]bool{}
	if filler == nil {
		return out
	}
	for _, b := range filler.Blocks {
		for _, in := range b.Instrs {
			s, ok := in.(*ssa.Store)
			if !ok {
				continue
			}
			fa, ok := s.Addr.(*ssa.FieldAddr)
			if !ok || namedOf(fa.X.Type()) != w.T {
				continue
			}
			if p, ok := unwrap(s.Val).(*ssa.Parameter); ok && c19wIsStringSlice(p.Type()) {
				out[fa.Field] = true
			}
		}
	}
	return out
}

func c19wIsStringSlice(t types.Type) bool {
	s, ok := t.Underlying().(*types.Slice)
	if !ok {
		return false
	}
	b, ok := s.Elem().Underlying().(*types.Basic)
	return ok && b.Kind() == types.String
}

// c19wLenFact interprets a fact comparing len(X) with an integer constant (or X with "" for strings):
// returns X and the set of lengths 0..8 for which the fact holds.
func c19wLenFact(f Fact) (ssa.Value, [9]bool, bool) {
	var set [9]bool
	bo, ok := f.V.(*ssa.BinOp)
	if !ok {
		return nil, set, false
	}
	// truth of the original expression f.V on this path
	truth := f.Pol
	switch bo.Op {
	case token.NEQ, token.GEQ, token.LEQ:
		truth = !f.Pol
	case token.EQL, token.LSS, token.GTR:
	default:
		return nil, set, false
	}
	x, y := bo.X, bo.Y
	op := bo.Op
	lenArg := func(v ssa.Value) ssa.Value {
		if c, ok := v.(*ssa.Call); ok {
			if b, ok := c.Call.Value.(*ssa.Builtin); ok && b.Name() == "len" && len(c.Call.Args) == 1 {
				return c.Call.Args[0]
			}
		}
		return nil
	}
	// string compared with ""
	if cs, ok := constString(y); ok && cs == "" && (op == token.EQL || op == token.NEQ) {
		for n := range set {
			set[n] = ((n == 0) == (op == token.EQL)) == truth
		}
		return x, set, true
	}
	if cs, ok := constString(x); ok && cs == "" && (op == token.EQL || op == token.NEQ) {
		for n := range set {
			set[n] = ((n == 0) == (op == token.EQL)) == truth
		}
		return y, set, true
	}
	var X ssa.Value
	var c int64
	swapped := false
	if la := lenArg(x); la != nil {
		if k, ok := constInt(y); ok {
			X, c = la, k
		}
	} else if la := lenArg(y); la != nil {
		if k, ok := constInt(x); ok {
			X, c, swapped = la, k, true
		}
	}
	if X == nil {
		return nil, set, false
	}
	for n := range set {
		a, b := int64(n), c
		if swapped {
			a, b = c, int64(n)
		}
		set[n] = constant.Compare(constant.MakeInt64(a), op, constant.MakeInt64(b)) == truth
	}
	return X, set, true
}

func c19wOnlyZero(s [9]bool) bool {
	if !s[0] {
		return false
	}
	for n := 1; n < len(s); n++ {
		if s[n] {
			return false
		}
	}
	return true
}

func c19wExcludesZero(s [9]bool) bool { return !s[0] }

// checkRefusals: every path of g returning something other than a known nil carries a reason.
func (w *c19wCmd) checkRefusals(r *Run, g *ssa.Function, filler *ssa.Function, lbl string) {
	paths, _, ok := funcPaths(g, 4096)
	if !ok {
		c19wSkip(r, "paths of "+lbl, "-", shortFunc(g), "too many paths")
		return
	}
	r.paths += len(paths)
	argF := w.argsFields(filler)
	bad := 0
	n := 0
	var where string
	for _, p := range paths {
		ret := returnOf(p.Blocks[len(p.Blocks)-1])
		if ret == nil || len(ret.Results) == 0 {
			continue
		}
		v := p.Resolve(ret.Results[len(ret.Results)-1])
		if isNilConst(v) || w.knownNil(p, v) {
			continue
		}
		n++
		reason := false
		for _, f := range p.Facts {
			if e, isNil, ok := c19wErrNilFact(p, f); ok && !isNil && c19wCallOfErr(e) != nil {
				reason = true
			}
			if X, set, ok := c19wLenFact(f); ok && c19wOnlyZero(set) {
				if w.isArgs(X, g, argF) {
					reason = true
				}
			}
		}
		if !reason {
			bad++
			where = r.Prog.Pos(ret.Pos())
		}
	}
	if where == "" {
		where = r.Prog.Pos(g.Pos())
	}
	r.Check(c19wRule, "refusals of "+lbl, where, shortFunc(g), "every path that returns an error knows a call to have failed or the argument list to be empty", bad == 0, fmt.Sprintf("%d error paths, %d without a reason", n, bad))
}

func (w *c19wCmd) knownNil(p *Path, v ssa.Value) bool {
	for _, f := range p.Facts {
		if e, isNil, ok := c19wErrNilFact(p, f); ok && isNil && unwrap(e) == unwrap(v) {
			return true
		}
	}
	return false
}

// isArgs: X is the []string parameter of fn or a load of an args field of the receiver.
func (w *c19wCmd) isArgs(X ssa.Value, fn *ssa.Function, argF map[int]bool) bool {
	X = unwrap(X)
	if p, ok := X.(*ssa.Parameter); ok && c19wIsStringSlice(p.Type()) {
		return true
	}
	if idx, ok := c19wRecvFieldLoad(X, w.T); ok && argF[idx] {
		return true
	}
	return false
}

func (w *c19wCmd) checkFiller(r *Run, f *ssa.Function) {
	lbl := shortFunc(f) + " (" + w.c.label + ")"
	paths, _, ok := funcPaths(f, 8192)
	if !ok {
		c19wSkip(r, "paths of "+lbl, "-", shortFunc(f), "too many paths")
		return
	}
	r.paths += len(paths)
	var argsP *ssa.Parameter
	for _, p := range f.Params {
		if c19wIsStringSlice(p.Type()) {
			argsP = p
		}
	}
	nameBad, nsBad, failedBad, succ, infeasible := 0, 0, 0, 0, 0
	var nameWhy, nsWhy, failWhy string
	for _, p := range paths {
		ret := returnOf(p.Blocks[len(p.Blocks)-1])
		if ret == nil || len(ret.Results) == 0 {
			continue
		}
		v := p.Resolve(ret.Results[len(ret.Results)-1])
		if !isNilConst(v) && !w.knownNil(p, v) {
			continue
		}
		if c19wFlagLookupFailed(p, f) {
			// infeasible under (d): GetString("namespace") fails only when the flag is not registered
			infeasible++
			continue
		}
		succ++
		// last stores on the path
		var lastName, lastNS *ssa.Store
		for _, b := range p.Blocks {
			for _, in := range b.Instrs {
				if s, ok := w.storesField(in, w.nameF); ok {
					lastName = s
				}
				if s, ok := w.storesField(in, w.nsF); ok {
					lastNS = s
				}
			}
		}
		argsEmpty := false
		flagKnownEmpty, flagKnownSet := false, false
		for _, fct := range p.Facts {
			if e, isNil, ok := c19wErrNilFact(p, fct); ok && !isNil && c19wCallOfErr(e) != nil {
				failedBad++
				failWhy = "a path returning success knows " + calleeName(&c19wCallOfErr(e).Call) + " to have failed"
			}
			if X, set, ok := c19wLenFact(fct); ok {
				if argsP != nil && unwrap(X) == ssa.Value(argsP) && c19wOnlyZero(set) {
					argsEmpty = true
				}
				if c19wIsNamespaceFlag(unwrap(X), f) {
					if c19wOnlyZero(set) {
						flagKnownEmpty = true
					} else if c19wExcludesZero(set) {
						flagKnownSet = true
					}
				}
			}
		}
		// name
		if !argsEmpty {
			if lastName == nil {
				nameBad++
				nameWhy = "a successful path with a possibly non-empty argument list leaves " + w.nameN + " unset"
			} else if !c19wIsFirstArg(p.Resolve(lastName.Val), argsP) {
				nameBad++
				nameWhy = w.nameN + " is stored from something other than args[0] at " + r.Prog.Pos(lastName.Pos())
			}
		} else if lastName != nil && !c19wIsFirstArg(p.Resolve(lastName.Val), argsP) {
			nameBad++
			nameWhy = w.nameN + " is stored from something other than args[0] at " + r.Prog.Pos(lastName.Pos())
		}
		// namespace
		switch {
		case lastNS == nil:
			nsBad++
			nsWhy = "a successful path leaves " + w.nsN + " unset"
		case flagKnownSet:
			if !c19wIsNamespaceFlag(unwrap(p.Resolve(lastNS.Val)), f) {
				nsBad++
				nsWhy = "the --namespace flag is known to be set but " + w.nsN + " is stored from something else at " + r.Prog.Pos(lastNS.Pos())
			}
		case flagKnownEmpty:
			if !c19wIsKubeconfigNamespace(unwrap(p.Resolve(lastNS.Val)), w.T) {
				nsBad++
				nsWhy = "the --namespace flag is known to be empty but " + w.nsN + " is not the kubeconfig namespace at " + r.Prog.Pos(lastNS.Pos())
			}
		default:
			nsBad++
			nsWhy = "a successful path stores " + w.nsN + " without deciding whether the --namespace flag is set"
		}
	}
	pos := r.Prog.Pos(f.Pos())
	r.Check(c19wRule, "successful paths of "+lbl, pos, shortFunc(f), "the filler has a path returning nil", succ > 0, fmt.Sprintf("%d successful paths; %d paths on which the lookup of the registered --namespace flag fails are infeasible under (d) and skipped", succ, infeasible))
	r.Check(c19wRule, "name = args[0] in "+lbl, pos, shortFunc(f), "on every successful path "+w.nameN+" is last stored from args[0], unless the path knows args to be empty", nameBad == 0, nameWhy)
	r.Check(c19wRule, "namespace = flag or kubeconfig in "+lbl, pos, shortFunc(f), "on every successful path "+w.nsN+" is the --namespace flag when it is set and the kubeconfig namespace when it is empty", nsBad == 0, nsWhy)
	r.Check(c19wRule, "no success after a failed call in "+lbl, pos, shortFunc(f), "no path returning nil knows one of its calls to have returned an error", failedBad == 0, failWhy)
	w.checkRefusals(r, f, f, "filler "+lbl)
}

// c19wIsFirstArg: v is args[0] of the []string parameter.
func c19wIsFirstArg(v ssa.Value, argsP *ssa.Parameter) bool {
	if argsP == nil {
		return false
	}
	v = unwrap(v)
	var x, idx ssa.Value
	switch u := v.(type) {
	case *ssa.UnOp:
		ia, ok := u.X.(*ssa.IndexAddr)
		if !ok || u.Op != token.MUL {
			return false
		}
		x, idx = ia.X, ia.Index
	case *ssa.Index:
		x, idx = u.X, u.Index
	default:
		return false
	}
	k, ok := constInt(idx)
	return ok && k == 0 && unwrap(x) == ssa.Value(argsP)
}

// c19wIsNamespaceFlag: v is result 0 of (*pflag.FlagSet).GetString(cmd.Flags(), "namespace") for a
// *cobra.Command parameter of fn.
func c19wIsNamespaceFlag(v ssa.Value, fn *ssa.Function) bool {
	ex, ok := v.(*ssa.Extract)
	if !ok || ex.Index != 0 {
		return false
	}
	c, ok := ex.Tuple.(*ssa.Call)
	if !ok || calleeName(&c.Call) != "(github.com/spf13/pflag.FlagSet).GetString" && calleeName(&c.Call) != "(*github.com/spf13/pflag.FlagSet).GetString" {
		return false
	}
	if len(c.Call.Args) != 2 {
		return false
	}
	if s, ok := constString(c.Call.Args[1]); !ok || s != "namespace" {
		return false
	}
	if p, ok := unwrap(c.Call.Args[0]).(*ssa.Parameter); ok && p.Parent() == fn {
		return true // the flag set itself is handed in
	}
	fc, ok := unwrap(c.Call.Args[0]).(*ssa.Call)
	if !ok || !strings.HasSuffix(calleeName(&fc.Call), "cobra.Command).Flags") || len(fc.Call.Args) != 1 {
		return false
	}
	p, ok := unwrap(fc.Call.Args[0]).(*ssa.Parameter)
	return ok && p.Parent() == fn
}

// c19wIsKubeconfigNamespace: v is result 0 of Namespace() invoked on ToRawKubeConfigLoader() of a
// ConfigFlags loaded from a field of the options.
func c19wIsKubeconfigNamespace(v ssa.Value, T *types.Named) bool {
	ex, ok := v.(*ssa.Extract)
	if !ok || ex.Index != 0 {
		return false
	}
	c, ok := ex.Tuple.(*ssa.Call)
	if !ok || !c.Call.IsInvoke() || c.Call.Method.Name() != "Namespace" {
		return false
	}
	// the kubeconfig loader, however it was obtained: a clientcmd.ClientConfig
	n, _ := c.Call.Value.Type().(*types.Named)
	return n != nil && n.Obj().Name() == "ClientConfig" && n.Obj().Pkg() != nil && n.Obj().Pkg().Path() == "k8s.io/client-go/tools/clientcmd"
}

// checkConstructor: the function that builds the cobra.Command carrying the handler registers the
// options' ConfigFlags on that command's flag set on every path.
func (w *c19wCmd) checkConstructor(r *Run, cl *ssa.Function) {
	ctor, cmd := w.ctorOf[cl], w.cmdOf[cl]
	if ctor == nil {
		return
	}
	found := false
	var at *ssa.BasicBlock
	for _, ci := range callsIn(ctor) {
		c, ok := ci.(*ssa.Call)
		if !ok || !strings.HasSuffix(calleeName(&c.Call), "genericclioptions.ConfigFlags).AddFlags") || len(c.Call.Args) != 2 {
			continue
		}
		fc, ok := unwrap(c.Call.Args[1]).(*ssa.Call)
		if !ok || !strings.HasSuffix(calleeName(&fc.Call), "cobra.Command).Flags") || len(fc.Call.Args) != 1 {
			continue
		}
		if cmd == nil || unwrap(fc.Call.Args[0]) != unwrap(cmd) {
			continue
		}
		if _, ok := c19wRecvFieldLoad(c.Call.Args[0], w.T); !ok {
			continue
		}
		found, at = true, c.Block()
	}
	onAll := found
	if found {
		for _, b := range ctor.Blocks {
			if isReturnBlock(b) && !at.Dominates(b) {
				onAll = false
			}
		}
	}
	r.Check(c19wRule, "config flags registered for handler "+shortFunc(cl)+" ("+w.c.label+")", r.Prog.Pos(ctor.Pos()), shortFunc(ctor), "the constructor calls options.configFlags.AddFlags(cmd.Flags()) for the command carrying the handler, on every path (so that --namespace exists and is the flag the filler reads)", onAll, fmt.Sprintf("found=%v", found))
}

// c19wFlagLookupFailed: the path knows the error of GetString("namespace") on the command's flag set
// to be non-nil. With the flag registered by the constructor (part (d) of the rule) and of type
// string (genericclioptions.ConfigFlags), pflag's GetString cannot fail, so such a path is infeasible.
func c19wFlagLookupFailed(p *Path, fn *ssa.Function) bool {
	for _, f := range p.Facts {
		e, isNil, ok := c19wErrNilFact(p, f)
		if !ok || isNil {
			continue
		}
		ex, ok := unwrap(e).(*ssa.Extract)
		if !ok {
			continue
		}
		for _, ref := range *ex.Tuple.Referrers() {
			if e0, ok := ref.(*ssa.Extract); ok && e0.Index == 0 && c19wIsNamespaceFlag(e0, fn) {
				return true
			}
		}
		// the value result may be unused: recognise the call itself
		if c, ok := ex.Tuple.(*ssa.Call); ok && strings.HasSuffix(calleeName(&c.Call), "pflag.FlagSet).GetString") && len(c.Call.Args) == 2 {
			if s, ok := constString(c.Call.Args[1]); ok && s == "namespace" {
				return true
			}
		}
	}
	return false
}

// checkAttached: the command built by the handler's constructor is reachable from the root command of a
// main package through AddCommand calls that execute on every path of the function making them.
func (w *c19wCmd) checkAttached(r *Run, cl *ssa.Function) {
	ctor := w.ctorOf[cl]
	if ctor == nil {
		return
	}
	all := map[*ssa.Function]bool{}
	for _, f := range r.Prog.RepoFuncs() {
		all[f] = true
	}
	var chain []string
	seen := map[*ssa.Function]bool{}
	var attached func(fn *ssa.Function) bool
	attached = func(fn *ssa.Function) bool {
		if seen[fn] {
			return false
		}
		seen[fn] = true
		for _, cs := range callSitesOf(fn, all) {
			call, ok := cs.(*ssa.Call)
			if !ok {
				continue
			}
			g := call.Parent()
			if g.Pkg != nil && g.Pkg.Pkg.Name() == "main" {
				chain = append(chain, shortFunc(g))
				return true
			}
			if c19wIsReturned(call) {
				// g only wraps the constructor and returns its command
				if attached(g) {
					chain = append(chain, shortFunc(g))
					return true
				}
				continue
			}
			if !c19wFlowsToAddCommand(call) {
				continue
			}
			onAll := true
			for _, b := range g.Blocks {
				if isReturnBlock(b) && !call.Block().Dominates(b) {
					onAll = false
				}
			}
			if !onAll {
				continue
			}
			if attached(g) {
				chain = append(chain, shortFunc(g))
				return true
			}
		}
		return false
	}
	ok := attached(ctor)
	if !ok {
		// a constructor (or one of its wrappers) that is also used as a function value — a table of
		// constructors the root loops over — cannot be followed statically: not decided
		for f := range seen {
			if c19wUsedAsValue(r, f) {
				c19wSkip(r, "command tree of handler "+shortFunc(cl)+" ("+w.c.label+")", r.Prog.Pos(ctor.Pos()), shortFunc(ctor), shortFunc(f)+" is used as a function value (registered through a table)")
				return
			}
		}
	}
	r.Check(c19wRule, "command of handler "+shortFunc(cl)+" is part of the kubectl-eds command tree ("+w.c.label+")", r.Prog.Pos(ctor.Pos()), shortFunc(ctor), "the command is added with AddCommand, on every path, to a command that is in turn added up to the root command built by a main package", ok, strings.Join(chain, " <- "))
}

// c19wFlowsToAddCommand: the call's result is an element of the variadic argument of (*cobra.Command).AddCommand.
func c19wFlowsToAddCommand(call *ssa.Call) bool {
	for _, ref := range *call.Referrers() {
		st, ok := ref.(*ssa.Store)
		if !ok || st.Val != ssa.Value(call) {
			continue
		}
		ia, ok := st.Addr.(*ssa.IndexAddr)
		if !ok {
			continue
		}
		al, ok := ia.X.(*ssa.Alloc)
		if !ok {
			continue
		}
		for _, r2 := range *al.Referrers() {
			sl, ok := r2.(*ssa.Slice)
			if !ok {
				continue
			}
			for _, r3 := range *sl.Referrers() {
				if c, ok := r3.(*ssa.Call); ok && strings.HasSuffix(calleeName(&c.Call), "cobra.Command).AddCommand") {
					return true
				}
			}
		}
	}
	return false
}

// c19wIsReturned: the call's result is returned by the calling function on every path.
func c19wIsReturned(call *ssa.Call) bool {
	g := call.Parent()
	n := 0
	for _, b := range g.Blocks {
		ret := returnOf(b)
		if ret == nil {
			continue
		}
		if len(ret.Results) != 1 || unwrap(ret.Results[0]) != ssa.Value(call) {
			return false
		}
		n++
	}
	return n > 0
}

// c19wUsedAsValue: fn appears as an operand other than the callee of a static call somewhere in the repository.
func c19wUsedAsValue(r *Run, fn *ssa.Function) bool {
	fns := r.Prog.RepoFuncs()
	seenPkg := map[*ssa.Package]bool{}
	for _, f := range r.Prog.RepoFuncs() {
		if f.Pkg != nil && !seenPkg[f.Pkg] {
			seenPkg[f.Pkg] = true
			if in := f.Pkg.Func("init"); in != nil {
				fns = append(fns, in)
			}
		}
	}
	for _, f := range fns {
		for _, b := range f.Blocks {
			for _, in := range b.Instrs {
				for i, op := range in.Operands(nil) {
					if op == nil || *op != ssa.Value(fn) {
						continue
					}
					if ci, ok := in.(ssa.CallInstruction); ok && i == 0 && ci.Common().Value == ssa.Value(fn) {
						continue
					}
					return true
				}
			}
		}
	}
	return false
}
