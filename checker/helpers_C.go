package main

// Generic helpers added for C01 / C04 / C15: range-loop recognition, loop elements, decoded
// comparison facts, decision tables of boolean functions, slice build chains, membership tests,
// readable and position-free descriptions of values and facts.

import (
	"fmt"
	"go/token"
	"go/types"
	"sort"
	"strings"

	"golang.org/x/tools/go/ssa"
)

// ---------------------------------------------------------------------------------------------
// Loops

// sliceLoopC is a `for i, x := range s` loop over a slice (go/ssa rangeindex form).
type sliceLoopC struct {
	Fn     *ssa.Function
	Header *ssa.BasicBlock // tests idx < len(s)
	Body   *ssa.BasicBlock // first block of the body
	Done   *ssa.BasicBlock // reached when the slice is exhausted
	Idx    ssa.Value       // index of the current iteration
	Slice  ssa.Value       // the ranged slice (operand of len)
	In     map[*ssa.BasicBlock]bool
}

// mapLoopC is a `for k, v := range m` loop over a map.
type mapLoopC struct {
	Fn     *ssa.Function
	Header *ssa.BasicBlock
	Body   *ssa.BasicBlock
	Done   *ssa.BasicBlock
	Next   *ssa.Next
	Map    ssa.Value
	In     map[*ssa.BasicBlock]bool
}

func lastIfC(b *ssa.BasicBlock) *ssa.If {
	if len(b.Instrs) == 0 {
		return nil
	}
	i, _ := b.Instrs[len(b.Instrs)-1].(*ssa.If)
	return i
}

// loopBlocksC: the header plus every block dominated by the body's first block.
func loopBlocksC(fn *ssa.Function, header, body *ssa.BasicBlock) map[*ssa.BasicBlock]bool {
	in := map[*ssa.BasicBlock]bool{header: true}
	for _, b := range fn.Blocks {
		if body.Dominates(b) {
			in[b] = true
		}
	}
	return in
}

func builtinCallC(v ssa.Value, name string) *ssa.Call {
	c, ok := v.(*ssa.Call)
	if !ok {
		return nil
	}
	if b, ok := c.Call.Value.(*ssa.Builtin); ok && b.Name() == name {
		return c
	}
	return nil
}

func sliceLoopsC(fn *ssa.Function) []*sliceLoopC {
	var out []*sliceLoopC
	for _, b := range fn.Blocks {
		iff := lastIfC(b)
		if iff == nil || len(b.Succs) != 2 {
			continue
		}
		cmp, ok := iff.Cond.(*ssa.BinOp)
		if !ok || cmp.Op != token.LSS {
			continue
		}
		inc, ok := cmp.X.(*ssa.BinOp)
		if !ok || inc.Op != token.ADD || inc.Block() != b {
			continue
		}
		phi, ok := inc.X.(*ssa.Phi)
		if !ok || phi.Block() != b {
			continue
		}
		if one, ok := constInt(inc.Y); !ok || one != 1 {
			continue
		}
		startsAtMinusOne, backIsInc := false, false
		for _, e := range phi.Edges {
			if c, ok := constInt(e); ok && c == -1 {
				startsAtMinusOne = true
			} else if e == ssa.Value(inc) {
				backIsInc = true
			}
		}
		if !startsAtMinusOne || !backIsInc {
			continue
		}
		ln := builtinCallC(cmp.Y, "len")
		if ln == nil {
			continue
		}
		if _, isSlice := ln.Call.Args[0].Type().Underlying().(*types.Slice); !isSlice {
			continue
		}
		l := &sliceLoopC{Fn: fn, Header: b, Body: b.Succs[0], Done: b.Succs[1], Idx: inc, Slice: ln.Call.Args[0]}
		l.In = loopBlocksC(fn, l.Header, l.Body)
		out = append(out, l)
	}
	return out
}

func mapLoopsC(fn *ssa.Function) []*mapLoopC {
	var out []*mapLoopC
	for _, b := range fn.Blocks {
		iff := lastIfC(b)
		if iff == nil || len(b.Succs) != 2 {
			continue
		}
		ex, ok := iff.Cond.(*ssa.Extract)
		if !ok || ex.Index != 0 {
			continue
		}
		nx, ok := ex.Tuple.(*ssa.Next)
		if !ok || nx.IsString || nx.Block() != b {
			continue
		}
		rg, ok := nx.Iter.(*ssa.Range)
		if !ok {
			continue
		}
		if _, isMap := rg.X.Type().Underlying().(*types.Map); !isMap {
			continue
		}
		l := &mapLoopC{Fn: fn, Header: b, Body: b.Succs[0], Done: b.Succs[1], Next: nx, Map: rg.X}
		l.In = loopBlocksC(fn, l.Header, l.Body)
		out = append(out, l)
	}
	return out
}

// Key / Val return the extracted key and value of the current iteration (nil if unused).
func (l *mapLoopC) Key() ssa.Value { return l.extract(1) }
func (l *mapLoopC) Val() ssa.Value { return l.extract(2) }
func (l *mapLoopC) extract(i int) ssa.Value {
	for _, r := range refs(l.Next) {
		if e, ok := r.(*ssa.Extract); ok && e.Index == i {
			return e
		}
	}
	return nil
}

// sameValueC: identical SSA value or identical structural key (two loads of one field path).
func sameValueC(k *keyer, a, b ssa.Value) bool {
	if a == b {
		return true
	}
	if a == nil || b == nil {
		return false
	}
	return k.key(a) == k.key(b)
}

// isElemAddr reports whether v is the address of the loop's current element: &s[idx], or the
// per-iteration copy (a local cell whose only store is the element loaded from &s[idx]).
func (l *sliceLoopC) isElemAddr(k *keyer, v ssa.Value) bool {
	switch x := v.(type) {
	case *ssa.IndexAddr:
		return x.Index == l.Idx && sameValueC(k, x.X, l.Slice)
	case *ssa.Alloc:
		var stores []*ssa.Store
		for _, r := range refs(x) {
			if st, ok := r.(*ssa.Store); ok && st.Addr == ssa.Value(x) {
				stores = append(stores, st)
			}
		}
		if len(stores) != 1 || !l.In[stores[0].Block()] {
			return false
		}
		ld, ok := stores[0].Val.(*ssa.UnOp)
		if !ok || ld.Op != token.MUL {
			return false
		}
		ia, ok := ld.X.(*ssa.IndexAddr)
		return ok && ia.Index == l.Idx && sameValueC(k, ia.X, l.Slice)
	}
	return false
}

// isElem reports whether v is the current element: its address (see isElemAddr) or, for slices of
// pointers / scalars, the value loaded from it.
func (l *sliceLoopC) isElem(k *keyer, v ssa.Value) bool {
	v = unwrap(v)
	if l.isElemAddr(k, v) {
		return true
	}
	if ld, ok := v.(*ssa.UnOp); ok && ld.Op == token.MUL {
		return l.isElemAddr(k, ld.X)
	}
	return false
}

// elemPath: if v is a field path rooted at the loop's current element, returns the field names.
func (l *sliceLoopC) elemPath(k *keyer, v ssa.Value) ([]string, bool) {
	root, p := accessPath(unwrap(v))
	if l.isElemAddr(k, root) {
		return p, true
	}
	return nil, false
}

func pathIsC(p []string, want ...string) bool {
	if len(p) != len(want) {
		return false
	}
	for i := range p {
		if p[i] != want[i] {
			return false
		}
	}
	return true
}

// pathIsMetaC matches p against want, ignoring embedded ObjectMeta/TypeMeta selectors.
func pathIsMetaC(p []string, want ...string) bool {
	var q []string
	for _, f := range p {
		if f != "ObjectMeta" {
			q = append(q, f)
		}
	}
	return pathIsC(q, want...)
}

// backEdgePathsC enumerates the acyclic paths of one iteration: from the body's first block to the
// loop header (the iteration continues with the next element).
func backEdgePathsC(fn *ssa.Function, k *keyer, header, body *ssa.BasicBlock, in map[*ssa.BasicBlock]bool, cap int) ([]*Path, bool) {
	isHeader := func(b *ssa.BasicBlock) bool { return b == header }
	stop := func(b *ssa.BasicBlock) bool { return b == header || !in[b] } // never follow a path out of the loop
	return enumPaths(fn, k, body, isHeader, stop, cap)
}

// ---------------------------------------------------------------------------------------------
// Facts

// cmpFactC is a decoded comparison fact: (X Op Y) has truth value Pol, Op is "==" or "<".
type cmpFactC struct {
	Op   string
	X, Y ssa.Value
	Pol  bool
}

func decodeCmpC(f Fact) (cmpFactC, bool) {
	b, ok := f.V.(*ssa.BinOp)
	if !ok {
		return cmpFactC{}, false
	}
	switch b.Op {
	case token.EQL, token.NEQ:
		return cmpFactC{"==", b.X, b.Y, f.Pol}, true
	case token.LSS, token.GEQ:
		return cmpFactC{"<", b.X, b.Y, f.Pol}, true
	case token.GTR, token.LEQ:
		return cmpFactC{"<", b.Y, b.X, f.Pol}, true
	}
	return cmpFactC{}, false
}

// eqFactC reports whether the set holds (a == b) with polarity pol for values accepted by ma / mb.
func eqFactC(fs factSet, pol bool, ma, mb func(ssa.Value) bool) bool {
	for _, f := range fs {
		c, ok := decodeCmpC(f)
		if !ok || c.Op != "==" || c.Pol != pol {
			continue
		}
		if (ma(c.X) && mb(c.Y)) || (ma(c.Y) && mb(c.X)) {
			return true
		}
	}
	return false
}

// nilFactC: (x == nil) has polarity pol for an x accepted by m.
func nilFactC(fs factSet, pol bool, m func(ssa.Value) bool) bool {
	return eqFactC(fs, pol, m, isNilConst)
}

// valueFactC: the boolean value accepted by m is known to be pol.
func valueFactC(fs factSet, pol bool, m func(ssa.Value) bool) bool {
	for _, f := range fs {
		if f.Pol == pol && m(f.V) {
			return true
		}
	}
	return false
}

// boolCaseC is one row of the decision table of a boolean result.
type boolCaseC struct {
	P      *Path
	Facts  factSet
	Result bool
	Ret    *ssa.Return
}

// boolCasesC enumerates the decision table of result #idx of fn: one row per entry→return path and
// truth value; a non-constant result is split into the row where it is true and the row where it
// is false (its condition decomposed into facts), rows contradicting the path facts are dropped.
func boolCasesC(fn *ssa.Function, idx int, cap int) ([]boolCaseC, *keyer, bool) {
	paths, k, ok := funcPaths(fn, cap)
	if !ok {
		return nil, k, false
	}
	var out []boolCaseC
	for _, p := range paths {
		ret := returnOf(p.Blocks[len(p.Blocks)-1])
		if ret == nil || idx >= len(ret.Results) {
			return nil, k, false
		}
		res := p.Resolve(ret.Results[idx])
		if b, isConst := constBool(res); isConst {
			out = append(out, boolCaseC{P: p, Facts: p.Facts, Result: b, Ret: ret})
			continue
		}
		for _, pol := range []bool{true, false} {
			fs := factSet{}
			for kk, f := range p.Facts {
				fs[kk] = f
			}
			contra := false
			for _, f := range k.normCond(res, pol) {
				if fs.has(f.Key, !f.Pol) {
					contra = true
				}
				fs[fkey(f)] = f
			}
			if !contra {
				out = append(out, boolCaseC{P: p, Facts: fs, Result: pol, Ret: ret})
			}
		}
	}
	return out, k, true
}

// ---------------------------------------------------------------------------------------------
// Slice build chains

// appendPartsC splits a builtin append call into its base slice, the individually appended
// elements (variadic backing array) and, for append(a, b...), the spread slice.
func appendPartsC(c *ssa.Call) (base ssa.Value, elems []ssa.Value, spread ssa.Value) {
	base = c.Call.Args[0]
	if len(c.Call.Args) < 2 {
		return base, nil, nil
	}
	arg := c.Call.Args[1]
	if sl, ok := arg.(*ssa.Slice); ok {
		if a, ok := sl.X.(*ssa.Alloc); ok && strings.Contains(a.Comment, "varargs") {
			for _, r := range refs(a) {
				if ia, ok := r.(*ssa.IndexAddr); ok {
					for _, r2 := range refs(ia) {
						if st, ok := r2.(*ssa.Store); ok && st.Addr == ssa.Value(ia) {
							elems = append(elems, st.Val)
						}
					}
				}
			}
			return base, elems, nil
		}
	}
	if isNilConst(arg) {
		return base, nil, nil
	}
	return base, nil, arg
}

// sliceChainC walks the construction of a slice value backwards through phis, re-slicing, local
// variable cells and append calls. It returns the append calls found (following both the base and a
// spread argument) and the leaves the chain bottoms out in (nil constants and empty literals are
// not reported as leaves).
func sliceChainC(v ssa.Value) (appends []*ssa.Call, leaves []ssa.Value) {
	return sliceChainOptC(v, true, false)
}

// sliceChainIPC additionally follows the construction into repository helpers: a slice (or a field
// of a struct) returned by a helper is what the helper's returns yield. The appends found may
// therefore belong to other functions than v's.
func sliceChainIPC(v ssa.Value) (appends []*ssa.Call, leaves []ssa.Value) {
	return sliceChainOptC(v, true, true)
}

// sliceChainBaseC is sliceChainC without following spread arguments (append(a, b...) contributes
// only a): the caller inspects each spread itself.
func sliceChainBaseC(v ssa.Value) (appends []*ssa.Call, leaves []ssa.Value) {
	return sliceChainOptC(v, false, false)
}

func sliceChainOptC(v ssa.Value, followSpread, followCalls bool) (appends []*ssa.Call, leaves []ssa.Value) {
	repoCallee := func(c *ssa.CallCommon) *ssa.Function {
		if !followCalls {
			return nil
		}
		return repoCalleeC(c)
	}
	seen := map[ssa.Value]bool{}
	var rec func(v ssa.Value)
	var recField func(a *ssa.Alloc, fld int)
	var recFieldOfValue func(sv ssa.Value, fld int, orig ssa.Value)
	rec = func(v ssa.Value) {
		if v == nil || seen[v] {
			return
		}
		seen[v] = true
		switch x := v.(type) {
		case *ssa.Const:
			if !x.IsNil() {
				leaves = append(leaves, v)
			}
		case *ssa.Phi:
			for _, e := range x.Edges {
				rec(e)
			}
		case *ssa.Slice:
			if a, ok := x.X.(*ssa.Alloc); ok {
				if arr, ok := a.Type().Underlying().(*types.Pointer).Elem().Underlying().(*types.Array); ok && arr.Len() == 0 {
					return // empty literal
				}
			}
			rec(x.X)
		case *ssa.MakeSlice:
			if n, ok := constInt(x.Len); ok && n == 0 {
				return
			}
			leaves = append(leaves, v)
		case *ssa.ChangeType:
			rec(x.X)
		case *ssa.Call:
			if builtinCallC(x, "append") != nil {
				appends = append(appends, x)
				base, _, spread := appendPartsC(x)
				rec(base)
				if spread != nil && followSpread {
					rec(spread)
				}
				return
			}
			if cal := repoCallee(&x.Call); cal != nil && cal.Signature.Results().Len() == 1 {
				for _, b := range cal.Blocks {
					if ret := returnOf(b); ret != nil {
						rec(ret.Results[0])
					}
				}
				return
			}
			leaves = append(leaves, v)
		case *ssa.UnOp:
			if a, ok := x.X.(*ssa.Alloc); ok && x.Op == token.MUL {
				n := 0
				for _, r := range refs(a) {
					if st, ok := r.(*ssa.Store); ok && st.Addr == ssa.Value(a) {
						rec(st.Val)
						n++
					}
				}
				if n > 0 {
					return
				}
			}
			// field of a function-local struct variable (possibly filled from a helper's struct result)
			if fa, ok := x.X.(*ssa.FieldAddr); ok && x.Op == token.MUL {
				if a, ok := fa.X.(*ssa.Alloc); ok && localStructC(a) {
					recField(a, fa.Field)
					return
				}
			}
			leaves = append(leaves, v)
		case *ssa.Field:
			recFieldOfValue(x.X, x.Field, v)
		case *ssa.Extract:
			// slice result #i of a repository helper: what its returns yield
			if c, ok := x.Tuple.(*ssa.Call); ok {
				if cal := repoCallee(&c.Call); cal != nil {
					for _, b := range cal.Blocks {
						if ret := returnOf(b); ret != nil && x.Index < len(ret.Results) {
							rec(ret.Results[x.Index])
						}
					}
					return
				}
			}
			leaves = append(leaves, v)
		default:
			leaves = append(leaves, v)
		}
	}
	// recField: every value stored into field #fld of the local struct a, including the same field of
	// struct values stored into a as a whole
	seenField := map[[2]interface{}]bool{}
	recField = func(a *ssa.Alloc, fld int) {
		key := [2]interface{}{a, fld}
		if seenField[key] {
			return
		}
		seenField[key] = true
		for _, r := range refs(a) {
			switch y := r.(type) {
			case *ssa.FieldAddr:
				if y.Field != fld {
					continue
				}
				for _, r2 := range refs(y) {
					if st, ok := r2.(*ssa.Store); ok && st.Addr == ssa.Value(y) {
						rec(st.Val)
					}
				}
			case *ssa.Store:
				if y.Addr == ssa.Value(a) {
					recFieldOfValue(y.Val, fld, y.Val)
				}
			}
		}
	}
	// recFieldOfValue: field #fld of struct value sv (a load of a local struct, or a helper's result)
	recFieldOfValue = func(sv ssa.Value, fld int, orig ssa.Value) {
		switch y := sv.(type) {
		case *ssa.UnOp:
			if a, ok := y.X.(*ssa.Alloc); ok && y.Op == token.MUL && localStructC(a) {
				recField(a, fld)
				return
			}
		case *ssa.Call:
			if cal := repoCallee(&y.Call); cal != nil && cal.Signature.Results().Len() == 1 {
				for _, b := range cal.Blocks {
					if ret := returnOf(b); ret != nil {
						recFieldOfValue(ret.Results[0], fld, ret.Results[0])
					}
				}
				return
			}
		case *ssa.Extract:
			if c, ok := y.Tuple.(*ssa.Call); ok {
				if cal := repoCallee(&c.Call); cal != nil {
					for _, b := range cal.Blocks {
						if ret := returnOf(b); ret != nil && y.Index < len(ret.Results) {
							recFieldOfValue(ret.Results[y.Index], fld, ret.Results[y.Index])
						}
					}
					return
				}
			}
		case *ssa.Phi:
			for _, e := range y.Edges {
				recFieldOfValue(e, fld, e)
			}
			return
		}
		leaves = append(leaves, orig)
	}
	rec(v)
	return appends, leaves
}

// repoCalleeC: the statically known repository callee (with a body) of a call, nil otherwise.
func repoCalleeC(c *ssa.CallCommon) *ssa.Function {
	cal := staticCallee(c)
	if cal == nil || len(cal.Blocks) == 0 {
		return nil
	}
	root := cal
	for root.Parent() != nil {
		root = root.Parent()
	}
	if root.Pkg == nil {
		return nil
	}
	path := root.Pkg.Pkg.Path()
	if path != repoMod && !strings.HasPrefix(path, repoMod+"/") {
		return nil
	}
	if cal.Synthetic != "" {
		return nil
	}
	return cal
}

// localStructC: a is a function-local struct variable that is only accessed field-wise or copied as
// a whole (its address is never handed out), so every write to its fields is visible in the function.
func localStructC(a *ssa.Alloc) bool {
	if _, ok := a.Type().Underlying().(*types.Pointer).Elem().Underlying().(*types.Struct); !ok {
		return false
	}
	for _, r := range refs(a) {
		switch y := r.(type) {
		case *ssa.FieldAddr:
			for _, r2 := range refs(y) {
				switch z := r2.(type) {
				case *ssa.Store:
					if z.Addr != ssa.Value(y) {
						return false
					}
				case *ssa.UnOp:
					if z.Op != token.MUL {
						return false
					}
				case *ssa.DebugRef:
				default:
					return false
				}
			}
		case *ssa.Store:
			if y.Addr != ssa.Value(a) {
				return false
			}
		case *ssa.UnOp:
			if y.Op != token.MUL {
				return false
			}
		case *ssa.DebugRef:
		default:
			return false
		}
	}
	return true
}

// fieldStoresInC lists the stores in fn to a field `field` of a struct of named type pkg.typ.
func fieldStoresInC(fn *ssa.Function, pkg, typ, field string) []*ssa.Store {
	var out []*ssa.Store
	for _, b := range fn.Blocks {
		for _, in := range b.Instrs {
			st, ok := in.(*ssa.Store)
			if !ok {
				continue
			}
			fa, ok := st.Addr.(*ssa.FieldAddr)
			if !ok || fieldName(fa) != field {
				continue
			}
			if isPtrToNamed(fa.X.Type(), pkg, typ) {
				out = append(out, st)
			}
		}
	}
	return out
}

// isFieldLoadC reports whether v is a load of field `field` of a struct of named type pkg.typ.
func isFieldLoadC(v ssa.Value, pkg, typ, field string) bool {
	ld, ok := unwrap(v).(*ssa.UnOp)
	if !ok || ld.Op != token.MUL {
		return false
	}
	fa, ok := ld.X.(*ssa.FieldAddr)
	return ok && fieldName(fa) == field && isPtrToNamed(fa.X.Type(), pkg, typ)
}

// ---------------------------------------------------------------------------------------------
// Membership tests

// membershipFuncC reports whether fn(list, x) returns false only after an exhaustive scan of list
// in which every element differed from x (e.g. utils.ContainsString, slices.Contains shapes).
func membershipFuncC(fn *ssa.Function) bool {
	if fn == nil || len(fn.Blocks) == 0 || len(fn.Params) != 2 {
		return false
	}
	list, x := fn.Params[0], fn.Params[1]
	var loop *sliceLoopC
	for _, l := range sliceLoopsC(fn) {
		if l.Slice == ssa.Value(list) {
			if loop != nil {
				return false
			}
			loop = l
		}
	}
	if loop == nil {
		return false
	}
	k := newKeyer(fn)
	paths, ok := backEdgePathsC(fn, k, loop.Header, loop.Body, loop.In, 200)
	if !ok {
		return false
	}
	isX := func(v ssa.Value) bool { return unwrap(v) == ssa.Value(x) }
	isEl := func(v ssa.Value) bool { return loop.isElem(k, v) }
	for _, p := range paths {
		if !eqFactC(p.Facts, false, isEl, isX) {
			return false
		}
	}
	cases, _, ok := boolCasesC(fn, 0, 200)
	if !ok {
		return false
	}
	for _, c := range cases {
		if c.Result {
			continue
		}
		for _, b := range c.P.Blocks {
			if b != loop.Header && loop.In[b] {
				return false // false returned from inside the scan
			}
		}
	}
	return true
}

// knownMembershipFuncs caches the verification of membership functions by name.
var membershipMemoC = map[*ssa.Function]bool{}

// notMemberC reports whether the facts prove that elem is not in list:
//   - F(list, elem) is false for a membership function F (verified structurally, or slices.Contains);
//   - a boolean flag is false which an exhaustive scan of list sets to true on the first element equal
//     to elem (break form: the flag is a phi in the loop's exit block, false only on exhaustion).
func notMemberC(fn *ssa.Function, k *keyer, fs factSet, list, elem ssa.Value) (bool, string) {
	for _, f := range fs {
		if f.Pol {
			continue
		}
		switch v := f.V.(type) {
		case *ssa.Call:
			cal := staticCallee(&v.Call)
			if cal == nil || len(v.Call.Args) != 2 {
				continue
			}
			okFn, seen := membershipMemoC[cal]
			if !seen {
				okFn = membershipFuncC(cal) || funcName(cal) == "slices.Contains" || strings.HasPrefix(funcName(cal), "slices.Contains[")
				membershipMemoC[cal] = okFn
			}
			if okFn && sameValueC(k, v.Call.Args[0], list) && sameValueC(k, v.Call.Args[1], elem) {
				return true, "¬" + shortFunc(cal) + "(list, name)"
			}
		case *ssa.Phi:
			if scanFlagC(fn, k, v, list, elem) {
				return true, "flag of an exhaustive scan of the list is false"
			}
		}
	}
	return false, ""
}

// scanFlagC: flag is a phi in the exit block of a range loop over list; its edge from the loop
// header is the constant false, every other edge is the constant true, and every iteration that
// continues the scan carries (element == elem) false.
func scanFlagC(fn *ssa.Function, k *keyer, flag *ssa.Phi, list, elem ssa.Value) bool {
	for _, l := range sliceLoopsC(fn) {
		if l.Done != flag.Block() || !sameValueC(k, l.Slice, list) {
			continue
		}
		okEdges := true
		for i, e := range flag.Edges {
			b, isC := constBool(e)
			if !isC {
				okEdges = false
				break
			}
			fromHeader := flag.Block().Preds[i] == l.Header
			if fromHeader == b { // header edge must be false, the others true
				okEdges = false
			}
			if !fromHeader && !l.In[flag.Block().Preds[i]] {
				okEdges = false
			}
		}
		if !okEdges {
			continue
		}
		paths, ok := backEdgePathsC(fn, k, l.Header, l.Body, l.In, 500)
		if !ok {
			continue
		}
		all := true
		for _, p := range paths {
			if !eqFactC(p.Facts, false, func(v ssa.Value) bool { return l.isElem(k, v) }, func(v ssa.Value) bool { return sameValueC(k, v, elem) }) {
				all = false
			}
		}
		if all {
			return true
		}
	}
	return false
}

// ---------------------------------------------------------------------------------------------
// Descriptions (stable: no register names, no positions)

func descValueC(v ssa.Value) string { return descValueDC(v, 0) }

func descValueDC(v ssa.Value, d int) string {
	if v == nil {
		return "<nil>"
	}
	if d > 8 {
		return "…"
	}
	switch x := v.(type) {
	case *ssa.Parameter:
		return x.Name()
	case *ssa.FreeVar:
		return x.Name()
	case *ssa.Const:
		if x.IsNil() {
			return "nil"
		}
		if x.Value == nil {
			return "zero"
		}
		return x.Value.ExactString()
	case *ssa.Alloc:
		if x.Comment != "" {
			return x.Comment
		}
		return "local"
	case *ssa.Global:
		return x.Name()
	case *ssa.Function:
		return shortFunc(x)
	case *ssa.Call:
		n := calleeName(&x.Call)
		n = strings.ReplaceAll(n, repoMod+"/", "")
		if i := strings.LastIndex(n, "/"); i >= 0 {
			if strings.HasPrefix(n, "(") {
				n = "(" + n[i+1:]
			} else {
				n = n[i+1:]
			}
		}
		var args []string
		for _, a := range x.Call.Args {
			args = append(args, descValueDC(a, d+2))
		}
		if x.Call.IsInvoke() {
			return descValueDC(x.Call.Value, d+1) + "." + x.Call.Method.Name() + "(" + strings.Join(args, ",") + ")"
		}
		return n + "(" + strings.Join(args, ",") + ")"
	case *ssa.Extract:
		return descValueDC(x.Tuple, d+1) + "#" + fmt.Sprint(x.Index)
	case *ssa.FieldAddr:
		return descValueDC(x.X, d+1) + "." + fieldName(x)
	case *ssa.Field:
		return descValueDC(x.X, d+1) + "." + fieldName(x)
	case *ssa.IndexAddr:
		return descValueDC(x.X, d+1) + "[" + descIndexC(x.Index) + "]"
	case *ssa.Index:
		return descValueDC(x.X, d+1) + "[" + descIndexC(x.Index) + "]"
	case *ssa.Lookup:
		s := descValueDC(x.X, d+1) + "[" + descValueDC(x.Index, d+1) + "]"
		if x.CommaOk {
			s += ",ok"
		}
		return s
	case *ssa.UnOp:
		switch x.Op {
		case token.MUL:
			return descValueDC(x.X, d)
		case token.NOT:
			return "!" + descValueDC(x.X, d+1)
		}
		return x.Op.String() + descValueDC(x.X, d+1)
	case *ssa.BinOp:
		return "(" + descValueDC(x.X, d+1) + x.Op.String() + descValueDC(x.Y, d+1) + ")"
	case *ssa.Phi:
		if x.Comment != "" {
			return x.Comment
		}
		return "phi"
	case *ssa.ChangeType:
		return descValueDC(x.X, d)
	case *ssa.Convert:
		return descValueDC(x.X, d)
	case *ssa.MakeInterface:
		return descValueDC(x.X, d)
	case *ssa.ChangeInterface:
		return descValueDC(x.X, d)
	case *ssa.Slice:
		return descValueDC(x.X, d+1) + "[:]"
	case *ssa.Next:
		return "next"
	case *ssa.MakeMap:
		return "map"
	case *ssa.MakeClosure:
		return "closure " + descValueDC(x.Fn, d+1)
	}
	return fmt.Sprintf("<%T>", v)
}

func descIndexC(v ssa.Value) string {
	switch x := v.(type) {
	case *ssa.Parameter:
		return x.Name()
	case *ssa.Const:
		return descValueC(x)
	}
	return "i"
}

func descFactC(f Fact) string {
	if c, ok := decodeCmpC(f); ok {
		op := c.Op
		if !c.Pol {
			if op == "==" {
				op = "!="
			} else {
				op = ">="
			}
		}
		return descValueC(c.X) + op + descValueC(c.Y)
	}
	if f.Pol {
		return descValueC(f.V)
	}
	return "¬" + descValueC(f.V)
}

func descFactsC(fs factSet) string {
	var out []string
	for _, f := range fs {
		s := descFactC(f)
		if len(s) > 90 {
			s = s[:90] + "…"
		}
		out = append(out, s)
	}
	sort.Strings(out)
	return strings.Join(out, " ∧ ")
}

// ---------------------------------------------------------------------------------------------
// Misc

// inCycleC reports whether block b lies on a CFG cycle of its function.
func inCycleC(b *ssa.BasicBlock) bool {
	seen := map[*ssa.BasicBlock]bool{}
	var stack []*ssa.BasicBlock
	stack = append(stack, b.Succs...)
	for len(stack) > 0 {
		x := stack[len(stack)-1]
		stack = stack[:len(stack)-1]
		if x == b {
			return true
		}
		if seen[x] {
			continue
		}
		seen[x] = true
		stack = append(stack, x.Succs...)
	}
	return false
}

// reachesC reports whether `to` is reachable from `from` in the CFG (from == to counts).
func reachesC(from, to *ssa.BasicBlock) bool {
	seen := map[*ssa.BasicBlock]bool{}
	stack := []*ssa.BasicBlock{from}
	for len(stack) > 0 {
		x := stack[len(stack)-1]
		stack = stack[:len(stack)-1]
		if x == to {
			return true
		}
		if seen[x] {
			continue
		}
		seen[x] = true
		stack = append(stack, x.Succs...)
	}
	return false
}

// instrBeforeC reports whether a is executed before b whenever both are: a's block strictly
// dominates b's, or they share a block and a comes first.
func instrBeforeC(a, b ssa.Instruction) bool {
	if a.Block() == b.Block() {
		for _, in := range a.Block().Instrs {
			if in == a {
				return true
			}
			if in == b {
				return false
			}
		}
		return false
	}
	return a.Block().Dominates(b.Block())
}

// spillOfC: if a is a local cell with exactly one store, returns the stored value (go/ssa spills
// parameters captured by closures into such cells).
func spillOfC(a *ssa.Alloc) ssa.Value {
	var val ssa.Value
	n := 0
	for _, r := range refs(a) {
		if st, ok := r.(*ssa.Store); ok && st.Addr == ssa.Value(a) {
			val = st.Val
			n++
		}
	}
	if n == 1 {
		return val
	}
	return nil
}

// isParamOrSpillC: v is parameter p or a load of the cell p was spilled into.
func isParamOrSpillC(v ssa.Value, p *ssa.Parameter) bool {
	if v == ssa.Value(p) {
		return true
	}
	if ld, ok := v.(*ssa.UnOp); ok && ld.Op == token.MUL {
		if a, ok := ld.X.(*ssa.Alloc); ok {
			return spillOfC(a) == ssa.Value(p)
		}
	}
	return false
}

// topFuncC returns the outermost enclosing function of a closure.
func topFuncC(fn *ssa.Function) *ssa.Function {
	for fn.Parent() != nil {
		fn = fn.Parent()
	}
	return fn
}

// constStringOfC returns the string value of a constant of string kind (named string types too).
func constStringOfC(v ssa.Value) (string, bool) { return constString(v) }

// sortedKeysC of a string set.
func sortedKeysC(m map[string]bool) []string {
	var out []string
	for k := range m {
		out = append(out, k)
	}
	sort.Strings(out)
	return out
}

// ---------------------------------------------------------------------------------------------
// Interprocedural identity of values (helper extraction)

// aliasC resolves a value to the value it denotes across repository helper boundaries:
//   - a parameter of a repository function with exactly one static call site (inside reach) denotes
//     the argument at that site (a parameter captured by a closure and spilled to a cell included);
//   - result #i of a call to a repository function whose every return yields the same value for #i
//     (nil constants on error returns ignored) denotes that value (e.g. a map made by the helper).
//
// Anything else denotes itself. Used to recognise "the same map/pod" after a helper was extracted.
type aliasC struct {
	p     *Prog
	reach map[*ssa.Function]bool
	memo  map[ssa.Value]ssa.Value
}

func newAliasC(p *Prog, reach map[*ssa.Function]bool) *aliasC {
	return &aliasC{p: p, reach: reach, memo: map[ssa.Value]ssa.Value{}}
}

// resultOf returns the single value every return of fn yields for result #idx (nil if none/several).
func (a *aliasC) resultOf(fn *ssa.Function, idx int) ssa.Value {
	var val ssa.Value
	for _, b := range fn.Blocks {
		ret := returnOfC(b)
		if ret == nil || idx >= len(ret.Results) {
			continue
		}
		for _, o := range origins(ret.Results[idx]) {
			if isNilConst(o) {
				continue
			}
			if val != nil && val != o {
				return nil
			}
			val = o
		}
	}
	return val
}

func returnOfC(b *ssa.BasicBlock) *ssa.Return { return returnOf(b) }

func (a *aliasC) canon(v ssa.Value) ssa.Value {
	if r, ok := a.memo[v]; ok {
		return r
	}
	ch := a.chain(v)
	a.memo[v] = ch[len(ch)-1]
	return ch[len(ch)-1]
}

// chain returns v and every value it successively resolves to (the last one is canon(v)).
func (a *aliasC) chain(v ssa.Value) []ssa.Value {
	out := []ssa.Value{v}
	for i := 0; i < 8; i++ {
		next := ssa.Value(nil)
		switch x := v.(type) {
		case *ssa.ChangeType:
			next = x.X
		case *ssa.UnOp:
			if x.Op == token.MUL {
				// a variable cell with exactly one store holds that value wherever it is read
				if al, ok := x.X.(*ssa.Alloc); ok {
					if sv := spillOfC(al); sv != nil {
						next = sv
					}
				}
			}
		case *ssa.Parameter:
			fn := x.Parent()
			if fn == nil || !a.p.IsRuleSite(fn) {
				break
			}
			sites := callSitesOf(fn, a.reach)
			idx := paramIndex(x)
			if len(sites) == 1 && idx >= 0 && idx < len(sites[0].Common().Args) {
				next = sites[0].Common().Args[idx]
			}
		case *ssa.Extract:
			if c, ok := x.Tuple.(*ssa.Call); ok {
				if cal := staticCallee(&c.Call); cal != nil && a.p.IsRuleSite(cal) {
					next = a.resultOf(cal, x.Index)
				}
			}
		case *ssa.Call:
			if cal := staticCallee(&x.Call); cal != nil && a.p.IsRuleSite(cal) && cal.Signature.Results().Len() == 1 {
				next = a.resultOf(cal, 0)
			}
		}
		if next == nil {
			break
		}
		v = next
		out = append(out, v)
	}
	return out
}

// same reports whether two values denote the same object.
func (a *aliasC) same(x, y ssa.Value) bool {
	if x == nil || y == nil {
		return false
	}
	return x == y || a.canon(x) == a.canon(y)
}

// freeVarBindingC returns the value bound to free variable fv of closure fn at the (single)
// MakeClosure in its parent; nil if not unique.
func freeVarBindingC(fv *ssa.FreeVar) ssa.Value {
	fn := fv.Parent()
	if fn == nil || fn.Parent() == nil {
		return nil
	}
	idx := -1
	for i, f := range fn.FreeVars {
		if f == fv {
			idx = i
		}
	}
	var bound ssa.Value
	for _, b := range fn.Parent().Blocks {
		for _, in := range b.Instrs {
			if mc, ok := in.(*ssa.MakeClosure); ok && mc.Fn == ssa.Value(fn) && idx >= 0 && idx < len(mc.Bindings) {
				if bound != nil && bound != mc.Bindings[idx] {
					return nil
				}
				bound = mc.Bindings[idx]
			}
		}
	}
	return bound
}

// denotesParamC: v is parameter p, a load of the cell p was spilled into, or — inside a closure of
// p's function — the captured variable holding p (by reference or by value).
func denotesParamC(v ssa.Value, p *ssa.Parameter) bool {
	v = unwrap(v)
	if isParamOrSpillC(v, p) {
		return true
	}
	var fv *ssa.FreeVar
	if ld, ok := v.(*ssa.UnOp); ok && ld.Op == token.MUL {
		fv, _ = ld.X.(*ssa.FreeVar)
	} else {
		fv, _ = v.(*ssa.FreeVar)
	}
	if fv == nil {
		return false
	}
	b := freeVarBindingC(fv)
	if b == nil {
		return false
	}
	if b == ssa.Value(p) {
		return true
	}
	if al, ok := b.(*ssa.Alloc); ok {
		return spillOfC(al) == ssa.Value(p)
	}
	return false
}

// closeBoolEqC saturates a fact set with the consequences of equalities between boolean
// conditions: from (A == B) = p and a known truth value of A (all atomic facts of A present), the
// atomic facts of B follow. Returns false when a contradiction is derived (the case is infeasible).
func closeBoolEqC(k *keyer, fs factSet) bool {
	truth := func(v ssa.Value) (bool, bool) {
		if b, ok := constBool(v); ok {
			return b, true
		}
		ft := k.normCond(v, true)
		all := len(ft) > 0
		for _, f := range ft {
			if !fs.has(f.Key, f.Pol) {
				all = false
			}
		}
		if all {
			return true, true
		}
		if len(ft) == 1 && fs.has(ft[0].Key, !ft[0].Pol) {
			return false, true
		}
		return false, false
	}
	isBool := func(v ssa.Value) bool {
		b, ok := v.Type().Underlying().(*types.Basic)
		return ok && b.Info()&types.IsBoolean != 0
	}
	for iter := 0; iter < 8; iter++ {
		changed := false
		var cur []Fact
		for _, f := range fs {
			cur = append(cur, f)
		}
		for _, f := range cur {
			c, ok := decodeCmpC(f)
			if !ok || c.Op != "==" || !isBool(c.X) || !isBool(c.Y) {
				continue
			}
			for _, pr := range [][2]ssa.Value{{c.X, c.Y}, {c.Y, c.X}} {
				av, known := truth(pr[0])
				if !known {
					continue
				}
				bv := av == c.Pol // (A==B)=true: B=A ; false: B=!A
				for _, nf := range k.normCond(pr[1], bv) {
					if fs.has(nf.Key, !nf.Pol) {
						return false
					}
					if !fs.has(nf.Key, nf.Pol) {
						fs[fkey(nf)] = nf
						changed = true
					}
				}
			}
		}
		if !changed {
			break
		}
	}
	// plain contradiction check
	for _, f := range fs {
		if fs.has(f.Key, !f.Pol) {
			return false
		}
	}
	return true
}

// ---------------------------------------------------------------------------------------------
// Interprocedural access paths and origins

// ipStageC is one reading of a value as "field path of a root".
type ipStageC struct {
	Root ssa.Value
	Path []string
}

// ipPathsC returns the access path of v and its continuations through helper parameters: when the
// root is a parameter of a repository function with exactly one static call site, the path is
// continued with the access path of the argument (status.Canary with status bound to
// &daemonset.Status reads daemonset.Status.Canary). Every stage is returned, innermost first.
func ipPathsC(al *aliasC, v ssa.Value) []ipStageC {
	root, p := accessPath(unwrap(v))
	out := []ipStageC{{root, p}}
	for i := 0; i < 8; i++ {
		if ld, ok := root.(*ssa.Alloc); ok { // variable cell with a single store: what it holds
			if sv := spillOfC(ld); sv != nil {
				r2, p2 := accessPath(unwrap(sv))
				root = r2
				p = append(append([]string{}, p2...), p...)
				out = append(out, ipStageC{root, p})
				continue
			}
		}
		if fv, ok := root.(*ssa.FreeVar); ok { // captured variable of a closure: what the enclosing function bound
			b := freeVarBindingC(fv)
			if b == nil {
				break
			}
			r2, p2 := accessPath(unwrap(b))
			root = r2
			p = append(append([]string{}, p2...), p...)
			out = append(out, ipStageC{root, p})
			continue
		}
		pr, ok := root.(*ssa.Parameter)
		if !ok || pr.Parent() == nil || !al.p.IsRuleSite(pr.Parent()) {
			break
		}
		sites := callSitesOf(pr.Parent(), al.reach)
		idx := paramIndex(pr)
		if len(sites) != 1 || idx < 0 || idx >= len(sites[0].Common().Args) {
			break
		}
		r2, p2 := accessPath(unwrap(sites[0].Common().Args[idx]))
		root = r2
		p = append(append([]string{}, p2...), p...)
		out = append(out, ipStageC{root, p})
	}
	return out
}

// ipIsC: some stage of v's interprocedural access path is root.<want...> (ObjectMeta selectors ignored).
func ipIsC(al *aliasC, v ssa.Value, root ssa.Value, want ...string) bool {
	for _, st := range ipPathsC(al, v) {
		if st.Root == root && pathIsMetaC(st.Path, want...) {
			return true
		}
	}
	return false
}

// ipLeavesC: backward closure of v through value-preserving operations (origins) and through the
// results of repository helpers (what their returns yield).
func ipLeavesC(v ssa.Value) []ssa.Value {
	var out []ssa.Value
	seen := map[ssa.Value]bool{}
	var rec func(v ssa.Value, d int)
	rec = func(v ssa.Value, d int) {
		for _, o := range origins(v) {
			if seen[o] || d > 6 {
				continue
			}
			seen[o] = true
			switch x := o.(type) {
			case *ssa.Extract:
				if c, ok := x.Tuple.(*ssa.Call); ok {
					if cal := repoCalleeC(&c.Call); cal != nil {
						for _, b := range cal.Blocks {
							if ret := returnOf(b); ret != nil && x.Index < len(ret.Results) {
								rec(ret.Results[x.Index], d+1)
							}
						}
						continue
					}
				}
			case *ssa.Call:
				if cal := repoCalleeC(&x.Call); cal != nil && cal.Signature.Results().Len() == 1 {
					for _, b := range cal.Blocks {
						if ret := returnOf(b); ret != nil {
							rec(ret.Results[0], d+1)
						}
					}
					continue
				}
			}
			out = append(out, o)
		}
	}
	rec(v, 0)
	return out
}

// valueAltC is one alternative of a value together with the fact sets (one per function crossed)
// under which it is that alternative.
type valueAltC struct {
	Val   ssa.Value
	Facts []factSet
}

// helperAltsC expands v, as seen on a path with facts fs, into its alternatives: when v is result #i
// of a repository helper, one alternative per return path of the helper (with that path's facts);
// otherwise v itself.
func helperAltsC(v ssa.Value, fs factSet, cap int) ([]valueAltC, bool) {
	var call *ssa.Call
	idx := 0
	switch x := v.(type) {
	case *ssa.Extract:
		call, _ = x.Tuple.(*ssa.Call)
		idx = x.Index
	case *ssa.Call:
		call = x
	}
	if call != nil {
		if cal := repoCalleeC(&call.Call); cal != nil && (idx > 0 || cal.Signature.Results().Len() >= 1) {
			paths, _, ok := funcPaths(cal, cap)
			if !ok {
				return nil, false
			}
			var out []valueAltC
			for _, q := range paths {
				ret := returnOf(q.Blocks[len(q.Blocks)-1])
				if ret == nil || idx >= len(ret.Results) {
					continue
				}
				out = append(out, valueAltC{Val: q.Resolve(ret.Results[idx]), Facts: []factSet{fs, q.Facts}})
			}
			return out, true
		}
	}
	return []valueAltC{{Val: v, Facts: []factSet{fs}}}, true
}

// ipHasSuffixC: some stage of v's interprocedural access path ends with the given fields.
func ipHasSuffixC(al *aliasC, v ssa.Value, suffix ...string) bool {
	for _, st := range ipPathsC(al, v) {
		if len(st.Path) >= len(suffix) && pathIsC(st.Path[len(st.Path)-len(suffix):], suffix...) {
			return true
		}
	}
	return false
}

// tableFieldFuncsC resolves a called value of the form G[i].f — a function-typed field of an element
// of a package-level slice/array G initialised with a constant literal and never written elsewhere —
// to the functions stored in field f of all elements.
func tableFieldFuncsC(v ssa.Value) ([]*ssa.Function, bool) {
	ld, ok := v.(*ssa.UnOp)
	if !ok || ld.Op != token.MUL {
		return nil, false
	}
	fa, ok := ld.X.(*ssa.FieldAddr)
	if !ok {
		return nil, false
	}
	ia, ok := fa.X.(*ssa.IndexAddr)
	if !ok {
		return nil, false
	}
	var g *ssa.Global
	switch x := ia.X.(type) {
	case *ssa.Global:
		g = x
	case *ssa.UnOp:
		g, _ = x.X.(*ssa.Global)
	}
	if g == nil || g.Pkg == nil {
		return nil, false
	}
	ini := g.Pkg.Func("init")
	if ini == nil {
		return nil, false
	}
	// the backing array stored into G by the initialiser
	var arr *ssa.Alloc
	for _, b := range ini.Blocks {
		for _, in := range b.Instrs {
			st, isSt := in.(*ssa.Store)
			if !isSt || st.Addr != ssa.Value(g) {
				continue
			}
			sl, isSl := st.Val.(*ssa.Slice)
			if !isSl || arr != nil {
				return nil, false
			}
			arr, _ = sl.X.(*ssa.Alloc)
		}
	}
	if arr == nil {
		return nil, false
	}
	// no other function of the package writes G or through G
	for _, mem := range g.Pkg.Members {
		f, isF := mem.(*ssa.Function)
		if !isF || f == ini {
			continue
		}
		for _, b := range f.Blocks {
			for _, in := range b.Instrs {
				if st, isSt := in.(*ssa.Store); isSt {
					if st.Addr == ssa.Value(g) {
						return nil, false
					}
					root, _ := accessPath(st.Addr)
					if i2, isIA := root.(*ssa.IndexAddr); isIA {
						if l2, isLd := i2.X.(*ssa.UnOp); isLd && l2.X == ssa.Value(g) {
							return nil, false
						}
					}
				}
			}
		}
	}
	var out []*ssa.Function
	n := 0
	for _, rf := range refs(arr) {
		ea, isIA := rf.(*ssa.IndexAddr)
		if !isIA {
			continue
		}
		n++
		found := false
		for _, r2 := range refs(ea) {
			f2, isFA := r2.(*ssa.FieldAddr)
			if !isFA || f2.Field != fa.Field {
				continue
			}
			for _, r3 := range refs(f2) {
				st, isSt := r3.(*ssa.Store)
				if !isSt || st.Addr != ssa.Value(f2) {
					continue
				}
				var fn *ssa.Function
				switch y := unwrap(st.Val).(type) {
				case *ssa.Function:
					fn = y
				case *ssa.MakeClosure:
					fn, _ = y.Fn.(*ssa.Function)
				}
				if fn == nil {
					return nil, false
				}
				out = append(out, fn)
				found = true
			}
		}
		if !found {
			return nil, false // an element without that field set: nil function
		}
	}
	return out, n > 0
}
