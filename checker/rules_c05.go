package main

// C05 — a new version becomes active only when the promotion rule allows it.

import (
	"fmt"
	"go/token"
	"sort"
	"strings"

	"golang.org/x/tools/go/ssa"
)

func init() {
	register("C05", "Decides the structural part of the promotion rule: (R4) status.activeReplicaSet is stored only from the result of one decision function; (R1) every path of that function that returns the replica set matching spec.template implies active==upToDate ∨ active==nil ∨ no canary strategy ∨ canary-valid ∨ (ended ∧ ¬paused ∧ ¬failed), with the argument roles of the reader calls checked; (R2) IsCanaryDeploymentEnded is true only without canary spec or when the maximum of the duration term and the no-restart term is negative, never when Duration is nil; (R3) IsCanaryDeploymentValid is true only when the canary-valid annotation equals the name it is given; (R5) spec validation dominates the decision; (R6) the paused and failed readers answer yes exactly from their documented sources (replica-set condition; canary-paused annotation == \"true\") on every path.", runC05)
}

// edsReconcile returns the ExtendedDaemonSet reconciler entry point and the functions reachable from it.
func edsReconcile(r *Run) (*ssa.Function, map[*ssa.Function]bool) {
	rec := r.Prog.Method(pkgEDS, "Reconciler", "Reconcile")
	if rec == nil {
		r.Fatal("anchor (%s.Reconciler).Reconcile not found", pkgEDS)
		return nil, nil
	}
	return rec, r.Prog.reachableFuncs(rec)
}

// decisionSite describes how status.activeReplicaSet is derived.
type decisionSite struct {
	decision *ssa.Function             // the function whose result names the active replica set
	call     *ssa.Call                 // its call site
	caller   *ssa.Function             // function containing the call
	roles    map[string]*ssa.Parameter // "daemonset", "active", "upToDate", "now" parameters of decision
}

// findDecision implements C05.R4: every store to <x>.Status.ActiveReplicaSet reachable from the
// EDS Reconcile takes the name of a value that derives only from result #0 of one decision call.
func findDecision(r *Run, rule string) *decisionSite {
	c05Prog = r.Prog
	rec, reach := edsReconcile(r)
	if rec == nil {
		return nil
	}
	var site *decisionSite
	n := 0
	for _, fn := range sortedFuncs(reach) {
		for _, st := range storesToFieldOf(fn, pkgAPI, "ExtendedDaemonSetStatus", "ActiveReplicaSet") {
			n++
			pos := r.Prog.Pos(instrPos(st))
			root, path := accessPath(st.Val)
			construct := "store Status.ActiveReplicaSet"
			if len(path) == 0 || path[len(path)-1] != "Name" {
				r.Check(rule, construct, pos, shortFunc(fn), "stored value is the Name of the decision's result", false, "stored value is "+pathString(st.Val))
				continue
			}
			// root must derive from the decision call: directly, or through a parameter fed by every call site.
			var calls []*ssa.Call
			ok := true
			var follow func(v ssa.Value, f *ssa.Function, depth int)
			follow = func(v ssa.Value, f *ssa.Function, depth int) {
				if depth > 4 {
					ok = false
					return
				}
				for _, o := range origins(v) {
					switch x := o.(type) {
					case *ssa.Parameter:
						cs := callSitesOf(f, reach)
						if len(cs) == 0 {
							ok = false
						}
						for _, c := range cs {
							follow(c.Common().Args[paramIndex(x)], c.Parent(), depth+1)
						}
					case *ssa.Extract:
						if c, isCall := x.Tuple.(*ssa.Call); isCall && x.Index == 0 && staticCallee(&c.Call) != nil && r.Prog.IsRuleSite(staticCallee(&c.Call)) {
							calls = append(calls, c)
						} else {
							ok = false
						}
					case *ssa.Call:
						if cal := staticCallee(&x.Call); cal != nil && r.Prog.IsRuleSite(cal) {
							calls = append(calls, x)
						} else {
							ok = false
						}
					default:
						ok = false
					}
				}
			}
			follow(root, fn, 0)
			if !ok || len(calls) == 0 {
				r.Check(rule, construct, pos, shortFunc(fn), "stored name derives only from the result of the promotion decision", false, "origin of "+pathString(st.Val)+" is not a single decision call")
				continue
			}
			dec := staticCallee(&calls[0].Call)
			same := true
			for _, c := range calls {
				if staticCallee(&c.Call) != dec {
					same = false
				}
			}
			r.Check(rule, construct, pos, shortFunc(fn), "stored name derives only from the result of one promotion decision function", same,
				fmt.Sprintf("derives from %s called at %s", shortFunc(dec), r.Prog.Pos(calls[0].Pos())))
			if same && site == nil {
				site = &decisionSite{decision: dec, call: calls[0], caller: calls[0].Parent()}
			}
		}
	}
	if n == 0 {
		r.Check(rule, "store Status.ActiveReplicaSet", "-", "-", "a store to Status.ActiveReplicaSet reachable from the EDS Reconcile", false, "none found")
	}
	return site
}

// definedUnderUpToDate reports whether every non-nil value that can reach v is assigned under the
// fact IsReplicaSetUpToDate(...)==true (the assignment edge is examined, not only the defining
// block of the assigned value; results of repository helpers are followed into the helper).
func definedUnderUpToDate(p *Prog, fn *ssa.Function, v ssa.Value) bool {
	return p.assignedOnlyUnderIP(fn, v, func(c ssa.Value, _ string) bool {
		_, ok := isCallTo(c, pkgComparison+".IsReplicaSetUpToDate")
		return ok
	}, 0)
}

// assignRoles determines which parameter of the decision function is the daemonset, the active
// and the up-to-date replica set from the provenance of the call's arguments.
func assignRoles(r *Run, rule string, s *decisionSite) bool {
	s.roles = map[string]*ssa.Parameter{}
	var ersParams []*ssa.Parameter
	for i, p := range s.decision.Params {
		switch {
		case isPtrToNamed(p.Type(), pkgAPI, "ExtendedDaemonSet"):
			s.roles["daemonset"] = p
		case isPtrToNamed(p.Type(), pkgAPI, "ExtendedDaemonSetReplicaSet"):
			ersParams = append(ersParams, p)
			if definedUnderUpToDate(r.Prog, s.caller, s.call.Call.Args[i]) {
				s.roles["upToDate"] = p
			}
		case typeName(p.Type()) == "time.Time":
			s.roles["now"] = p
		}
	}
	for _, p := range ersParams {
		if p != s.roles["upToDate"] {
			// the active one is selected under `rs.Name == instance.Status.ActiveReplicaSet`
			i := paramIndex(p)
			under := r.Prog.assignedOnlyUnderIP(s.caller, s.call.Call.Args[i], func(c ssa.Value, _ string) bool {
				return isEqCompare(c, loadOfPath(nil, "Name"), loadOfPath(nil, "Status", "ActiveReplicaSet"))
			}, 0)
			if under {
				s.roles["active"] = p
			}
		}
	}
	pos := r.Prog.Pos(s.call.Pos())
	ok := s.roles["daemonset"] != nil && s.roles["upToDate"] != nil && s.roles["active"] != nil && len(ersParams) == 2
	var got []string
	for k, p := range s.roles {
		got = append(got, k+"="+p.Name())
	}
	sort.Strings(got)
	r.Check(rule, "argument roles of the decision call", pos, shortFunc(s.caller),
		"decision receives the reconciled object, the replica set selected under name==status.activeReplicaSet and the one selected under IsReplicaSetUpToDate", ok, strings.Join(got, " "))
	return ok
}

func runC05(r *Run) {
	r.RuleDoc("C05.R4", "status.activeReplicaSet is stored only from the promotion decision's result")
	r.RuleDoc("C05.R1", "promotion table: paths returning the up-to-date replica set imply the documented rule")
	r.RuleDoc("C05.R2", "IsCanaryDeploymentEnded: true only without canary or when max(duration term, no-restart term) < 0; Duration==nil never ends")
	r.RuleDoc("C05.R3", "IsCanaryDeploymentValid: true only when the canary-valid annotation equals the given name")
	r.RuleDoc("C05.R5", "spec validation dominates the promotion decision")
	r.Floor("C05.R4", 2)
	r.Floor("C05.R1", 4)
	r.Floor("C05.R2", 3)
	r.Floor("C05.R3", 1)
	r.Floor("C05.R5", 1)
	r.RuleDoc("C05.R6", "paused/failed readers answer no only when no documented source says yes (and yes only from a source)")
	r.Floor("C05.R6", 5)
	r.NotCovered("timestamp arithmetic beyond operand roles; the requeue that wakes the controller at the end of the duration; orderings of the failing replica-set sync and the ExtendedDaemonSet reconcile")

	site := findDecision(r, "C05.R4")
	if site == nil {
		return
	}
	if !assignRoles(r, "C05.R4", site) {
		return
	}
	c05PromotionTable(r, site)
	c05Ended(r)
	c05Valid(r)
	c05ValidationDominates(r, site)
	c05ReaderCompleteness(r)
	c05Imports(r, site)
	c05ListIntegrity(r)
	c05RestartClockMonotonic(r)
}

// promotionAtoms classifies the facts of a path of the decision function.
type promoAtoms struct {
	eqActive, activeNil, noCanary, valid, ended, paused, failed *bool
}

func bptr(b bool) *bool { return &b }

// annotationsOfE: v (read in env) is the annotation map of obj: obj.GetAnnotations(),
// obj.Annotations, obj.ObjectMeta.Annotations.
func annotationsOfE(v ssa.Value, env *envT, obj ssa.Value) bool {
	x, e := stripConvE(v, env)
	if c, ok := x.(*ssa.Call); ok {
		if !strings.HasSuffix(calleeName(&c.Call), ".GetAnnotations") {
			return false
		}
		if c.Call.IsInvoke() {
			return isValE(c.Call.Value, e, obj)
		}
		return len(c.Call.Args) == 1 && rootedAtE(c.Call.Args[0], e, obj)
	}
	return rootedAtE(x, e, obj, "Annotations")
}

// nameOfE: v (read in env) is the name of obj.
func nameOfE(v ssa.Value, env *envT, obj ssa.Value) bool {
	x, e := stripConvE(v, env)
	if c, ok := x.(*ssa.Call); ok {
		if !strings.HasSuffix(calleeName(&c.Call), ".GetName") {
			return false
		}
		if c.Call.IsInvoke() {
			return isValE(c.Call.Value, e, obj)
		}
		return len(c.Call.Args) == 1 && rootedAtE(c.Call.Args[0], e, obj)
	}
	return rootedAtE(x, e, obj, "Name")
}

// c05Classify reads the promotion atoms off a set of facts (each with the environment it is to be
// read in); boolean struct fields filled by a helper are looked through (derefE).
func c05ClassifyX(s *decisionSite, prog *Prog, facts []xfact, notes *[]string) promoAtoms {
	var a promoAtoms
	ds, act, utd := ssa.Value(s.roles["daemonset"]), ssa.Value(s.roles["active"]), ssa.Value(s.roles["upToDate"])
	isCanarySpec := func(x ssa.Value, e *envT) bool { return rootedAtE(x, e, ds, "Spec", "Strategy", "Canary") }
	for _, f := range facts {
		v, env := derefE(prog, f.V, f.env)
		if x, y, ok := eqOperands(v); ok {
			pol := f.Pol
			switch {
			case isValE(x, env, act) && isValE(y, env, utd) || isValE(x, env, utd) && isValE(y, env, act):
				a.eqActive = bptr(pol)
			case isNilConst(y) && isValE(x, env, act) || isNilConst(x) && isValE(y, env, act):
				a.activeNil = bptr(pol)
			case isNilConst(y) && isCanarySpec(x, env) || isNilConst(x) && isCanarySpec(y, env):
				a.noCanary = bptr(pol)
			}
			continue
		}
		if c, ok := isResultOf(v, pkgEDS+".IsCanaryDeploymentValid", -1); ok {
			if annotationsOfE(c.Call.Args[0], env, ds) && nameOfE(c.Call.Args[1], env, utd) {
				a.valid = bptr(f.Pol)
			} else {
				*notes = append(*notes, "IsCanaryDeploymentValid is not called with (daemonset annotations, up-to-date replica set name)")
			}
		} else if c, ok := isResultOf(v, pkgEDS+".IsCanaryDeploymentEnded", 0); ok {
			nowOK := s.roles["now"] == nil || isValE(c.Call.Args[2], env, s.roles["now"])
			if isCanarySpec(c.Call.Args[0], env) && isValE(c.Call.Args[1], env, utd) && nowOK {
				a.ended = bptr(f.Pol)
			} else {
				*notes = append(*notes, "IsCanaryDeploymentEnded is not called with (spec canary, up-to-date replica set, now)")
			}
		} else if c, ok := isResultOf(v, pkgEDS+".IsCanaryDeploymentPaused", 0); ok {
			if annotationsOfE(c.Call.Args[0], env, ds) && isValE(c.Call.Args[1], env, utd) {
				a.paused = bptr(f.Pol)
			} else {
				*notes = append(*notes, "IsCanaryDeploymentPaused is not called with (daemonset annotations, up-to-date replica set)")
			}
		} else if c, ok := isResultOf(v, pkgEDS+".IsCanaryDeploymentFailed", -1); ok {
			if isValE(c.Call.Args[0], env, utd) {
				a.failed = bptr(f.Pol)
			} else {
				*notes = append(*notes, "IsCanaryDeploymentFailed is not called with the up-to-date replica set")
			}
		}
	}
	return a
}

// c05Classify classifies the facts of one path without expanding helper predicates (kept for the
// rules of other properties that walk the decision paths themselves; they obtain the expanded
// alternatives with c05PathAlternatives + c05ClassifyX).
func c05Classify(s *decisionSite, p *Path, notes *[]string) promoAtoms {
	var base []xfact
	for _, f := range p.Facts {
		base = append(base, xfact{f, nil})
	}
	return c05ClassifyX(s, c05Prog, base, notes)
}

// c05Prog is the program of the current run (set by findDecision).
var c05Prog *Prog

// c05PathAlternatives expands the facts of a path of the decision function into alternatives in
// which unexported helper predicates (a method deciding on a state struct, a helper returning
// bool) are replaced by what makes them true/false.
func c05PathAlternatives(prog *Prog, p *Path) [][]xfact {
	var base []xfact
	for _, f := range p.Facts {
		base = append(base, xfact{f, nil})
	}
	return expandAlt(prog, base, 0)
}

func is(b *bool, want bool) bool { return b != nil && *b == want }

func c05PromotionTable(r *Run, s *decisionSite) {
	fn := s.decision
	paths, _, ok := funcPaths(fn, 5000)
	r.paths += len(paths)
	if !ok {
		r.Undecided("C05.R1", "promotion table", r.Prog.Pos(fn.Pos()), shortFunc(fn), "path cap exceeded")
		return
	}
	utd, act := s.roles["upToDate"], s.roles["active"]
	for _, p := range paths {
		ret := returnOf(p.Blocks[len(p.Blocks)-1])
		res := unwrap(p.Resolve(ret.Results[0]))
		for _, alt := range c05PathAlternatives(r.Prog, p) {
			var notes []string
			a := c05ClassifyX(s, r.Prog, alt, &notes)
			desc := describeAtoms(a)
			pos := r.Prog.Pos(instrPos(ret))
			construct := "return on path [" + desc + "]"
			switch res {
			case ssa.Value(utd):
				okRule := is(a.eqActive, true) || is(a.activeNil, true) || is(a.noCanary, true) || is(a.valid, true) ||
					(is(a.ended, true) && is(a.paused, false) && is(a.failed, false))
				detail := "path facts: " + desc
				if len(notes) > 0 {
					detail += "; " + strings.Join(notes, "; ")
				}
				r.Check("C05.R1", construct, pos, shortFunc(fn),
					"returning the up-to-date replica set requires active==upToDate ∨ active==nil ∨ no canary ∨ valid ∨ (ended ∧ ¬paused ∧ ¬failed)", okRule, detail)
			case ssa.Value(act):
				// keeping the active replica set is always allowed by the "only if" rule; adoption when the
				// recorded active replica set no longer exists is required by the statement's last clause.
				okRule := !is(a.activeNil, true) || is(a.eqActive, true)
				o := r.Check("C05.R1", construct, pos, shortFunc(fn), "a missing active replica set is replaced by the up-to-date one", okRule, "path facts: "+desc)
				o.Trivial = !is(a.activeNil, true)
			default:
				r.Undecided("C05.R1", construct, pos, shortFunc(fn), "returned replica set is neither the active nor the up-to-date parameter: "+res.String())
			}
		}
	}
}

func describeAtoms(a promoAtoms) string {
	var out []string
	add := func(n string, b *bool) {
		if b != nil {
			out = append(out, fmt.Sprintf("%s=%v", n, *b))
		}
	}
	add("active==upToDate", a.eqActive)
	add("active==nil", a.activeNil)
	add("noCanary", a.noCanary)
	add("valid", a.valid)
	add("paused", a.paused)
	add("failed", a.failed)
	add("ended", a.ended)
	return strings.Join(out, " ")
}

// c05Ended checks IsCanaryDeploymentEnded.
func c05Ended(r *Run) {
	fn := r.Prog.Func(pkgEDS, "IsCanaryDeploymentEnded")
	if fn == nil {
		r.Fatal("anchor %s.IsCanaryDeploymentEnded not found", pkgEDS)
		return
	}
	paths, k, ok := funcPaths(fn, 5000)
	r.paths += len(paths)
	if !ok || len(fn.Params) < 3 {
		r.Undecided("C05.R2", "ended table", r.Prog.Pos(fn.Pos()), shortFunc(fn), "path cap exceeded or unexpected signature")
		return
	}
	spec, rs, now := fn.Params[0], fn.Params[1], fn.Params[2]
	isSpec := isParam(spec)
	durationTerm := func(v ssa.Value) bool {
		return dependsOn(v, loadOfPath(isParam(rs), "CreationTimestamp")) || dependsOn(v, func(x ssa.Value) bool {
			r2, p := accessPath(x)
			return r2 == ssa.Value(rs) && len(p) > 0 && p[len(p)-1] == "CreationTimestamp"
		})
	}
	restartTerm := func(v ssa.Value) bool {
		return dependsOn(v, loadOfPath(isSpec, "NoRestartsDuration", "Duration"))
	}
	for _, p := range paths {
		ret := returnOf(p.Blocks[len(p.Blocks)-1])
		res := p.Resolve(ret.Results[0])
		b, isConst := constBool(res)
		pos := r.Prog.Pos(instrPos(ret))
		specNil := p.Has(true, func(v ssa.Value, _ string) bool { return isNilCompareOf(v, isSpec) })
		durNil := p.Has(true, func(v ssa.Value, _ string) bool { return isNilCompareOf(v, loadOfPath(isSpec, "Duration")) })
		construct := fmt.Sprintf("return %v on path [%s]", res.Name(), shortFacts(p))
		var pend ssa.Value
		if !isConst {
			// `return pending < 0, pending`: the result is true exactly when the pending duration is negative
			if bo, isB := res.(*ssa.BinOp); isB {
				if z, okz := constInt(bo.Y); okz && z == 0 && bo.Op == token.LSS {
					pend = bo.X
				} else if z, okz := constInt(bo.X); okz && z == 0 && bo.Op == token.GTR {
					pend = bo.Y
				}
			}
			if pend == nil {
				r.Undecided("C05.R2", construct, pos, shortFunc(fn), "first result is neither a boolean constant nor the comparison `pending < 0` on this path")
				continue
			}
			if durNil && !specNil {
				r.Check("C05.R2", construct, pos, shortFunc(fn), "Duration==nil (manual mode) never ends by time", false, "a computed result is returned on a path with Duration==nil")
				continue
			}
		}
		if isConst && durNil && !specNil {
			r.Check("C05.R2", construct, pos, shortFunc(fn), "Duration==nil (manual mode) never ends by time", !b, "path facts: "+shortFacts(p))
			continue
		}
		if isConst && !b {
			o := r.Check("C05.R2", construct, pos, shortFunc(fn), "returning false is always allowed", true, "")
			o.Trivial = true
			continue
		}
		if isConst && specNil {
			r.Check("C05.R2", construct, pos, shortFunc(fn), "true without a canary spec", true, "specCanary==nil")
			continue
		}
		// need fact X<0 true (constant true result), with X the max of a duration term and a no-restart term on this path.
		if pend == nil {
			for _, f := range p.Facts {
				if bo, isB := f.V.(*ssa.BinOp); isB && f.Pol == strings.HasSuffix(f.Key, "<c:0)") {
					if strings.HasSuffix(f.Key, "<c:0)") {
						// key is (X<0) with polarity true
						if z, okz := constInt(bo.Y); okz && z == 0 {
							pend = bo.X
						} else if z, okz := constInt(bo.X); okz && z == 0 {
							pend = bo.Y
						}
					}
				}
			}
		}
		if pend == nil {
			r.Check("C05.R2", construct, pos, shortFunc(fn), "true only when the pending duration is negative", false, "no fact `pending < 0` on this path: "+shortFacts(p))
			continue
		}
		chosen := p.ResolveOnce(pend)
		var cands []ssa.Value
		isMaxBuiltin := false
		if phi, isPhi := pend.(*ssa.Phi); isPhi {
			cands = phi.Edges
		} else if mc, isC := pend.(*ssa.Call); isC {
			if bi, isBi := mc.Call.Value.(*ssa.Builtin); isBi && bi.Name() == "max" {
				isMaxBuiltin = true
				cands = append(cands, mc.Call.Args...)
				chosen = nil
			} else {
				cands = []ssa.Value{pend}
			}
		} else {
			cands = []ssa.Value{pend}
		}
		hasDur, hasRestart := false, false
		for _, c := range cands {
			if durationTerm(c) {
				hasDur = true
			}
			if restartTerm(c) {
				hasRestart = true
			}
		}
		okMax := true
		why := ""
		for _, c := range cands {
			if c == chosen || isMaxBuiltin {
				continue
			}
			// chosen must be >= c on this path: fact (chosen<c)=false or (c<chosen)=true
			kc, ko := k.key(chosen), k.key(c)
			if !(p.Facts.has("("+kc+"<"+ko+")", false) || p.Facts.has("("+ko+"<"+kc+")", true)) {
				okMax = false
				why = "the pending duration chosen on this path is not shown to be the larger of the two terms (min instead of max?)"
			}
		}
		if !hasDur || !hasRestart {
			okMax = false
			why = fmt.Sprintf("terms of the pending duration: creation+duration term present=%v, lastRestart+noRestartsDuration term present=%v", hasDur, hasRestart)
		}
		// the no-restart term must use the PodRestarting condition's LastUpdateTime and `now`
		if okMax {
			usesNow := false
			for _, c := range cands {
				if dependsOn(c, isParam(now)) {
					usesNow = true
				}
			}
			restartFromCond := false
			for _, c := range cands {
				if restartTerm(c) && r.Prog.dependsOnIP(c, func(x ssa.Value) bool {
					_, pp := accessPath(x)
					return len(pp) >= 1 && pp[len(pp)-1] == "LastUpdateTime" || (len(pp) >= 2 && pp[len(pp)-2] == "LastUpdateTime")
				}) {
					restartFromCond = true
				}
			}
			if !usesNow || !restartFromCond {
				okMax = false
				why = fmt.Sprintf("no-restart term must be lastRestart(LastUpdateTime of the PodRestarting condition)+noRestartsDuration-now: uses now=%v, LastUpdateTime=%v", usesNow, restartFromCond)
			}
		}
		r.Check("C05.R2", construct, pos, shortFunc(fn), "true only when max(creation+duration-now, lastRestart+noRestartsDuration-now) < 0", okMax, why)
	}
	// the restart time is read from the PodRestarting condition
	wired := false
	for _, g := range r.Prog.calleesWithin(fn, 2) { // the look-up may sit in a small helper
		for _, c := range callsIn(g) {
			if calleeName(c.Common()) == pkgERSCond+".GetExtendedDaemonSetReplicaSetStatusCondition" {
				if s, okc := constString(c.Common().Args[1]); okc {
					if want, _ := r.Prog.constStr(pkgAPI, "ConditionTypePodRestarting"); s == want {
						wired = true
					}
				}
			}
		}
	}
	r.Check("C05.R2", "restart condition type", r.Prog.Pos(fn.Pos()), shortFunc(fn), "last restart time is read from the PodRestarting condition of the replica set", wired, "")
}

func shortFacts(p *Path) string {
	var out []string
	for _, f := range p.Facts {
		s := f.Key
		s = strings.ReplaceAll(s, repoMod+"/", "")
		if len(s) > 48 {
			s = s[:48] + "…"
		}
		if f.Pol {
			out = append(out, s)
		} else {
			out = append(out, "¬"+s)
		}
	}
	sort.Strings(out)
	return strings.Join(out, " ∧ ")
}

func c05Valid(r *Run) {
	fn := r.Prog.Func(pkgEDS, "IsCanaryDeploymentValid")
	if fn == nil {
		r.Fatal("anchor %s.IsCanaryDeploymentValid not found", pkgEDS)
		return
	}
	paths, _, ok := funcPaths(fn, 5000)
	r.paths += len(paths)
	if !ok || len(fn.Params) != 2 {
		r.Undecided("C05.R3", "valid table", r.Prog.Pos(fn.Pos()), shortFunc(fn), "path cap exceeded or unexpected signature")
		return
	}
	ann, name := fn.Params[0], fn.Params[1]
	key, _ := r.Prog.constStr(pkgAPI, "ExtendedDaemonSetCanaryValidAnnotationKey")
	isAnnValue := func(v ssa.Value) bool {
		// extract #0 of lookup ann[key],ok  or plain lookup
		if e, isE := v.(*ssa.Extract); isE {
			v = e.Tuple
		}
		l, isL := v.(*ssa.Lookup)
		if !isL || unwrap(l.X) != ssa.Value(ann) {
			return false
		}
		s, okc := constString(l.Index)
		return okc && s == key
	}
	for _, p := range paths {
		ret := returnOf(p.Blocks[len(p.Blocks)-1])
		res := p.Resolve(ret.Results[0])
		pos := r.Prog.Pos(instrPos(ret))
		construct := fmt.Sprintf("return on path [%s]", shortFacts(p))
		eq := p.Has(true, func(v ssa.Value, _ string) bool { return isEqCompare(v, isAnnValue, isParam(name)) })
		if b, isConst := constBool(res); isConst {
			if !b {
				o := r.Check("C05.R3", construct, pos, shortFunc(fn), "false is always allowed", true, "")
				o.Trivial = true
				continue
			}
			r.Check("C05.R3", construct, pos, shortFunc(fn), "true only when annotation canary-valid == given name", eq, "path facts: "+shortFacts(p))
			continue
		}
		// returning the comparison itself
		r.Check("C05.R3", construct, pos, shortFunc(fn), "result is the comparison annotation canary-valid == given name", isEqCompare(res, isAnnValue, isParam(name)) && func() bool {
			bo, _ := res.(*ssa.BinOp)
			return bo != nil && bo.Op.String() == "=="
		}(), "returns "+res.String())
	}
}

func c05ValidationDominates(r *Run, s *decisionSite) {
	ff := computeFacts(s.caller)
	b := s.call.Block()
	isValidated := func(v ssa.Value, _ string) bool {
		return isNilCompareOf(v, func(x ssa.Value) bool {
			_, isV := isCallTo(x, pkgAPI+".ValidateExtendedDaemonSetSpec")
			return isV
		})
	}
	ok := ff.Holds(b, true, isValidated)
	via := ""
	if !ok {
		// the prologue (Get, defaulting, validation) may live in a helper that returns a nil object
		// when the reconcile must stop: the decision is then taken under `result != nil`, and every
		// return of the helper with a non-nil result must itself be reached under validation == nil.
		for _, f := range ff.At(b) {
			x, y, isEq := eqOperands(f.V)
			if !isEq || f.Pol {
				continue
			}
			var res ssa.Value
			if isNilConst(y) {
				res = x
			} else if isNilConst(x) {
				res = y
			}
			ex, isE := res.(*ssa.Extract)
			var helper *ssa.Function
			idx := 0
			if isE {
				if c, isC := ex.Tuple.(*ssa.Call); isC {
					helper = staticCallee(&c.Call)
					idx = ex.Index
				}
			} else if c, isC := res.(*ssa.Call); isC {
				helper = staticCallee(&c.Call)
			}
			if helper == nil || !r.Prog.IsRuleSite(helper) {
				continue
			}
			hf := r.Prog.factsOf(helper)
			all, n := true, 0
			for _, hb := range helper.Blocks {
				ret := returnOf(hb)
				if ret == nil || len(ret.Results) <= idx || isNilConst(ret.Results[idx]) {
					continue
				}
				n++
				if !hf.Holds(hb, true, isValidated) {
					all = false
				}
			}
			if all && n > 0 {
				ok = true
				via = " (through " + shortFunc(helper) + ", which returns a non-nil object only after validation succeeded)"
			}
		}
	}
	r.Check("C05.R5", "validation before decision", r.Prog.Pos(s.call.Pos()), shortFunc(s.caller),
		"ValidateExtendedDaemonSetSpec(...) == nil holds where the promotion decision is taken", ok, "must-facts: "+truncate(ff.At(b).String(), 400)+via)
}

// c05ReaderCompleteness: the paused / failed readers may answer "no" only when none of their
// documented sources says "yes": a path returning false must carry, for the replica-set condition
// source, (ers==nil ∨ ¬IsConditionTrue(status, <type>)) and, for the annotation source of the
// paused reader, (¬found ∨ value!="true"). Otherwise the promotion rule's ¬paused / ¬failed atoms
// would not mean what the statement says.
func c05ReaderCompleteness(r *Run) {
	type reader struct {
		name, condConst, annKey string
		idx                     int // index of the boolean result
	}
	trueVal, _ := r.Prog.constStr(pkgAPI, "ValueStringTrue")
	for _, rd := range []reader{
		{"IsCanaryDeploymentPaused", "ConditionTypeCanaryPaused", "ExtendedDaemonSetCanaryPausedAnnotationKey", 0},
		{"IsCanaryDeploymentFailed", "ConditionTypeCanaryFailed", "", 0},
	} {
		fn := r.Prog.Func(pkgEDS, rd.name)
		if fn == nil {
			r.Fatal("anchor %s.%s not found", pkgEDS, rd.name)
			continue
		}
		condVal, _ := r.Prog.constStr(pkgAPI, rd.condConst)
		annVal := ""
		if rd.annKey != "" {
			annVal, _ = r.Prog.constStr(pkgAPI, rd.annKey)
		}
		var ers, ann *ssa.Parameter
		for _, p := range fn.Params {
			if isPtrToNamed(p.Type(), pkgAPI, "ExtendedDaemonSetReplicaSet") {
				ers = p
			} else if strings.HasPrefix(p.Type().String(), "map[string]string") {
				ann = p
			}
		}
		if ers == nil {
			r.Undecided("C05.R6", rd.name+" signature", r.Prog.Pos(fn.Pos()), shortFunc(fn), "no replica-set parameter")
			continue
		}
		// alternatives (with helper predicates expanded) under which the reader answers yes / no
		yes := boolAlts(r.Prog, fn, rd.idx, true, nil, 0)
		no := boolAlts(r.Prog, fn, rd.idx, false, nil, 0)
		if yes == nil && no == nil {
			r.Undecided("C05.R6", rd.name+" table", r.Prog.Pos(fn.Pos()), shortFunc(fn), "the reader's paths cannot be enumerated")
			continue
		}
		r.paths += len(yes) + len(no)
		constE := func(v ssa.Value, env *envT) (string, bool) {
			x, _ := stripConvE(v, env)
			return constString(x)
		}
		isCondTrueE := func(v ssa.Value, env *envT) bool {
			c, okc := isCallTo(v, pkgERSCond+".IsConditionTrue")
			if !okc {
				return false
			}
			s, oks := constE(c.Call.Args[1], env)
			return oks && s == condVal && rootedAtE(c.Call.Args[0], env, ers, "Status")
		}
		lookupE := func(v ssa.Value, env *envT, want int) bool { // extract #want of ann[annVal],ok (want<0: plain lookup)
			x, e := stripConvE(v, env)
			var l *ssa.Lookup
			if ex, isE := x.(*ssa.Extract); isE {
				if want < 0 || ex.Index != want {
					return false
				}
				l, _ = ex.Tuple.(*ssa.Lookup)
			} else if want <= 0 {
				l, _ = x.(*ssa.Lookup)
				if l != nil && l.CommaOk {
					l = nil
				}
			}
			if l == nil || ann == nil || !isValE(l.X, e, ann) {
				return false
			}
			s, oks := constE(l.Index, e)
			return oks && s == annVal
		}
		annIsTrue := func(v ssa.Value, env *envT) bool {
			x, y, okq := eqOperands(v)
			if !okq {
				return false
			}
			cx, okx := constE(x, env)
			cy, oky := constE(y, env)
			return oky && cy == trueVal && lookupE(x, env, 0) || okx && cx == trueVal && lookupE(y, env, 0)
		}
		has := func(alt []xfact, pol bool, m func(v ssa.Value, env *envT) bool) bool {
			for _, f := range alt {
				if f.Pol != pol {
					continue
				}
				v, e := derefE(r.Prog, f.V, f.env)
				if m(v, e) {
					return true
				}
			}
			return false
		}
		describe := func(alt []xfact) string {
			var fs []Fact
			for _, f := range alt {
				fs = append(fs, f.Fact)
			}
			p := &Path{Facts: factSet{}}
			for _, f := range fs {
				p.Facts[fkey(f)] = f
			}
			return shortFacts(p)
		}
		nTrue := len(yes)
		pos := r.Prog.Pos(fn.Pos())
		for _, alt := range yes {
			src := has(alt, true, isCondTrueE)
			if rd.annKey != "" {
				src = src || has(alt, true, annIsTrue)
			}
			r.Check("C05.R6", rd.name+" answers yes on ["+describe(alt)+"]", pos, shortFunc(fn),
				"answers yes only when the replica-set condition is true or the annotation equals \"true\"", src, "facts: "+describe(alt))
		}
		for _, alt := range no {
			condNo := has(alt, false, isCondTrueE) || has(alt, true, func(v ssa.Value, env *envT) bool {
				x, y, okq := eqOperands(v)
				return okq && (isNilConst(y) && isValE(x, env, ers) || isNilConst(x) && isValE(y, env, ers))
			})
			annNo := true
			if rd.annKey != "" {
				annNo = has(alt, false, func(v ssa.Value, env *envT) bool { return lookupE(v, env, 1) }) || has(alt, false, annIsTrue)
			}
			r.Check("C05.R6", rd.name+" answers no on ["+describe(alt)+"]", pos, shortFunc(fn),
				"answers no only when the replica-set condition is not true and (for paused) the annotation is absent or not \"true\"", condNo && annNo,
				fmt.Sprintf("condition source excluded=%v annotation source excluded=%v; facts: %s", condNo, annNo, describe(alt)))
		}
		if nTrue == 0 {
			r.Check("C05.R6", rd.name+" can answer yes", r.Prog.Pos(fn.Pos()), shortFunc(fn), "the reader has a path answering yes", false, "no path returns true")
		}
	}
}
