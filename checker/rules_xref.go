package main

// Clauses that are necessary conditions of more than one property are decided once and imported
// under the other property's rule ids (Run.ImportFrom), plus a few rules added after the second
// round of independently seeded changes.

import (
	"fmt"
	"go/constant"
	"go/token"
	"strings"

	"golang.org/x/tools/go/ssa"
)

// ---- C02: necessary conditions of convergence that other properties decide -------------------

func c02Imports(r *Run) {
	r.Floor("C02.Q6", 17)
	r.Floor("C02.Q7", 8)
	r.Floor("C02.Q8", 3)
	r.ImportFrom(runC16, map[string]string{"C16.R1": "C02.Q6"}, map[string]string{
		"C02.Q6": "defaulting is a fixed point recognised by IsDefaulted (otherwise both reconcilers loop on defaulting and nothing is ever rolled out)"})
	r.ImportFrom(runC01, map[string]string{"C01.R7": "C02.Q7"}, map[string]string{
		"C02.Q7": "node eligibility (selector, required affinity, NoSchedule/NoExecute taints) is what the final state is defined over"})
	r.ImportFrom(runC08, map[string]string{"C08.R1": "C02.Q8"}, map[string]string{
		"C02.Q8": "update deletions/creations are withheld exactly by the parent's pause/freeze annotations (a rollout resumes when they are removed)"})
	r.Floor("C02.Q10", 3)
	r.ImportFrom(runC10, map[string]string{"C10.R8": "C02.Q10"}, map[string]string{
		"C02.Q10": "the up-to-date comparison and pod creation build the node-resources annotation key from the same roles (otherwise a fresh pod is judged outdated and replaced for ever: no fixpoint)"})
	// C02.Q12: a per-batch throttle must let the batch run once the period has elapsed (inverted, no
	// deletion batch ever runs again after the first one and the rollout stalls)
	r.RuleDoc("C02.Q12", "per-batch throttles (time since the PodDeletion / PodCreation condition versus a period) let the batch run once the period has elapsed")
	c09BatchThrottles(r, "C02.Q12")
	r.Floor("C02.Q9", 6)
	r.ImportFrom(runC03, map[string]string{"C03.R3": "C02.Q9"}, map[string]string{
		"C02.Q9": "the creation/deletion budgets are computed from the matching counters and spec values, percentages rounded up (a budget that is wrongly 0 stalls the rollout for ever)"})
}

// ---- C05 ---------------------------------------------------------------------------------------

func c05Imports(r *Run, site *decisionSite) {
	r.Floor("C05.R7", 8)
	r.ImportFrom(runC16, map[string]string{"C16.R6": "C05.R7"}, map[string]string{
		"C05.R7": "validation rejects duration/noRestartsDuration in manual mode on every path (so manual mode can never be promoted by elapsed time); R5 shows validation dominates the decision"})
	c05ActiveScan(r, site)
}

// c05ActiveScan (C05.R8): the replica set passed in the `active` role is looked up among *all*
// listed replica sets: every iteration path of the scan loop evaluates the comparison
// item.Name == status.activeReplicaSet (no iteration is skipped before it). Otherwise an existing
// active replica set can be taken for missing and the adoption shortcut promotes the new one.
func c05ActiveScan(r *Run, site *decisionSite) {
	r.RuleDoc("C05.R8", "the recorded active replica set is searched among all listed replica sets: no iteration of the scan skips the name comparison")
	r.Floor("C05.R8", 1)
	// the comparison may live in the caller of the decision or in a helper it calls (the scan loop
	// extracted into a function)
	fn := site.caller
	var cmpBlocks []*ssa.BasicBlock
	for _, cand := range r.Prog.calleesWithin(site.caller, 2) {
		var bs []*ssa.BasicBlock
		for _, b := range cand.Blocks {
			for _, in := range b.Instrs {
				if bo, ok := in.(*ssa.BinOp); ok && isEqCompare(bo, loadOfPath(nil, "Name"), loadOfPath(nil, "Status", "ActiveReplicaSet")) {
					bs = append(bs, b)
				}
			}
		}
		if len(bs) > 0 {
			fn = cand
			cmpBlocks = bs
			break
		}
	}
	k := newKeyer(fn)
	pos := r.Prog.Pos(site.call.Pos())
	if len(cmpBlocks) == 0 {
		r.Undecided("C05.R8", "active replica set scan", pos, shortFunc(fn), "no comparison item.Name == status.activeReplicaSet found in the caller of the decision")
		return
	}
	for _, cb := range cmpBlocks {
		headers := enclosingLoopHeaders(fn, cb)
		if len(headers) != 1 {
			r.Undecided("C05.R8", "active replica set scan", r.Prog.Pos(cb.Instrs[0].Pos()), shortFunc(fn), fmt.Sprintf("the comparison is inside %d loops", len(headers)))
			continue
		}
		var h *ssa.BasicBlock
		for x := range headers {
			h = x
		}
		// body entry = successor of the header that stays in the loop
		inLoop := func(b *ssa.BasicBlock) bool { return enclosingLoopHeaders(fn, b)[h] }
		ok := true
		detail := ""
		n := 0
		for _, s := range h.Succs {
			if !inLoop(s) || s == h {
				continue
			}
			// every path from s back to h must pass cb
			paths, okp := enumPaths(fn, k, s, func(b *ssa.BasicBlock) bool { return b == h }, func(b *ssa.BasicBlock) bool { return !inLoop(b) }, 5000)
			if !okp {
				ok = false
				detail = "path cap exceeded"
			}
			for _, p := range paths {
				last := p.Blocks[len(p.Blocks)-1]
				if last != h {
					continue
				}
				n++
				if !p.Contains(cb) {
					ok = false
					detail = "an iteration can reach the next one without comparing the item's name with status.activeReplicaSet: [" + shortFacts(p) + "]"
				}
			}
		}
		// the scan may be left early only once the recorded active replica set has been found: every
		// edge leaving the loop from a block other than its header carries the fact name == active
		// (or leaves the function with an error)
		ff := r.Prog.factsOf(fn)
		for _, lb := range fn.Blocks {
			if lb == h || !inLoop(lb) {
				continue
			}
			for _, s := range lb.Succs {
				if inLoop(s) || s == h {
					continue
				}
				found := false
				for _, f := range ff.FactsAtEdge(lb, s) {
					if f.Pol && isEqCompare(f.V, loadOfPath(nil, "Name"), loadOfPath(nil, "Status", "ActiveReplicaSet")) {
						found = true
					}
				}
				if !found {
					for _, f := range ff.At(lb) {
						if f.Pol && isEqCompare(f.V, loadOfPath(nil, "Name"), loadOfPath(nil, "Status", "ActiveReplicaSet")) {
							found = true
						}
					}
				}
				if ret := returnOf(s); ret != nil && len(ret.Results) > 0 {
					if e := ret.Results[len(ret.Results)-1]; !isNilConst(e) && typeName(e.Type()) == "error" {
						found = true
					}
				}
				if !found {
					ok = false
					detail = "the scan can be left at " + r.Prog.Pos(instrPos(lb.Instrs[len(lb.Instrs)-1])) + " before every listed replica set was compared, without having found the recorded active one"
				}
			}
		}
		r.paths += n
		r.Check("C05.R8", "active replica set scan", r.Prog.Pos(cb.Instrs[0].Pos()), shortFunc(fn),
			"every iteration over the listed replica sets compares the item's name with status.activeReplicaSet, and the scan ends early only once it was found", ok && n > 0, detail)
	}
}

// ---- C07 / C08 ---------------------------------------------------------------------------------

func c07Imports(r *Run) {
	r.Floor("C07.R11", 3)
	r.ImportFromIf(runC05, map[string]string{"C05.R6": "C07.R11"}, map[string]string{
		"C07.R11": "the ExtendedDaemonSet controller's failed reader answers no only when the replica set's Canary-Failed condition is not true: no other condition (e.g. Canary=False written by the replica-set controller between the status write and the spec write of the rollback) can mask a failed canary before spec.template is restored"},
		func(o *Obligation) bool { return strings.Contains(o.Key, "IsCanaryDeploymentFailed") })
	r.Floor("C07.R7", 6)
	r.Floor("C07.R10", 3)
	r.ImportFrom(runC09, map[string]string{"C09.R3": "C07.R10"}, map[string]string{
		"C07.R10": "the creation ramp of the replica set rolled back to is computed from the right operands (increase, elapsed time since activation, interval): with swapped operands the long-active replica set never re-creates the pods of the former canary nodes"})
	r.Floor("C07.R9", 1)
	r.ImportFromIf(runC03, map[string]string{"C03.R3": "C07.R9"}, map[string]string{
		"C07.R9": "every input the limits function reads is filled by the planner — in particular the credit for old pods that are already unavailable, without which crash-looping pods of the failed canary are never replaced after the rollback"},
		func(o *Obligation) bool { return strings.Contains(o.Key, "limits inputs filled") })
	r.ImportFrom(runC06, map[string]string{"C06.R3": "C07.R7"}, map[string]string{
		"C07.R7": "the failed mark is sticky on the replica-set side: IsFailed starts from the persisted Canary-Failed condition and is only ever set to true (a user- or auto-failed canary stays failed until the rollback has been done)"})
}

func c08Imports(r *Run) {
	c08ControllerKeepsPauseAnnotations(r)
	r.Floor("C08.R5", 3)
	r.Floor("C08.R6", 4)
	r.ImportFrom(runC19, map[string]string{"C19.R5": "C08.R5"}, map[string]string{
		"C08.R5": "a paused canary resumes on explicit validation: every decision path with canary-valid true returns the up-to-date replica set"})
	r.ImportFrom(runC06, map[string]string{"C06.R2": "C08.R6", "C06.R4": "C08.R6"}, map[string]string{
		"C08.R6": "a pause is released only by the unpause annotation: IsPaused=false is stored only under IsUnpaused, IsPaused=true only on documented triggers"})
}

// ---- C01.R8: clean-up deletions are unconditional ----------------------------------------------

// c01CleanupAlways: in every planner that is given the clean-up list (Parameters.PodToCleanUp), a
// call that hands that list to the deleter dominates every return that is not an error return —
// duplicates and pods of ineligible nodes are deleted in every sync, paused/frozen or not.
func c01CleanupAlways(r *Run) {
	r.Floor("C01.R9", 3)
	r.ImportFrom(runC10, map[string]string{"C10.R2": "C01.R9"}, map[string]string{
		"C01.R9": "a created pod is attributed to the node it was created for: the affinity writer pins every term to the node name and leaves no other node-name requirement for the reader to find first (otherwise the next sync creates a second pod for the node)"})
	r.RuleDoc("C01.R8", "the clean-up list (duplicates, pods of ineligible nodes, failed pods) is handed to the deleter on every non-error path of the active and canary planners, whatever the pause/freeze state")
	r.Floor("C01.R8", 2)
	_, reach := ersReconcile(r)
	if reach == nil {
		return
	}
	isCleanupLoad := func(v ssa.Value) bool {
		_, p := accessPath(v)
		return len(p) > 0 && p[len(p)-1] == "PodToCleanUp"
	}
	// clean-up calls: (a) a call handed Parameters.PodToCleanUp whose callee reaches Delete(Pod);
	// (b) a call to a repository function that itself runs such a call on every non-error return
	// (the common ending of two planners folded into one helper). Fixpoint over (b).
	type fnInfo struct {
		calls  []ssa.CallInstruction
		always bool
	}
	info := map[*ssa.Function]*fnInfo{}
	var cand []*ssa.Function
	for _, fn := range sortedFuncs(reach) {
		if fn.Pkg == nil || fn.Pkg.Pkg.Path() != pkgStrategy {
			continue
		}
		cand = append(cand, fn)
		info[fn] = &fnInfo{}
	}
	allReturnsCovered := func(fn *ssa.Function, calls []ssa.CallInstruction) bool {
		if len(calls) == 0 {
			return false
		}
		ff := computeFacts(fn)
		idx := errorResultIndex(fn)
		for _, b := range fn.Blocks {
			ret := returnOf(b)
			if ret == nil {
				continue
			}
			if idx >= 0 && len(ret.Results) > idx && !isNilConst(ret.Results[idx]) {
				ev := ret.Results[idx]
				if ff.Holds(b, false, func(v ssa.Value, _ string) bool {
					return isNilCompareOf(v, func(x ssa.Value) bool { return x == ev })
				}) {
					continue
				}
			}
			dominated := false
			for _, c := range calls {
				if c.Block() == b || c.Block().Dominates(b) {
					dominated = true
				}
			}
			if !dominated {
				return false
			}
		}
		return true
	}
	for changed := true; changed; {
		changed = false
		for _, fn := range cand {
			var calls []ssa.CallInstruction
			for _, ci := range callsIn(fn) {
				cal := staticCallee(ci.Common())
				if cal == nil || !r.Prog.IsRuleSite(cal) {
					continue
				}
				if ci2 := info[cal]; ci2 != nil && ci2.always {
					calls = append(calls, ci)
					continue
				}
				for _, a := range ci.Common().Args {
					if isCleanupLoad(a) {
						del := false
						for _, e := range effectsOf(r.Prog.reachableFuncs(cal)) {
							if e.Verb == "Delete" && shortKind(e.Kind) == "Pod" {
								del = true
							}
						}
						if del {
							calls = append(calls, ci)
						}
					}
				}
			}
			al := allReturnsCovered(fn, calls)
			if len(calls) != len(info[fn].calls) || al != info[fn].always {
				changed = true
			}
			info[fn].calls, info[fn].always = calls, al
		}
	}
	for _, fn := range cand {
		calls := info[fn].calls
		if len(calls) == 0 {
			continue
		}
		ff := computeFacts(fn)
		idx := errorResultIndex(fn)
		for _, b := range fn.Blocks {
			ret := returnOf(b)
			if ret == nil {
				continue
			}
			if idx >= 0 && len(ret.Results) > idx && !isNilConst(ret.Results[idx]) {
				ev := ret.Results[idx]
				if ff.Holds(b, false, func(v ssa.Value, _ string) bool {
					return isNilCompareOf(v, func(x ssa.Value) bool { return x == ev })
				}) {
					o := r.Check("C01.R8", "clean-up before return (error return)", r.Prog.Pos(instrPos(ret)), shortFunc(fn), "error returns are exempt", true, "")
					o.Trivial = true
					continue
				}
			}
			dominated := false
			for _, c := range calls {
				if c.Block() == b || c.Block().Dominates(b) {
					dominated = true
				}
			}
			r.Check("C01.R8", "clean-up before return", r.Prog.Pos(instrPos(ret)), shortFunc(fn),
				"the clean-up deletion of Parameters.PodToCleanUp runs on every path to this return (not only when the rollout is neither paused nor frozen)", dominated,
				"this return can be reached without the clean-up call")
		}
	}
}

// ---- C03.R7: seconds are converted to durations with the right unit ----------------------------

// c03SecondsUnit: wherever an integer field whose name ends in "Seconds" is converted to
// time.Duration in the pod predicates, the converted value is multiplied by time.Second. The
// stuck-pod tolerance of the budget compares a grace period with wall-clock time; a missing unit
// makes every terminating pod look stuck.
func c03SecondsUnit(r *Run) {
	r.RuleDoc("C03.R7", "integer *Seconds fields converted to time.Duration are multiplied by time.Second before use")
	r.Floor("C03.R7", 1)
	for _, fn := range r.Prog.RepoFuncs() {
		if fn.Pkg == nil || (fn.Pkg.Pkg.Path() != pkgPodUtils && fn.Pkg.Pkg.Path() != pkgStrategy && fn.Pkg.Pkg.Path() != pkgERS) {
			continue
		}
		for _, b := range fn.Blocks {
			for _, in := range b.Instrs {
				var cv ssa.Value
				var cvX ssa.Value
				switch x := in.(type) {
				case *ssa.Convert:
					cv, cvX = x, x.X
				case *ssa.ChangeType:
					cv, cvX = x, x.X
				default:
					continue
				}
				if typeName(cv.Type()) != "time.Duration" {
					continue
				}
				_, p := accessPath(cvX)
				src := ""
				if len(p) > 0 && strings.HasSuffix(p[len(p)-1], "Seconds") {
					src = p[len(p)-1]
				} else if pr, isP := cvX.(*ssa.Parameter); isP && strings.HasSuffix(strings.ToLower(pr.Name()), "seconds") {
					src = pr.Name()
				}
				if src == "" {
					continue
				}
				okUnit := len(refs(cv)) > 0
				for _, u := range refs(cv) {
					bo, isB := u.(*ssa.BinOp)
					if !isB || bo.Op != token.MUL {
						okUnit = false
						continue
					}
					other := bo.Y
					if other == cv {
						other = bo.X
					}
					c, isC := other.(*ssa.Const)
					if !isC || c.Value == nil || c.Value.Kind() != constant.Int {
						okUnit = false
						continue
					}
					if v, exact := constant.Int64Val(c.Value); !exact || v != 1000000000 {
						okUnit = false
					}
				}
				r.Check("C03.R7", "duration from "+src, r.Prog.Pos(cv.Pos()), shortFunc(fn),
					"a *Seconds value converted to time.Duration is multiplied by time.Second", okUnit, "the converted value is used without the time.Second factor")
			}
		}
	}
}

// ---- C04.R8: the canary-label loop skips, never stops ------------------------------------------

// c04LabelLoopExits: in the function that adds the canary label, a return inside the loop over the
// canary nodes is an error return (the label patch failed); a node without a pod or a pod of
// another replica set is skipped, it does not end the loop for the remaining nodes.
func c04LabelLoopExits(r *Run) {
	r.Floor("C04.R11", 4)
	r.ImportFromIf(runC09, map[string]string{"C09.R3": "C04.R11"}, map[string]string{
		"C04.R11": "the start of the rolling update, which opens the window in which the canary label is removed from the pods of a promoted replica set, is the LastTransitionTime of the Active condition only while that condition is True (a stale Active=False stamp from the canary phase would close the window before the first active sync and leave the label on for ever)"},
		func(o *Obligation) bool { return strings.Contains(o.Key, "ramp origin") })
	r.RuleDoc("C04.R8", "the canary-label loop over the canary nodes is left early only with the error of a failed label write")
	r.Floor("C04.R8", 1)
	_, reach := ersReconcile(r)
	if reach == nil {
		return
	}
	canaryKey, _ := r.Prog.constStr(pkgAPI, "ExtendedDaemonSetReplicaSetCanaryLabelKey")
	for _, fn := range sortedFuncs(reach) {
		// the label-adding function: calls a repository function with the canary label key constant
		// as an argument, inside a loop, and that callee patches a pod by adding the label
		var adds []*ssa.Call
		for _, ci := range callsIn(fn) {
			c, ok := ci.(*ssa.Call)
			if !ok {
				continue
			}
			cal := staticCallee(&c.Call)
			if cal == nil || !r.Prog.IsRuleSite(cal) {
				continue
			}
			nConst := 0
			for _, a := range c.Call.Args {
				if s, isS := constString(a); isS && s == canaryKey {
					nConst++
				}
			}
			if nConst == 0 || len(c.Call.Args) < 5 { // (logger, client, pod, key, value): the adder takes a value too
				continue
			}
			if len(enclosingLoopHeaders(fn, c.Block())) == 0 {
				continue
			}
			adds = append(adds, c)
		}
		if len(adds) == 0 {
			continue
		}
		ff := computeFacts(fn)
		idx := errorResultIndex(fn)
		for _, add := range adds {
			var h *ssa.BasicBlock
			for x := range enclosingLoopHeaders(fn, add.Block()) {
				h = x
			}
			for _, b := range fn.Blocks {
				ret := returnOf(b)
				if ret == nil || !enclosingLoopHeaders(fn, b)[h] {
					// a return block is never inside the natural loop; test instead: reachable from
					// the loop body without passing the header's exit edge
					continue
				}
				_ = ret
			}
			// returns reachable from inside the loop without going through the header again
			inLoop := func(b *ssa.BasicBlock) bool { return enclosingLoopHeaders(fn, b)[h] }
			for _, b := range fn.Blocks {
				ret := returnOf(b)
				if ret == nil || idx < 0 || len(ret.Results) <= idx {
					continue
				}
				// is b entered from a loop block other than the header?
				fromBody := false
				seen := map[*ssa.BasicBlock]bool{}
				var back func(x *ssa.BasicBlock)
				back = func(x *ssa.BasicBlock) {
					if seen[x] {
						return
					}
					seen[x] = true
					for _, p := range x.Preds {
						if p == h {
							continue
						}
						if inLoop(p) {
							fromBody = true
							return
						}
						if !inLoop(x) {
							back(p)
						}
					}
				}
				back(b)
				if !fromBody {
					continue
				}
				ev := ret.Results[idx]
				isErr := !isNilConst(ev) && ff.Holds(b, false, func(v ssa.Value, _ string) bool {
					return isNilCompareOf(v, func(x ssa.Value) bool { return x == ev })
				})
				r.Check("C04.R8", "return inside the canary-label loop", r.Prog.Pos(instrPos(ret)), shortFunc(fn),
					"leaving the loop over the canary nodes early is only allowed with a non-nil error", isErr,
					"the loop is left with a nil error: the pods of the remaining canary nodes are never labelled")
			}
		}
	}
}

// ---- more imports added after the second round of seeded changes -------------------------------

func c13Imports(r *Run) {
	r.Floor("C13.R5", 6)
	r.Floor("C13.R6", 2)
	r.ImportFrom(runC10, map[string]string{"C10.R1": "C13.R5"}, map[string]string{
		"C13.R5": "the hash stamped on every created pod is the replica set's TemplateGeneration, written unconditionally by the pod constructor (hash triple replica-set annotation / templateGeneration / pod annotation)"})
	r.ImportFrom(runC12, map[string]string{"C12.R2": "C13.R6"}, map[string]string{
		"C13.R6": "the replica sets considered for creation and clean-up are the owner's own (namespace- and name-label-scoped list): a foreign replica set is never collected, an own one never missed"})
}

func c15Imports(r *Run) {
	r.Floor("C15.R10", 8)
	r.Floor("C15.R11", 2)
	r.ImportFrom(runC01, map[string]string{"C01.R7": "C15.R10"}, map[string]string{
		"C15.R10": "the eligibility test applied to canary candidates (CheckNodeFitness) requires node selector, required affinity and NoSchedule/NoExecute taints"})
	r.ImportFrom(runC12, map[string]string{"C12.R2": "C15.R11"}, map[string]string{
		"C15.R11": "the pods whose restarts order the candidates are the ExtendedDaemonSet's own (namespace- and name-label-scoped list)"})
}

func c17Imports(r *Run) {
	r.Floor("C17.R4", 6)
	r.ImportFrom(runC10, map[string]string{"C10.R1": "C17.R4"}, map[string]string{
		"C17.R4": "parallel pod creations share no template memory: the pod constructor works on a DeepCopy of the replica set's template"})
}

func c11MoreImports(r *Run) {
	r.Floor("C11.R9", 1)
	r.ImportFrom(runC04, map[string]string{"C04.R10": "C11.R9"}, map[string]string{
		"C11.R9": "labelling the canary pods is level-triggered: the label pass is reached on every non-error return of the canary strategy, so a rejected or lost label Patch is retried by the next reconcile whatever the persisted counters say"})
	r.Floor("C11.R8", 8)
	r.ImportFrom(runC14, map[string]string{"C14.R2": "C11.R8"}, map[string]string{
		"C11.R8": "the replica-set counters, which the ExtendedDaemonSet controller takes decisions from (delete when all are zero), are written only from values computed by a planner on a non-error return — never zeroed or guessed on a failed read"})
	r.ImportFrom(runC07, map[string]string{"C07.R5": "C11.R6"}, nil)
}

// c08ControllerKeepsPauseAnnotations (C08.R7): pause and freeze are withheld "while the annotation is
// set" — so no reconciler may remove or rewrite the rolling-update-paused / rollout-frozen
// annotation keys of an ExtendedDaemonSet itself (only the user and the CLI do). Every delete(m, k)
// and m[k] = v on the annotations of an ExtendedDaemonSet reachable from a Reconcile is examined
// when its key resolves to constants (a constant, or the elements of a local or package-level
// literal it ranges over); unresolvable keys are not judged.
func c08ControllerKeepsPauseAnnotations(r *Run) {
	r.RuleDoc("C08.R7", "no reconciler deletes or rewrites the rolling-update-paused / rollout-frozen annotation of an ExtendedDaemonSet (the pause lasts while the user's annotation is set)")
	paused, ok1 := r.Prog.constStr(pkgAPI, "ExtendedDaemonSetRollingUpdatePausedAnnotationKey")
	frozen, ok2 := r.Prog.constStr(pkgAPI, "ExtendedDaemonSetRolloutFrozenAnnotationKey")
	if !ok1 || !ok2 {
		r.Fatal("pause/freeze annotation key constants not found")
		return
	}
	var roots []*ssa.Function
	for _, e := range reconcileEntries(r) {
		roots = append(roots, e)
	}
	reach := r.Prog.reachableFuncs(roots...)
	var ownedIP func(m ssa.Value, d int) bool
	ownedIP = func(m ssa.Value, d int) bool {
		if annotationsOwnedBy(m, "ExtendedDaemonSet") {
			return true
		}
		if p, ok := m.(*ssa.Parameter); ok && d < 3 {
			outs := r.Prog.stepOut(p)
			if len(outs) == 0 {
				return false
			}
			for _, o := range outs {
				if !ownedIP(o, d+1) {
					return false
				}
			}
			return true
		}
		return false
	}
	n := 0
	for _, fn := range sortedFuncs(reach) {
		if !r.Prog.IsRuleSite(fn) {
			continue
		}
		for _, b := range fn.Blocks {
			for _, in := range b.Instrs {
				var m, k ssa.Value
				what := ""
				switch x := in.(type) {
				case *ssa.Call:
					if bi, ok := x.Call.Value.(*ssa.Builtin); ok && bi.Name() == "delete" && len(x.Call.Args) == 2 {
						m, k, what = x.Call.Args[0], x.Call.Args[1], "delete"
					}
				case *ssa.MapUpdate:
					m, k, what = x.Map, x.Key, "write"
				}
				if m == nil || !ownedIP(m, 0) {
					continue
				}
				keys, resolved := constStringsOf(r.Prog, k)
				if !resolved {
					continue
				}
				n++
				bad := ""
				for _, s := range keys {
					if s == paused || s == frozen {
						bad = s
					}
				}
				r.Check("C08.R7", what+" of an ExtendedDaemonSet annotation", r.Prog.Pos(instrPos(in)), shortFunc(fn),
					"the key is neither the rolling-update-paused nor the rollout-frozen annotation", bad == "",
					"the reconciler itself removes/rewrites "+bad+": the pause or freeze ends without the user lifting it")
			}
		}
	}
	r.extra["C08.R7 annotation writes judged"] = n
}

// constStringsOf resolves a string value to the constants it can be: a constant, or an element of a
// literal collection (local array/slice literal, or a package-level array/slice initialised once by
// a literal) reached by indexing or ranging.
func constStringsOf(p *Prog, v ssa.Value) ([]string, bool) {
	v = unwrap(v)
	if s, ok := constString(v); ok {
		return []string{s}, true
	}
	var coll ssa.Value
	switch x := v.(type) {
	case *ssa.UnOp:
		if x.Op == token.MUL {
			if ia, ok := x.X.(*ssa.IndexAddr); ok {
				coll = ia.X
			}
		}
	case *ssa.Index:
		coll = x.X
	case *ssa.Extract:
		if nx, ok := x.Tuple.(*ssa.Next); ok {
			if rg, ok := nx.Iter.(*ssa.Range); ok {
				coll = rg.X
			}
		}
	}
	if coll == nil {
		return nil, false
	}
	// look through slicing and loads to the backing array
	for i := 0; i < 6; i++ {
		switch y := coll.(type) {
		case *ssa.Slice:
			coll = y.X
			continue
		case *ssa.UnOp:
			if y.Op == token.MUL {
				if g, ok := y.X.(*ssa.Global); ok {
					return globalLiteralStrings(p, g)
				}
				coll = y.X
				continue
			}
		}
		break
	}
	switch a := coll.(type) {
	case *ssa.Alloc:
		var out []string
		for _, rr := range refs(a) {
			ia, ok := rr.(*ssa.IndexAddr)
			if !ok {
				continue
			}
			for _, r2 := range refs(ia) {
				if st, ok := r2.(*ssa.Store); ok && st.Addr == ssa.Value(ia) {
					s, okc := constString(unwrap(st.Val))
					if !okc {
						return nil, false
					}
					out = append(out, s)
				}
			}
		}
		return out, len(out) > 0
	case *ssa.Global:
		return globalLiteralStrings(p, a)
	}
	return nil, false
}

func globalLiteralStrings(p *Prog, g *ssa.Global) ([]string, bool) {
	if g.Pkg == nil {
		return nil, false
	}
	initFn := g.Pkg.Func("init")
	if initFn == nil {
		return nil, false
	}
	var out []string
	for _, b := range initFn.Blocks {
		for _, in := range b.Instrs {
			st, ok := in.(*ssa.Store)
			if !ok {
				continue
			}
			// array global: stores to &g[i]; slice global: store of a slice of a local array
			if ia, ok := st.Addr.(*ssa.IndexAddr); ok && ia.X == ssa.Value(g) {
				s, okc := constString(unwrap(st.Val))
				if !okc {
					return nil, false
				}
				out = append(out, s)
			}
			if st.Addr == ssa.Value(g) {
				if sl, ok := unwrap(st.Val).(*ssa.Slice); ok {
					if a, ok := sl.X.(*ssa.Alloc); ok {
						for _, rr := range refs(a) {
							if ia, ok := rr.(*ssa.IndexAddr); ok {
								for _, r2 := range refs(ia) {
									if s2, ok := r2.(*ssa.Store); ok && s2.Addr == ssa.Value(ia) {
										s, okc := constString(unwrap(s2.Val))
										if !okc {
											return nil, false
										}
										out = append(out, s)
									}
								}
							}
						}
					}
				}
			}
		}
	}
	return out, len(out) > 0
}

// ---- imports added after the fourth seeding round ------------------------------------------------

func c10Imports(r *Run) {
	r.Floor("C10.R10", 4)
	r.ImportFrom(runC18, map[string]string{"C18.R5": "C10.R10"}, map[string]string{
		"C10.R10": "the setting handed to the pod constructor and to the comparison for a node is a VALID ExtendedDaemonsetSetting that references this ExtendedDaemonSet and selects the node (the consumer takes nothing else)"})
}

func c14Imports(r *Run) {
	r.Floor("C14.R5", 2)
	r.ImportFrom(runC08, map[string]string{"C08.R4": "C14.R5"}, map[string]string{
		"C14.R5": "outside a canary, status.state is computed from the pause/freeze annotations of the reconciled object by the state table (never a constant)"})
}

func c16Imports(r *Run) {
	r.Floor("C16.R9", 2)
	r.ImportFrom(runC09, map[string]string{"C09.R1": "C16.R9"}, map[string]string{
		"C16.R9": "the creation budget used as a slice bound is >= 0 and <= the number of candidates on every return of the limits function (a negative user-supplied cap must never reach candidates[:k])"})
}
