package main

// edscheck — repository-specific static checker for DataDog/extendeddaemonset.
// One invocation decides one property: edscheck -property C05 [-tier quick|thorough].
// It loads /repo's current working tree from scratch, never executes repository code.

import (
	"encoding/json"
	"flag"
	"fmt"
	"os"
	"path/filepath"
	"runtime/debug"
	"sort"
	"time"
)

var noControls bool

type propertyDef struct {
	id      string
	explain string
	run     func(r *Run)
}

var properties = map[string]*propertyDef{}

func register(id, explain string, run func(r *Run)) {
	properties[id] = &propertyDef{id: id, explain: explain, run: run}
}

func main() {
	prop := flag.String("property", "", "property id (C01..C20)")
	tier := flag.String("tier", "", "quick or thorough (default: $VERIF_TIER or quick)")
	repo := flag.String("repo", "/repo", "repository working tree to analyse")
	root := flag.String("root", "", "verification root holding evidence/ and known_findings.json (default: cwd)")
	only := flag.String("only", "", "report only obligations whose key has this prefix (replay)")
	replay := flag.String("replay", "", "replay file written by a failing run: re-checks exactly those obligations")
	tags := flag.String("tags", "", "build tags")
	list := flag.Bool("list", false, "list properties")
	explain := flag.Bool("explain", false, "print the registered explanation of every property as JSON")
	flag.BoolVar(&noControls, "nocontrols", false, "skip the positive/negative controls of the thorough tier")
	writeRef := flag.Bool("write-reference", false, "write controls/REFERENCE.sha256 for the tree given by -repo (done by hand after the controls were validated on it)")
	flag.Parse()
	if *writeRef {
		if *root == "" {
			*root, _ = os.Getwd()
		}
		abs, _ := filepath.Abs(*repo)
		d := treeDigest(abs)
		if err := os.WriteFile(filepath.Join(*root, "controls", "REFERENCE.sha256"), []byte(d+"\n"), 0o644); err != nil {
			fmt.Fprintln(os.Stderr, err)
			os.Exit(2)
		}
		fmt.Println(d)
		return
	}
	if *explain {
		out := map[string]string{}
		for id, d := range properties {
			out[id] = d.explain
		}
		b, _ := json.MarshalIndent(out, "", " ")
		fmt.Println(string(b))
		return
	}
	if *list {
		var ids []string
		for id := range properties {
			ids = append(ids, id)
		}
		sort.Strings(ids)
		for _, id := range ids {
			fmt.Println(id)
		}
		return
	}
	if *tier == "" {
		*tier = os.Getenv("VERIF_TIER")
	}
	if *tier != "thorough" {
		*tier = "quick"
	}
	if *root == "" {
		*root, _ = os.Getwd()
	}
	if *prop == "all" {
		os.Exit(runAll(*repo, *root, *tags))
	}
	def := properties[*prop]
	if def == nil {
		fmt.Fprintf(os.Stderr, "unknown property %q\n", *prop)
		os.Exit(2)
	}
	abs, _ := filepath.Abs(*repo)
	os.Exit(runProperty(def, *tier, abs, *root, *only, *replay, *tags))
}

func runProperty(def *propertyDef, tier, repo, root, only, replay, tags string) (code int) {
	start := time.Now()
	r := &Run{Property: def.id, Tier: tier, Root: root, start: start, only: only, extra: map[string]interface{}{}}
	if replay != "" {
		// replay: re-check exactly the obligations listed in a violations file of an earlier run
		r.extra["replay_of"] = replay
		r.onlyKeys = map[string]bool{}
		if b, err := os.ReadFile(replay); err == nil {
			var obs []Obligation
			if json.Unmarshal(b, &obs) == nil {
				for _, o := range obs {
					r.onlyKeys[o.Key] = true
				}
			}
		}
		if len(r.onlyKeys) == 0 {
			fmt.Printf("%s.LOAD replay file %s lists no obligations\n", def.id, replay)
			return 1
		}
	}
	fullSSABodies = tier == "thorough"
	prog, err := Load(repo, tags)
	if err != nil {
		fmt.Printf("%s.LOAD cannot analyse %s: %v\n", def.id, repo, err)
		fmt.Printf("VIOLATION property=%s replay=%s\n", def.id, filepath.Join(root, "evidence", def.id+".violations.json"))
		return 1
	}
	r.Prog = prog
	defer func() {
		if p := recover(); p != nil {
			fmt.Printf("%s.LOAD analyser panic: %v\n%s\n", def.id, p, debug.Stack())
			fmt.Printf("VIOLATION property=%s replay=%s\n", def.id, filepath.Join(root, "evidence", def.id+".violations.json"))
			code = 1
		}
	}()
	def.run(r)
	if tier == "thorough" {
		runThoroughExtras(r, def, repo, tags)
		if !noControls {
			runControls(r, def, repo)
		}
	}
	return r.Finish(def.explain)
}

// runAll loads the tree once and runs every registered property's rules on it without writing
// evidence (development aid and seeded-change matrix): one line per property.
func runAll(repo, root, tags string) int {
	abs, _ := filepath.Abs(repo)
	prog, err := Load(abs, tags)
	if err != nil {
		fmt.Printf("LOAD cannot analyse %s: %v\n", repo, err)
		return 1
	}
	var ids []string
	for id := range properties {
		ids = append(ids, id)
	}
	sort.Strings(ids)
	rc := 0
	for _, id := range ids {
		func() {
			r := &Run{Property: id, Tier: "quick", Root: root, Prog: prog, start: time.Now(), extra: map[string]interface{}{}, dry: true}
			defer func() {
				if p := recover(); p != nil {
					fmt.Printf("%s.LOAD analyser panic: %v\n", id, p)
					fmt.Printf("ALL %s VIOLATION\n", id)
					rc = 1
				}
			}()
			properties[id].run(r)
			if r.Finish(properties[id].explain) != 0 {
				fmt.Printf("ALL %s VIOLATION\n", id)
				rc = 1
			} else {
				fmt.Printf("ALL %s ok\n", id)
			}
		}()
	}
	return rc
}
