package main

// Thorough tier: repeats the property's rules under the other build configurations that the
// release builds use (fips tag; plugin cross-builds), folding their obligations into the run.

import "fmt"

func runThoroughExtras(r *Run, def *propertyDef, repo, tags string) {
	configs := []struct {
		name string
		tags string
		env  []string
	}{
		{"tags=fips", "fips", []string{"GOEXPERIMENT=boringcrypto"}},
		{"GOOS=darwin", "", []string{"GOOS=darwin", "CGO_ENABLED=0"}},
		{"GOOS=windows", "", []string{"GOOS=windows", "CGO_ENABLED=0"}},
	}
	var done []string
	// the whole-program VTA call graph is built for the default configuration only; the other
	// configurations differ in a handful of build-tagged files and use the static call graph
	fullSSABodies = false
	for _, c := range configs {
		p, err := Load(repo, c.tags, c.env...)
		if err != nil {
			r.Fatal("build configuration %s cannot be analysed: %v", c.name, err)
			continue
		}
		sub := &Run{Property: r.Property, Tier: r.Tier, Prog: p, Root: r.Root, start: r.start, extra: map[string]interface{}{}}
		def.run(sub)
		bad := 0
		for _, o := range sub.Obs {
			if !o.OK {
				bad++
				o2 := *o
				o2.Detail = "[" + c.name + "] " + o.Detail
				// same key: a violation present in every configuration is reported once
				found := false
				for _, m := range r.Obs {
					if m.Key == o2.Key && !m.OK {
						found = true
					}
				}
				if !found {
					o2.Key = o2.Key + "@" + c.name
					r.Obs = append(r.Obs, &o2)
				}
			}
		}
		for rule, n := range sub.floors {
			cnt := 0
			for _, o := range sub.Obs {
				if o.Rule == rule {
					cnt++
				}
			}
			if cnt < n {
				r.Fatal("build configuration %s: rule %s has %d instances, floor %d", c.name, rule, cnt, n)
			}
		}
		done = append(done, fmt.Sprintf("%s: %d obligations, %d failing", c.name, len(sub.Obs), bad))
		r.paths += sub.paths
	}
	r.extra["build_configurations"] = append([]string{"default"}, done...)
}
