package main

// Generic helpers added for C03 / C09 / C14:
//   - natural loops, per-iteration paths, counter deltas and appended elements (PATHS over a loop body)
//   - BOUND: one-sided ordering proofs from must-facts, phi edges and the builtins min/max; linear
//     forms over named leaves with one-sided dominance
//   - instruction-level reachability ("every path from A to a return passes B")
//   - interprocedural backward provenance (parameters -> call-site arguments, free variables ->
//     closure bindings, element-of steps)

import (
	"fmt"
	"go/token"
	"go/types"
	"sort"
	"strings"

	"golang.org/x/tools/go/ssa"
)

// ---------------------------------------------------------------------------------------------
// small utilities

// stripIntConv looks through conversions between integer types and ChangeType.
func stripIntConv(v ssa.Value) ssa.Value {
	for {
		switch x := v.(type) {
		case *ssa.Convert:
			if isIntegerType(x.Type()) && isIntegerType(x.X.Type()) {
				v = x.X
				continue
			}
		case *ssa.ChangeType:
			v = x.X
			continue
		}
		return v
	}
}

func isIntegerType(t types.Type) bool {
	b, ok := t.Underlying().(*types.Basic)
	return ok && b.Info()&types.IsInteger != 0
}

func builtinCall(v ssa.Value, name string) *ssa.Call {
	c, ok := v.(*ssa.Call)
	if !ok {
		return nil
	}
	if b, ok := c.Call.Value.(*ssa.Builtin); ok && b.Name() == name {
		return c
	}
	return nil
}

func instrIndex(in ssa.Instruction) int {
	for i, x := range in.Block().Instrs {
		if x == in {
			return i
		}
	}
	return -1
}

// instrBefore reports whether a executes before b when both are in the same block.
func instrBefore(a, b ssa.Instruction) bool {
	return a.Block() == b.Block() && instrIndex(a) < instrIndex(b)
}

// blockReaches reports whether `to` is reachable from `from` (following at least zero edges).
func blockReaches(from, to *ssa.BasicBlock) bool {
	seen := map[*ssa.BasicBlock]bool{}
	var rec func(b *ssa.BasicBlock) bool
	rec = func(b *ssa.BasicBlock) bool {
		if b == to {
			return true
		}
		if seen[b] {
			return false
		}
		seen[b] = true
		for _, s := range b.Succs {
			if rec(s) {
				return true
			}
		}
		return false
	}
	return rec(from)
}

// canExecuteAfter reports whether instruction b can execute after instruction a on some path.
func canExecuteAfter(a, b ssa.Instruction) bool {
	if a.Block() == b.Block() && instrIndex(a) < instrIndex(b) {
		return true
	}
	for _, s := range a.Block().Succs {
		if blockReaches(s, b.Block()) {
			return true
		}
	}
	return false
}

// reachAvoiding walks forward from just after `from` and returns the first instruction accepted by
// target that can be reached without executing an instruction accepted by avoid (nil if none).
func reachAvoiding(from ssa.Instruction, target, avoid func(ssa.Instruction) bool) ssa.Instruction {
	seen := map[*ssa.BasicBlock]bool{}
	var scan func(b *ssa.BasicBlock, start int) ssa.Instruction
	scan = func(b *ssa.BasicBlock, start int) ssa.Instruction {
		for i := start; i < len(b.Instrs); i++ {
			in := b.Instrs[i]
			if avoid != nil && avoid(in) {
				return nil
			}
			if target(in) {
				return in
			}
		}
		for _, s := range b.Succs {
			if seen[s] {
				continue
			}
			seen[s] = true
			if r := scan(s, 0); r != nil {
				return r
			}
		}
		return nil
	}
	return scan(from.Block(), instrIndex(from)+1)
}

// entryReachesWithoutEdges reports whether block `to` is reachable from the function entry when the
// CFG edges in cut are removed.
func entryReachesWithoutEdges(fn *ssa.Function, to *ssa.BasicBlock, cut map[[2]*ssa.BasicBlock]bool) bool {
	seen := map[*ssa.BasicBlock]bool{}
	var rec func(b *ssa.BasicBlock) bool
	rec = func(b *ssa.BasicBlock) bool {
		if b == to {
			return true
		}
		if seen[b] {
			return false
		}
		seen[b] = true
		for _, s := range b.Succs {
			if cut[[2]*ssa.BasicBlock{b, s}] {
				continue
			}
			if rec(s) {
				return true
			}
		}
		return false
	}
	return rec(fn.Blocks[0])
}

// ---------------------------------------------------------------------------------------------
// loops

// loopB is a natural loop of a function.
type loopB struct {
	fn      *ssa.Function
	header  *ssa.BasicBlock
	blocks  map[*ssa.BasicBlock]bool
	latches []*ssa.BasicBlock
	// rangeOver is the container of a `for … := range c` loop (nil otherwise); for a map range key/val
	// are the per-iteration key and value.
	rangeOver ssa.Value
	key, val  ssa.Value
	// innerExit is set when the loop can be left from a block other than its header (break, return).
	innerExit bool
	// nested is set when another loop's header lies inside this loop.
	nested bool
	// classic is set for `for i := 0; i < len(c); i++` loops (see classicIndexLoop): c is re-read on
	// every iteration, so users must check that it is not written inside the function.
	classic bool
}

func findLoops(fn *ssa.Function) []*loopB {
	byHeader := map[*ssa.BasicBlock]*loopB{}
	var order []*loopB
	for _, b := range fn.Blocks {
		for _, s := range b.Succs {
			if s.Dominates(b) { // back edge b -> s
				l := byHeader[s]
				if l == nil {
					l = &loopB{fn: fn, header: s, blocks: map[*ssa.BasicBlock]bool{s: true}}
					byHeader[s] = l
					order = append(order, l)
				}
				l.latches = append(l.latches, b)
				// blocks that reach b without passing the header
				var stack []*ssa.BasicBlock
				if !l.blocks[b] {
					l.blocks[b] = true
					stack = append(stack, b)
				}
				for len(stack) > 0 {
					x := stack[len(stack)-1]
					stack = stack[:len(stack)-1]
					for _, p := range x.Preds {
						if !l.blocks[p] {
							l.blocks[p] = true
							stack = append(stack, p)
						}
					}
				}
			}
		}
	}
	for _, l := range order {
		for b := range l.blocks {
			for _, s := range b.Succs {
				if !l.blocks[s] && b != l.header {
					l.innerExit = true
				}
			}
			if b != l.header && byHeader[b] != nil {
				l.nested = true
			}
		}
		for _, in := range l.header.Instrs {
			if nx, ok := in.(*ssa.Next); ok {
				if rg, ok := nx.Iter.(*ssa.Range); ok {
					l.rangeOver = rg.X
					for _, r := range refs(nx) {
						if e, ok := r.(*ssa.Extract); ok {
							switch e.Index {
							case 1:
								l.key = e
							case 2:
								l.val = e
							}
						}
					}
				}
			}
		}
		if l.rangeOver == nil {
			// rangeindex loop over a slice/array: the header tests (idx+1) < len(c)
			for _, in := range l.header.Instrs {
				bo, ok := in.(*ssa.BinOp)
				if !ok || bo.Op != token.LSS {
					continue
				}
				inc, ok := bo.X.(*ssa.BinOp)
				if !ok || inc.Op != token.ADD || inc.Block() != l.header {
					continue
				}
				ph, ok := inc.X.(*ssa.Phi)
				if !ok || ph.Block() != l.header || ph.Comment != "rangeindex" {
					continue
				}
				if lc := builtinCall(bo.Y, "len"); lc != nil {
					l.rangeOver = lc.Call.Args[0]
					l.key = inc
				}
			}
		}
		if l.rangeOver == nil {
			l.classicIndexLoop()
		}
	}
	sort.Slice(order, func(i, j int) bool { return order[i].header.Index < order[j].header.Index })
	return order
}

// classicIndexLoop recognises `for i := 0; i < len(c); i++ { … }` (also written len(c) > i): the
// header ends in that test with the true edge entering the loop and the false edge leaving it, the
// index phi starts at the constant 0 and every value it receives from inside the loop is itself+1
// (through any merge of such values), so that each index 0..len(c)-1 is visited exactly once as
// long as the loop is left only through the header (innerExit, checked by the users) and c keeps
// its length (users check that c is not written). Sets rangeOver = c and key = the index phi.
func (l *loopB) classicIndexLoop() {
	if len(l.header.Instrs) == 0 || len(l.header.Succs) != 2 {
		return
	}
	iff, ok := l.header.Instrs[len(l.header.Instrs)-1].(*ssa.If)
	if !ok || !l.blocks[l.header.Succs[0]] || l.blocks[l.header.Succs[1]] {
		return
	}
	bo, ok := iff.Cond.(*ssa.BinOp)
	if !ok {
		return
	}
	var idx, lenv ssa.Value
	switch bo.Op {
	case token.LSS:
		idx, lenv = bo.X, bo.Y
	case token.GTR:
		idx, lenv = bo.Y, bo.X
	default:
		return
	}
	ph, ok := idx.(*ssa.Phi)
	lc := builtinCall(lenv, "len")
	if !ok || ph.Block() != l.header || lc == nil {
		return
	}
	var isInc func(v ssa.Value, d int) bool
	isInc = func(v ssa.Value, d int) bool {
		if d > 8 {
			return false
		}
		switch x := v.(type) {
		case *ssa.BinOp:
			if x.Op != token.ADD {
				return false
			}
			if c, isC := constInt(x.Y); isC && c == 1 && x.X == ssa.Value(ph) {
				return true
			}
			if c, isC := constInt(x.X); isC && c == 1 && x.Y == ssa.Value(ph) {
				return true
			}
		case *ssa.Phi:
			if x == ph || x.Block() == l.header || len(x.Edges) == 0 {
				return false
			}
			for _, e := range x.Edges {
				if !isInc(e, d+1) {
					return false
				}
			}
			return true
		}
		return false
	}
	for i, pb := range l.header.Preds {
		e := ph.Edges[i]
		if l.blocks[pb] {
			if !isInc(e, 0) {
				return
			}
		} else if c, isC := constInt(e); !isC || c != 0 {
			return
		}
	}
	l.rangeOver = lc.Call.Args[0]
	l.key = ph
	l.classic = true
}

// loopOfBlock returns the innermost loop containing b (nil if none).
func loopOfBlock(loops []*loopB, b *ssa.BasicBlock) *loopB {
	var best *loopB
	for _, l := range loops {
		if l.blocks[b] && (best == nil || len(l.blocks) < len(best.blocks)) {
			best = l
		}
	}
	return best
}

// iterPaths enumerates the acyclic paths header -> … -> latch -> header of one iteration, with the
// facts of every edge taken (including the back edge). Paths with contradictory facts are pruned;
// extraInfeasible lets the caller prune paths using lemmas. ok=false when the cap is exceeded.
func (l *loopB) iterPaths(k *keyer, cap int) (out []*Path, ok bool) {
	ok = true
	onPath := map[*ssa.BasicBlock]bool{}
	var blocks []*ssa.BasicBlock
	var facts []Fact
	var rec func(b *ssa.BasicBlock)
	rec = func(b *ssa.BasicBlock) {
		if !ok {
			return
		}
		blocks = append(blocks, b)
		onPath[b] = true
		defer func() { blocks = blocks[:len(blocks)-1]; onPath[b] = false }()
		for _, s := range b.Succs {
			if !l.blocks[s] {
				continue
			}
			if onPath[s] && s != l.header {
				continue
			}
			var nf []Fact
			if iff, isIf := b.Instrs[len(b.Instrs)-1].(*ssa.If); isIf && b.Succs[0] != b.Succs[1] {
				pol := b.Succs[0] == s
				cond := resolveAlong(blocks, iff.Cond)
				if cb, isConst := constBool(cond); isConst {
					if cb != pol {
						continue
					}
				} else {
					nf = k.normCond(cond, pol)
				}
			}
			contra := false
			for _, f := range nf {
				for _, g := range facts {
					if g.Key == f.Key && g.Pol != f.Pol {
						contra = true
					}
				}
			}
			if contra {
				continue
			}
			n := len(facts)
			facts = append(facts, nf...)
			if s == l.header {
				p := &Path{Blocks: append([]*ssa.BasicBlock(nil), blocks...), Facts: factSet{}, k: k}
				for _, f := range facts {
					p.Facts[fkey(f)] = f
				}
				out = append(out, p)
				if len(out) > cap {
					ok = false
				}
			} else {
				rec(s)
			}
			facts = facts[:n]
		}
	}
	rec(l.header)
	return out, ok
}

// latchEdge returns the value a header phi receives at the end of the iteration path p.
func (l *loopB) latchEdge(p *Path, phi *ssa.Phi) ssa.Value {
	latch := p.Blocks[len(p.Blocks)-1]
	for i, pb := range l.header.Preds {
		if pb == latch {
			return phi.Edges[i]
		}
	}
	return nil
}

// deltaOnPath returns by how much the counter held in header phi changes along iteration path p.
func (l *loopB) deltaOnPath(p *Path, phi *ssa.Phi) (int64, bool) {
	v := l.latchEdge(p, phi)
	if v == nil {
		return 0, false
	}
	var d int64
	for i := 0; i < 64; i++ {
		v = stripIntConv(v)
		if v == ssa.Value(phi) {
			return d, true
		}
		switch x := v.(type) {
		case *ssa.Phi:
			if x.Block() == l.header {
				return 0, false // another loop-carried variable
			}
			nv := p.ResolveOnce(x)
			if nv == ssa.Value(x) {
				return 0, false
			}
			v = nv
		case *ssa.BinOp:
			if c, ok := constInt(x.Y); ok && (x.Op == token.ADD || x.Op == token.SUB) {
				if x.Op == token.ADD {
					d += c
				} else {
					d -= c
				}
				v = x.X
			} else if c, ok := constInt(x.X); ok && x.Op == token.ADD {
				d += c
				v = x.Y
			} else {
				return 0, false
			}
		default:
			return 0, false
		}
	}
	return 0, false
}

// appendsOnPath returns the elements appended to the slice held in header phi along iteration path
// p (in order). ok=false when the slice is changed in any other way.
func (l *loopB) appendsOnPath(p *Path, phi *ssa.Phi) ([]ssa.Value, bool) {
	v := l.latchEdge(p, phi)
	if v == nil {
		return nil, false
	}
	var rev [][]ssa.Value
	for i := 0; i < 64; i++ {
		if v == ssa.Value(phi) {
			var out []ssa.Value
			for j := len(rev) - 1; j >= 0; j-- {
				out = append(out, rev[j]...)
			}
			return out, true
		}
		switch x := v.(type) {
		case *ssa.Phi:
			if x.Block() == l.header {
				return nil, false
			}
			nv := p.ResolveOnce(x)
			if nv == ssa.Value(x) {
				return nil, false
			}
			v = nv
		case *ssa.Call:
			if builtinCall(x, "append") == nil || len(x.Call.Args) != 2 {
				return nil, false
			}
			sl, isSl := x.Call.Args[1].(*ssa.Slice)
			if !isSl || sl.Low != nil || sl.High != nil {
				return nil, false
			}
			arr, isA := sl.X.(*ssa.Alloc)
			if !isA || arr.Comment != "varargs" {
				return nil, false
			}
			elems, complete := varargElems(x.Call.Args[1])
			if !complete {
				return nil, false
			}
			rev = append(rev, elems)
			v = x.Call.Args[0]
		default:
			return nil, false
		}
	}
	return nil, false
}

// isEmptySlice reports whether v is an empty slice value (nil, a literal without elements, make(_, 0)).
func isEmptySlice(v ssa.Value) bool {
	switch x := v.(type) {
	case *ssa.Const:
		return x.IsNil()
	case *ssa.Slice:
		if a, ok := x.X.(*ssa.Alloc); ok {
			if pt, ok := a.Type().(*types.Pointer); ok {
				if arr, ok := pt.Elem().Underlying().(*types.Array); ok && arr.Len() == 0 {
					return true
				}
			}
		}
	case *ssa.MakeSlice:
		if c, ok := constInt(x.Len); ok && c == 0 {
			return true
		}
	}
	return false
}

// entryEdges returns the values a header phi receives from outside the loop.
func (l *loopB) entryEdges(phi *ssa.Phi) []ssa.Value {
	var out []ssa.Value
	for i, pb := range l.header.Preds {
		if !l.blocks[pb] {
			out = append(out, phi.Edges[i])
		}
	}
	return out
}

// headerPhi returns v as a phi of the loop header (looking through integer conversions).
func (l *loopB) headerPhi(v ssa.Value) *ssa.Phi {
	ph, ok := stripIntConv(v).(*ssa.Phi)
	if ok && ph.Block() == l.header {
		return ph
	}
	return nil
}

// loopWithHeaderPhi finds the loop whose header defines the phi behind v.
func loopWithHeaderPhi(loops []*loopB, v ssa.Value) (*loopB, *ssa.Phi) {
	ph, ok := stripIntConv(v).(*ssa.Phi)
	if !ok {
		return nil, nil
	}
	for _, l := range loops {
		if l.header == ph.Block() {
			return l, ph
		}
	}
	return nil, nil
}

// pathCallFact returns the polarity with which the path knows the result of a call to callee whose
// argument #argIdx is accepted by arg (found=false when the path carries no such fact). keyOut is
// the canonical key of the call (to compare "the same notion" across facts).
func pathCallFact(p *Path, callee string, argIdx int, arg func(ssa.Value) bool) (pol, found bool, call *ssa.Call) {
	for _, f := range p.Facts {
		c, ok := f.V.(*ssa.Call)
		if !ok || calleeName(&c.Call) != callee || argIdx >= len(c.Call.Args) {
			continue
		}
		if arg(c.Call.Args[argIdx]) {
			return f.Pol, true, c
		}
	}
	return false, false, nil
}

// ---------------------------------------------------------------------------------------------
// BOUND

// ordFact is an ordering fact lo < hi (strict) or lo <= hi.
type ordFact struct {
	lo, hi ssa.Value
	strict bool
}

func ordFacts(fs factSet) []ordFact {
	var out []ordFact
	for _, f := range fs {
		bo, ok := f.V.(*ssa.BinOp)
		if !ok {
			continue
		}
		var lo, hi ssa.Value
		switch bo.Op {
		case token.LSS, token.GEQ: // fact key is (X<Y)
			lo, hi = bo.X, bo.Y
		case token.GTR, token.LEQ: // fact key is (Y<X)
			lo, hi = bo.Y, bo.X
		case token.EQL, token.NEQ:
			if f.Pol {
				out = append(out, ordFact{bo.X, bo.Y, false}, ordFact{bo.Y, bo.X, false})
			}
			continue
		default:
			continue
		}
		if f.Pol {
			out = append(out, ordFact{lo, hi, true})
		} else {
			out = append(out, ordFact{hi, lo, false})
		}
	}
	return out
}

// bframe is one activation in the prover's view: the root function, or a repository callee entered
// from a call site of the frame above (so that parameters can be replaced by that call's arguments).
type bframe struct {
	fn   *ssa.Function
	ff   *FuncFacts
	call ssa.CallInstruction // call site in up (nil for the root)
	up   *bframe
}

func (fr *bframe) depth() int {
	n := 0
	for f := fr; f.up != nil; f = f.up {
		n++
	}
	return n
}

// bgoal accepts a value (seen in frame fr) as a sufficient upper bound.
type bgoal func(v ssa.Value, fr *bframe) bool

// bprover proves one-sided integer orderings from must-facts, phi edges, the builtins min/max, and
// through calls to repository helpers: the result of a call is bounded if every value the callee
// returns is, with the callee's parameters standing for the call's arguments. It never evaluates
// anything.
type bprover struct {
	ff      *FuncFacts
	rootFr  *bframe
	descend func(*ssa.Function) bool // which callees may be entered (nil: any function with a body)
	facts   map[*ssa.Function]*FuncFacts
	stack   map[string]bool
}

func (bp *bprover) root() *bframe {
	if bp.rootFr == nil {
		bp.rootFr = &bframe{fn: bp.ff.fn, ff: bp.ff}
	}
	return bp.rootFr
}

// enter returns the frame of the static callee of call (nil when it cannot be entered).
func (bp *bprover) enter(fr *bframe, call ssa.CallInstruction) *bframe {
	cal := staticCallee(call.Common())
	if cal == nil || len(cal.Blocks) == 0 || fr.depth() >= 4 {
		return nil
	}
	if bp.descend != nil && !bp.descend(cal) {
		return nil
	}
	for f := fr; f != nil; f = f.up {
		if f.fn == cal {
			return nil // recursion
		}
	}
	if bp.facts == nil {
		bp.facts = map[*ssa.Function]*FuncFacts{}
	}
	ff := bp.facts[cal]
	if ff == nil {
		ff = computeFacts(cal)
		bp.facts[cal] = ff
	}
	return &bframe{fn: cal, ff: ff, call: call, up: fr}
}

// callResult splits v into (call, result index) when v is the result of a static call.
func callResult(v ssa.Value) (*ssa.Call, int) {
	switch x := v.(type) {
	case *ssa.Call:
		if _, isB := x.Call.Value.(*ssa.Builtin); !isB && x.Call.Signature().Results().Len() == 1 {
			return x, 0
		}
	case *ssa.Extract:
		if c, ok := x.Tuple.(*ssa.Call); ok {
			return c, x.Index
		}
	}
	return nil, 0
}

func (bp *bprover) key(v ssa.Value, fr *bframe) string { return fr.ff.K.key(stripIntConv(v)) }

func (bp *bprover) push(tag string, v ssa.Value, fr *bframe) (string, bool) {
	if bp.stack == nil {
		bp.stack = map[string]bool{}
	}
	k := fmt.Sprintf("%s|%p|%s", tag, fr, bp.key(v, fr))
	if bp.stack[k] {
		return k, false
	}
	bp.stack[k] = true
	return k, true
}

// le proves v <= B for some value B accepted by goal (or, with allowZero, v <= max(0, B)), given
// the facts fs that hold where v is used in frame fr.
func (bp *bprover) le(v ssa.Value, fr *bframe, fs factSet, goal bgoal, allowZero bool, depth int) bool {
	if depth > 24 {
		return false
	}
	v = stripIntConv(v)
	if c, ok := constInt(v); ok {
		return allowZero && c <= 0
	}
	if goal(v, fr) {
		return true
	}
	sk, fresh := bp.push("le", v, fr)
	if !fresh {
		return false
	}
	defer delete(bp.stack, sk)
	kv := bp.key(v, fr)
	for _, of := range ordFacts(fs) {
		if bp.key(of.lo, fr) != kv {
			continue
		}
		hi := stripIntConv(of.hi)
		if c, ok := constInt(hi); ok {
			if allowZero && (c <= 0 || (of.strict && c <= 1)) {
				return true
			}
			continue
		}
		if bp.le(hi, fr, fs, goal, allowZero, depth+1) {
			return true
		}
	}
	switch x := v.(type) {
	case *ssa.Parameter:
		if fr.up != nil && x.Parent() == fr.fn {
			if i := paramIndex(x); i >= 0 && i < len(fr.call.Common().Args) {
				return bp.le(fr.call.Common().Args[i], fr.up, fr.up.ff.At(fr.call.Block()), goal, allowZero, depth+1)
			}
		}
	case *ssa.Phi:
		if len(x.Edges) == 0 {
			return false
		}
		for i, e := range x.Edges {
			if !bp.le(e, fr, fr.ff.FactsAtEdge(x.Block().Preds[i], x.Block()), goal, allowZero, depth+1) {
				return false
			}
		}
		return true
	case *ssa.Call:
		if builtinCall(x, "min") != nil {
			for _, a := range x.Call.Args {
				if bp.le(a, fr, fs, goal, allowZero, depth+1) {
					return true
				}
			}
			return false
		}
		if builtinCall(x, "max") != nil {
			for _, a := range x.Call.Args {
				if !bp.le(a, fr, fs, goal, allowZero, depth+1) {
					return false
				}
			}
			return len(x.Call.Args) > 0
		}
	}
	if c, idx := callResult(v); c != nil {
		if sub := bp.enter(fr, c); sub != nil {
			rets := returnsOf(sub.fn)
			if len(rets) == 0 {
				return false
			}
			for _, ret := range rets {
				if idx >= len(ret.Results) || !bp.le(ret.Results[idx], sub, sub.ff.At(ret.Block()), goal, allowZero, depth+1) {
					return false
				}
			}
			return true
		}
	}
	return false
}

// ge0 proves v >= 0.
func (bp *bprover) ge0(v ssa.Value, fr *bframe, fs factSet, depth int) bool {
	if depth > 24 {
		return false
	}
	v = stripIntConv(v)
	if c, ok := constInt(v); ok {
		return c >= 0
	}
	if builtinCall(v, "len") != nil || builtinCall(v, "cap") != nil {
		return true
	}
	sk, fresh := bp.push("ge0", v, fr)
	if !fresh {
		return false
	}
	defer delete(bp.stack, sk)
	kv := bp.key(v, fr)
	for _, of := range ordFacts(fs) {
		if bp.key(of.hi, fr) != kv {
			continue
		}
		lo := stripIntConv(of.lo)
		if c, ok := constInt(lo); ok {
			if c >= 0 || (of.strict && c >= -1) {
				return true
			}
			continue
		}
		if bp.ge0(lo, fr, fs, depth+1) {
			return true
		}
	}
	switch x := v.(type) {
	case *ssa.Parameter:
		if fr.up != nil && x.Parent() == fr.fn {
			if i := paramIndex(x); i >= 0 && i < len(fr.call.Common().Args) {
				return bp.ge0(fr.call.Common().Args[i], fr.up, fr.up.ff.At(fr.call.Block()), depth+1)
			}
		}
	case *ssa.Phi:
		if len(x.Edges) == 0 {
			return false
		}
		for i, e := range x.Edges {
			if !bp.ge0(e, fr, fr.ff.FactsAtEdge(x.Block().Preds[i], x.Block()), depth+1) {
				return false
			}
		}
		return true
	case *ssa.Call:
		if builtinCall(x, "max") != nil {
			for _, a := range x.Call.Args {
				if bp.ge0(a, fr, fs, depth+1) {
					return true
				}
			}
			return false
		}
		if builtinCall(x, "min") != nil {
			for _, a := range x.Call.Args {
				if !bp.ge0(a, fr, fs, depth+1) {
					return false
				}
			}
			return len(x.Call.Args) > 0
		}
	}
	if c, idx := callResult(v); c != nil {
		if sub := bp.enter(fr, c); sub != nil {
			rets := returnsOf(sub.fn)
			if len(rets) == 0 {
				return false
			}
			for _, ret := range rets {
				if idx >= len(ret.Results) || !bp.ge0(ret.Results[idx], sub, sub.ff.At(ret.Block()), depth+1) {
					return false
				}
			}
			return true
		}
	}
	return false
}

// knownLE reports whether the facts fs (of frame fr) contain x <= y (or x < y).
func (bp *bprover) knownLE(fr *bframe, fs factSet, x, y ssa.Value) bool {
	kx, ky := bp.key(x, fr), bp.key(y, fr)
	if kx == ky {
		return true
	}
	for _, of := range ordFacts(fs) {
		if bp.key(of.lo, fr) == kx && bp.key(of.hi, fr) == ky {
			return true
		}
	}
	return false
}

// wholeStructParam: v is the whole value (or the address of the private copy) of a struct-typed
// parameter of its function, never written after its initialisation.
func wholeStructParam(v ssa.Value) *ssa.Parameter {
	v = unwrap(v)
	if p, ok := v.(*ssa.Parameter); ok {
		return p
	}
	var al *ssa.Alloc
	switch x := v.(type) {
	case *ssa.UnOp:
		if x.Op == token.MUL {
			al, _ = x.X.(*ssa.Alloc)
		}
	case *ssa.Alloc:
		al = x
	}
	if al == nil {
		return nil
	}
	var init *ssa.Parameter
	for _, rf := range refs(al) {
		switch y := rf.(type) {
		case *ssa.Store:
			p, isP := y.Val.(*ssa.Parameter)
			if y.Addr != ssa.Value(al) || !isP || init != nil {
				return nil
			}
			init = p
		case *ssa.FieldAddr:
			for _, r2 := range refs(y) {
				if st, isSt := r2.(*ssa.Store); isSt && st.Addr == ssa.Value(y) {
					return nil
				}
			}
		}
	}
	return init
}

// structLeaf names the field F of the ROOT function's struct parameter that v reads, also when v is
// read in a helper frame from a struct parameter that (through the frames' call sites) is the whole
// value of the root's parameter. Returns (root parameter, F).
func (bp *bprover) structLeaf(v ssa.Value, fr *bframe) (*ssa.Parameter, string, bool) {
	p, f, ok := paramFieldLeaf(v)
	if !ok {
		return nil, "", false
	}
	for fr.up != nil {
		if p.Parent() != fr.fn {
			return nil, "", false
		}
		i := paramIndex(p)
		if i < 0 || i >= len(fr.call.Common().Args) {
			return nil, "", false
		}
		p = wholeStructParam(fr.call.Common().Args[i])
		if p == nil {
			return nil, "", false
		}
		fr = fr.up
	}
	if p.Parent() != fr.fn {
		return nil, "", false
	}
	return p, f, true
}

// linForm is c + Σ coef[leaf]·leaf.
type linForm struct {
	c    int64
	coef map[string]int64
}

func (f linForm) String() string {
	var names []string
	for n, c := range f.coef {
		if c != 0 {
			names = append(names, n)
		}
	}
	sort.Strings(names)
	var sb strings.Builder
	for _, n := range names {
		c := f.coef[n]
		switch {
		case c == 1:
			sb.WriteString(" + " + n)
		case c == -1:
			sb.WriteString(" - " + n)
		case c < 0:
			sb.WriteString(fmt.Sprintf(" - %d·%s", -c, n))
		default:
			sb.WriteString(fmt.Sprintf(" + %d·%s", c, n))
		}
	}
	if f.c != 0 || sb.Len() == 0 {
		sb.WriteString(fmt.Sprintf(" + %d", f.c))
	}
	return strings.TrimPrefix(strings.TrimPrefix(sb.String(), " + "), " ")
}

func (f linForm) scale(k int64) linForm {
	out := linForm{c: f.c * k, coef: map[string]int64{}}
	for n, c := range f.coef {
		out.coef[n] = c * k
	}
	return out
}

func (f linForm) add(g linForm) linForm {
	out := linForm{c: f.c + g.c, coef: map[string]int64{}}
	for n, c := range f.coef {
		out.coef[n] += c
	}
	for n, c := range g.coef {
		out.coef[n] += c
	}
	return out
}

// linCtx extracts linear forms over leaves named by leaf. A two-edge phi (or builtin call) that is
// the minimum / maximum of two leaves becomes the leaf "min(a,b)" / "max(a,b)" (names sorted).
// Parameters of helper frames stand for the call's arguments; the result of a helper with a single
// return statement stands for the returned expression.
type linCtx struct {
	bp   *bprover
	leaf func(ssa.Value, *bframe) (string, bool)
	why  string // first reason a form could not be extracted
}

func (lc *linCtx) fail(format string, a ...interface{}) (linForm, bool) {
	if lc.why == "" {
		lc.why = fmt.Sprintf(format, a...)
	}
	return linForm{}, false
}

func minmaxName(kind, a, b string) string {
	if b < a {
		a, b = b, a
	}
	return kind + "(" + a + "," + b + ")"
}

func (lc *linCtx) form(v ssa.Value, fr *bframe, depth int) (linForm, bool) {
	if depth > 32 {
		return lc.fail("expression too deep")
	}
	v = stripIntConv(v)
	if c, ok := constInt(v); ok {
		return linForm{c: c, coef: map[string]int64{}}, true
	}
	if n, ok := lc.leaf(v, fr); ok {
		return linForm{coef: map[string]int64{n: 1}}, true
	}
	switch x := v.(type) {
	case *ssa.Parameter:
		if fr.up != nil && x.Parent() == fr.fn {
			if i := paramIndex(x); i >= 0 && i < len(fr.call.Common().Args) {
				return lc.form(fr.call.Common().Args[i], fr.up, depth+1)
			}
		}
	case *ssa.BinOp:
		switch x.Op {
		case token.ADD, token.SUB:
			a, ok1 := lc.form(x.X, fr, depth+1)
			b, ok2 := lc.form(x.Y, fr, depth+1)
			if !ok1 || !ok2 {
				return linForm{}, false
			}
			if x.Op == token.SUB {
				b = b.scale(-1)
			}
			return a.add(b), true
		case token.MUL:
			if c, ok := constInt(x.X); ok {
				b, ok2 := lc.form(x.Y, fr, depth+1)
				return b.scale(c), ok2
			}
			if c, ok := constInt(x.Y); ok {
				a, ok1 := lc.form(x.X, fr, depth+1)
				return a.scale(c), ok1
			}
		}
		return lc.fail("non-linear operation %s", x.Op)
	case *ssa.UnOp:
		if x.Op == token.SUB {
			a, ok := lc.form(x.X, fr, depth+1)
			return a.scale(-1), ok
		}
	case *ssa.Phi:
		if len(x.Edges) == 2 {
			a, b := stripIntConv(x.Edges[0]), stripIntConv(x.Edges[1])
			na, oka := lc.leafThrough(a, fr)
			nb, okb := lc.leafThrough(b, fr)
			if oka && okb {
				fa := fr.ff.FactsAtEdge(x.Block().Preds[0], x.Block())
				fb := fr.ff.FactsAtEdge(x.Block().Preds[1], x.Block())
				if lc.bp.knownLE(fr, fa, a, b) && lc.bp.knownLE(fr, fb, b, a) {
					return linForm{coef: map[string]int64{minmaxName("min", na, nb): 1}}, true
				}
				if lc.bp.knownLE(fr, fa, b, a) && lc.bp.knownLE(fr, fb, a, b) {
					return linForm{coef: map[string]int64{minmaxName("max", na, nb): 1}}, true
				}
			}
		}
		return lc.fail("value %s merges alternatives that are not the min/max of two inputs", x.Name())
	case *ssa.Call:
		for _, kind := range []string{"min", "max"} {
			if builtinCall(x, kind) != nil && len(x.Call.Args) == 2 {
				na, oka := lc.leafThrough(stripIntConv(x.Call.Args[0]), fr)
				nb, okb := lc.leafThrough(stripIntConv(x.Call.Args[1]), fr)
				if oka && okb {
					return linForm{coef: map[string]int64{minmaxName(kind, na, nb): 1}}, true
				}
			}
		}
	}
	if c, idx := callResult(v); c != nil {
		if sub := lc.bp.enter(fr, c); sub != nil {
			if rets := returnsOf(sub.fn); len(rets) == 1 && idx < len(rets[0].Results) {
				return lc.form(rets[0].Results[idx], sub, depth+1)
			}
			return lc.fail("helper %s has several return statements", shortFunc(sub.fn))
		}
	}
	return lc.fail("operand %s (%T) is not an input of the formula", v.Name(), v)
}

// leafThrough names v as a leaf, looking through parameters of helper frames.
func (lc *linCtx) leafThrough(v ssa.Value, fr *bframe) (string, bool) {
	for i := 0; i < 6; i++ {
		v = stripIntConv(v)
		if n, ok := lc.leaf(v, fr); ok {
			return n, true
		}
		p, isP := v.(*ssa.Parameter)
		if !isP || fr.up == nil || p.Parent() != fr.fn {
			return "", false
		}
		j := paramIndex(p)
		if j < 0 || j >= len(fr.call.Common().Args) {
			return "", false
		}
		v, fr = fr.call.Common().Args[j], fr.up
	}
	return "", false
}

// dominatedBy reports whether code <= ref for all values of the leaves, given that the leaves in
// nonneg are >= 0 and nothing is known about the others: every non-negative leaf's coefficient in
// code is <= its coefficient in ref, every other leaf's coefficient is equal, constant <=.
func dominatedBy(code, ref linForm, nonneg map[string]bool) (bool, string) {
	names := map[string]bool{}
	for n := range code.coef {
		names[n] = true
	}
	for n := range ref.coef {
		names[n] = true
	}
	var sorted []string
	for n := range names {
		sorted = append(sorted, n)
	}
	sort.Strings(sorted)
	for _, n := range sorted {
		cc, rc := code.coef[n], ref.coef[n]
		if nonneg[n] {
			if cc > rc {
				return false, fmt.Sprintf("coefficient of %s is %+d, the documented formula allows at most %+d", n, cc, rc)
			}
		} else if cc != rc {
			return false, fmt.Sprintf("coefficient of %s is %+d, the documented formula has %+d", n, cc, rc)
		}
	}
	if code.c > ref.c {
		return false, fmt.Sprintf("constant term %+d exceeds %+d", code.c, ref.c)
	}
	return true, ""
}

// ---------------------------------------------------------------------------------------------
// struct-parameter leaves

// paramFieldLeaf recognises a read of field F of a struct-typed parameter (directly, or through the
// parameter's local copy) and returns (parameter, F). The copy must be initialised once from the
// parameter and never written afterwards.
func paramFieldLeaf(v ssa.Value) (*ssa.Parameter, string, bool) {
	v = stripIntConv(v)
	switch x := v.(type) {
	case *ssa.Field:
		if p, ok := x.X.(*ssa.Parameter); ok {
			return p, fieldName(x), true
		}
	case *ssa.UnOp:
		if x.Op != token.MUL {
			return nil, "", false
		}
		fa, ok := x.X.(*ssa.FieldAddr)
		if !ok {
			return nil, "", false
		}
		switch base := fa.X.(type) {
		case *ssa.Alloc:
			var init *ssa.Parameter
			for _, r := range refs(base) {
				switch y := r.(type) {
				case *ssa.Store:
					if y.Addr != ssa.Value(base) {
						return nil, "", false
					}
					p, isP := y.Val.(*ssa.Parameter)
					if !isP || init != nil {
						return nil, "", false
					}
					init = p
				case *ssa.FieldAddr:
					for _, r2 := range refs(y) {
						if u, isU := r2.(*ssa.UnOp); !isU || u.Op != token.MUL {
							if _, isDbg := r2.(*ssa.DebugRef); !isDbg {
								return nil, "", false
							}
						}
					}
				case *ssa.DebugRef:
				case *ssa.UnOp:
					if y.Op != token.MUL {
						return nil, "", false
					}
				default:
					return nil, "", false
				}
			}
			if init == nil {
				return nil, "", false
			}
			return init, fieldName(fa), true
		case *ssa.Parameter:
			// pointer-to-struct parameter: no store through it anywhere in the function
			for _, b := range base.Parent().Blocks {
				for _, in := range b.Instrs {
					if st, isSt := in.(*ssa.Store); isSt {
						if r, _ := accessPath(st.Addr); r == ssa.Value(base) {
							return nil, "", false
						}
					}
				}
			}
			return base, fieldName(fa), true
		}
	}
	return nil, "", false
}

// ---------------------------------------------------------------------------------------------
// interprocedural provenance

// ipLeaf is a provenance leaf: value v inside function fn, reached after elem element-of steps.
type ipLeaf struct {
	v    ssa.Value
	fn   *ssa.Function
	elem int
}

type ipTracer struct {
	reach map[*ssa.Function]bool
	depth int
	// descend, when set, lets the trace continue from the result of a call into the returned
	// values of the (static, repository) callee accepted by it.
	descend func(*ssa.Function) bool
}

// calleeResults returns the values callee returns as result #idx (one per return statement).
func calleeResults(callee *ssa.Function, idx int) []ssa.Value {
	var out []ssa.Value
	for _, b := range callee.Blocks {
		if ret := returnOf(b); ret != nil && idx < len(ret.Results) {
			out = append(out, ret.Results[idx])
		}
	}
	return out
}

func closureBinding(fv *ssa.FreeVar) ssa.Value {
	fn := fv.Parent()
	parent := fn.Parent()
	if parent == nil {
		return nil
	}
	idx := -1
	for i, f := range fn.FreeVars {
		if f == fv {
			idx = i
		}
	}
	var found ssa.Value
	n := 0
	for _, b := range parent.Blocks {
		for _, in := range b.Instrs {
			if mc, ok := in.(*ssa.MakeClosure); ok && mc.Fn == ssa.Value(fn) && idx >= 0 && idx < len(mc.Bindings) {
				found = mc.Bindings[idx]
				n++
			}
		}
	}
	if n != 1 {
		return nil
	}
	return found
}

// trace follows v backwards: local provenance (origins), parameters to the arguments of every
// static call site in reach, captured variables to the cells bound by the closure's creator,
// element loads / map lookups / range elements to their container (counted in elem).
func (t *ipTracer) trace(v ssa.Value, fn *ssa.Function) []ipLeaf {
	var out []ipLeaf
	type st struct {
		v  ssa.Value
		fn *ssa.Function
	}
	seen := map[st]bool{}
	var rec func(v ssa.Value, fn *ssa.Function, elem, d int)
	rec = func(v ssa.Value, fn *ssa.Function, elem, d int) {
		if v == nil || seen[st{v, fn}] {
			return
		}
		seen[st{v, fn}] = true
		if d > t.depth {
			out = append(out, ipLeaf{v, fn, elem})
			return
		}
		for _, o := range origins(v) {
			switch x := o.(type) {
			case *ssa.Parameter:
				cs := callSitesOf(x.Parent(), t.reach)
				if len(cs) == 0 {
					out = append(out, ipLeaf{o, fn, elem})
					continue
				}
				idx := paramIndex(x)
				for _, c := range cs {
					if idx < len(c.Common().Args) {
						rec(c.Common().Args[idx], c.Parent(), elem, d+1)
					}
				}
			case *ssa.UnOp:
				if x.Op == token.MUL {
					switch a := x.X.(type) {
					case *ssa.FreeVar:
						if b := closureBinding(a); b != nil {
							if cell, ok := b.(*ssa.Alloc); ok {
								n := 0
								for _, r := range refs(cell) {
									if s, ok := r.(*ssa.Store); ok && s.Addr == ssa.Value(cell) {
										rec(s.Val, cell.Parent(), elem, d+1)
										n++
									}
								}
								if n > 0 {
									continue
								}
							}
						}
					case *ssa.IndexAddr:
						rec(a.X, fn, elem+1, d+1)
						continue
					}
				}
				out = append(out, ipLeaf{o, fn, elem})
			case *ssa.Lookup:
				rec(x.X, fn, elem+1, d+1)
			case *ssa.Index:
				rec(x.X, fn, elem+1, d+1)
			case *ssa.Extract:
				switch tu := x.Tuple.(type) {
				case *ssa.Lookup:
					if x.Index == 0 {
						rec(tu.X, fn, elem+1, d+1)
						continue
					}
				case *ssa.Next:
					if rg, ok := tu.Iter.(*ssa.Range); ok && (x.Index == 1 || x.Index == 2) {
						rec(rg.X, fn, elem+1, d+1)
						continue
					}
				case *ssa.Call:
					if cal := staticCallee(&tu.Call); cal != nil && t.descend != nil && len(cal.Blocks) > 0 && t.descend(cal) {
						for _, rv := range calleeResults(cal, x.Index) {
							rec(rv, cal, elem, d+1)
						}
						continue
					}
				}
				out = append(out, ipLeaf{o, fn, elem})
			case *ssa.Call:
				if cal := staticCallee(&x.Call); cal != nil && t.descend != nil && len(cal.Blocks) > 0 && t.descend(cal) && builtinCall(x, "append") == nil {
					for _, rv := range calleeResults(cal, 0) {
						rec(rv, cal, elem, d+1)
					}
					continue
				}
				out = append(out, ipLeaf{o, fn, elem})
			default:
				out = append(out, ipLeaf{o, fn, elem})
			}
		}
	}
	rec(v, fn, 0, 0)
	return out
}

// describeLeaves renders provenance leaves for diagnostics.
func describeLeaves(ls []ipLeaf) string {
	var out []string
	for _, l := range ls {
		s := pathString(l.v)
		if l.elem > 0 {
			s = fmt.Sprintf("elem^%d(%s)", l.elem, s)
		}
		out = append(out, shortFunc(l.fn)+":"+s)
	}
	sort.Strings(out)
	return strings.Join(out, ", ")
}

// fieldStoresIn lists the stores in fn to field `name` of a struct of the named type.
func fieldStoresIn(fn *ssa.Function, pkg, typ, name string) []*ssa.Store {
	var out []*ssa.Store
	for _, b := range fn.Blocks {
		for _, in := range b.Instrs {
			st, ok := in.(*ssa.Store)
			if !ok {
				continue
			}
			fa, ok := st.Addr.(*ssa.FieldAddr)
			if !ok || fieldName(fa) != name {
				continue
			}
			if isPtrToNamed(fa.X.Type(), pkg, typ) {
				out = append(out, st)
			}
		}
	}
	return out
}

// relaxFloors removes the vacuity floors of rules whose prerequisite site was not found; the
// missing prerequisite has already been reported as a failed obligation by the caller.
func relaxFloors(r *Run, rules ...string) {
	for _, rule := range rules {
		if r.floors != nil {
			delete(r.floors, rule)
		}
	}
}

// truePaths enumerates the entry->return paths of a boolean function on which it can return true:
// paths returning the constant false are dropped; when the returned value is not a constant on a
// path (e.g. `return a && b`), the facts of that value being true are added to the path (paths
// contradicting them are dropped). ok=false when the cap is exceeded.
func truePaths(fn *ssa.Function, resultIdx int, cap int) ([]*Path, bool) {
	paths, k, ok := funcPaths(fn, cap)
	var out []*Path
	for _, p := range paths {
		ret := returnOf(p.Blocks[len(p.Blocks)-1])
		if ret == nil || resultIdx >= len(ret.Results) {
			continue
		}
		res := p.Resolve(ret.Results[resultIdx])
		if b, isC := constBool(res); isC {
			if b {
				out = append(out, p)
			}
			continue
		}
		contra := false
		extra := k.normCond(res, true)
		for _, f := range extra {
			for _, g := range p.Facts {
				if g.Key == f.Key && g.Pol != f.Pol {
					contra = true
				}
			}
		}
		if contra {
			continue
		}
		for _, f := range extra {
			p.Facts[fkey(f)] = f
		}
		out = append(out, p)
	}
	return out, ok
}

// ipWalk explores the interprocedural control flow forward from just after each start instruction,
// context-insensitively: a call to a repository function accepted by descend continues at the
// callee's entry, a return of a function other than entry continues after every static call site of
// that function in reach (go and defer statements included). It returns the first instruction
// accepted by target (typically: a return of entry) that can be reached without executing an
// instruction accepted by avoid, or nil.
func ipWalk(starts []ssa.Instruction, entry *ssa.Function, reach map[*ssa.Function]bool, descend func(*ssa.Function) bool, target, avoid func(ssa.Instruction) bool) ssa.Instruction {
	seenBlock := map[*ssa.BasicBlock]bool{}
	seenRet := map[*ssa.Function]bool{}
	type pos struct {
		b *ssa.BasicBlock
		i int
	}
	var work []pos
	for _, s := range starts {
		work = append(work, pos{s.Block(), instrIndex(s) + 1})
	}
	for len(work) > 0 {
		w := work[len(work)-1]
		work = work[:len(work)-1]
		stopped := false
		for i := w.i; i < len(w.b.Instrs); i++ {
			in := w.b.Instrs[i]
			if avoid != nil && avoid(in) {
				stopped = true
				break
			}
			if target(in) {
				return in
			}
			if ret, isRet := in.(*ssa.Return); isRet {
				f := ret.Parent()
				if f != entry && !seenRet[f] {
					seenRet[f] = true
					for _, cs := range callSitesOf(f, reach) {
						work = append(work, pos{cs.Block(), instrIndex(cs) + 1})
					}
				}
				stopped = true
				break
			}
			if ci, isCall := in.(ssa.CallInstruction); isCall {
				if cal := staticCallee(ci.Common()); cal != nil && len(cal.Blocks) > 0 && reach[cal] && descend(cal) {
					if !seenBlock[cal.Blocks[0]] {
						seenBlock[cal.Blocks[0]] = true
						work = append(work, pos{cal.Blocks[0], 0})
					}
					if _, isGo := in.(*ssa.Go); !isGo {
						if _, isDefer := in.(*ssa.Defer); !isDefer {
							// a plain call resumes here only through the callee's returns
							stopped = true
							break
						}
					}
				}
			}
		}
		if stopped {
			continue
		}
		for _, s := range w.b.Succs {
			if !seenBlock[s] {
				seenBlock[s] = true
				work = append(work, pos{s, 0})
			}
		}
	}
	return nil
}

// ---------------------------------------------------------------------------------------------
// loop-carried cells: a counter or list built in a loop is either an SSA register (a phi of the loop
// header) or a memory cell (a field of a function-local struct that never escapes), possibly in a
// helper whose struct result the consumer reads ("collect, then act").

// ccell is a loop-carried variable.
type ccell struct {
	fn    *ssa.Function
	phi   *ssa.Phi   // register cell (header phi)
	alloc *ssa.Alloc // memory cell: field `field` of *alloc
	field string
	loop  *loopB
	cr    *cellResolver
}

func (c *ccell) String() string {
	if c.phi != nil {
		return c.phi.Comment
	}
	return c.alloc.Comment + "." + c.field
}

// localStructCell checks that alloc a is a private struct variable: it is only read/written through
// its fields, loaded as a whole (e.g. to be returned) or initialised as a whole.
func localStructCell(a *ssa.Alloc) bool {
	pt, ok := a.Type().(*types.Pointer)
	if !ok {
		return false
	}
	if _, ok := pt.Elem().Underlying().(*types.Struct); !ok {
		return false
	}
	for _, rf := range refs(a) {
		switch x := rf.(type) {
		case *ssa.FieldAddr:
			for _, r2 := range refs(x) {
				switch y := r2.(type) {
				case *ssa.Store:
					if y.Addr != ssa.Value(x) {
						return false
					}
				case *ssa.UnOp:
					if y.Op != token.MUL {
						return false
					}
				case *ssa.DebugRef:
				default:
					return false
				}
			}
		case *ssa.UnOp:
			if x.Op != token.MUL {
				return false
			}
		case *ssa.Store:
			if x.Addr != ssa.Value(a) {
				return false
			}
		case *ssa.Call:
			// the address handed to a repository helper that only reads/writes the fields through it
			// (typically a method of the struct type)
			if len(structAccessorsOfCall(a, x)) == 0 {
				return false
			}
		case *ssa.DebugRef:
		default:
			return false
		}
	}
	return true
}

// accessor: a call that hands the address of a private struct variable to a helper; param is the
// helper's parameter standing for the variable.
type accessor struct {
	call   *ssa.Call
	callee *ssa.Function
	param  *ssa.Parameter
}

// structAccessorsOfCall returns the accessor roles of call c for variable a (empty when the call lets
// the address escape: a dynamic or external callee, or a callee that uses the pointer for anything
// but field loads and stores).
func structAccessorsOfCall(a *ssa.Alloc, c *ssa.Call) []accessor {
	cal := staticCallee(&c.Call)
	if cal == nil || len(cal.Blocks) == 0 || cal.Pkg == nil || cal.Parent() != nil {
		return nil
	}
	if pth := cal.Pkg.Pkg.Path(); pth != repoMod && !strings.HasPrefix(pth, repoMod+"/") {
		return nil
	}
	var out []accessor
	for i, arg := range c.Call.Args {
		if arg != ssa.Value(a) {
			continue
		}
		if i >= len(cal.Params) {
			return nil
		}
		prm := cal.Params[i]
		for _, r1 := range refs(prm) {
			switch fa := r1.(type) {
			case *ssa.FieldAddr:
				for _, r2 := range refs(fa) {
					switch y := r2.(type) {
					case *ssa.Store:
						if y.Addr != ssa.Value(fa) {
							return nil
						}
					case *ssa.UnOp:
						if y.Op != token.MUL {
							return nil
						}
					case *ssa.DebugRef:
					default:
						return nil
					}
				}
			case *ssa.DebugRef:
			default:
				return nil
			}
		}
		out = append(out, accessor{c, cal, prm})
	}
	return out
}

// structAccessors lists the accessor calls of variable a.
func structAccessors(a *ssa.Alloc) []accessor {
	var out []accessor
	for _, rf := range refs(a) {
		if c, ok := rf.(*ssa.Call); ok {
			out = append(out, structAccessorsOfCall(a, c)...)
		}
	}
	return out
}

// accessorStores lists the stores the accessor's helper makes to field `field` of the variable.
func accessorStores(ac accessor, field string) []*ssa.Store {
	var out []*ssa.Store
	for _, r1 := range refs(ac.param) {
		if fa, ok := r1.(*ssa.FieldAddr); ok && fieldName(fa) == field {
			for _, r2 := range refs(fa) {
				if st, ok := r2.(*ssa.Store); ok && st.Addr == ssa.Value(fa) {
					out = append(out, st)
				}
			}
		}
	}
	return out
}

func wholeStores(a *ssa.Alloc) []*ssa.Store {
	var out []*ssa.Store
	for _, rf := range refs(a) {
		if st, ok := rf.(*ssa.Store); ok && st.Addr == ssa.Value(a) {
			out = append(out, st)
		}
	}
	return out
}

func fieldStores2(a *ssa.Alloc, field string) []*ssa.Store {
	var out []*ssa.Store
	for _, rf := range refs(a) {
		if fa, ok := rf.(*ssa.FieldAddr); ok && fieldName(fa) == field {
			for _, r2 := range refs(fa) {
				if st, ok := r2.(*ssa.Store); ok && st.Addr == ssa.Value(fa) {
					out = append(out, st)
				}
			}
		}
	}
	return out
}

// cellResolver finds the loop-carried cell behind a value.
type cellResolver struct {
	prog  *Prog
	loops map[*ssa.Function][]*loopB
	// inl: for a composite path, the helper paths inlined at accessor calls (see expand)
	inl map[*Path][]inlinedPath
}

// inlinedPath: at call `call` (on the composite path) the helper takes path `path`.
type inlinedPath struct {
	call *ssa.Call
	path *Path
}

// expand turns each iteration path into composite paths: wherever the path calls a repository helper
// that receives the address of a private struct variable of the loop's function (an accessor, e.g.
// counters.add(pod)), the helper's own entry->return paths are inlined - their facts are added
// (prefixed, so that they cannot clash) and their stores are seen by the cells. ok=false on cap.
func (cr *cellResolver) expand(paths []*Path, cap int) ([]*Path, bool) {
	if cr.inl == nil {
		cr.inl = map[*Path][]inlinedPath{}
	}
	out := paths
	changed := true
	for round := 0; changed && round < 3; round++ {
		changed = false
		var next []*Path
		for _, p := range out {
			var target *ssa.Call
			done := map[*ssa.Call]bool{}
			for _, ip := range cr.inl[p] {
				done[ip.call] = true
			}
			for _, b := range p.Blocks {
				for _, in := range b.Instrs {
					c, ok := in.(*ssa.Call)
					if !ok || done[c] || target != nil {
						continue
					}
					for _, arg := range c.Call.Args {
						if a, isA := arg.(*ssa.Alloc); isA && len(structAccessorsOfCall(a, c)) > 0 && localStructCell(a) {
							target = c
						}
					}
				}
			}
			if target == nil {
				next = append(next, p)
				continue
			}
			changed = true
			hps, _, ok := funcPaths(staticCallee(&target.Call), cap)
			if !ok {
				return nil, false
			}
			for i, hp := range hps {
				q := &Path{Blocks: p.Blocks, Facts: factSet{}, k: p.k}
				for kk, f := range p.Facts {
					q.Facts[kk] = f
				}
				for _, f := range hp.Facts {
					g := f
					g.Key = fmt.Sprintf("inl%d@%p:%s", i, target, f.Key)
					q.Facts[fkey(g)] = g
				}
				cr.inl[q] = append(append([]inlinedPath{}, cr.inl[p]...), inlinedPath{target, hp})
				next = append(next, q)
				if len(next) > cap {
					return nil, false
				}
			}
		}
		out = next
	}
	return out, true
}

// mapArg expresses a value read inside an inlined helper in the caller's terms: a parameter of the
// helper becomes the call's argument.
func (cr *cellResolver) mapArg(p *Path, v ssa.Value) ssa.Value {
	if cr == nil || cr.inl == nil {
		return v
	}
	prm, ok := unwrap(v).(*ssa.Parameter)
	if !ok {
		return v
	}
	for _, ip := range cr.inl[p] {
		if cal := staticCallee(&ip.call.Call); cal == prm.Parent() {
			if i := paramIndex(prm); i >= 0 && i < len(ip.call.Call.Args) {
				return ip.call.Call.Args[i]
			}
		}
	}
	return v
}

// pathCallFact is pathCallFact with the call's argument expressed in the caller's terms.
func (cr *cellResolver) pathCallFact(p *Path, callee string, argIdx int, arg func(ssa.Value) bool) (pol, found bool, call *ssa.Call) {
	return pathCallFact(p, callee, argIdx, func(v ssa.Value) bool { return arg(cr.mapArg(p, v)) })
}

func (cr *cellResolver) loopsOf(fn *ssa.Function) []*loopB {
	if cr.loops == nil {
		cr.loops = map[*ssa.Function][]*loopB{}
	}
	if l, ok := cr.loops[fn]; ok {
		return l
	}
	l := findLoops(fn)
	cr.loops[fn] = l
	return l
}

// resolve returns the cell whose final value v is: a header phi of a loop of fn; or field F of a
// private struct variable updated in a loop, read directly, through a copy of the struct, or through
// the struct result of a repository helper (every return of which returns that variable).
func (cr *cellResolver) resolve(v ssa.Value, fn *ssa.Function) (*ccell, string) {
	v = stripIntConv(v)
	if ph, ok := v.(*ssa.Phi); ok {
		for _, l := range cr.loopsOf(fn) {
			if l.header == ph.Block() {
				return &ccell{fn: fn, phi: ph, loop: l, cr: cr}, ""
			}
		}
		return nil, "value " + ph.Comment + " merges alternatives outside a loop header"
	}
	var base ssa.Value
	var field string
	switch x := v.(type) {
	case *ssa.UnOp:
		if fa, ok := x.X.(*ssa.FieldAddr); ok && x.Op == token.MUL {
			base, field = fa.X, fieldName(fa)
		}
	case *ssa.Field:
		base, field = x.X, fieldName(x)
	}
	if base == nil {
		return nil, "value is neither a loop variable nor a field of a struct built in a loop: " + v.String()
	}
	return cr.resolveField(base, field, fn, 0)
}

// resolveField: base is a struct value or the address of a struct variable in fn.
func (cr *cellResolver) resolveField(base ssa.Value, field string, fn *ssa.Function, depth int) (*ccell, string) {
	if depth > 6 {
		return nil, "struct copied too many times"
	}
	switch x := base.(type) {
	case *ssa.Alloc:
		if !localStructCell(x) {
			return nil, "the struct variable " + x.Comment + " escapes"
		}
		// a variable updated in a loop of this function (directly, or by an accessor helper called in
		// the loop)?
		var inLoop []ssa.Instruction
		loops := cr.loopsOf(fn)
		for _, st := range fieldStores2(x, field) {
			if loopOfBlock(loops, st.Block()) != nil {
				inLoop = append(inLoop, st)
			}
		}
		for _, ac := range structAccessors(x) {
			if len(accessorStores(ac, field)) > 0 && loopOfBlock(loops, ac.call.Block()) != nil {
				inLoop = append(inLoop, ac.call)
			}
		}
		if len(inLoop) > 0 {
			l := loopOfBlock(loops, inLoop[0].Block())
			for _, in := range inLoop {
				if loopOfBlock(loops, in.Block()) != l {
					return nil, "field " + field + " is updated in several loops"
				}
			}
			return &ccell{fn: fn, alloc: x, field: field, loop: l, cr: cr}, ""
		}
		// otherwise a copy: exactly one whole-struct assignment and no field assignment
		ws := wholeStores(x)
		if len(ws) == 1 && len(fieldStores2(x, field)) == 0 {
			return cr.resolveField(ws[0].Val, field, fn, depth+1)
		}
		return nil, "field " + field + " of " + x.Comment + " is not updated in a loop"
	case *ssa.UnOp:
		if x.Op == token.MUL {
			if a, ok := x.X.(*ssa.Alloc); ok {
				return cr.resolveField(a, field, fn, depth+1)
			}
		}
	case *ssa.Call, *ssa.Extract:
		c, idx := callResult(base)
		if c == nil {
			break
		}
		cal := staticCallee(&c.Call)
		if cal == nil || len(cal.Blocks) == 0 || !cr.prog.IsRuleSite(cal) {
			break
		}
		var cell *ccell
		for _, rv := range calleeResults(cal, idx) {
			c2, why := cr.resolveField(rv, field, cal, depth+1)
			if c2 == nil {
				return nil, why
			}
			if cell != nil && (cell.alloc != c2.alloc || cell.phi != c2.phi) {
				return nil, "helper " + shortFunc(cal) + " returns different variables"
			}
			cell = c2
		}
		if cell != nil {
			return cell, ""
		}
	}
	return nil, "field " + field + " is read from " + base.String() + ", which is not a private struct built in a loop"
}

// storesOnPath lists the stores to the memory cell executed on iteration path p, in order.
func (c *ccell) storesOnPath(p *Path) []*ssa.Store {
	var out []*ssa.Store
	scan := func(blocks []*ssa.BasicBlock, base ssa.Value) {
		for _, b := range blocks {
			for _, in := range b.Instrs {
				if st, ok := in.(*ssa.Store); ok {
					if fa, ok := st.Addr.(*ssa.FieldAddr); ok && fa.X == base && fieldName(fa) == c.field {
						out = append(out, st)
					}
				}
			}
		}
	}
	scan(p.Blocks, c.alloc)
	if c.cr != nil && c.cr.inl != nil {
		for _, ip := range c.cr.inl[p] {
			for _, ac := range structAccessorsOfCall(c.alloc, ip.call) {
				scan(ip.path.Blocks, ac.param)
			}
		}
	}
	return out
}

// previousValue reports whether v is a load of the cell that reads the value left by the previous
// store (no other store to the cell between the load and st in st's block; the load is in st's block).
// The cell is addressed through the same base as st (the variable, or the helper's parameter).
func (c *ccell) previousValue(v ssa.Value, st *ssa.Store) bool {
	base := st.Addr.(*ssa.FieldAddr).X
	u, ok := stripIntConv(v).(*ssa.UnOp)
	if !ok || u.Op != token.MUL || u.Block() != st.Block() {
		return false
	}
	fa, ok := u.X.(*ssa.FieldAddr)
	if !ok || fa.X != base || fieldName(fa) != c.field {
		return false
	}
	between := false
	for _, in := range st.Block().Instrs {
		if in == ssa.Instruction(u) {
			between = true
			continue
		}
		if in == ssa.Instruction(st) {
			return between
		}
		if between {
			if s2, isSt := in.(*ssa.Store); isSt {
				if fa2, isFA := s2.Addr.(*ssa.FieldAddr); isFA && fa2.X == base && fieldName(fa2) == c.field {
					return false
				}
				if s2.Addr == base {
					return false
				}
			}
		}
	}
	return false
}

// accessorsInlined: every accessor call on the path that can write the cell has been inlined by expand
// (otherwise its effect on the cell is unknown).
func (c *ccell) accessorsInlined(p *Path) bool {
	for _, b := range p.Blocks {
		for _, in := range b.Instrs {
			call, ok := in.(*ssa.Call)
			if !ok {
				continue
			}
			for _, ac := range structAccessorsOfCall(c.alloc, call) {
				if len(accessorStores(ac, c.field)) == 0 {
					continue
				}
				found := false
				if c.cr != nil && c.cr.inl != nil {
					for _, ip := range c.cr.inl[p] {
						if ip.call == call {
							found = true
						}
					}
				}
				if !found {
					return false
				}
			}
		}
	}
	return true
}

// delta: by how much the counter changes along iteration path p of its loop.
func (c *ccell) delta(p *Path) (int64, bool) {
	if c.phi != nil {
		return c.loop.deltaOnPath(p, c.phi)
	}
	if !c.accessorsInlined(p) {
		return 0, false
	}
	var d int64
	for _, st := range c.storesOnPath(p) {
		bo, ok := stripIntConv(st.Val).(*ssa.BinOp)
		if !ok || (bo.Op != token.ADD && bo.Op != token.SUB) {
			return 0, false
		}
		if k, isC := constInt(bo.Y); isC && c.previousValue(bo.X, st) {
			if bo.Op == token.ADD {
				d += k
			} else {
				d -= k
			}
		} else if k, isC := constInt(bo.X); isC && bo.Op == token.ADD && c.previousValue(bo.Y, st) {
			d += k
		} else {
			return 0, false
		}
	}
	return d, true
}

// appends: the elements appended to the list along iteration path p.
func (c *ccell) appends(p *Path) ([]ssa.Value, bool) {
	if c.phi != nil {
		return c.loop.appendsOnPath(p, c.phi)
	}
	if !c.accessorsInlined(p) {
		return nil, false
	}
	var out []ssa.Value
	for _, st := range c.storesOnPath(p) {
		call := builtinCall(st.Val, "append")
		if call == nil || len(call.Call.Args) != 2 || !c.previousValue(call.Call.Args[0], st) {
			return nil, false
		}
		sl, isSl := call.Call.Args[1].(*ssa.Slice)
		if !isSl || sl.Low != nil || sl.High != nil {
			return nil, false
		}
		arr, isA := sl.X.(*ssa.Alloc)
		if !isA || arr.Comment != "varargs" {
			return nil, false
		}
		elems, complete := varargElems(call.Call.Args[1])
		if !complete {
			return nil, false
		}
		out = append(out, elems...)
	}
	return out, true
}

// startsFrom reports whether the cell's value on entry to its loop satisfies ok (e.g. is the constant
// zero / an empty slice): register cells by their entry edges; memory cells by the assignments that
// precede the loop (none = zero value; a whole-struct initialisation from a literal is looked through),
// and no assignment may happen outside the loop unless it dominates the loop header.
func (c *ccell) startsFrom(ok func(ssa.Value) bool, zeroOK bool) bool {
	if c.phi != nil {
		for _, e := range c.loop.entryEdges(c.phi) {
			if !ok(e) {
				return false
			}
		}
		return true
	}
	return allocFieldInit(c.alloc, c.field, c.loop, ok, zeroOK, 0)
}

func allocFieldInit(a *ssa.Alloc, field string, l *loopB, ok func(ssa.Value) bool, zeroOK bool, depth int) bool {
	if depth > 3 {
		return false
	}
	var last ssa.Instruction
	lastOK := zeroOK
	consider := func(in ssa.Instruction, good bool) bool {
		if l != nil {
			if l.blocks[in.Block()] {
				return true // updates inside the loop are judged per path
			}
			if !in.Block().Dominates(l.header) {
				return false
			}
		}
		if last == nil || canExecuteAfter(last, in) {
			last, lastOK = in, good
		}
		return true
	}
	for _, st := range fieldStores2(a, field) {
		if !consider(st, ok(st.Val)) {
			return false
		}
	}
	// a helper that writes the field outside the loop makes the start value unknown
	for _, ac := range structAccessors(a) {
		if len(accessorStores(ac, field)) > 0 && (l == nil || !l.blocks[ac.call.Block()]) {
			return false
		}
	}
	for _, st := range wholeStores(a) {
		good := false
		switch x := st.Val.(type) {
		case *ssa.Const:
			good = zeroOK
		case *ssa.UnOp:
			if src, isA := x.X.(*ssa.Alloc); isA && x.Op == token.MUL && localStructCell(src) {
				good = allocFieldInit(src, field, nil, ok, zeroOK, depth+1)
			}
		}
		if !consider(st, good) {
			return false
		}
	}
	return lastOK
}

// ---------------------------------------------------------------------------------------------
// condition updaters (a slice of conditions looked up by type, then refreshed in place or appended)

// pathAppends reports whether the path executes a builtin append.
func pathAppends(p *Path) bool {
	for _, b := range p.Blocks {
		for _, in := range b.Instrs {
			if c, ok := in.(*ssa.Call); ok && builtinCall(c, "append") != nil {
				return true
			}
		}
	}
	return false
}

// pathFoundElement reports whether the path knows that the looked-up element exists: the index is
// known >= 0 / != -1, or the looked-up pointer (accepted by isElemPtr) is known non-nil; paths that
// append a new element are excluded.
func pathFoundElement(p *Path, isElemPtr func(ssa.Value) bool) bool {
	if pathAppends(p) {
		return false
	}
	for _, f := range p.Facts {
		bo, isBo := f.V.(*ssa.BinOp)
		if !isBo {
			continue
		}
		switch bo.Op {
		case token.GEQ, token.LSS: // key (idx<0)
			if c, isC := constInt(bo.Y); isC && c == 0 && !f.Pol {
				return true
			}
		case token.GTR, token.LEQ: // idx > -1 : key (-1<idx)
			if c, isC := constInt(bo.Y); isC && c == -1 && f.Pol {
				return true
			}
		case token.EQL, token.NEQ:
			if c, isC := constInt(bo.Y); isC && c == -1 && !f.Pol {
				return true
			}
			if c, isC := constInt(bo.X); isC && c == -1 && !f.Pol {
				return true
			}
			if !f.Pol && (isNilConst(bo.Y) && isElemPtr(bo.X) || isNilConst(bo.X) && isElemPtr(bo.Y)) {
				return true
			}
		}
	}
	return false
}

// elemFieldSet reports whether, on every path of fn accepted by onPath that does not contradict the
// assumptions (parameter == string constant), field `field` of the element accepted by isElem is
// assigned the parameter val: by a store <elem>.field = val, or by a call to a repository helper that
// receives the element and val and does so on all its paths (under the same assumptions, mapped to
// the helper's parameters). With unlessEqual, paths on which the field is known to equal val already
// are not required to assign it. n counts the paths looked at; bad describes the first failing path.
func elemFieldSet(r *Run, fn *ssa.Function, isElem func(ssa.Value) bool, field string, val *ssa.Parameter, assume map[*ssa.Parameter]string, onPath func(*Path) bool, unlessEqual bool, depth int) (all bool, n int, bad string) {
	paths, _, ok := funcPaths(fn, 5000)
	r.paths += len(paths)
	if !ok || depth > 3 {
		return false, 0, "path cap exceeded"
	}
	all = true
	for _, p := range paths {
		contra := false
		for prm, s := range assume {
			if p.Has(false, func(v ssa.Value, _ string) bool { return isEqCompare(v, isParam(prm), isConstStringVal(s)) }) {
				contra = true
			}
		}
		if contra || (onPath != nil && !onPath(p)) {
			continue
		}
		if unlessEqual && p.Has(true, func(v ssa.Value, _ string) bool {
			return isEqCompare(v, func(x ssa.Value) bool {
				u, isU := x.(*ssa.UnOp)
				if !isU || u.Op != token.MUL {
					return false
				}
				fa, isFA := u.X.(*ssa.FieldAddr)
				return isFA && fieldName(fa) == field && isElem(fa.X)
			}, isParam(val))
		}) {
			continue // the field is known to hold the value already
		}
		n++
		done := false
		for _, b := range p.Blocks {
			for _, in := range b.Instrs {
				switch x := in.(type) {
				case *ssa.Store:
					if fa, isFA := x.Addr.(*ssa.FieldAddr); isFA && fieldName(fa) == field && isElem(fa.X) && (x.Val == ssa.Value(val) || readsParam(x.Val, val)) {
						done = true
					}
				case *ssa.Call:
					cal := staticCallee(&x.Call)
					if cal == nil || !r.Prog.IsRuleSite(cal) || len(cal.Blocks) == 0 {
						continue
					}
					var pe, pv *ssa.Parameter
					sub := map[*ssa.Parameter]string{}
					for i, a := range x.Call.Args {
						if i >= len(cal.Params) {
							break
						}
						switch {
						case isElem(a):
							pe = cal.Params[i]
						case a == ssa.Value(val) || readsParam(a, val):
							pv = cal.Params[i]
						}
						for prm, s := range assume {
							if a == ssa.Value(prm) {
								sub[cal.Params[i]] = s
							}
						}
					}
					if pe == nil || pv == nil {
						continue
					}
					if good, m, _ := elemFieldSet(r, cal, func(v ssa.Value) bool { return v == ssa.Value(pe) }, field, pv, sub, nil, unlessEqual, depth+1); good && m > 0 {
						done = true
					}
				}
			}
		}
		if !done {
			all = false
			if bad == "" {
				bad = "[" + shortFacts(p) + "]"
			}
		}
	}
	return all, n, bad
}

// reachFromEntryAvoiding returns the first instruction accepted by target that can execute, starting
// at the function entry, without an instruction accepted by avoid executing before it (nil if none).
func reachFromEntryAvoiding(fn *ssa.Function, target, avoid func(ssa.Instruction) bool) ssa.Instruction {
	if len(fn.Blocks) == 0 {
		return nil
	}
	seen := map[*ssa.BasicBlock]bool{fn.Blocks[0]: true}
	work := []*ssa.BasicBlock{fn.Blocks[0]}
	for len(work) > 0 {
		b := work[len(work)-1]
		work = work[:len(work)-1]
		stopped := false
		for _, in := range b.Instrs {
			if avoid != nil && avoid(in) {
				stopped = true
				break
			}
			if target(in) {
				return in
			}
		}
		if stopped {
			continue
		}
		for _, s := range b.Succs {
			if !seen[s] {
				seen[s] = true
				work = append(work, s)
			}
		}
	}
	return nil
}

// ---------------------------------------------------------------------------------------------
// "field F of the element gets the value of parameter P": an engine that follows the element and the
// value through helpers, parameter-object structs and copy-modify-store-back.

// vframe is an activation: the root function or a helper entered from a call site of the frame above.
type vframe struct {
	fn   *ssa.Function
	call *ssa.Call
	up   *vframe
}

func (fr *vframe) depth() int {
	n := 0
	for f := fr; f.up != nil; f = f.up {
		n++
	}
	return n
}

// structVar finds the local struct variable (and its frame) that holds the struct `base` denotes:
// base is the address of a local struct, a pointer parameter bound to such an address, or the private
// copy of a by-value struct parameter whose argument is the value of such a variable.
func structVar(base ssa.Value, fr *vframe) (*ssa.Alloc, *vframe) {
	for i := 0; i < 6; i++ {
		switch x := base.(type) {
		case *ssa.Alloc:
			// private copy of a by-value parameter?
			if p := wholeStructParam(x); p != nil && fr.up != nil {
				base = p
				continue
			}
			return x, fr
		case *ssa.Parameter:
			if fr.up == nil || x.Parent() != fr.fn {
				return nil, nil
			}
			idx := paramIndex(x)
			if idx < 0 || idx >= len(fr.call.Call.Args) {
				return nil, nil
			}
			arg := fr.call.Call.Args[idx]
			fr = fr.up
			if u, ok := arg.(*ssa.UnOp); ok && u.Op == token.MUL {
				base = u.X // passed by value: the variable it was loaded from
			} else {
				base = arg
			}
		default:
			return nil, nil
		}
	}
	return nil, nil
}

// fieldValueOf returns the single value assigned to field `field` of the struct variable al: its one
// field assignment, or (when the variable is initialised as a whole from a composite literal built in
// another variable and the field is not assigned afterwards) that literal's.
func fieldValueOf(al *ssa.Alloc, field string, depth int) ssa.Value {
	sts := fieldStores2(al, field)
	if len(sts) == 1 {
		return sts[0].Val
	}
	if len(sts) == 0 && depth < 3 {
		if ws := wholeStores(al); len(ws) == 1 {
			if u, ok := ws[0].Val.(*ssa.UnOp); ok && u.Op == token.MUL {
				if src, isA := u.X.(*ssa.Alloc); isA {
					return fieldValueOf(src, field, depth+1)
				}
			}
		}
	}
	return nil
}

// vresolve follows v (a value of frame fr) towards the root frame: parameters become the call's
// arguments; a field read from a parameter-object struct becomes the value assigned to that field of
// the struct variable (exactly one assignment).
func vresolve(v ssa.Value, fr *vframe) (ssa.Value, *vframe) {
	for i := 0; i < 12 && v != nil; i++ {
		switch x := v.(type) {
		case *ssa.ChangeType:
			v = x.X
			continue
		case *ssa.Parameter:
			if fr.up != nil && x.Parent() == fr.fn {
				if idx := paramIndex(x); idx >= 0 && idx < len(fr.call.Call.Args) {
					v, fr = fr.call.Call.Args[idx], fr.up
					continue
				}
			}
		case *ssa.UnOp:
			if x.Op == token.MUL {
				if fa, ok := x.X.(*ssa.FieldAddr); ok {
					if al, afr := structVar(fa.X, fr); al != nil && (afr != fr || al != fa.X) {
						if fv := fieldValueOf(al, fieldName(fa), 0); fv != nil {
							v, fr = fv, afr
							continue
						}
					}
				}
				if al, ok := x.X.(*ssa.Alloc); ok {
					// private copy of a (non-struct-field) by-value parameter, e.g. a metav1.Time
					if p := wholeStructParam(al); p != nil {
						v = p
						continue
					}
				}
			}
		case *ssa.Field:
			if p, ok := x.X.(*ssa.Parameter); ok {
				if al, afr := structVar(p, fr); al != nil {
					if fv := fieldValueOf(al, fieldName(x), 0); fv != nil {
						v, fr = fv, afr
						continue
					}
				}
			}
		}
		break
	}
	return v, fr
}

// setEngine decides "on every relevant path, field `field` of the element gets the value of root
// parameter val".
type setEngine struct {
	r           *Run
	field       string
	val         *ssa.Parameter
	strAssume   map[*ssa.Parameter]string // root parameter == string constant is assumed
	flagAssume  map[*ssa.Parameter]bool   // root bool parameter has this value
	unlessEqual bool                      // paths on which the field is known to equal val already are exempt
}

func (e *setEngine) same(v ssa.Value, fr *vframe, p *ssa.Parameter) bool {
	rv, rfr := vresolve(v, fr)
	if rfr.up != nil {
		return false
	}
	return rv == ssa.Value(p) || readsParam(rv, p)
}

// skip: the path contradicts the assumptions, or (unlessEqual) knows the field already holds val.
func (e *setEngine) skip(p *Path, fr *vframe, isElemField func(ssa.Value) bool) bool {
	for _, f := range p.Facts {
		for prm, want := range e.flagAssume {
			if e.same(f.V, fr, prm) && f.Pol != want {
				return true
			}
		}
		x, y, ok := eqOperands(f.V)
		if !ok {
			continue
		}
		for _, pair := range [][2]ssa.Value{{x, y}, {y, x}} {
			if s, isS := constString(pair[1]); isS {
				for prm, want := range e.strAssume {
					if e.same(pair[0], fr, prm) && ((s == want) != f.Pol) {
						return true
					}
				}
			}
			if e.unlessEqual && f.Pol && isElemField(pair[0]) && e.same(pair[1], fr, e.val) {
				return true
			}
		}
	}
	return false
}

// check: paths of fn (frame fr) accepted by onPath; isElem recognises the element's address.
func (e *setEngine) check(fr *vframe, isElem func(ssa.Value) bool, onPath func(*Path) bool) (all bool, n int, bad string) {
	fn := fr.fn
	paths, _, ok := funcPaths(fn, 5000)
	e.r.paths += len(paths)
	if !ok || fr.depth() > 3 {
		return false, 0, "path cap exceeded"
	}
	isElemField := func(v ssa.Value) bool {
		u, isU := v.(*ssa.UnOp)
		if !isU || u.Op != token.MUL {
			return false
		}
		fa, isFA := u.X.(*ssa.FieldAddr)
		return isFA && fieldName(fa) == e.field && isElem(fa.X)
	}
	all = true
	for _, p := range paths {
		if (onPath != nil && !onPath(p)) || e.skip(p, fr, isElemField) {
			continue
		}
		n++
		done := false
		for _, b := range p.Blocks {
			for _, in := range b.Instrs {
				switch x := in.(type) {
				case *ssa.Store:
					if fa, isFA := x.Addr.(*ssa.FieldAddr); isFA && fieldName(fa) == e.field && isElem(fa.X) && e.same(x.Val, fr, e.val) {
						done = true
					}
					// copy-modify-store-back: the whole element is replaced by a helper's result
					if isElem(x.Addr) {
						if c, idx := callResult(x.Val); c != nil {
							if sub := e.enter(fr, c); sub != nil && e.resultField(sub, idx, isElem) {
								done = true
							}
						}
					}
				case *ssa.Call:
					sub := e.enter(fr, x)
					if sub == nil {
						continue
					}
					for i, a := range x.Call.Args {
						if i < len(sub.fn.Params) && isElem(a) {
							pe := sub.fn.Params[i]
							if good, m, _ := e.check(sub, func(v ssa.Value) bool { return v == ssa.Value(pe) }, nil); good && m > 0 {
								done = true
							}
						}
					}
				}
			}
		}
		if !done {
			all = false
			if bad == "" {
				bad = "[" + shortFacts(p) + "]"
			}
		}
	}
	return all, n, bad
}

func (e *setEngine) enter(fr *vframe, c *ssa.Call) *vframe {
	cal := staticCallee(&c.Call)
	if cal == nil || len(cal.Blocks) == 0 || !e.r.Prog.IsRuleSite(cal) || fr.depth() >= 3 {
		return nil
	}
	for f := fr; f != nil; f = f.up {
		if f.fn == cal {
			return nil
		}
	}
	return &vframe{fn: cal, call: c, up: fr}
}

// resultField: every relevant path of the helper returns a struct (a local variable) whose field was
// last assigned the value of val; a path that leaves the field as copied from the old element is
// exempt only under unlessEqual when it knows the old value equals val.
func (e *setEngine) resultField(fr *vframe, idx int, isElemOuter func(ssa.Value) bool) bool {
	paths, _, ok := funcPaths(fr.fn, 5000)
	e.r.paths += len(paths)
	if !ok {
		return false
	}
	// a field of a parameter that holds (a copy of) the old element
	isOldElemField := func(v ssa.Value) bool {
		var base ssa.Value
		var name string
		switch x := v.(type) {
		case *ssa.UnOp:
			if fa, isFA := x.X.(*ssa.FieldAddr); isFA && x.Op == token.MUL {
				base, name = fa.X, fieldName(fa)
			}
		case *ssa.Field:
			base, name = x.X, fieldName(x)
		}
		if base == nil || name != e.field {
			return false
		}
		var p *ssa.Parameter
		if al, isA := base.(*ssa.Alloc); isA {
			p = wholeStructParam(al)
		} else {
			p, _ = base.(*ssa.Parameter)
		}
		if p == nil || p.Parent() != fr.fn {
			return false
		}
		i := paramIndex(p)
		if i < 0 || i >= len(fr.call.Call.Args) {
			return false
		}
		if u, isU := fr.call.Call.Args[i].(*ssa.UnOp); isU && u.Op == token.MUL {
			return isElemOuter(u.X)
		}
		return isElemOuter(fr.call.Call.Args[i])
	}
	n := 0
	for _, p := range paths {
		if e.skip(p, fr, isOldElemField) {
			continue
		}
		n++
		ret := returnOf(p.Blocks[len(p.Blocks)-1])
		if ret == nil || idx >= len(ret.Results) {
			return false
		}
		u, isU := ret.Results[idx].(*ssa.UnOp)
		if !isU || u.Op != token.MUL {
			return false
		}
		al, isA := u.X.(*ssa.Alloc)
		if !isA {
			return false
		}
		var last *ssa.Store
		for _, b := range p.Blocks {
			for _, in := range b.Instrs {
				if st, isSt := in.(*ssa.Store); isSt {
					if fa, isFA := st.Addr.(*ssa.FieldAddr); isFA && fa.X == ssa.Value(al) && fieldName(fa) == e.field {
						last = st
					}
				}
			}
		}
		if last == nil || !e.same(last.Val, fr, e.val) {
			return false
		}
	}
	return n > 0
}
