package main

// C05.R9 — integrity of listed objects between the decision and its use.
//
// The reconciler keeps *pointers into the listed slice* (`&list.Items[i]`) for the replica set it
// recorded as active and hands them to the promotion decision; the decision's result is used later
// (clean-up, status update). The name written to status.activeReplicaSet is therefore the name of
// whatever element sits at that index when the status is built. Necessary condition of "the active
// replica set is what the rule kept": in everything reachable from the reconcile entry point, a
// slice whose element addresses escape is never reordered or overwritten element-wise (sort.*,
// slices.Sort*/Reverse/Delete/Insert/Compact/Replace, copy into it, `s[i] = x`, `append(s[:i], …)`)
// unless the slice written is provably a different one (a fresh copy).
//
// The rule is decided on roots: the mutated slice and every aliased slice are traced back (through
// sub-slicing, conversions, phis, local cells, parameters at every call site, closure bindings and
// repository helper results) to the objects that own their backing arrays. A mutation is reported
// when the two root sets intersect, and is undecided when the mutated slice reaches a root the
// tracing cannot name (an unknown source is not assumed to be a copy).

import (
	"fmt"
	"go/token"
	"go/types"
	"sort"
	"strings"

	"golang.org/x/tools/go/ssa"
)

type sliceRoot struct {
	v     ssa.Value // Alloc / MakeSlice / opaque call / entry parameter / global
	items bool      // the slice is a field of the object v points to
	fresh bool      // newly made backing array (make, append to nil/fresh, literal, Clone, DeepCopy)
}

func (p *Prog) sliceRootsOf(v ssa.Value) (roots []sliceRoot, unknown bool) {
	seen := map[ssa.Value]bool{}
	var rec func(v ssa.Value, d int)
	add := func(r sliceRoot) { roots = append(roots, r) }
	rec = func(v ssa.Value, d int) {
		if v == nil || seen[v] {
			return
		}
		seen[v] = true
		if d > 14 {
			unknown = true
			return
		}
		switch x := v.(type) {
		case *ssa.Const:
			add(sliceRoot{v: x, fresh: true})
		case *ssa.Slice:
			rec(x.X, d+1)
		case *ssa.ChangeType:
			rec(x.X, d+1)
		case *ssa.Convert:
			rec(x.X, d+1)
		case *ssa.MakeInterface:
			rec(x.X, d+1)
		case *ssa.Phi:
			for _, e := range x.Edges {
				rec(e, d+1)
			}
		case *ssa.MakeSlice:
			add(sliceRoot{v: x, fresh: true})
		case *ssa.Alloc:
			// slice of a local array (composite literal) or the address of an array
			add(sliceRoot{v: x, fresh: true})
		case *ssa.UnOp:
			if x.Op != token.MUL {
				unknown = true
				return
			}
			switch a := x.X.(type) {
			case *ssa.FieldAddr:
				// slice stored in a field of an object: the owner is the object
				owner := unwrap(a.X)
				for _, o := range p.objectRoots(owner) {
					add(sliceRoot{v: o, items: true})
				}
				if len(p.objectRoots(owner)) == 0 {
					unknown = true
				}
			case *ssa.Alloc:
				// local variable holding the slice: every value stored into it
				n := 0
				for _, r := range refs(a) {
					if st, ok := r.(*ssa.Store); ok && st.Addr == ssa.Value(a) {
						rec(st.Val, d+1)
						n++
					}
				}
				if n == 0 {
					add(sliceRoot{v: a, fresh: true})
				}
			case *ssa.FreeVar:
				for _, b := range p.stepOut(a) {
					// the binding is the address of the captured variable
					if al, ok := b.(*ssa.Alloc); ok {
						n := 0
						for _, r := range refs(al) {
							if st, ok := r.(*ssa.Store); ok && st.Addr == ssa.Value(al) {
								rec(st.Val, d+1)
								n++
							}
						}
						if n == 0 {
							add(sliceRoot{v: al, fresh: true})
						}
					} else {
						unknown = true
					}
				}
			case *ssa.Global:
				add(sliceRoot{v: a})
			default:
				unknown = true
			}
		case *ssa.Parameter, *ssa.FreeVar:
			outs := p.stepOut(v)
			if len(outs) == 0 {
				add(sliceRoot{v: v}) // entry point parameter: its own root
				return
			}
			for _, o := range outs {
				rec(o, d+1)
			}
		case *ssa.Call:
			if b, ok := x.Call.Value.(*ssa.Builtin); ok && b.Name() == "append" {
				// append keeps the backing array of its first argument when capacity allows
				first := x.Call.Args[0]
				if c, ok := first.(*ssa.Const); ok && c.IsNil() {
					add(sliceRoot{v: x, fresh: true})
					return
				}
				rec(first, d+1)
				return
			}
			name := calleeName(&x.Call)
			switch {
			case strings.HasPrefix(name, "slices.Clone"), strings.HasSuffix(name, ".DeepCopy"), strings.HasPrefix(name, "slices.Collect"), strings.HasPrefix(name, "slices.Sorted"):
				add(sliceRoot{v: x, fresh: true})
				return
			case strings.HasPrefix(name, "slices.Delete"), strings.HasPrefix(name, "slices.Insert"), strings.HasPrefix(name, "slices.Compact"),
				strings.HasPrefix(name, "slices.Clip"), strings.HasPrefix(name, "slices.Grow"), strings.HasPrefix(name, "slices.Replace"):
				rec(x.Call.Args[0], d+1)
				return
			}
			if outs := p.stepOut(x); len(outs) > 0 {
				for _, o := range outs {
					rec(o, d+1)
				}
				return
			}
			add(sliceRoot{v: x}) // opaque call result: a root of its own
		case *ssa.Extract:
			if outs := p.stepOut(x); len(outs) > 0 {
				for _, o := range outs {
					rec(o, d+1)
				}
				return
			}
			add(sliceRoot{v: x})
		default:
			unknown = true
		}
	}
	rec(v, 0)
	return
}

// objectRoots traces a pointer to the objects it may denote (allocations, opaque call results,
// entry parameters), through phis, local cells, parameters and helper results.
func (p *Prog) objectRoots(v ssa.Value) []ssa.Value {
	seen := map[ssa.Value]bool{}
	var out []ssa.Value
	var rec func(v ssa.Value, d int)
	rec = func(v ssa.Value, d int) {
		if v == nil || seen[v] || d > 14 {
			return
		}
		seen[v] = true
		switch x := v.(type) {
		case *ssa.Alloc:
			out = append(out, x)
		case *ssa.Phi:
			for _, e := range x.Edges {
				rec(e, d+1)
			}
		case *ssa.ChangeType:
			rec(x.X, d+1)
		case *ssa.FieldAddr:
			// embedded object: owner of the outer object
			rec(x.X, d+1)
		case *ssa.IndexAddr:
			out = append(out, x)
		case *ssa.UnOp:
			if x.Op == token.MUL {
				if a, ok := x.X.(*ssa.Alloc); ok {
					n := 0
					for _, r := range refs(a) {
						if st, ok := r.(*ssa.Store); ok && st.Addr == ssa.Value(a) {
							rec(st.Val, d+1)
							n++
						}
					}
					if n == 0 {
						out = append(out, a)
					}
					return
				}
				if fv, ok := x.X.(*ssa.FreeVar); ok {
					for _, b := range p.stepOut(fv) {
						if al, ok := b.(*ssa.Alloc); ok {
							for _, r := range refs(al) {
								if st, ok := r.(*ssa.Store); ok && st.Addr == ssa.Value(al) {
									rec(st.Val, d+1)
								}
							}
						}
					}
					return
				}
			}
			out = append(out, x)
		case *ssa.Parameter, *ssa.FreeVar:
			outs := p.stepOut(v)
			if len(outs) == 0 {
				out = append(out, v)
				return
			}
			for _, o := range outs {
				rec(o, d+1)
			}
		case *ssa.Call, *ssa.Extract:
			if outs := p.stepOut(v); len(outs) > 0 {
				for _, o := range outs {
					rec(o, d+1)
				}
				return
			}
			out = append(out, v)
		default:
			out = append(out, v)
		}
	}
	rec(v, 0)
	return out
}

// escapingElementAddrs: IndexAddr instructions on slices whose result is kept as a pointer beyond the
// statement that takes it (stored in a variable or container, merged at a join, returned, captured)
// rather than loaded from, used to reach a field, or lent to a call.
func escapingElementAddrs(fn *ssa.Function) []*ssa.IndexAddr {
	var out []*ssa.IndexAddr
	for _, b := range fn.Blocks {
		for _, in := range b.Instrs {
			ia, ok := in.(*ssa.IndexAddr)
			if !ok {
				continue
			}
			if _, isSlice := ia.X.Type().Underlying().(*types.Slice); !isSlice {
				continue
			}
			esc := false
			for _, r := range refs(ia) {
				switch y := r.(type) {
				case *ssa.Store:
					if y.Val == ssa.Value(ia) {
						esc = true
					}
				case *ssa.Phi, *ssa.Return, *ssa.MakeClosure, *ssa.MapUpdate, *ssa.MakeInterface, *ssa.Send:
					esc = true
				case *ssa.Call:
					// kept by append(ptrs, &s[i]); an ordinary call only borrows the pointer
					if bi, ok := y.Call.Value.(*ssa.Builtin); ok && bi.Name() == "append" {
						esc = true
					}
				}
			}
			if esc {
				out = append(out, ia)
			}
		}
	}
	return out
}

type sliceMutation struct {
	in    ssa.Instruction
	slice ssa.Value
	what  string
}

func sliceMutations(fn *ssa.Function) []sliceMutation {
	var out []sliceMutation
	isSlice := func(v ssa.Value) bool {
		_, ok := v.Type().Underlying().(*types.Slice)
		return ok
	}
	for _, b := range fn.Blocks {
		for _, in := range b.Instrs {
			switch x := in.(type) {
			case *ssa.Store:
				if ia, ok := x.Addr.(*ssa.IndexAddr); ok && isSlice(ia.X) {
					out = append(out, sliceMutation{in, ia.X, "element assignment"})
				}
			case *ssa.Call:
				if bi, ok := x.Call.Value.(*ssa.Builtin); ok {
					switch bi.Name() {
					case "copy":
						if isSlice(x.Call.Args[0]) {
							out = append(out, sliceMutation{in, x.Call.Args[0], "copy into the slice"})
						}
					case "append":
						// appending to a truncated view s[:i] (directly, or accumulated around a loop)
						// overwrites the elements of s behind i
						if sl := truncatedView(x.Call.Args[0], x); sl != nil && isSlice(sl.X) {
							out = append(out, sliceMutation{in, sl.X, "append to a truncated sub-slice (overwrites the elements behind it)"})
						}
					}
					continue
				}
				name := calleeName(&x.Call)
				mut := false
				switch {
				case name == "sort.Slice", name == "sort.SliceStable", name == "sort.Sort", name == "sort.Stable":
					mut = true
				case strings.HasPrefix(name, "slices.Sort"), strings.HasPrefix(name, "slices.Reverse"), strings.HasPrefix(name, "slices.Delete"),
					strings.HasPrefix(name, "slices.Insert"), strings.HasPrefix(name, "slices.Compact"), strings.HasPrefix(name, "slices.Replace"),
					strings.HasPrefix(name, "rand.Shuffle"):
					mut = !strings.HasPrefix(name, "slices.Sorted")
				}
				if mut && len(x.Call.Args) > 0 {
					a := x.Call.Args[0]
					// sort.Sort(byX(items)) / sort.Slice(any(items), …): look through the interface / named type
					for i := 0; i < 4; i++ {
						switch y := a.(type) {
						case *ssa.MakeInterface:
							a = y.X
							continue
						case *ssa.ChangeType:
							a = y.X
							continue
						case *ssa.Convert:
							a = y.X
							continue
						}
						break
					}
					if isSlice(a) {
						out = append(out, sliceMutation{in, a, "reordered by " + name})
					}
				}
			}
		}
	}
	return out
}

func c05ListIntegrity(r *Run) {
	r.RuleDoc("C05.R9", "a listed slice whose element addresses are kept (the recorded active replica set is a pointer into the list) is never reordered or overwritten within the reconcile; positive control keeps the rule non-vacuous")
	_, reach := edsReconcile(r)
	if reach == nil {
		return
	}
	fns := sortedFuncs(reach)
	type alias struct {
		ia    *ssa.IndexAddr
		roots []sliceRoot
	}
	var aliases []alias
	for _, fn := range fns {
		if !r.Prog.IsRuleSite(fn) {
			continue
		}
		for _, ia := range escapingElementAddrs(fn) {
			roots, _ := r.Prog.sliceRootsOf(ia.X)
			aliases = append(aliases, alias{ia, roots})
		}
	}
	r.extra["C05.R9 element addresses kept"] = len(aliases)
	n := 0
	for _, fn := range fns {
		if !r.Prog.IsRuleSite(fn) {
			continue
		}
		for _, m := range sliceMutations(fn) {
			roots, unknown := r.Prog.sliceRootsOf(m.slice)
			allFresh := !unknown
			for _, ro := range roots {
				if !ro.fresh {
					allFresh = false
				}
			}
			if allFresh {
				continue // a freshly made slice: nobody else holds its elements
			}
			// same element type as some aliased slice?
			var hits []string
			relevant := false
			orderUnknown := false
			for _, a := range aliases {
				if !types.Identical(a.ia.X.Type().Underlying(), m.slice.Type().Underlying()) {
					continue
				}
				relevant = true
				for _, ra := range a.roots {
					for _, rm := range roots {
						if ra.v == rm.v && !rm.fresh {
							switch r.Prog.bornBefore(ra.v, a.ia, m.in) {
							case 1:
								hits = append(hits, r.Prog.Pos(a.ia.Pos()))
							case -1:
								orderUnknown = true
							}
						}
					}
				}
			}
			if !relevant {
				continue
			}
			n++
			sort.Strings(hits)
			construct := fmt.Sprintf("%s of %s", m.what, typeName(m.slice.Type()))
			pos := r.Prog.Pos(instrPos(m.in))
			switch {
			case len(hits) > 0:
				r.Check("C05.R9", construct, pos, shortFunc(fn), "no reordering/overwriting of a slice whose element addresses are kept", false,
					"the slice is the one whose element address is kept at "+strings.Join(uniqStrings(hits), ", ")+": the pointer handed to / returned by the promotion decision then designates another replica set")
			case unknown:
				r.Undecided("C05.R9", construct, pos, shortFunc(fn), "the written slice cannot be traced to its owner, and element addresses of slices of this type are kept")
			case orderUnknown:
				r.Undecided("C05.R9", construct, pos, shortFunc(fn), "the slice is one whose element address is kept, and the order of taking the address and this write cannot be established")
			default:
				r.Check("C05.R9", construct, pos, shortFunc(fn), "no reordering/overwriting of a slice whose element addresses are kept", true, "different owner than every aliased slice, or written before any element address is taken")
			}
		}
	}
	r.extra["C05.R9 mutation sites of aliased element types"] = n
}

// bornBefore: in the function that defines the common owner root, can control flow from the event
// that takes the element address (the IndexAddr itself or the call through which it is reached) to
// the event that writes the slice? 1 yes, 0 no, -1 the events cannot be located.
func (p *Prog) bornBefore(root ssa.Value, birth, write ssa.Instruction) int {
	var R *ssa.Function
	switch x := root.(type) {
	case ssa.Instruction:
		R = x.Parent()
	case *ssa.Parameter:
		R = x.Parent()
	case *ssa.FreeVar:
		R = x.Parent()
	}
	if R == nil {
		return -1
	}
	eb := p.eventsIn(R, birth)
	ew := p.eventsIn(R, write)
	if len(eb) == 0 || len(ew) == 0 {
		return -1
	}
	for _, b := range eb {
		for _, w := range ew {
			if instrReaches(b, w) {
				return 1
			}
		}
	}
	return 0
}

// eventsIn: the instructions of R through which instruction in (possibly in a callee or closure) is
// executed.
func (p *Prog) eventsIn(R *ssa.Function, in ssa.Instruction) []ssa.Instruction {
	G := in.Parent()
	if G == R {
		return []ssa.Instruction{in}
	}
	var out []ssa.Instruction
	for _, b := range R.Blocks {
		for _, x := range b.Instrs {
			switch y := x.(type) {
			case ssa.CallInstruction:
				if cal := staticCallee(y.Common()); cal != nil && p.IsRuleSite(cal) && p.reachableFuncs(cal)[G] {
					out = append(out, x)
				}
			case *ssa.MakeClosure:
				if cf, ok := y.Fn.(*ssa.Function); ok && p.reachableFuncs(cf)[G] {
					out = append(out, x)
				}
			}
		}
	}
	return out
}

// instrReaches: b is executed after a on some path (strictly later in the same block, or in a
// block reachable through at least one edge — which includes a later iteration of a loop).
func instrReaches(a, b ssa.Instruction) bool {
	ba, bb := a.Block(), b.Block()
	if ba == bb {
		ia, ib := -1, -1
		for i, x := range ba.Instrs {
			if x == a {
				ia = i
			}
			if x == b {
				ib = i
			}
		}
		if ia < ib {
			return true
		}
	}
	seen := map[*ssa.BasicBlock]bool{}
	work := append([]*ssa.BasicBlock{}, ba.Succs...)
	for len(work) > 0 {
		x := work[len(work)-1]
		work = work[:len(work)-1]
		if seen[x] {
			continue
		}
		seen[x] = true
		if x == bb {
			return true
		}
		work = append(work, x.Succs...)
	}
	return false
}

// truncatedView: v is s[:i], or an accumulator (phi / local cell / earlier append result) that starts
// from such a view.
func truncatedView(v ssa.Value, self *ssa.Call) *ssa.Slice {
	seen := map[ssa.Value]bool{}
	var rec func(v ssa.Value, d int) *ssa.Slice
	rec = func(v ssa.Value, d int) *ssa.Slice {
		if v == nil || seen[v] || d > 8 {
			return nil
		}
		seen[v] = true
		switch x := v.(type) {
		case *ssa.Slice:
			if x.High != nil {
				if _, ok := x.X.Type().Underlying().(*types.Slice); ok {
					return x
				}
			}
			return rec(x.X, d+1)
		case *ssa.Phi:
			for _, e := range x.Edges {
				if s := rec(e, d+1); s != nil {
					return s
				}
			}
		case *ssa.Call:
			if bi, ok := x.Call.Value.(*ssa.Builtin); ok && bi.Name() == "append" && x != self {
				return rec(x.Call.Args[0], d+1)
			}
		case *ssa.UnOp:
			if a, ok := x.X.(*ssa.Alloc); ok && x.Op == token.MUL {
				for _, r := range refs(a) {
					if st, ok := r.(*ssa.Store); ok && st.Addr == ssa.Value(a) {
						if s := rec(st.Val, d+1); s != nil {
							return s
						}
					}
				}
			}
		}
		return nil
	}
	return rec(v, 0)
}

// C05.R10 — the restart clock only moves forward. IsCanaryDeploymentEnded measures the no-restart
// window from the PodRestarting condition's LastUpdateTime (C05.R2). Necessary condition of "at
// least noRestartsDuration has passed since the last canary pod restart": the replica-set side
// writes that condition with a restart time T only under the fact T.After(L), L read from the
// recorded condition's LastUpdateTime (so an older restart of another pod can never move the clock
// back). The fact may hold directly at the write or through a boolean helper (alternatives with
// environments).
func c05RestartClockMonotonic(r *Run) {
	r.RuleDoc("C05.R10", "the PodRestarting condition is written with restart time T only under T.After(recorded LastUpdateTime): the no-restart window is measured from the latest restart")
	r.Floor("C05.R10", 1)
	rec := r.Prog.Method(pkgERS, "Reconciler", "Reconcile")
	if rec == nil {
		r.Fatal("anchor (%s.Reconciler).Reconcile not found", pkgERS)
		return
	}
	ctype, ok := r.Prog.constStr(pkgAPI, "ConditionTypePodRestarting")
	if !ok {
		r.Fatal("constant ConditionTypePodRestarting not found")
		return
	}
	reach := r.Prog.reachableFuncs(rec)
	for _, fn := range sortedFuncs(reach) {
		if !r.Prog.IsRuleSite(fn) {
			continue
		}
		for _, c := range callsIn(fn) {
			call, isCall := c.(*ssa.Call)
			if !isCall {
				continue
			}
			cal := staticCallee(&call.Call)
			if cal == nil || !r.Prog.IsRuleSite(cal) {
				continue
			}
			// a condition writer call: some argument is the PodRestarting type constant and some
			// argument is a metav1.Time
			hasType := false
			var ts ssa.Value
			for _, a := range call.Call.Args {
				if s, ok := constString(unwrap(a)); ok && s == ctype {
					hasType = true
				}
				if typeName(a.Type()) == "k8s.io/apimachinery/pkg/apis/meta/v1.Time" && ts == nil {
					ts = a
				}
			}
			if !hasType || ts == nil {
				continue
			}
			pos := r.Prog.Pos(instrPos(call))
			// T: the time.Time wrapped by metav1.NewTime / a Time{Time: T} literal
			var T ssa.Value
			if nt, ok := unwrap(ts).(*ssa.Call); ok && calleeName(&nt.Call) == "k8s.io/apimachinery/pkg/apis/meta/v1.NewTime" && len(nt.Call.Args) == 1 {
				T = nt.Call.Args[0]
			}
			if T == nil {
				r.Undecided("C05.R10", "PodRestarting condition write", pos, shortFunc(fn), "the timestamp is not metav1.NewTime(T)")
				continue
			}
			k := newKeyer(fn)
			tkey := k.key(T)
			var base []xfact
			for _, f := range r.Prog.factsOf(fn).At(call.Block()) {
				base = append(base, xfact{f, nil})
			}
			alts := expandAlt(r.Prog, base, 0)
			good := len(alts) > 0
			for _, alt := range alts {
				found := false
				for _, xf := range alt {
					if !xf.Pol {
						continue
					}
					ac, ok := xf.V.(*ssa.Call)
					if !ok || len(ac.Call.Args) != 2 {
						continue
					}
					var recv, arg ssa.Value
					switch calleeName(&ac.Call) {
					case "(time.Time).After":
						recv, arg = ac.Call.Args[0], ac.Call.Args[1]
					case "(time.Time).Before":
						recv, arg = ac.Call.Args[1], ac.Call.Args[0]
					default:
						continue
					}
					rv, _ := stripConvE(recv, xf.env)
					sameT := rv == T || newKeyer(fn).key(rv) == tkey
					if rp, ok := rv.(ssa.Value); ok && !sameT && rp.Parent() == fn {
						sameT = k.key(rp) == tkey
					}
					if !sameT {
						continue
					}
					av, aenv := stripConvE(arg, xf.env)
					_ = aenv
					if r.Prog.dependsOnIP(av, func(x ssa.Value) bool {
						return hasPathSuffix(x, "LastUpdateTime", "Time") || hasPathSuffix(x, "LastUpdateTime")
					}) {
						found = true
					}
				}
				if !found {
					good = false
				}
			}
			r.Check("C05.R10", "PodRestarting condition write", pos, shortFunc(fn),
				"written only under T.After(recorded LastUpdateTime)", good, "must-facts at the write: "+truncate(r.Prog.factsOf(fn).At(call.Block()).String(), 300))
		}
	}
}
