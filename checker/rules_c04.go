package main

// C04 — canary blast radius: the new template runs only on the selected canary nodes.

import (
	"fmt"
	"sort"
	"strings"

	"golang.org/x/tools/go/ssa"
)

func init() {
	register("C04", "Decides the structure that confines a canary to status.canary.nodes: (R1) the role of a replica set is `canary` only with Status.Canary != nil ∧ Status.Canary.ReplicaSet == name ∧ Status.ActiveReplicaSet != name and `active` only with ActiveReplicaSet == name; every role the role function can return dispatches to a strategy function, and a strategy function that plans pod creations/deletions is called only under role active or canary; (R2) on every path of the parameter builder on which the replica set is active while a canary is recorded, the mapping function receives Status.Canary.Nodes as its ignore list, and the mapping function creates no per-node entry and cleans up no pod for an ignored node; (R3) the active planner never sees canary nodes (by R2 on all paths, or by a removal loop over Parameters.CanaryNodes that dominates every other use of the per-node map); (R4) in the canary role every creation candidate is NodeByName[n] for n ranging over Parameters.CanaryNodes, Parameters.CanaryNodes is Status.Canary.Nodes and the node index maps a name to the node of that name; (R5) the selection loop adds a new node only while len(list) < resolved replicas and leaves the loop or re-checks the bound after every addition; (R7) the bound of R5 is the same number everywhere: every resolution of Strategy.Canary.Replicas reachable from the ExtendedDaemonSet reconciler rounds up and uses Status.Desired of the same reconciled ExtendedDaemonSet as total; (R9) when the canary-label clean-up is limited to a time window, the window's origin is read from the replica set's Active condition and every dispatch in a non-active role records Active=False before or inside the strategy function; (R10) every non-error return of the canary-role strategy function is dominated by the pass that adds the canary label; (R6) the canary label is added only to the pod of a canary node whose replica-set label names this replica set, and removed only from pods listed with {canary label, replica-set label == this replica set} by a function that runs in the active role. (R11, imported C09.R3) the start of the rolling update, which opens the window of the canary-label clean-up, is the Active condition's LastTransitionTime only while that condition is True.", runC04)
}

// c04Site is one call of a strategy function from the replica-set reconciler.
type c04Site struct {
	fn     *ssa.Function
	call   ssa.CallInstruction
	cal    *ssa.Function
	guard  string
	params ssa.Value
}

type c04Ctx struct {
	a         *c01Anchors
	edsParam  *ssa.Parameter // ExtendedDaemonSet parameter of the builder
	ersParam  *ssa.Parameter // replica-set parameter of the builder
	roleFn    *ssa.Function
	roleCall  *ssa.Call
	roleVals  map[string]string          // "active"/"canary"/"unknown" -> constant value
	guardOf   map[*ssa.Function][]string // strategy entry function -> role constants guarding its calls
	r2AllOK   bool
	ignoreIdx int
	sites     []c04Site             // dispatch sites of the strategy functions
	addSites  []ssa.CallInstruction // calls that add the canary label
	delSites  []ssa.CallInstruction // calls that remove the canary label
}

func runC04(r *Run) {
	r.RuleDoc("C04.R1", "role table (canary/active only under the documented status facts); every role dispatches; planners run only in the active or canary role")
	r.RuleDoc("C04.R2", "active role: Status.Canary.Nodes is the mapping's ignore list on every path; the mapping creates no entry and cleans up no pod for an ignored node")
	r.RuleDoc("C04.R3", "canary nodes never reach the active planner (mapping hides them on all paths, or a dominating removal loop)")
	r.RuleDoc("C04.R4", "canary role: creation candidates are NodeByName[n], n ∈ Parameters.CanaryNodes == Status.Canary.Nodes")
	r.RuleDoc("C04.R5", "node selection never adds a new node at or beyond the resolved replicas")
	r.RuleDoc("C04.R7", "every resolution of Strategy.Canary.Replicas (the bound of R5 and the caller's count test) rounds up and uses Status.Desired of the same ExtendedDaemonSet")
	r.RuleDoc("C04.R9", "the time window of the canary-label clean-up starts at the activation of the replica set: its origin is read from the Active condition, and every non-active dispatch records Active=False")
	r.RuleDoc("C04.R10", "in the canary role the canary-label pass is reached on every return path of the strategy function (whatever the pause/failed state)")
	r.RuleDoc("C04.R6", "canary label added only to this replica set's pod on a canary node; removed only from pods listed by {canary label, this replica set} in the active role")
	r.Floor("C04.R1", 8)
	r.Floor("C04.R2", 4)
	r.Floor("C04.R3", 1)
	r.Floor("C04.R4", 3)
	r.Floor("C04.R5", 2)
	r.Floor("C04.R7", 4)
	r.Floor("C04.R9", 1)
	r.Floor("C04.R10", 1)
	r.Floor("C04.R6", 4)
	r.NotCovered("both roles syncing against one store in any order across role changes (a second template change while a canary runs, status read from a stale cache); deletions issued by the canary replica set; that status.canary.nodes itself is valid (C15); namespace scoping of the lists (C12)")

	a := c01FindAnchors(r)
	if a == nil {
		return
	}
	c := &c04Ctx{a: a, roleVals: map[string]string{}, guardOf: map[*ssa.Function][]string{}, ignoreIdx: -1}
	for _, p := range a.builder.Params {
		if isPtrToNamed(p.Type(), pkgAPI, "ExtendedDaemonSet") {
			c.edsParam = p
		}
		if isPtrToNamed(p.Type(), pkgAPI, "ExtendedDaemonSetReplicaSet") {
			c.ersParam = p
		}
	}
	if c.edsParam == nil || c.ersParam == nil {
		r.Fatal("%s does not take the ExtendedDaemonSet and the replica set", shortFunc(a.builder))
		return
	}
	for _, n := range []struct{ role, cname string }{{"active", "ReplicaSetStatusActive"}, {"canary", "ReplicaSetStatusCanary"}, {"unknown", "ReplicaSetStatusUnknown"}} {
		v, ok := r.Prog.constStr(pkgStrategy, n.cname)
		if !ok {
			r.Fatal("constant %s.%s not found", pkgStrategy, n.cname)
			return
		}
		c.roleVals[n.role] = v
	}
	if !c04Role(r, c) {
		return
	}
	c04Dispatch(r, c)
	c04Ignore(r, c)
	c04Removal(r, c)
	c04CanaryCandidates(r, c)
	c15Cap(r, "C04.R5", "C04.R7")
	c04Labels(r, c)
	c04ActivationOrigin(r, c)
	c04LabelAlways(r, c)
	c04LabelLoopExits(r)
}

// ---------------------------------------------------------------------------------------------
// R1

func c04Role(r *Run, c *c04Ctx) bool {
	a := c.a
	// role function: origin of the value stored into Parameters.ReplicaSetStatus
	for _, st := range fieldStoresInC(a.builder, pkgStrategy, "Parameters", "ReplicaSetStatus") {
		call, ok := unwrap(st.Val).(*ssa.Call)
		if !ok || staticCallee(&call.Call) == nil || !r.Prog.IsRuleSite(staticCallee(&call.Call)) {
			r.Undecided("C04.R1", "role of the replica set", r.Prog.Pos(instrPos(st)), shortFunc(a.builder), "Parameters.ReplicaSetStatus is not the result of a repository function: "+descValueC(st.Val))
			return false
		}
		c.roleCall, c.roleFn = call, staticCallee(&call.Call)
	}
	if c.roleFn == nil {
		r.Fatal("no store to strategy.Parameters.ReplicaSetStatus in %s", shortFunc(a.builder))
		return false
	}
	fn := c.roleFn
	var eds, name *ssa.Parameter
	for i, p := range fn.Params {
		arg := c.roleCall.Call.Args[i]
		switch {
		case isPtrToNamed(p.Type(), pkgAPI, "ExtendedDaemonSet") && arg == ssa.Value(c.edsParam):
			eds = p
		case p.Type().String() == "string" && nameOf(isParam(c.ersParam))(arg):
			name = p
		}
	}
	r.Check("C04.R1", "role function arguments", r.Prog.Pos(c.roleCall.Pos()), shortFunc(a.builder), "the role is computed from the ExtendedDaemonSet's status and this replica set's name", eds != nil && name != nil, descValueC(c.roleCall))
	if eds == nil || name == nil {
		return false
	}
	paths, _, ok := funcPaths(fn, 5000)
	r.paths += len(paths)
	if !ok {
		r.Undecided("C04.R1", "role table", r.Prog.Pos(fn.Pos()), shortFunc(fn), "path cap exceeded")
		return false
	}
	isEDS := isParam(eds)
	ars := loadOfPath(isEDS, "Status", "ActiveReplicaSet")
	canary := loadOfPath(isEDS, "Status", "Canary")
	canaryRS := loadOfPath(isEDS, "Status", "Canary", "ReplicaSet")
	isName := isParam(name)
	returned := map[string]bool{}
	for _, p := range paths {
		ret := returnOf(p.Blocks[len(p.Blocks)-1])
		res := p.Resolve(ret.Results[0])
		pos := r.Prog.Pos(instrPos(ret))
		val, isConst := constString(res)
		if !isConst {
			r.Undecided("C04.R1", "role table: non-constant role", pos, shortFunc(fn), "returns "+descValueC(res))
			continue
		}
		returned[val] = true
		fs := p.Facts
		construct := fmt.Sprintf("role %q on [%s]", val, descFactsC(fs))
		switch val {
		case c.roleVals["canary"]:
			good := nilFactC(fs, false, canary) && eqFactC(fs, true, canaryRS, isName) && eqFactC(fs, false, ars, isName)
			r.Check("C04.R1", construct, pos, shortFunc(fn), "canary role only with Status.Canary != nil ∧ Status.Canary.ReplicaSet == name ∧ Status.ActiveReplicaSet != name", good, "")
		case c.roleVals["active"]:
			r.Check("C04.R1", construct, pos, shortFunc(fn), "active role only with Status.ActiveReplicaSet == name", eqFactC(fs, true, ars, isName), "")
		case c.roleVals["unknown"]:
			o := r.Check("C04.R1", construct, pos, shortFunc(fn), "the unknown role plans no pod operation (see dispatch)", true, "")
			o.Trivial = true
		default:
			r.Check("C04.R1", construct, pos, shortFunc(fn), "role is one of active/canary/unknown", false, "")
		}
	}
	c.roleVals["#returned"] = strings.Join(sortedKeysC(returned), ",")
	return true
}

// c04PlansPods: fn or a function it reachesC stores Result.PodsToCreate / PodsToDelete.
func c04PlansPods(p *Prog, fn *ssa.Function) (create, del bool) {
	for f := range p.reachableFuncs(fn) {
		if len(fieldStoresInC(f, pkgStrategy, "Result", "PodsToCreate")) > 0 {
			create = true
		}
		if len(fieldStoresInC(f, pkgStrategy, "Result", "PodsToDelete")) > 0 {
			del = true
		}
	}
	return
}

func c04TakesParams(fn *ssa.Function) int {
	for i, p := range fn.Params {
		if isPtrToNamed(p.Type(), pkgStrategy, "Parameters") {
			return i
		}
	}
	return -1
}

func c04Dispatch(r *Run, c *c04Ctx) {
	covered := map[string]bool{}
	n := 0
	for _, fn := range sortedFuncs(c.a.reach) {
		if fn.Pkg == nil || fn.Pkg.Pkg.Path() == pkgStrategy {
			continue // calls inside the strategy package are covered through their entry function
		}
		var ff *FuncFacts
		for _, ci := range callsIn(fn) {
			cal := staticCallee(ci.Common())
			if cal == nil || cal.Pkg == nil || cal.Pkg.Pkg.Path() != pkgStrategy {
				continue
			}
			pi := c04TakesParams(cal)
			if pi < 0 {
				continue
			}
			if ff == nil {
				ff = computeFacts(fn)
			}
			n++
			params := ci.Common().Args[pi]
			fs := ff.At(ci.Block())
			guard := ""
			for role, val := range c.roleVals {
				if strings.HasPrefix(role, "#") {
					continue
				}
				if eqFactC(fs, true, func(v ssa.Value) bool {
					if !isFieldLoadC(v, pkgStrategy, "Parameters", "ReplicaSetStatus") {
						return false
					}
					// the Parameters object whose role is tested is the one handed to the strategy function
					// (the parameter may live in a cell when a closure captures it)
					root, _ := accessPath(unwrap(v))
					proot, ppath := accessPath(params)
					if al, isCell := root.(*ssa.Alloc); isCell && spillOfC(al) == nil {
						return false
					}
					return root == params || (len(ppath) == 0 && root == proot)
				}, isConstStringVal(val)) {
					guard = role
				}
			}
			if guard == "" {
				// the role may be decided by the caller: fn is an entry of a constant dispatch table keyed by
				// the role, and is invoked through table[role of the Parameters it is given]
				if gs := c04TableGuards(r, c, fn, params); len(gs) == 1 {
					guard = gs[0]
				}
			}
			create, del := c04PlansPods(r.Prog, cal)
			pos := r.Prog.Pos(ci.Pos())
			construct := "call of " + shortFunc(cal)
			if guard != "" {
				covered[guard] = true
			}
			c.guardOf[cal] = append(c.guardOf[cal], guard)
			c.sites = append(c.sites, c04Site{fn: fn, call: ci, cal: cal, guard: guard, params: params})
			switch {
			case !create && !del:
				o := r.Check("C04.R1", construct, pos, shortFunc(fn), "a strategy function that plans no pod operation may run in any role", true, "role guard: "+guard)
				o.Trivial = guard == ""
			default:
				r.Check("C04.R1", construct, pos, shortFunc(fn), "a strategy function that plans pod creations or deletions is called only under role == active or role == canary of the Parameters it is given",
					guard == "active" || guard == "canary", fmt.Sprintf("role guard: %q, plans creations=%v deletions=%v", guard, create, del))
			}
		}
	}
	if n == 0 {
		r.Check("C04.R1", "strategy dispatch", "-", "-", "the replica-set reconciler dispatches to the strategy functions", false, "no call of a strategy function taking *Parameters found")
	}
	for _, val := range strings.Split(c.roleVals["#returned"], ",") {
		role := ""
		for k, v := range c.roleVals {
			if v == val && !strings.HasPrefix(k, "#") {
				role = k
			}
		}
		r.Check("C04.R1", fmt.Sprintf("dispatch of role %q", val), r.Prog.Pos(c.roleFn.Pos()), shortFunc(c.roleFn), "every role the role function returns is dispatched to a strategy function", role != "" && covered[role], "")
	}
}

// ---------------------------------------------------------------------------------------------
// R2

func c04Ignore(r *Run, c *c04Ctx) {
	a := c.a
	fn := a.builder
	// the mapping's ignore parameter
	for i, p := range a.mapping.Params {
		if p.Type().String() == "[]string" {
			if c.ignoreIdx >= 0 {
				r.Undecided("C04.R2", "ignore parameter", r.Prog.Pos(a.mapping.Pos()), shortFunc(a.mapping), "several []string parameters")
				return
			}
			c.ignoreIdx = i
		}
	}
	if c.ignoreIdx < 0 {
		r.Check("C04.R2", "ignore parameter", r.Prog.Pos(a.mapping.Pos()), shortFunc(a.mapping), "the mapping function takes the list of nodes to hide", false, "no []string parameter")
		return
	}
	arg := a.mapCall.Call.Args[c.ignoreIdx]
	k := newKeyer(fn)
	isEnd := func(b *ssa.BasicBlock) bool { return b == a.mapCall.Block() }
	paths, ok := enumPaths(fn, k, fn.Blocks[0], isEnd, isEnd, 5000)
	r.paths += len(paths)
	if !ok || len(paths) == 0 {
		r.Undecided("C04.R2", "ignore list argument", r.Prog.Pos(a.mapCall.Pos()), shortFunc(fn), "paths to the mapping call cannot be enumerated")
		return
	}
	isERS := isParam(c.ersParam)
	al := a.al
	// the matchers read field paths through helper parameters (status.Canary with status = &daemonset.Status)
	canary := func(v ssa.Value) bool { return ipIsC(al, v, c.edsParam, "Status", "Canary") }
	ars := func(v ssa.Value) bool { return ipIsC(al, v, c.edsParam, "Status", "ActiveReplicaSet") }
	ersName := func(v ssa.Value) bool { return nameOf(isERS)(v) || ipIsC(al, v, c.ersParam, "Name") }
	isCanaryNodes := func(v ssa.Value) bool {
		for i := 0; i < 4; i++ {
			ld, ok := v.(*ssa.UnOp)
			if !ok || ld.Parent() != fn {
				break
			}
			sv := k.fwd.forward(ld)
			if sv == nil {
				break
			}
			v = sv
		}
		return ipIsC(al, v, c.edsParam, "Status", "Canary", "Nodes")
	}
	type agg struct {
		ok     bool
		n      int
		detail string
	}
	classes := map[string]*agg{}
	c.r2AllOK = true
	var all []valueAltC
	for _, p := range paths {
		alts, okA := helperAltsC(p.Resolve(arg), p.Facts, 2000)
		if !okA {
			r.Undecided("C04.R2", "ignore list argument", r.Prog.Pos(a.mapCall.Pos()), shortFunc(fn), "the helper computing the ignore list has too many paths")
			c.r2AllOK = false
			return
		}
		all = append(all, alts...)
	}
	for _, alt := range all {
		v := alt.Val
		fs := factSet{}
		for _, f := range alt.Facts {
			for kk, ff := range f {
				fs[kk] = ff
			}
		}
		hidden := isCanaryNodes(v)
		noCanary, notActive := false, false
		for _, f := range alt.Facts {
			if nilFactC(f, true, canary) {
				noCanary = true
			}
			if eqFactC(f, false, ars, ersName) ||
				eqFactC(f, false, func(x ssa.Value) bool { return unwrap(x) == ssa.Value(c.roleCall) }, isConstStringVal(c.roleVals["active"])) {
				notActive = true
			}
		}
		var construct string
		good := true
		switch {
		case hidden:
			construct = "ignore list is Status.Canary.Nodes"
		case noCanary:
			construct = "no ignore list: no canary recorded"
		case notActive:
			construct = "no ignore list: replica set is not the active one"
		default:
			construct = "ignore list " + descValueC(v) + " on [" + descFactsC(fs) + "]"
			good = false
			c.r2AllOK = false
		}
		cl := classes[construct]
		if cl == nil {
			cl = &agg{ok: true}
			classes[construct] = cl
		}
		cl.n++
		if !good {
			cl.ok = false
			cl.detail = "passes " + descValueC(v) + " with path facts: " + descFactsC(fs)
		}
	}
	var keys []string
	for key := range classes {
		keys = append(keys, key)
	}
	sort.Strings(keys)
	for _, key := range keys {
		cl := classes[key]
		r.Check("C04.R2", key, r.Prog.Pos(a.mapCall.Pos()), shortFunc(fn),
			"when the replica set is the active one and a canary is recorded, the mapping function receives Status.Canary.Nodes as the nodes to hide", cl.ok, fmt.Sprintf("%d path(s); %s", cl.n, cl.detail))
	}

	// inside the mapping function (and the helpers it uses): ignored nodes get no entry and their pods are not cleaned up
	m := a.mapping
	for _, sf := range a.scope {
		var ff *FuncFacts
		for _, b := range sf.Blocks {
			for _, in := range b.Instrs {
				mu, ok := in.(*ssa.MapUpdate)
				if !ok || !a.isNameMap(mu.Map) {
					continue
				}
				if ff == nil {
					ff = computeFacts(sf)
				}
				fs := ff.At(b)
				if c01LookupOK(ff.K, fs, a.isNameMap, mu.Key, true) {
					continue
				}
				k := ff.K
				key := mu.Key
				isIgnored := c01IgnoreMatcher(a, func(v ssa.Value) bool { return sameValueC(k, v, key) })
				okI := valueFactC(fs, false, isIgnored)
				if !okI {
					c.r2AllOK = false
				}
				r.Check("C04.R2", "new per-node entry not ignored", r.Prog.Pos(instrPos(mu)), shortFunc(sf), "a node of the ignore list gets no per-node entry", okI, "must-facts: "+descFactsC(fs))
			}
		}
	}
	cl := c01PodLoop(r, a)
	if cl == nil {
		return
	}
	isIgnored := c01IgnoreMatcher(a, cl.nodeNameOfPod)
	n := 0
	for ap := range cl.cleanApp {
		if !cl.l.In[ap.Block()] {
			continue
		}
		fs := cl.ff.At(ap.Block())
		unmapped := valueFactC(fs, false, func(v ssa.Value) bool {
			e, ok := v.(*ssa.Extract)
			if !ok || e.Index != 1 {
				return false
			}
			l, ok := e.Tuple.(*ssa.Lookup)
			return ok && a.isNameMap(l.X) && cl.nodeNameOfPod(l.Index)
		})
		mapped := valueFactC(fs, true, func(v ssa.Value) bool {
			e, ok := v.(*ssa.Extract)
			if !ok || e.Index != 1 {
				return false
			}
			l, ok := e.Tuple.(*ssa.Lookup)
			return ok && a.isNameMap(l.X) && cl.nodeNameOfPod(l.Index)
		})
		if mapped {
			continue // clean-up of a pod of a mapped node: the node is not ignored (no entry otherwise)
		}
		if !unmapped {
			// neither known to be mapped nor unmapped (e.g. decided before the per-node map is consulted):
			// the pod may sit on an ignored node, so the not-ignored fact is needed here as well
			n++
			okI := valueFactC(fs, false, isIgnored)
			if !okI {
				c.r2AllOK = false
			}
			r.Check("C04.R2", "clean-up of a pod before its node is looked up", r.Prog.Pos(instrPos(ap)), shortFunc(m),
				"a pod is put on the clean-up list only when its node has a per-node entry (so is not ignored) or is known not to be in the ignore list — pods on canary nodes are left to the canary replica set", okI, "must-facts: "+descFactsC(fs))
			continue
		}
		n++
		okI := valueFactC(fs, false, isIgnored)
		if !okI {
			c.r2AllOK = false
		}
		r.Check("C04.R2", "clean-up of a pod of an unmapped node", r.Prog.Pos(instrPos(ap)), shortFunc(m), "a pod on an ignored (canary) node is not put on the clean-up list", okI, "must-facts: "+descFactsC(fs))
	}
	if n == 0 {
		o := r.Check("C04.R2", "clean-up of a pod of an unmapped node", r.Prog.Pos(m.Pos()), shortFunc(m), "a pod on an ignored (canary) node is not put on the clean-up list", true, "no clean-up of pods of unmapped nodes")
		o.Trivial = true
	}
}

// ---------------------------------------------------------------------------------------------
// R3

func c04Removal(r *Run, c *c04Ctx) {
	n := 0
	for _, fn := range sortedFuncs(c.a.reach) {
		// the active planner: ranges over Parameters.PodByNodeName and stores candidates
		if fn.Pkg == nil || fn.Pkg.Pkg.Path() != pkgStrategy {
			continue
		}
		if len(fieldStoresInC(fn, pkgStrategy, "Result", "PodsToCreate")) == 0 && len(fieldStoresInC(fn, pkgStrategy, "Result", "PodsToDelete")) == 0 {
			continue
		}
		// ... itself or through a helper of the strategy package that collects the candidates for it
		ranges := false
		for _, f := range sortedFuncs(r.Prog.reachableFuncs(fn)) {
			if f.Pkg == nil && f.Parent() == nil {
				continue
			}
			if tf := topFuncC(f); tf.Pkg == nil || tf.Pkg.Pkg.Path() != pkgStrategy {
				continue
			}
			if f != fn && (len(fieldStoresInC(f, pkgStrategy, "Result", "PodsToCreate")) > 0 || len(fieldStoresInC(f, pkgStrategy, "Result", "PodsToDelete")) > 0) {
				continue // a planner of its own: judged separately
			}
			for _, l := range mapLoopsC(f) {
				if isFieldLoadC(l.Map, pkgStrategy, "Parameters", "PodByNodeName") {
					ranges = true
				}
			}
		}
		if !ranges {
			continue
		}
		n++
		removal, why := c04RemovalLoop(fn)
		detail := "hidden by the mapping function on every path (R2)"
		if !c.r2AllOK {
			detail = "R2 does not hold on every path; removal loop: " + why
		} else if removal {
			detail += " and by a dominating removal loop"
		}
		r.Check("C04.R3", "canary nodes hidden from the planner", r.Prog.Pos(fn.Pos()), shortFunc(fn),
			"a planner that ranges over the whole per-node map never sees canary nodes: the mapping hides them on every path (R2), or a loop deleting NodeByName[n] for every n in Parameters.CanaryNodes dominates every other use of the map",
			c.r2AllOK || removal, detail)
	}
	if n == 0 {
		r.Check("C04.R3", "canary nodes hidden from the planner", "-", "-", "a planner ranging over the per-node map exists", false, "none found")
	}
}

// c04RemovalLoop: fn has a range loop over Parameters.CanaryNodes whose body is exactly
// delete(Parameters.PodByNodeName, Parameters.NodeByName[n]) and whose completion dominates every
// other use of Parameters.PodByNodeName.
func c04RemovalLoop(fn *ssa.Function) (bool, string) {
	k := newKeyer(fn)
	var loop *sliceLoopC
	var del *ssa.Call
	for _, l := range sliceLoopsC(fn) {
		if !isFieldLoadC(l.Slice, pkgStrategy, "Parameters", "CanaryNodes") {
			continue
		}
		if len(l.Body.Succs) != 1 || l.Body.Succs[0] != l.Header {
			continue
		}
		for _, in := range l.Body.Instrs {
			c, ok := in.(*ssa.Call)
			if !ok || builtinCallC(c, "delete") == nil {
				continue
			}
			lk, isL := c.Call.Args[1].(*ssa.Lookup)
			if isFieldLoadC(c.Call.Args[0], pkgStrategy, "Parameters", "PodByNodeName") && isL && isFieldLoadC(lk.X, pkgStrategy, "Parameters", "NodeByName") && l.isElem(k, lk.Index) {
				loop, del = l, c
			}
		}
	}
	if loop == nil {
		return false, "no loop `for n in Parameters.CanaryNodes { delete(Parameters.PodByNodeName, Parameters.NodeByName[n]) }`"
	}
	for _, b := range fn.Blocks {
		for _, in := range b.Instrs {
			// a call of a helper that reads the per-node map is a use of the map
			if ci, isCall := in.(ssa.CallInstruction); isCall && ci != ssa.CallInstruction(del) {
				if cal := repoCalleeC(ci.Common()); cal != nil && c04ReadsPodMap(cal, 0) && !loop.Done.Dominates(b) {
					return false, "a helper using the per-node map is called before the removal loop has completed"
				}
			}
			ld, ok := in.(*ssa.UnOp)
			if !ok || !isFieldLoadC(ld, pkgStrategy, "Parameters", "PodByNodeName") {
				continue
			}
			for _, u := range refs(ld) {
				if u == ssa.Instruction(del) {
					continue
				}
				if !loop.Done.Dominates(u.Block()) {
					return false, "the per-node map is used before the removal loop has completed"
				}
			}
		}
	}
	return true, ""
}

// ---------------------------------------------------------------------------------------------
// R4

func c04CanaryCandidates(r *Run, c *c04Ctx) {
	a := c.a
	// Parameters.CanaryNodes is Status.Canary.Nodes
	n := 0
	for _, st := range fieldStoresInC(a.builder, pkgStrategy, "Parameters", "CanaryNodes") {
		n++
		// every non-nil value the store can take (through a helper's results too) is Status.Canary.Nodes
		ok := false
		nNonNil := 0
		for _, lf := range ipLeavesC(st.Val) {
			if isNilConst(lf) {
				continue
			}
			nNonNil++
			ok = true
			if !ipIsC(a.al, lf, c.edsParam, "Status", "Canary", "Nodes") {
				ok = false
				break
			}
		}
		ok = ok && nNonNil > 0
		r.Check("C04.R4", "Parameters.CanaryNodes", r.Prog.Pos(instrPos(st)), shortFunc(a.builder), "Parameters.CanaryNodes is the ExtendedDaemonSet's Status.Canary.Nodes", ok, "stored "+descValueC(st.Val))
	}
	if n == 0 {
		r.Check("C04.R4", "Parameters.CanaryNodes", r.Prog.Pos(a.builder.Pos()), shortFunc(a.builder), "Parameters.CanaryNodes is filled from Status.Canary.Nodes", false, "no store found")
	}
	// node index keyed by the node's own name (so NodeByName[n] is the node named n)
	for _, m := range a.scope {
		k := newKeyer(m)
		for _, b := range m.Blocks {
			for _, in := range b.Instrs {
				mu, ok := in.(*ssa.MapUpdate)
				if !ok || !a.isNodeIndex(mu.Map) {
					continue
				}
				vroot, vpath := accessPath(unwrap(mu.Value))
				kroot, kpath := accessPath(unwrap(mu.Key))
				ok2 := (vroot == kroot || sameValueC(k, vroot, kroot)) && len(kpath) > len(vpath) && pathIsC(kpath[:len(vpath)], vpath...) && pathIsMetaC(kpath[len(vpath):], "Node", "Name")
				r.Check("C04.R4", "node index entry", r.Prog.Pos(instrPos(mu)), shortFunc(m), "NodeByName maps a name to the item of the node with that name", ok2, "key "+descValueC(mu.Key)+" value "+descValueC(mu.Value))
			}
		}
	}
	// candidates of the functions dispatched under role == canary
	nc := 0
	for entry, guards := range c.guardOf {
		isCanary := false
		for _, g := range guards {
			if g == "canary" {
				isCanary = true
			}
		}
		if !isCanary {
			continue
		}
		for _, fn := range sortedFuncs(r.Prog.reachableFuncs(entry)) {
			for _, st := range fieldStoresInC(fn, pkgStrategy, "Result", "PodsToCreate") {
				nc++
				c01CandidateStore(r, fn, st, "C04.R4")
			}
		}
	}
	if nc == 0 {
		r.Check("C04.R4", "canary creation candidate", "-", "-", "the strategy function dispatched for the canary role plans creations", false, "no store to Result.PodsToCreate under the canary role")
	}
}

// ---------------------------------------------------------------------------------------------
// R6

func c04Labels(r *Run, c *c04Ctx) {
	canaryKey, ok1 := r.Prog.constStr(pkgAPI, "ExtendedDaemonSetReplicaSetCanaryLabelKey")
	canaryVal, ok2 := r.Prog.constStr(pkgAPI, "ExtendedDaemonSetReplicaSetCanaryLabelValue")
	ersKey, ok3 := r.Prog.constStr(pkgAPI, "ExtendedDaemonSetReplicaSetNameLabelKey")
	if !ok1 || !ok2 || !ok3 {
		r.Fatal("canary / replica-set label constants not found")
		return
	}
	nAdd, nDel := 0, 0
	for _, fn := range sortedFuncs(c.a.reach) {
		var ff *FuncFacts
		for _, ci := range callsIn(fn) {
			cal := staticCallee(ci.Common())
			if cal == nil || !r.Prog.IsRuleSite(cal) {
				continue
			}
			keyArg := -1
			for i, arg := range ci.Common().Args {
				if s, ok := constString(arg); ok && s == canaryKey && i < len(cal.Params) {
					keyArg = i
				}
			}
			if keyArg < 0 {
				continue
			}
			kind := c04LabelEffect(r.Prog, cal, cal.Params[keyArg])
			if kind == "" {
				continue
			}
			podArg := ssa.Value(nil)
			for i, p := range cal.Params {
				if isPtrToNamed(p.Type(), pkgCoreV1, "Pod") {
					podArg = ci.Common().Args[i]
				}
			}
			pos := r.Prog.Pos(ci.Pos())
			if podArg == nil {
				r.Undecided("C04.R6", "canary label "+kind, pos, shortFunc(fn), "the labelling helper takes no *Pod")
				continue
			}
			if ff == nil {
				ff = computeFacts(fn)
			}
			k := ff.K
			switch kind {
			case "add":
				nAdd++
				c.addSites = append(c.addSites, ci)
				// The labelled pod is judged where it is selected: at the call itself, or — when the pods
				// are first collected into a list that is then ranged over (collect, then act) — at every
				// append that feeds that list, with the facts of the function the append is in.
				type target struct {
					pod ssa.Value
					fn  *ssa.Function
					blk *ssa.BasicBlock
				}
				targets := []target{{podArg, fn, ci.Block()}}
				for _, sl := range sliceLoopsC(fn) {
					if !sl.isElem(k, podArg) || !sl.In[ci.Block()] {
						continue
					}
					apps, leaves := sliceChainIPC(sl.Slice)
					if len(leaves) > 0 || len(apps) == 0 {
						continue
					}
					targets = nil
					for _, ap := range apps {
						_, elems, _ := appendPartsC(ap)
						for _, e := range elems {
							targets = append(targets, target{e, ap.Parent(), ap.Block()})
						}
					}
				}
				onCanaryNode, ownPod := len(targets) > 0, len(targets) > 0
				var factsDesc []string
				for _, t := range targets {
					tff := ff
					if t.fn != fn {
						tff = computeFacts(t.fn)
					}
					if !c04OnCanaryNode(t.pod, t.fn, t.blk, tff.K) {
						onCanaryNode = false
					}
					tfs := tff.At(t.blk)
					if !c04OwnPodFact(tfs, t.pod, ersKey) {
						ownPod = false
						factsDesc = append(factsDesc, descFactsC(tfs))
					}
				}
				r.Check("C04.R6", "canary label added: pod", pos, shortFunc(fn), "the labelled pod is PodByNodeName[NodeByName[n]] for n ranging over Parameters.CanaryNodes", onCanaryNode, "pod "+descValueC(podArg))
				r.Check("C04.R6", "canary label added: owner", pos, shortFunc(fn), "the canary label is added only to a pod whose replica-set label equals this replica set's name", ownPod, "must-facts: "+strings.Join(factsDesc, " | "))
				valOK := false
				for i, arg := range ci.Common().Args {
					if s, ok := constString(arg); ok && s == canaryVal && i != keyArg {
						valOK = true
					}
				}
				r.Check("C04.R6", "canary label added: value", pos, shortFunc(fn), "the label is written with the canary label value", valOK, "")
			case "remove":
				nDel++
				c.delSites = append(c.delSites, ci)
				// pod is an element of the Items of a PodList listed in this function with both labels
				var listObj ssa.Value
				for _, sl := range sliceLoopsC(fn) {
					if !sl.isElem(k, podArg) || !sl.In[ci.Block()] {
						continue
					}
					root, p := accessPath(sl.Slice)
					if pathIsC(p, "Items") {
						listObj = root
					}
				}
				scoped := false
				detail := "the pod is not an element of a pod list listed in this function"
				if listObj != nil {
					for _, e := range effectsOf(map[*ssa.Function]bool{fn: true}) {
						if e.Verb != "List" || unwrap(e.Obj) != listObj || !e.Call.Block().Dominates(ci.Block()) {
							continue
						}
						args := e.Call.Common().Args
						alts, ok := sliceAlternatives(args[len(args)-1])
						if !ok || len(alts) == 0 {
							detail = "list options are not built from literals"
							continue
						}
						scoped = true
						for _, alt := range alts {
							hasCanary, hasOwner := false, false
							for _, el := range alt {
								o := classifyListOption(el)
								if o.kind != "labels" {
									continue
								}
								if v, ok := o.entries[canaryKey]; ok {
									if s, ok := constString(v); ok && s == canaryVal {
										hasCanary = true
									}
								}
								if v, ok := o.entries[ersKey]; ok && c04ThisRSName(v) {
									hasOwner = true
								}
							}
							if !hasCanary || !hasOwner {
								scoped = false
								detail = fmt.Sprintf("list options: canary label=%v replica-set label of this replica set=%v", hasCanary, hasOwner)
							}
						}
					}
				}
				r.Check("C04.R6", "canary label removed: pods", pos, shortFunc(fn), "the canary label is removed only from pods listed with {canary label == canary value, replica-set label == this replica set's name}", scoped, detail)
				var roles []string
				for entry, guards := range c.guardOf {
					if r.Prog.reachableFuncs(entry)[fn] {
						for _, g := range guards {
							if g == "" {
								g = "(unguarded)"
							}
							roles = append(roles, g)
						}
					}
				}
				sort.Strings(roles)
				onlyActive := len(roles) > 0
				for _, g := range roles {
					if g != "active" {
						onlyActive = false
					}
				}
				r.Check("C04.R6", "canary label removed: role", pos, shortFunc(fn), "the canary label is removed only by code dispatched for the active role", onlyActive, "roles reaching this site: "+strings.Join(roles, ","))
			}
		}
	}
	if nAdd == 0 {
		r.Check("C04.R6", "canary label added", "-", "-", "the canary label is added somewhere on the replica-set reconcile path", false, "no site found")
	}
	if nDel == 0 {
		r.Check("C04.R6", "canary label removed", "-", "-", "the canary label is removed somewhere on the replica-set reconcile path", false, "no site found")
	}
}

// c04LabelEffect classifies a helper by what it does with label key parameter kp on a pod it then
// patches/updates: "add" (Labels[kp] = v), "remove" (delete(Labels, kp)), "" otherwise.
func c04LabelEffect(p *Prog, fn *ssa.Function, kp *ssa.Parameter) string {
	// the helper (or a function / closure it reaches) patches or updates a pod
	reach := p.reachableFuncs(fn)
	writes := false
	for _, e := range effectsOf(reach) {
		if (e.Verb == "Patch" || e.Verb == "Update") && e.Kind == pkgCoreV1+".Pod" {
			writes = true
		}
	}
	if !writes {
		return ""
	}
	// the label write itself is in the helper or in a closure of it (where the key is the captured parameter)
	kind := ""
	for f := range reach {
		if f != fn && f.Parent() != fn {
			continue
		}
		for _, b := range f.Blocks {
			for _, in := range b.Instrs {
				switch x := in.(type) {
				case *ssa.MapUpdate:
					if denotesParamC(x.Key, kp) && c04IsLabelsMap(f, x.Map) {
						kind = "add"
					}
				case *ssa.Call:
					if builtinCallC(x, "delete") != nil && denotesParamC(x.Call.Args[1], kp) && c04IsLabelsMap(f, x.Call.Args[0]) {
						kind = "remove"
					}
				}
			}
		}
	}
	return kind
}

// c04ThisRSName: v is the name of Parameters.Replicaset (field load or GetName()).
func c04ThisRSName(v ssa.Value) bool {
	v = unwrap(v)
	if c, ok := v.(*ssa.Call); ok {
		if c.Call.IsInvoke() || len(c.Call.Args) != 1 || !strings.HasSuffix(calleeName(&c.Call), ".GetName") {
			return false
		}
		root, p := accessPath(c.Call.Args[0])
		return isPtrToNamed(root.Type(), pkgStrategy, "Parameters") && pathIsMetaC(p, "Replicaset")
	}
	root, p := accessPath(v)
	return isPtrToNamed(root.Type(), pkgStrategy, "Parameters") && pathIsMetaC(p, "Replicaset", "Name")
}

// c04ReadsPodMap: fn (or a repository function it calls, depth-bounded) loads Parameters.PodByNodeName.
func c04ReadsPodMap(fn *ssa.Function, depth int) bool {
	if depth > 3 {
		return true // unknown: assume it does
	}
	for _, b := range fn.Blocks {
		for _, in := range b.Instrs {
			if ld, ok := in.(*ssa.UnOp); ok && isFieldLoadC(ld, pkgStrategy, "Parameters", "PodByNodeName") {
				return true
			}
			if ci, ok := in.(ssa.CallInstruction); ok {
				if cal := repoCalleeC(ci.Common()); cal != nil && cal != fn && c04ReadsPodMap(cal, depth+1) {
					return true
				}
			}
		}
	}
	return false
}

// c04OnCanaryNode: pod is PodByNodeName[NodeByName[n]] (with or without ok) for n the element of a
// range over Parameters.CanaryNodes that encloses blk.
func c04OnCanaryNode(pod ssa.Value, fn *ssa.Function, blk *ssa.BasicBlock, k *keyer) bool {
	var l *ssa.Lookup
	if e, ok := pod.(*ssa.Extract); ok && e.Index == 0 {
		l, _ = e.Tuple.(*ssa.Lookup)
	} else {
		l, _ = pod.(*ssa.Lookup)
	}
	if l == nil || !isFieldLoadC(l.X, pkgStrategy, "Parameters", "PodByNodeName") {
		return false
	}
	nl, ok := l.Index.(*ssa.Lookup)
	if !ok || !isFieldLoadC(nl.X, pkgStrategy, "Parameters", "NodeByName") {
		return false
	}
	for _, sl := range sliceLoopsC(fn) {
		if isFieldLoadC(sl.Slice, pkgStrategy, "Parameters", "CanaryNodes") && sl.isElem(k, nl.Index) && sl.In[blk] {
			return true
		}
	}
	return false
}

// c04OwnPodFact: the facts contain pod.Labels[<replica-set name label>] == Parameters.Replicaset's name.
func c04OwnPodFact(fs factSet, pod ssa.Value, ersKey string) bool {
	return eqFactC(fs, true, func(v ssa.Value) bool {
		l, ok := unwrap(v).(*ssa.Lookup)
		if !ok {
			return false
		}
		if s, ok := constString(l.Index); !ok || s != ersKey {
			return false
		}
		// labels of the same pod: pod.Labels / pod.ObjectMeta.Labels / pod.GetLabels()
		if call, ok := l.X.(*ssa.Call); ok && strings.HasSuffix(calleeName(&call.Call), ".GetLabels") && len(call.Call.Args) == 1 {
			root, _ := accessPath(call.Call.Args[0])
			return root == pod
		}
		root, p := accessPath(l.X)
		return root == pod && pathIsMetaC(p, "Labels")
	}, c04ThisRSName)
}

// c04IsLabelsMap: m is <object>.Labels, or derives from a parameter of closure f that the function
// the closure is handed to invokes with <object>.Labels (an "update the labels" callback).
func c04IsLabelsMap(f *ssa.Function, m ssa.Value) bool {
	if hasPathSuffix(m, "Labels") {
		return true
	}
	if f.Parent() == nil {
		return false
	}
	for _, o := range origins(m) {
		pr, ok := o.(*ssa.Parameter)
		if !ok || pr.Parent() != f {
			continue
		}
		// where is the closure passed?
		for _, b := range f.Parent().Blocks {
			for _, in := range b.Instrs {
				ci, isCall := in.(ssa.CallInstruction)
				if !isCall {
					continue
				}
				g := repoCalleeC(ci.Common())
				if g == nil {
					continue
				}
				for j, arg := range ci.Common().Args {
					mc, isMC := arg.(*ssa.MakeClosure)
					if !isMC || mc.Fn != ssa.Value(f) || j >= len(g.Params) {
						continue
					}
					// inside g: calls of that function-typed parameter
					for _, c2 := range callsIn(g) {
						if c2.Common().Value == ssa.Value(g.Params[j]) && paramIndex(pr) < len(c2.Common().Args) && hasPathSuffix(c2.Common().Args[paramIndex(pr)], "Labels") {
							return true
						}
					}
				}
			}
		}
	}
	return false
}

// ---------------------------------------------------------------------------------------------
// R9: the label clean-up window is anchored at the activation

// c04ConditionWrite: ci (a call in fn) writes condition `ctype` with status `cstatus` on some status
// object: directly through conditions.UpdateExtendedDaemonSetReplicaSetStatusCondition, or through a
// repository function / closure that forwards its own parameters to that call.
func c04ConditionWrite(ci ssa.CallInstruction, ctype, cstatus string) bool {
	const upd = pkgERSCond + ".UpdateExtendedDaemonSetReplicaSetStatusCondition"
	c := ci.Common()
	if calleeName(c) == upd && len(c.Args) >= 4 {
		t, ok1 := constString(c.Args[2])
		st, ok2 := constString(c.Args[3])
		return ok1 && ok2 && t == ctype && st == cstatus
	}
	g := repoCalleeC(c)
	if g == nil {
		return false
	}
	for _, in := range callsIn(g) {
		ic := in.Common()
		if calleeName(ic) != upd || len(ic.Args) < 4 {
			continue
		}
		val := func(v ssa.Value) (string, bool) {
			if s, ok := constString(v); ok {
				return s, true
			}
			for i, p := range g.Params {
				if denotesParamC(v, p) && i < len(c.Args) {
					return constString(c.Args[i])
				}
			}
			return "", false
		}
		t, ok1 := val(ic.Args[2])
		st, ok2 := val(ic.Args[3])
		if ok1 && ok2 && t == ctype && st == cstatus {
			return true
		}
	}
	return false
}

func c04ActivationOrigin(r *Run, c *c04Ctx) {
	active, ok1 := r.Prog.constStr(pkgAPI, "ConditionTypeActive")
	condFalse, ok2 := r.Prog.constStr(pkgCoreV1, "ConditionFalse")
	if !ok1 || !ok2 {
		r.Fatal("constants ConditionTypeActive / ConditionFalse not found")
		return
	}
	isActiveRead := func(v ssa.Value) bool {
		call, ok := v.(*ssa.Call)
		if !ok || calleeName(&call.Call) != pkgERSCond+".GetExtendedDaemonSetReplicaSetStatusCondition" || len(call.Call.Args) < 2 {
			return false
		}
		s, isC := constString(call.Call.Args[1])
		return isC && s == active
	}
	windowed := false
	for _, ci := range c.delSites {
		fn := ci.Parent()
		ff := r.Prog.factsOf(fn)
		pos := r.Prog.Pos(ci.Pos())
		var origin ssa.Value
		upper := false // the guard bounds the elapsed time from above (the window is open right after its origin)
		for _, f := range ff.At(ci.Block()) {
			cf, ok := decodeCmpC(f)
			if !ok || cf.Op != "<" {
				continue
			}
			for i, side := range []ssa.Value{cf.X, cf.Y} {
				call, isCall := unwrap(side).(*ssa.Call)
				if !isCall {
					continue
				}
				found := false
				switch calleeName(&call.Call) {
				case "time.Since":
					origin, found = call.Call.Args[0], true
				case "(time.Time).Sub":
					origin, found = call.Call.Args[1], true
				}
				if found {
					// (elapsed < C) true, or (C < elapsed) false
					upper = (i == 0 && cf.Pol) || (i == 1 && !cf.Pol)
				}
			}
		}
		if origin == nil {
			o := r.Check("C04.R9", "label clean-up window", pos, shortFunc(fn), "the label clean-up is not limited to a time window", true, "no elapsed-time guard on the removal")
			o.Trivial = true
			continue
		}
		r.Check("C04.R9", "label clean-up window opens at its origin", pos, shortFunc(fn),
			"the elapsed-time guard of the canary-label clean-up is an upper bound (elapsed < period): the clean-up runs in the syncs that follow the activation, not only after the period has passed", upper, "must-facts: "+descFactsC(ff.At(ci.Block())))
		// besides the window (and error / loop-bound tests), nothing else may gate the clean-up
		var extra []string
		for _, f := range ff.At(ci.Block()) {
			if cf, okc := decodeCmpC(f); okc {
				isErr := func(v ssa.Value) bool { return v.Type().String() == "error" }
				if cf.Op == "==" && cf.Pol && ((isNilConst(cf.Y) && isErr(cf.X)) || (isNilConst(cf.X) && isErr(cf.Y))) {
					continue // an earlier step succeeded
				}
				if cf.Op == "<" {
					timeCmp := false
					for _, side := range []ssa.Value{cf.X, cf.Y} {
						if call, isCall := unwrap(side).(*ssa.Call); isCall {
							n := calleeName(&call.Call)
							if n == "time.Since" || n == "(time.Time).Sub" {
								timeCmp = true
							}
						}
					}
					if timeCmp || builtinCallC(unwrap(cf.Y), "len") != nil || builtinCallC(unwrap(cf.X), "len") != nil {
						continue // the window itself, or a loop bound
					}
				}
				if cf.Op == "==" && !cf.Pol && (isNilConst(cf.X) || isNilConst(cf.Y)) && !isErr(cf.X) && !isErr(cf.Y) {
					continue // a nil guard of a pointer
				}
			}
			if ex, isE := f.V.(*ssa.Extract); isE {
				if _, isNext := ex.Tuple.(*ssa.Next); isNext {
					continue // an earlier range loop ran to its end
				}
			}
			extra = append(extra, descFactC(f))
		}
		sort.Strings(extra)
		r.Check("C04.R9", "label clean-up has no other gate", pos, shortFunc(fn),
			"inside its time window the canary-label clean-up runs on every sync of the active replica set: it is gated only by the window, by the success of earlier steps and by loop bounds (not by pause/freeze or other state)", len(extra) == 0, "extra guard(s): "+strings.Join(extra, " ∧ "))
		okOrigin := r.Prog.dependsOnIP(origin, isActiveRead)
		r.Check("C04.R9", "label clean-up window origin", pos, shortFunc(fn),
			"the elapsed time that limits the canary-label clean-up is measured from the Active condition of the replica set (the moment it became active)", okOrigin, "origin "+descValueC(origin))
		if okOrigin {
			windowed = true
		}
	}
	if !windowed {
		return
	}
	// every dispatch in a non-active role records Active=False, so that the next activation is a transition
	for _, st := range c.sites {
		if st.guard == "" || st.guard == "active" {
			continue
		}
		found := false
		for _, ci := range callsIn(st.fn) {
			if ci != st.call && instrBeforeC(ci, st.call) && c04ConditionWrite(ci, active, condFalse) {
				// in the same role branch: the write's block carries the same role guard (or dominates only this branch)
				found = true
			}
		}
		if !found { // or by the strategy function itself, before any return
			for _, ci := range callsIn(st.cal) {
				if !c04ConditionWrite(ci, active, condFalse) {
					continue
				}
				all := true
				for _, b := range st.cal.Blocks {
					if isReturnBlock(b) && !ci.Block().Dominates(b) {
						all = false
					}
				}
				if all {
					found = true
				}
			}
		}
		r.Check("C04.R9", "Active=False recorded in role "+st.guard, r.Prog.Pos(st.call.Pos()), shortFunc(st.fn),
			"a replica set synced in a non-active role records the Active condition as False (otherwise a later activation is no transition and the label clean-up window starts in the past)", found,
			"dispatch of "+shortFunc(st.cal))
	}
}

// ---------------------------------------------------------------------------------------------
// R10: the label pass is always reached in the canary role

func c04LabelAlways(r *Run, c *c04Ctx) {
	n := 0
	for entry, guards := range c.guardOf {
		isCanary := false
		for _, g := range guards {
			if g == "canary" {
				isCanary = true
			}
		}
		if !isCanary {
			continue
		}
		reach := r.Prog.reachableFuncs(entry)
		for _, add := range c.addSites {
			holder := add.Parent()
			if !reach[holder] {
				continue
			}
			n++
			// the instructions of the entry function through which the label pass is reached
			var via []ssa.Instruction
			if holder == entry {
				via = append(via, add)
			} else {
				for _, ci := range callsIn(entry) {
					if cal := staticCallee(ci.Common()); cal != nil && r.Prog.reachableFuncs(cal)[holder] {
						via = append(via, ci)
					}
				}
			}
			errIdx := entry.Signature.Results().Len() - 1
			good, detail := false, "the label pass is not called from the strategy function"
			for _, v := range via {
				// the pass may itself sit in a loop of the strategy function: then the loop must always be reached
				anchor := v.Block()
				for _, l := range sliceLoopsC(entry) {
					if l.In[v.Block()] && l.Header.Dominates(anchor) {
						anchor = l.Header
					}
				}
				all := true
				for _, b := range entry.Blocks {
					ret := returnOf(b)
					if ret == nil {
						continue
					}
					if errIdx >= 0 && entry.Signature.Results().At(errIdx).Type().String() == "error" {
						canBeNil := false
						for _, o := range origins(ret.Results[errIdx]) {
							if isNilConst(o) {
								canBeNil = true
							}
						}
						if !canBeNil {
							continue // error returns are exempt
						}
					}
					if !anchor.Dominates(b) {
						all = false
						detail = "the return at " + r.Prog.Pos(instrPos(ret)) + " can be reached without the label pass"
					}
				}
				if all {
					good = true
				}
			}
			r.Check("C04.R10", "canary-label pass always reached", r.Prog.Pos(add.Pos()), shortFunc(entry),
				"every non-error return of the strategy function dispatched for the canary role is preceded by the pass that labels the canary pods (new canary pods are created without the label and only get it on a later sync, paused or not)", good, detail)
		}
	}
	if n == 0 {
		r.Check("C04.R10", "canary-label pass always reached", "-", "-", "the canary label is added by code dispatched for the canary role", false, "no add site reachable from a canary-role strategy function")
	}
}

// c04TableGuards: fn receives `params` as a parameter and is called only through a constant
// package-level map keyed by role constants — table[<role of the Parameters passed>](..., params) —
// under whose key(s) fn (or the method-expression thunk of fn) is stored. Returns the role names of
// those keys; nil when fn is not dispatched that way.
func c04TableGuards(r *Run, c *c04Ctx, fn *ssa.Function, params ssa.Value) []string {
	proot, ppath := accessPath(params)
	if al, ok := proot.(*ssa.Alloc); ok {
		proot = spillOfC(al)
	}
	pp, ok := proot.(*ssa.Parameter)
	if !ok || len(ppath) != 0 || pp.Parent() != fn {
		return nil
	}
	j := paramIndex(pp)
	// fn must not also be called directly (the table key would then say nothing about that call)
	for _, cs := range callSitesOf(fn, c.a.reach) {
		if cs.Parent().Synthetic == "" {
			return nil
		}
	}
	top := topFuncC(fn)
	if top.Pkg == nil {
		return nil
	}
	ini := top.Pkg.Func("init")
	if ini == nil {
		return nil
	}
	// a value of the table denotes fn: fn itself or a synthetic wrapper (method expression / bound method) calling it
	denotesFn := func(v ssa.Value) bool {
		f, _ := unwrap(v).(*ssa.Function)
		if mc, isMC := unwrap(v).(*ssa.MakeClosure); isMC {
			f, _ = mc.Fn.(*ssa.Function)
		}
		if f == nil {
			return false
		}
		if f == fn {
			return true
		}
		if f.Synthetic == "" {
			return false
		}
		for _, ci := range callsIn(f) {
			if staticCallee(ci.Common()) == fn {
				return true
			}
		}
		return false
	}
	type entry struct {
		g   *ssa.Global
		key string
	}
	var entries []entry
	for _, b := range ini.Blocks {
		for _, in := range b.Instrs {
			mu, ok := in.(*ssa.MapUpdate)
			if !ok || !denotesFn(mu.Value) {
				continue
			}
			key, isC := constString(mu.Key)
			if !isC {
				return nil
			}
			var g *ssa.Global
			for _, b2 := range ini.Blocks {
				for _, in2 := range b2.Instrs {
					if st, isSt := in2.(*ssa.Store); isSt && unwrap(st.Val) == mu.Map {
						g, _ = st.Addr.(*ssa.Global)
					}
				}
			}
			if g == nil {
				return nil
			}
			entries = append(entries, entry{g, key})
		}
	}
	if len(entries) == 0 {
		return nil
	}
	// the table is constant: no other store to the global, no update of the map outside the initialiser
	for _, e := range entries {
		for _, mem := range top.Pkg.Members {
			f, isF := mem.(*ssa.Function)
			if !isF || f == ini {
				continue
			}
			for _, b := range f.Blocks {
				for _, in := range b.Instrs {
					switch x := in.(type) {
					case *ssa.Store:
						if x.Addr == ssa.Value(e.g) {
							return nil
						}
					case *ssa.MapUpdate:
						if ld, ok := x.Map.(*ssa.UnOp); ok && ld.X == ssa.Value(e.g) {
							return nil
						}
					}
				}
			}
		}
	}
	// every use of the table is a lookup keyed by the role of the Parameters then passed at position j
	var roles []string
	for _, e := range entries {
		used, okAll := false, true
		for f := range c.a.reach {
			for _, b := range f.Blocks {
				for _, in := range b.Instrs {
					lk, isL := in.(*ssa.Lookup)
					if !isL {
						continue
					}
					ld, isLd := lk.X.(*ssa.UnOp)
					if !isLd || ld.X != ssa.Value(e.g) {
						continue
					}
					used = true
					idx := unwrap(lk.Index)
					if !isFieldLoadC(idx, pkgStrategy, "Parameters", "ReplicaSetStatus") {
						okAll = false
						continue
					}
					iroot, _ := accessPath(idx)
					// the looked-up function is called with that Parameters object at position j
					called := false
					for _, ci := range callsIn(f) {
						if ci.Common().IsInvoke() || staticCallee(ci.Common()) != nil {
							continue
						}
						fromTable := false
						for _, o := range origins(ci.Common().Value) {
							if o == ssa.Value(lk) {
								fromTable = true
							}
							if ex, isE := o.(*ssa.Extract); isE && ex.Tuple == ssa.Value(lk) {
								fromTable = true
							}
						}
						if !fromTable || j >= len(ci.Common().Args) {
							continue
						}
						aroot, apath := accessPath(ci.Common().Args[j])
						if len(apath) == 0 && aroot == iroot {
							called = true
						}
					}
					if !called {
						okAll = false
					}
				}
			}
		}
		if !used || !okAll {
			return nil
		}
		for role, val := range c.roleVals {
			if !strings.HasPrefix(role, "#") && val == e.key {
				roles = append(roles, role)
			}
		}
	}
	sort.Strings(roles)
	return roles
}
