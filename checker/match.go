package main

// Common matchers used by several rules.

import (
	"go/constant"
	"go/token"
	"go/types"
	"strings"

	"golang.org/x/tools/go/ssa"
)

// stripExtract returns the call behind `extract call #idx` (or the call itself when idx<0).
func callOfExtract(v ssa.Value, idx int) *ssa.Call {
	if idx < 0 {
		c, _ := v.(*ssa.Call)
		return c
	}
	e, ok := v.(*ssa.Extract)
	if !ok || e.Index != idx {
		return nil
	}
	c, _ := e.Tuple.(*ssa.Call)
	return c
}

// isResultOf reports whether v is result #idx of a call to the named function (idx<0: the
// single result).
func isResultOf(v ssa.Value, name string, idx int) (*ssa.Call, bool) {
	c := callOfExtract(v, idx)
	if c == nil {
		return nil, false
	}
	if calleeName(&c.Call) == name {
		return c, true
	}
	return nil, false
}

// eqOperands returns the operands of an == / != comparison.
func eqOperands(v ssa.Value) (x, y ssa.Value, ok bool) {
	b, isB := v.(*ssa.BinOp)
	if !isB || (b.Op != token.EQL && b.Op != token.NEQ) {
		return nil, nil, false
	}
	return b.X, b.Y, true
}

// isNilCompareOf reports whether v is `x == nil` / `x != nil` for an x accepted by match.
func isNilCompareOf(v ssa.Value, match func(ssa.Value) bool) bool {
	x, y, ok := eqOperands(v)
	if !ok {
		return false
	}
	if isNilConst(y) && match(x) {
		return true
	}
	if isNilConst(x) && match(y) {
		return true
	}
	return false
}

// isEqCompare reports whether v compares a value accepted by a with one accepted by b.
func isEqCompare(v ssa.Value, a, b func(ssa.Value) bool) bool {
	x, y, ok := eqOperands(v)
	if !ok {
		return false
	}
	return (a(x) && b(y)) || (a(y) && b(x))
}

// isParam returns a matcher for a specific parameter.
func isParam(p *ssa.Parameter) func(ssa.Value) bool {
	return func(v ssa.Value) bool { return unwrap(v) == ssa.Value(p) }
}

// loadOfPath returns a matcher for loads whose access path is rooted at a value accepted by root
// (nil: any root) and ends with the given fields.
func loadOfPath(root func(ssa.Value) bool, suffix ...string) func(ssa.Value) bool {
	return func(v ssa.Value) bool {
		v = unwrap(v)
		r, p := accessPath(v)
		if len(p) < len(suffix) {
			return false
		}
		q := p[len(p)-len(suffix):]
		for i := range suffix {
			if q[i] != suffix[i] {
				return false
			}
		}
		return root == nil || root(r)
	}
}

// isConstStringOf returns a matcher for string constants equal to the value of the given constant
// object (resolved through the type-checker, so renaming the constant or changing where it is
// declared does not matter; changing its value at one end of a wire does).
func isConstStringVal(val string) func(ssa.Value) bool {
	return func(v ssa.Value) bool {
		s, ok := constString(v)
		return ok && s == val
	}
}

func (p *Prog) constStr(pkg, name string) (string, bool) {
	c := p.ConstObj(pkg, name)
	if c == nil {
		return "", false
	}
	if c.Val().Kind() == constant.String {
		return constant.StringVal(c.Val()), true
	}
	return c.Val().ExactString(), true
}

// nameOf reports whether v is the name of the object accepted by obj: obj.Name, obj.ObjectMeta.Name,
// obj.GetName().
func nameOf(obj func(ssa.Value) bool) func(ssa.Value) bool {
	return func(v ssa.Value) bool {
		v = unwrap(v)
		if c, ok := v.(*ssa.Call); ok {
			n := calleeName(&c.Call)
			if strings.HasSuffix(n, ".GetName") {
				if c.Call.IsInvoke() {
					return obj(unwrap(c.Call.Value))
				}
				if len(c.Call.Args) == 1 {
					r, _ := accessPath(c.Call.Args[0])
					return obj(r)
				}
			}
			return false
		}
		r, p := accessPath(v)
		if len(p) == 0 || p[len(p)-1] != "Name" {
			return false
		}
		for _, f := range p[:len(p)-1] {
			if f != "ObjectMeta" {
				return false
			}
		}
		return obj(r)
	}
}

// namespaceOf: obj.Namespace, obj.ObjectMeta.Namespace, obj.GetNamespace().
func namespaceOf(obj func(ssa.Value) bool) func(ssa.Value) bool {
	return func(v ssa.Value) bool {
		v = unwrap(v)
		if c, ok := v.(*ssa.Call); ok {
			n := calleeName(&c.Call)
			if strings.HasSuffix(n, ".GetNamespace") {
				if c.Call.IsInvoke() {
					return obj(unwrap(c.Call.Value))
				}
				if len(c.Call.Args) == 1 {
					r, _ := accessPath(c.Call.Args[0])
					return obj(r)
				}
			}
			return false
		}
		r, p := accessPath(v)
		if len(p) == 0 || p[len(p)-1] != "Namespace" {
			return false
		}
		for _, f := range p[:len(p)-1] {
			if f != "ObjectMeta" {
				return false
			}
		}
		return obj(r)
	}
}

// annotationsOf: obj.Annotations, obj.ObjectMeta.Annotations, obj.GetAnnotations().
func annotationsOf(obj func(ssa.Value) bool) func(ssa.Value) bool {
	return func(v ssa.Value) bool {
		v = unwrap(v)
		if c, ok := v.(*ssa.Call); ok {
			n := calleeName(&c.Call)
			if strings.HasSuffix(n, ".GetAnnotations") {
				if c.Call.IsInvoke() {
					return obj(unwrap(c.Call.Value))
				}
				if len(c.Call.Args) == 1 {
					r, _ := accessPath(c.Call.Args[0])
					return obj(r)
				}
			}
			return false
		}
		r, p := accessPath(v)
		if len(p) == 0 || p[len(p)-1] != "Annotations" {
			return false
		}
		return obj(r)
	}
}

// isPtrToNamed reports whether t is *pkg.Name.
func isPtrToNamed(t types.Type, pkg, name string) bool {
	p, ok := t.(*types.Pointer)
	if !ok {
		return false
	}
	n, ok := p.Elem().(*types.Named)
	return ok && n.Obj().Name() == name && n.Obj().Pkg() != nil && n.Obj().Pkg().Path() == pkg
}

// dependsOn reports whether v transitively depends (through any operand, loads of local cells
// included) on a value accepted by match. Bounded depth; stays inside the function.
func dependsOn(v ssa.Value, match func(ssa.Value) bool) bool {
	seen := map[ssa.Value]bool{}
	var rec func(v ssa.Value, d int) bool
	rec = func(v ssa.Value, d int) bool {
		if v == nil || seen[v] || d > 40 {
			return false
		}
		seen[v] = true
		if match(v) {
			return true
		}
		if u, ok := v.(*ssa.UnOp); ok && u.Op == token.MUL {
			if a, ok := u.X.(*ssa.Alloc); ok {
				for _, r := range refs(a) {
					if st, ok := r.(*ssa.Store); ok && st.Addr == a && rec(st.Val, d+1) {
						return true
					}
				}
			}
		}
		in, ok := v.(ssa.Instruction)
		if !ok {
			return false
		}
		for _, op := range in.Operands(nil) {
			if *op != nil && rec(*op, d+1) {
				return true
			}
		}
		return false
	}
	return rec(v, 0)
}

// callSitesOf lists the static call sites of fn inside the given functions.
func callSitesOf(fn *ssa.Function, in map[*ssa.Function]bool) []ssa.CallInstruction {
	var out []ssa.CallInstruction
	for _, f := range sortedFuncs(in) {
		for _, c := range callsIn(f) {
			if staticCallee(c.Common()) == fn {
				out = append(out, c)
			}
		}
	}
	return out
}

// paramIndex returns the index of a parameter in its function (-1 if absent).
func paramIndex(p *ssa.Parameter) int {
	for i, q := range p.Parent().Params {
		if q == p {
			return i
		}
	}
	return -1
}

// blockOf returns the defining block of a value (nil for parameters/constants).
func blockOf(v ssa.Value) *ssa.BasicBlock {
	if in, ok := v.(ssa.Instruction); ok {
		return in.Block()
	}
	return nil
}
