package main

// Alternatives with environments: what must hold for a boolean value / a boolean repository
// function to be true (or false), as a disjunction of conjunctions of facts, each fact read in the
// environment (parameter bindings) of the call through which it was reached. This lets a rule
// look at `state.canBecomeCurrent()`, `isAnnotationTrue(annotations, key)` or
// `isCanaryPausedByReplicaSet(ers)` as if their bodies were written at the call site.
// (envT, xfact, bindArgs, stripConvE, pathsOfE, cachedFuncPaths come from helpers_A.go.)

import (
	"go/token"
	"go/types"

	"golang.org/x/tools/go/ssa"
)

const altCap = 400

func isBoolType(t types.Type) bool {
	bt, ok := t.Underlying().(*types.Basic)
	return ok && bt.Kind() == types.Bool
}

// boolAlts: alternatives under which result #idx of g has value want, in environment env.
func boolAlts(prog *Prog, g *ssa.Function, idx int, want bool, env *envT, depth int) [][]xfact {
	if depth > 4 || len(g.Blocks) == 0 {
		return nil
	}
	paths, k, ok := cachedFuncPaths(g)
	if !ok {
		return nil
	}
	var out [][]xfact
	for _, q := range paths {
		ret := returnOf(q.Blocks[len(q.Blocks)-1])
		if ret == nil || idx >= len(ret.Results) {
			continue
		}
		res := q.Resolve(ret.Results[idx])
		var base []xfact
		for _, f := range q.Facts {
			base = append(base, xfact{f, env})
		}
		if b, isC := constBool(res); isC {
			if b == want {
				out = append(out, base)
			}
			continue
		}
		for _, sub := range valueAlts(prog, g, k, res, want, env, depth+1) {
			out = append(out, append(append([]xfact{}, base...), sub...))
		}
		if len(out) > altCap {
			return nil
		}
	}
	// expand nested helper facts
	var exp [][]xfact
	for _, a := range out {
		exp = append(exp, expandAlt(prog, a, depth+1)...)
		if len(exp) > altCap {
			return nil
		}
	}
	return exp
}

// valueAlts: alternatives under which the boolean value v (of function fn) has value want.
func valueAlts(prog *Prog, fn *ssa.Function, k *keyer, v ssa.Value, want bool, env *envT, depth int) [][]xfact {
	atom := func() [][]xfact {
		var a []xfact
		for _, f := range k.normCond(v, want) {
			a = append(a, xfact{f, env})
		}
		return [][]xfact{a}
	}
	if depth > 6 {
		return atom()
	}
	switch x := v.(type) {
	case *ssa.UnOp:
		if x.Op == token.NOT {
			return valueAlts(prog, fn, k, x.X, !want, env, depth+1)
		}
	case *ssa.Phi:
		ff := prog.factsOf(fn)
		var out [][]xfact
		for i, e := range x.Edges {
			var edge []xfact
			for _, f := range ff.FactsAtEdge(x.Block().Preds[i], x.Block()) {
				edge = append(edge, xfact{f, env})
			}
			if b, isC := constBool(e); isC {
				if b == want {
					out = append(out, edge)
				}
				continue
			}
			if e == ssa.Value(x) {
				continue
			}
			for _, sub := range valueAlts(prog, fn, k, e, want, env, depth+1) {
				out = append(out, append(append([]xfact{}, edge...), sub...))
			}
		}
		return out
	case *ssa.Call, *ssa.Extract:
		if g, idx, args := helperBoolCall(prog, v, env); g != nil && !isExportedAnchor(g) {
			if alts := boolAlts(prog, g, idx, want, bindArgs(g, args, env), depth+1); alts != nil {
				return alts
			}
		}
	}
	return atom()
}

// helperBoolCall: v is (an extract of) a call to a repository function whose result is boolean.
func helperBoolCall(prog *Prog, v ssa.Value, env *envT) (*ssa.Function, int, []ssa.Value) {
	var call *ssa.Call
	idx := 0
	switch x := v.(type) {
	case *ssa.Call:
		call = x
	case *ssa.Extract:
		call, _ = x.Tuple.(*ssa.Call)
		idx = x.Index
	}
	if call == nil {
		return nil, 0, nil
	}
	g := calleeOfE(&call.Call, env)
	if g == nil || !prog.IsRuleSite(g) || len(g.Blocks) == 0 || idx >= g.Signature.Results().Len() {
		return nil, 0, nil
	}
	if !isBoolType(g.Signature.Results().At(idx).Type()) {
		return nil, 0, nil
	}
	return g, idx, call.Call.Args
}

// expandAlt replaces every fact about the boolean result of a repository helper, and every fact
// about a boolean struct field filled by a helper, by the alternatives of that helper (cartesian
// product).
func expandAlt(prog *Prog, alt []xfact, depth int) [][]xfact {
	out := [][]xfact{{}}
	for _, xf := range alt {
		var subs [][]xfact
		if depth <= 4 {
			v, e := derefE(prog, xf.V, xf.env)
			if g, idx, args := helperBoolCall(prog, v, e); g != nil && isExportedAnchor(g) == false {
				subs = boolAlts(prog, g, idx, xf.Pol, bindArgs(g, args, e), depth+1)
			}
		}
		if subs == nil {
			subs = [][]xfact{{xf}}
		} else {
			for i := range subs {
				subs[i] = append(subs[i], xf)
			}
		}
		var next [][]xfact
		for _, o := range out {
			for _, s := range subs {
				next = append(next, append(append([]xfact{}, o...), s...))
				if len(next) > altCap {
					return [][]xfact{alt}
				}
			}
		}
		out = next
	}
	return out
}

// isExportedAnchor: exported predicates (IsCanaryDeploymentValid, IsPodAvailable, …) are the atoms
// the rules reason about; they are not expanded.
func isExportedAnchor(g *ssa.Function) bool {
	return g.Object() != nil && g.Object().Exported() && g.Parent() == nil
}

// derefE looks through struct fields filled by a helper: v (read in env) is `s.f` where s is a
// struct produced by a repository call (directly, through a local variable, or through a bound
// parameter); if the helper stores exactly one value into field f of the struct it returns, that
// value is returned together with the helper's environment. Otherwise (v, env) is returned
// unchanged.
func derefE(prog *Prog, v ssa.Value, env *envT) (ssa.Value, *envT) {
	for i := 0; i < 6; i++ {
		v, env = stripConvE(v, env)
		var base ssa.Value
		field := ""
		switch x := v.(type) {
		case *ssa.Field:
			base, field = x.X, fieldName(x)
		case *ssa.UnOp:
			if x.Op != token.MUL {
				return v, env
			}
			fa, ok := x.X.(*ssa.FieldAddr)
			if !ok {
				return v, env
			}
			base, field = fa.X, fieldName(fa)
		default:
			return v, env
		}
		b, benv := stripConvE(base, env)
		// local variable holding the struct
		if a, ok := b.(*ssa.Alloc); ok {
			var whole []ssa.Value
			for _, r := range refs(a) {
				if st, ok := r.(*ssa.Store); ok && st.Addr == ssa.Value(a) {
					whole = append(whole, st.Val)
				}
			}
			if len(whole) == 1 {
				b, benv = stripConvE(whole[0], benv)
			}
		}
		if u, ok := b.(*ssa.UnOp); ok && u.Op == token.MUL {
			if a, ok := u.X.(*ssa.Alloc); ok {
				var whole []ssa.Value
				for _, r := range refs(a) {
					if st, ok := r.(*ssa.Store); ok && st.Addr == ssa.Value(a) {
						whole = append(whole, st.Val)
					}
				}
				if len(whole) == 1 {
					b, benv = stripConvE(whole[0], benv)
				}
			}
		}
		var call *ssa.Call
		idx := 0
		switch c := b.(type) {
		case *ssa.Call:
			call = c
		case *ssa.Extract:
			call, _ = c.Tuple.(*ssa.Call)
			idx = c.Index
		}
		if call == nil {
			return v, env
		}
		g := calleeOfE(&call.Call, benv)
		if g == nil || !prog.IsRuleSite(g) || len(g.Blocks) == 0 {
			return v, env
		}
		genv := bindArgs(g, call.Call.Args, benv)
		var stored []ssa.Value
		okAll := true
		for _, gb := range g.Blocks {
			ret := returnOf(gb)
			if ret == nil || idx >= len(ret.Results) {
				continue
			}
			var alloc *ssa.Alloc
			switch y := ret.Results[idx].(type) {
			case *ssa.Alloc:
				alloc = y
			case *ssa.UnOp:
				if y.Op == token.MUL {
					alloc, _ = y.X.(*ssa.Alloc)
				}
			}
			if alloc == nil {
				okAll = false
				continue
			}
			for _, rr := range refs(alloc) {
				if fa, ok := rr.(*ssa.FieldAddr); ok && fieldName(fa) == field {
					for _, r2 := range refs(fa) {
						if st, ok := r2.(*ssa.Store); ok && st.Addr == ssa.Value(fa) {
							stored = append(stored, st.Val)
						}
					}
				}
			}
		}
		if !okAll || len(stored) != 1 {
			return v, env
		}
		v, env = stored[0], genv
	}
	return v, env
}

// isValE: v read in env denotes exactly the value want (a parameter of the outermost function).
func isValE(v ssa.Value, env *envT, want ssa.Value) bool {
	x, _ := stripConvE(v, env)
	return x == want
}

// rootedAtE: every access path of v (read in env) is rooted at want and ends with the fields.
func rootedAtE(v ssa.Value, env *envT, want ssa.Value, suffix ...string) bool {
	ps := pathsOfE(v, env)
	if len(ps) == 0 {
		return false
	}
	for _, p := range ps {
		if p.root != want || !p.endsWith(suffix...) {
			return false
		}
	}
	return true
}
