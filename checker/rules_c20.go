package main

// C20 — exported metrics match the objects' status; label values match their keys.

import (
	"fmt"
	"go/constant"
	"go/token"
	"go/types"
	"regexp/syntax"
	"sort"
	"strings"

	"golang.org/x/tools/go/ssa"
)

const (
	c20PkgKSMetric = "k8s.io/kube-state-metrics/v2/pkg/metric"
	c20PkgKSGen    = "k8s.io/kube-state-metrics/v2/pkg/metric_generator"
)

func init() {
	register("C20", "Decides the metric tables and the label pairing structurally: (R1) every FamilyGenerator literal handed to metrics.AddMetrics type-asserts the kind the family set is registered for, returns exactly one Metric on every path, and its Value is — for a family named <prefix>_status_<x> whose <x> (case and '_' folded) is the JSON name of a numeric field F of that kind's status type — a conversion of obj.Status.F; for the derived families (created, labels, canary_activated, canary_node_number, canary_paused, rolling_update_paused, rollout_frozen, canary_failed) the value on every path agrees with the defining expression table (1/len(...) exactly under the defining facts, 0 exactly when one of them is false); any other family name is undecided; (R2) in BuildInfoLabels every lookup into obj.Labels uses a key that is an element of `range obj.Labels` unchanged (directly or through a slice that only ever receives such keys and is at most permuted by sort), the value stored at position i is obj.Labels[k] for the same k whose image under one function call is stored at position i of the key slice (same block, same index), both result slices have the length of the collected key slice, the fill loop visits every position, and the collected key slice receives exactly one key per iteration of the range over the label map; (R3) GetLabelsValues pairs the \"namespace\"/\"name\" keys with the object's namespace/name at the same positions; (R4) on every path of every generator LabelKeys and LabelValues are built in lock-step: the same sequence of segments, a segment being result #0 / result #1 of one call of GetLabelsValues or BuildInfoLabels on the asserted object's ObjectMeta, or a constant key paired with one value. A generator list may be assembled from the lists of other repository functions; a generator may be the function value an adapter returns around a function literal; a function the generator delegates to, and helpers whose several results (or several returns) feed Value / LabelKeys / LabelValues, are read path by path together with the generator's own path (their facts count, their values are resolved in their own activation).", runC20)
}

type c20Family struct {
	name string
	gen  *ssa.Function
	list *ssa.Function
	kind string
	pos  token.Pos
	F    *frames
	fr   *frame // activation of the generator closure (bindings of captured helper parameters)
}

// c20Families finds the FamilyGenerator literals of every generator list handed to AddMetrics.
func c20Families(r *Run) []c20Family {
	addM := r.Prog.Func(pkgMetrics, "AddMetrics")
	if addM == nil {
		r.Fatal("anchor %s.AddMetrics not found", pkgMetrics)
		return nil
	}
	var out []c20Family
	nReg := 0
	for _, fn := range r.Prog.RepoFuncs() {
		for _, c := range callsIn(fn) {
			if staticCallee(c.Common()) != addM || len(c.Common().Args) < 4 {
				continue
			}
			nReg++
			args := c.Common().Args
			pos := r.Prog.Pos(c.Pos())
			kind := ""
			if wk, ok := unwrap(args[0]).(*ssa.Call); ok && strings.HasSuffix(calleeName(&wk.Call), "schema.GroupVersion).WithKind") && len(wk.Call.Args) == 2 {
				gvOK := false
				if u, isLoad := wk.Call.Args[0].(*ssa.UnOp); isLoad && u.Op == token.MUL {
					if g, isG := u.X.(*ssa.Global); isG && g.Pkg.Pkg.Path() == pkgAPI && g.Name() == "GroupVersion" {
						gvOK = true
					}
				}
				if s, isC := constString(wk.Call.Args[1]); isC && gvOK {
					kind = s
				}
			}
			var lists []*ssa.Function
			okLists := true
			for _, o := range origins(args[3]) {
				if call, isCall := o.(*ssa.Call); isCall {
					if cal := staticCallee(&call.Call); cal != nil && r.Prog.IsRuleSite(cal) {
						lists = append(lists, cal)
						continue
					}
				}
				okLists = false
			}
			named := r.Prog.Named(pkgAPI, kind)
			r.Check("C20.R1", "registration of "+kind, pos, shortFunc(fn),
				"AddMetrics is called with api GroupVersion.WithKind(<constant kind of the api package>) and a generator list built by one repository function",
				kind != "" && named != nil && okLists && len(lists) == 1, fmt.Sprintf("kind=%q list functions=%d", kind, len(lists)))
			if kind == "" || named == nil || !okLists || len(lists) != 1 {
				continue
			}
			// the list function, and the repository functions whose []FamilyGenerator result it (or one of
			// them) calls for: a list assembled from sub-lists
			subLists := []*ssa.Function{lists[0]}
			for i := 0; i < len(subLists) && i < 64; i++ {
				for _, ci := range callsIn(subLists[i]) {
					call, isCall := ci.(*ssa.Call)
					if !isCall {
						continue
					}
					sl, isSl := call.Type().Underlying().(*types.Slice)
					if !isSl || typeName(sl.Elem()) != c20PkgKSGen+".FamilyGenerator" {
						continue
					}
					cal := staticCallee(&call.Call)
					if cal == nil || !r.Prog.IsRuleSite(cal) || len(cal.Blocks) == 0 {
						if _, isB := call.Call.Value.(*ssa.Builtin); !isB {
							r.Undecided("C20.R1", "families from a sub-list", r.Prog.Pos(call.Pos()), shortFunc(subLists[i]), "generators come from "+calleeName(&call.Call)+", which is not a repository function")
						}
						continue
					}
					dup := false
					for _, s := range subLists {
						if s == cal {
							dup = true
						}
					}
					if !dup {
						subLists = append(subLists, cal)
					}
				}
			}
			for _, list := range subLists {
				for _, b := range list.Blocks {
					for _, in := range b.Instrs {
						st, isSt := in.(*ssa.Store)
						if !isSt {
							continue
						}
						fa, isFA := st.Addr.(*ssa.FieldAddr)
						if !isFA || fieldName(fa) != "Name" || typeName(fa.X.Type()) != c20PkgKSGen+".FamilyGenerator" {
							continue
						}
						fpos := r.Prog.Pos(instrPos(st))
						name, isC := constString(st.Val)
						if !isC {
							r.Undecided("C20.R1", "family with non-constant name", fpos, shortFunc(list), "family name is not a constant")
							continue
						}
						gfs := fieldStores(fa.X, "GenerateFunc")
						var gen *ssa.Function
						var gF *frames
						var gfr *frame
						if len(gfs) == 1 {
							switch g := gfs[0].(type) {
							case *ssa.Function:
								gen = g
							case *ssa.MakeClosure:
								gen, _ = g.Fn.(*ssa.Function)
							case *ssa.Call:
								// the generator is what a repository function returns (an adapter around the function
								// literal it is given): the function value it returns, seen with the arguments of this call
								if H := staticCallee(&g.Call); H != nil && r.Prog.IsRuleSite(H) && len(H.Blocks) > 0 && len(H.Params) == len(g.Call.Args) {
									gF = newFrames(r.Prog)
									hfr := gF.top(H)
									for _, a := range g.Call.Args {
										hfr.args = append(hfr.args, fval{v: a})
									}
									switch rv := singleReturn(H, 0).(type) {
									case *ssa.Function:
										gen, gfr = rv, gF.top(rv)
									case *ssa.MakeClosure:
										gen, _ = rv.Fn.(*ssa.Function)
										if gen != nil {
											gfr = gF.top(gen)
											for _, bnd := range rv.Bindings {
												gfr.free = append(gfr.free, fval{v: bnd, fr: hfr})
											}
										}
									}
								}
							}
						}
						if gen == nil || len(gen.Params) != 1 {
							r.Undecided("C20.R1", "family "+name, fpos, shortFunc(list), "GenerateFunc is not a function literal")
							continue
						}
						out = append(out, c20Family{name: name, gen: gen, list: list, kind: kind, pos: instrPos(st), F: gF, fr: gfr})
					}
				}
				// families built by a repository helper that returns a FamilyGenerator literal: the name and the
				// generator are read off the helper's literal, seen with the arguments of this call; when an
				// argument is the current element of a package-level table of struct literals, one family per entry
				for _, ci := range callsIn(list) {
					call, isCall := ci.(*ssa.Call)
					if !isCall || typeName(call.Type()) != c20PkgKSGen+".FamilyGenerator" {
						continue
					}
					fpos := r.Prog.Pos(call.Pos())
					H := staticCallee(&call.Call)
					if H == nil || !r.Prog.IsRuleSite(H) || len(H.Blocks) == 0 || len(H.Params) != len(call.Call.Args) {
						r.Undecided("C20.R1", "family built by a helper", fpos, shortFunc(list), "the FamilyGenerator comes from "+calleeName(&call.Call))
						continue
					}
					// argument sets: one, or one per table entry
					argSets := [][]fval{nil}
					for _, a := range call.Call.Args {
						entries, isTable := c20TableEntries(a)
						var next [][]fval
						for _, set := range argSets {
							if !isTable {
								next = append(next, append(append([]fval{}, set...), fval{v: a}))
								continue
							}
							for _, e := range entries {
								next = append(next, append(append([]fval{}, set...), fval{v: e, deref: true}))
							}
						}
						argSets = next
					}
					if len(argSets) == 0 {
						r.Undecided("C20.R1", "family built by "+H.Name(), fpos, shortFunc(list), "the table the families are built from has no entries")
					}
					for _, set := range argSets {
						F := newFrames(r.Prog)
						hfr := F.top(H)
						hfr.args = set
						fam, why := c20FamilyFromHelper(F, H, hfr)
						if fam == nil {
							r.Undecided("C20.R1", "family built by "+H.Name(), fpos, shortFunc(list), why)
							continue
						}
						fam.list, fam.kind, fam.pos = list, kind, call.Pos()
						out = append(out, *fam)
					}
				}
			}
		}
	}
	if nReg == 0 {
		r.Check("C20.R1", "registration", "-", "-", "a call of metrics.AddMetrics in the repository", false, "none found")
	}
	return out
}

// c20FamilyFromHelper reads the FamilyGenerator literal a helper returns, in the helper's frame.
func c20FamilyFromHelper(F *frames, H *ssa.Function, hfr *frame) (*c20Family, string) {
	var lit ssa.Value
	if rv := singleReturn(H, 0); rv != nil {
		if u, isL := rv.(*ssa.UnOp); isL && u.Op == token.MUL {
			lit = u.X
		}
	}
	if lit == nil {
		return nil, "the helper does not return one FamilyGenerator literal"
	}
	ns, gfs := fieldStores(lit, "Name"), fieldStores(lit, "GenerateFunc")
	name, isC := "", false
	if len(ns) == 1 {
		name, isC = constString(F.resolve(fval{v: ns[0], fr: hfr}).v)
	}
	var gen *ssa.Function
	var gfr *frame
	if len(gfs) == 1 {
		switch gv := gfs[0].(type) {
		case *ssa.Function:
			gen, gfr = gv, F.top(gv)
		case *ssa.MakeClosure:
			gen, _ = gv.Fn.(*ssa.Function)
			if gen != nil {
				gfr = F.top(gen)
				for _, bnd := range gv.Bindings {
					gfr.free = append(gfr.free, fval{v: bnd, fr: hfr})
				}
			}
		}
	}
	if !isC || gen == nil || len(gen.Params) != 1 {
		return nil, "name is not a constant at this call or GenerateFunc is not a function literal"
	}
	return &c20Family{name: name, gen: gen, F: F, fr: gfr}, ""
}

// c20TableEntries: v is the current element of a loop over a package-level slice of struct literals
// (`for _, e := range table`, e or table[i]); returns the addresses of the entries as initialised by
// the package initialiser.
func c20TableEntries(v ssa.Value) ([]ssa.Value, bool) {
	var ia *ssa.IndexAddr
	if u, ok := v.(*ssa.UnOp); ok && u.Op == token.MUL {
		switch x := u.X.(type) {
		case *ssa.IndexAddr:
			ia = x
		case *ssa.Alloc:
			if st, ro := readOnlyCopy(x); ro {
				if l, isL := st.Val.(*ssa.UnOp); isL && l.Op == token.MUL {
					ia, _ = l.X.(*ssa.IndexAddr)
				}
			}
		}
	}
	if ia == nil {
		return nil, false
	}
	sl, ok := ia.X.(*ssa.UnOp)
	if !ok || sl.Op != token.MUL {
		return nil, false
	}
	g, ok := sl.X.(*ssa.Global)
	if !ok || g.Pkg == nil {
		return nil, false
	}
	// the table is written exactly once, by the package initialiser, with a slice literal
	var lit *ssa.Alloc
	nStores := 0
	for _, mem := range g.Pkg.Members {
		fn, isFn := mem.(*ssa.Function)
		if !isFn {
			continue
		}
		fns := append([]*ssa.Function{fn}, fn.AnonFuncs...)
		for _, f := range fns {
			for _, b := range f.Blocks {
				for _, in := range b.Instrs {
					if st, isSt := in.(*ssa.Store); isSt && st.Addr == ssa.Value(g) {
						nStores++
						if f.Name() == "init" {
							lit = sliceLit(st.Val)
						}
					}
				}
			}
		}
	}
	if nStores != 1 || lit == nil {
		return nil, false
	}
	els, ok := litElems(lit)
	if !ok {
		return nil, false
	}
	var out []ssa.Value
	for _, e := range els {
		b := e.structBase()
		if b == nil {
			return nil, false
		}
		out = append(out, b)
	}
	return out, true
}

// c20Gen is the analysed body of one GenerateFunc.
type c20Gen struct {
	fn     *ssa.Function
	obj    ssa.Value // the asserted object
	okFlag ssa.Value // comma-ok result of the assertion (nil for the panicking form)
	typ    types.Type
	F      *frames
	fr     *frame
	// cur: the frame in which the plain SSA values handed to path/isPath/isLoadOf are to be read (nil: the
	// generator's own); set while the facts of an inlined callee are matched
	cur *frame
}

func c20Analyse(fn *ssa.Function) (*c20Gen, string) {
	g := &c20Gen{fn: fn}
	n := 0
	for _, b := range fn.Blocks {
		for _, in := range b.Instrs {
			ta, ok := in.(*ssa.TypeAssert)
			if !ok {
				continue
			}
			if ta.X != ssa.Value(fn.Params[0]) {
				return nil, "type assertion on something other than the generator's parameter"
			}
			n++
			g.typ = ta.AssertedType
			if !ta.CommaOk {
				g.obj = ta
				continue
			}
			for _, rr := range refs(ta) {
				if ex, isE := rr.(*ssa.Extract); isE {
					if ex.Index == 0 {
						g.obj = ex
					} else {
						g.okFlag = ex
					}
				}
			}
		}
	}
	if n != 1 || g.obj == nil {
		return nil, fmt.Sprintf("%d type assertions of the parameter (need exactly one)", n)
	}
	return g, ""
}

// path returns the field path of a load rooted at the asserted object (nil otherwise).
func (g *c20Gen) path(v ssa.Value) []string {
	if g.cur != nil && g.cur != g.fr {
		return g.pathF(fval{v: v, fr: g.cur})
	}
	v = unwrap(v)
	root, p := accessPathThroughCopies(v)
	if root != g.obj || len(p) == 0 {
		return nil
	}
	return p
}

func (g *c20Gen) isPath(v ssa.Value, want ...string) bool {
	p := g.path(v)
	if len(p) != len(want) {
		return false
	}
	for i := range p {
		if p[i] != want[i] {
			return false
		}
	}
	return true
}

// isLoadOf: v is a load (not an address) of the given path of the object.
func (g *c20Gen) isLoadOf(v ssa.Value, want ...string) bool {
	v = unwrap(v)
	if u, ok := v.(*ssa.UnOp); !ok || u.Op != token.MUL {
		if _, isF := v.(*ssa.Field); !isF {
			return false
		}
	}
	return g.isPath(v, want...)
}

// pathF: field path of a value seen through helper parameters / captured functions, rooted at the
// asserted object of the generator (nil otherwise).
func (g *c20Gen) pathF(x fval) []string {
	var path []string
	for i := 0; i < 16; i++ {
		root, p := accessPathThroughCopies(unwrap(x.v))
		path = append(append([]string{}, p...), path...)
		r := g.F.resolve(fval{v: root, fr: x.fr})
		if r.v == root && r.fr == x.fr {
			if r.v == g.obj && r.fr == g.fr && len(path) > 0 {
				return path
			}
			return nil
		}
		x = r
	}
	return nil
}

func (g *c20Gen) isLoadOfF(x fval, want ...string) bool {
	v := unwrap(x.v)
	if u, ok := v.(*ssa.UnOp); !ok || u.Op != token.MUL {
		if _, isF := v.(*ssa.Field); !isF {
			return false
		}
	}
	return samePath(g.pathF(x), want)
}

// valueF resolves a metric value: phis along the generator's path, conversions, helper parameters,
// captured function values and calls of repository functions that return one value.
func (s *c20Scene) valueF(x fval) fval {
	g := s.g
	for i := 0; i < 32; i++ {
		y := s.resolve(x)
		switch c := y.v.(type) {
		case *ssa.Convert:
			y.v = c.X
		case *ssa.ChangeType:
			y.v = c.X
		case *ssa.Call:
			if _, isB := c.Call.Value.(*ssa.Builtin); !isB {
				if fn2, fr2 := g.F.callFrame(c, y.fr); fn2 != nil && g.F.prog.IsRuleSite(fn2) {
					if rv := singleReturn(fn2, 0); rv != nil {
						y = fval{v: rv, fr: fr2}
					}
				}
			}
		}
		if y == x {
			return x
		}
		x = y
	}
	return x
}

// c20Scene is one way through a generator: a path of the generator itself plus one path of every
// repository function inlined into it — the function it tail-calls for its Family (an adapter that
// asserts the kind and delegates), and helpers whose several results feed the metric. Values are
// resolved along the path of the frame they live in; the facts are those of all the parts.
type c20Part struct {
	fr *frame
	p  *Path
}

type c20Inlined struct {
	call *ssa.Call
	fr   *frame // frame of the caller
	part int
}

type c20Scene struct {
	g       *c20Gen
	parts   []c20Part
	inlined []c20Inlined
	tail    int // the part whose return value is the generator's result
}

func (s *c20Scene) partOf(fr *frame) *c20Part {
	for i := range s.parts {
		if s.parts[i].fr == fr {
			return &s.parts[i]
		}
	}
	return nil
}

func (s *c20Scene) with(part c20Part, call *ssa.Call, fr *frame) *c20Scene {
	n := &c20Scene{g: s.g, tail: s.tail}
	n.parts = append(append([]c20Part{}, s.parts...), part)
	n.inlined = append(append([]c20Inlined{}, s.inlined...), c20Inlined{call, fr, len(n.parts) - 1})
	return n
}

// rets is the frames hook: the results of an inlined call are those returned on its part's path.
func (s *c20Scene) rets(call *ssa.Call, fr *frame) ([]fval, bool) {
	for _, in := range s.inlined {
		if in.call == call && in.fr == fr {
			part := s.parts[in.part]
			ret := returnOf(part.p.Blocks[len(part.p.Blocks)-1])
			if ret == nil {
				return nil, false
			}
			var out []fval
			for _, rv := range ret.Results {
				out = append(out, fval{v: rv, fr: part.fr})
			}
			return out, true
		}
	}
	return nil, false
}

func (s *c20Scene) resolve(x fval) fval {
	s.g.F.rets = s.rets
	for i := 0; i < 32; i++ {
		y := s.g.F.resolve(x)
		if part := s.partOf(y.fr); part != nil {
			y.v = part.p.Resolve(y.v)
		}
		if y == x {
			return x
		}
		x = y
	}
	return x
}

// has: a fact of the given polarity on the path of one of the parts (read in that part's frame).
func (s *c20Scene) has(pol bool, match func(v ssa.Value, _ string) bool) bool {
	defer func() { s.g.cur = nil }()
	for _, part := range s.parts {
		s.g.cur = part.fr
		if part.p.Has(pol, match) {
			return true
		}
	}
	return false
}

func (s *c20Scene) facts() string {
	var out []string
	for _, part := range s.parts {
		out = append(out, shortFacts(part.p))
	}
	return strings.Join(out, " | ")
}

// result is what the generator returns in this scene.
func (s *c20Scene) result() fval {
	last := s.parts[s.tail]
	ret := returnOf(last.p.Blocks[len(last.p.Blocks)-1])
	if ret == nil || len(ret.Results) != 1 {
		return fval{}
	}
	return s.resolve(fval{v: ret.Results[0], fr: last.fr})
}

// inlinable: a call of a repository function with a body that the rule may read path by path.
func (s *c20Scene) inlinable(call *ssa.Call, fr *frame, skip map[*ssa.Function]bool) (*ssa.Function, *frame) {
	if _, isB := call.Call.Value.(*ssa.Builtin); isB {
		return nil, nil
	}
	for _, in := range s.inlined {
		if in.call == call && in.fr == fr {
			return nil, nil
		}
	}
	fn2, fr2 := s.g.F.callFrame(call, fr)
	if fn2 == nil || !s.g.F.prog.IsRuleSite(fn2) || skip[fn2] || s.partOf(fr2) != nil {
		return nil, nil
	}
	return fn2, fr2
}

// expand inlines call (made in frame fr): one scene per path of the callee.
func (s *c20Scene) expand(r *Run, call *ssa.Call, fr *frame, fn2 *ssa.Function, fr2 *frame) ([]*c20Scene, bool) {
	paths, _, ok := funcPaths(fn2, 500)
	r.paths += len(paths)
	if !ok || len(paths) == 0 {
		return nil, false
	}
	var out []*c20Scene
	for _, p2 := range paths {
		out = append(out, s.with(c20Part{fr2, p2}, call, fr))
	}
	return out, true
}

// c20Scenes enumerates the scenes of a generator: its paths, the function it delegates to (tail call)
// inlined path by path, and — once the metric is located — the repository helpers whose results feed
// Value / LabelKeys / LabelValues when they cannot be read as one value (several results, or several
// returns).
func c20Scenes(r *Run, g *c20Gen, paths []*Path, skip map[*ssa.Function]bool) ([]*c20Scene, string) {
	var out []*c20Scene
	var tail func(s *c20Scene, depth int) string
	tail = func(s *c20Scene, depth int) string {
		x := s.result()
		if call, isCall := unwrap(x.v).(*ssa.Call); isCall && depth < 4 {
			if fn2, fr2 := s.inlinable(call, x.fr, skip); fn2 != nil {
				next, ok := s.expand(r, call, x.fr, fn2, fr2)
				if !ok {
					return "path cap exceeded in " + shortFunc(fn2)
				}
				for _, n := range next {
					n.tail = len(n.parts) - 1
					if why := tail(n, depth+1); why != "" {
						return why
					}
				}
				return ""
			}
		}
		out = append(out, s)
		return ""
	}
	for _, p := range paths {
		if why := tail(&c20Scene{g: g, parts: []c20Part{{g.fr, p}}}, 0); why != "" {
			return nil, why
		}
		if len(out) > 4000 {
			return nil, "too many combinations of paths"
		}
	}
	return out, ""
}

// feeders finds, below the value x, a call that must be inlined to read it: an Extract of a repository
// call with several results, or a repository call without a single returned value.
func (s *c20Scene) feeder(r *Run, x fval, skip map[*ssa.Function]bool, depth int) (*ssa.Call, *frame) {
	if depth > 8 {
		return nil, nil
	}
	x = s.resolve(x)
	switch y := x.v.(type) {
	case *ssa.Convert:
		return s.feeder(r, fval{v: y.X, fr: x.fr}, skip, depth+1)
	case *ssa.ChangeType:
		return s.feeder(r, fval{v: y.X, fr: x.fr}, skip, depth+1)
	case *ssa.Extract:
		if c, ok := y.Tuple.(*ssa.Call); ok {
			if fn2, _ := s.inlinable(c, x.fr, skip); fn2 != nil {
				return c, x.fr
			}
		}
	case *ssa.Call:
		if _, ok := isBuiltinCall(y, "append"); ok {
			for _, a := range y.Call.Args {
				if c, fr := s.feeder(r, fval{v: a, fr: x.fr}, skip, depth+1); c != nil {
					return c, fr
				}
			}
			return nil, nil
		}
		if fn2, _ := s.inlinable(y, x.fr, skip); fn2 != nil && y.Call.Signature().Results().Len() == 1 && singleReturn(fn2, 0) == nil {
			if _, isInd := c20Indicator(r, fn2); !isInd {
				return y, x.fr
			}
		}
	}
	return nil, nil
}

// c20Metric locates the single Metric of the Family returned on a path: the values stored into its
// Value, LabelKeys and LabelValues fields (in the generator, or in a repository helper that builds the Family).
type c20Metric struct{ value, keys, values fval }

func c20MetricOf(s *c20Scene) (*c20Metric, string) {
	g := s.g
	x := s.result()
	if x.v == nil {
		return nil, "unexpected result count"
	}
	var builder *ssa.Function // helper in which the Family is built and that was not inlined (nil: a part of the scene)
	for i := 0; i < 4; i++ {
		call, isCall := unwrap(x.v).(*ssa.Call)
		if !isCall {
			break
		}
		fn2, fr2 := g.F.callFrame(call, x.fr)
		if fn2 == nil || !g.F.prog.IsRuleSite(fn2) {
			break
		}
		rv := singleReturn(fn2, 0)
		if rv == nil {
			return nil, shortFunc(fn2) + " does not return one Family literal"
		}
		x, builder = fval{v: rv, fr: fr2}, fn2
	}
	fam, ok := unwrap(x.v).(*ssa.Alloc)
	if !ok || typeName(fam.Type()) != c20PkgKSMetric+".Family" {
		return nil, "returned value is not a Family literal"
	}
	ms := fieldStores(fam, "Metrics")
	if len(ms) != 1 {
		return nil, fmt.Sprintf("%d stores to Family.Metrics", len(ms))
	}
	elems, complete := varargElems(ms[0])
	if !complete || len(elems) != 1 {
		return nil, fmt.Sprintf("Family.Metrics holds %d metrics (need exactly one literal)", len(elems))
	}
	m, ok := unwrap(elems[0]).(*ssa.Alloc)
	if !ok || typeName(m.Type()) != c20PkgKSMetric+".Metric" {
		return nil, "the metric is not a Metric literal"
	}
	one := func(name string) *ssa.Store {
		var found []*ssa.Store
		for _, rr := range refs(m) {
			if fa, isFA := rr.(*ssa.FieldAddr); isFA && fieldName(fa) == name {
				for _, r2 := range refs(fa) {
					if st, isSt := r2.(*ssa.Store); isSt && st.Addr == ssa.Value(fa) {
						found = append(found, st)
					}
				}
			}
		}
		if len(found) != 1 {
			return nil
		}
		return found[0]
	}
	sv, sk, sl := one("Value"), one("LabelKeys"), one("LabelValues")
	if sv == nil || sk == nil || sl == nil {
		return nil, "Value, LabelKeys and LabelValues are not each stored exactly once"
	}
	for _, st := range []*ssa.Store{sv, sk, sl} {
		if builder == nil {
			if part := s.partOf(x.fr); part == nil || !part.p.Contains(st.Block()) {
				return nil, "a field of the metric is not stored on this path"
			}
			continue
		}
		for _, rb := range builder.Blocks {
			if returnOf(rb) != nil && !st.Block().Dominates(rb) {
				return nil, "a field of the metric is not stored on every path of " + shortFunc(builder)
			}
		}
	}
	return &c20Metric{value: fval{v: sv.Val, fr: x.fr}, keys: fval{v: sk.Val, fr: x.fr}, values: fval{v: sl.Val, fr: x.fr}}, ""
}

// c20Atom is one defining fact of a derived family.
type c20Atom struct {
	desc  string
	pol   bool // polarity (in the normalised fact sense: x==nil / x==c / call) under which the family is "on"
	match func(g *c20Gen, v ssa.Value) bool
}

type c20Derived struct {
	atoms  []c20Atom
	on     func(g *c20Gen, v ssa.Value) bool
	onDesc string
}

func c20One(_ *c20Gen, v ssa.Value) bool { f, ok := constNum(v); return ok && f == 1 }

func c20DerivedTable(r *Run) map[string]c20Derived {
	cs := func(name string) string {
		s, ok := r.Prog.constStr(pkgAPI, name)
		if !ok {
			r.Fatal("anchor constant %s.%s not found", pkgAPI, name)
		}
		return s
	}
	canaryNonNil := c20Atom{desc: "Status.Canary != nil", pol: false, match: func(g *c20Gen, v ssa.Value) bool {
		return isNilCompareOf(v, func(x ssa.Value) bool { return g.isLoadOf(x, "Status", "Canary") })
	}}
	stateIs := func(constName string) c20Atom {
		val := cs(constName)
		return c20Atom{desc: "Status.State == " + constName, pol: true, match: func(g *c20Gen, v ssa.Value) bool {
			return isEqCompare(v, func(x ssa.Value) bool { return g.isLoadOf(x, "Status", "State") }, isConstStringVal(val))
		}}
	}
	condTrue := func(condPkg, constName string) c20Atom {
		val := cs(constName)
		return c20Atom{desc: "IsConditionTrue(&Status, " + constName + ")", pol: true, match: func(g *c20Gen, v ssa.Value) bool {
			c, ok := isCallTo(v, condPkg+".IsConditionTrue")
			if !ok || len(c.Call.Args) != 2 {
				return false
			}
			s, isC := constString(c.Call.Args[1])
			return isC && s == val && g.isPath(c.Call.Args[0], "Status")
		}}
	}
	return map[string]c20Derived{
		"ExtendedDaemonSet|canary_activated": {atoms: []c20Atom{canaryNonNil}, on: c20One, onDesc: "1"},
		"ExtendedDaemonSet|canary_node_number": {atoms: []c20Atom{canaryNonNil}, onDesc: "len(Status.Canary.Nodes)", on: func(g *c20Gen, v ssa.Value) bool {
			c, ok := isBuiltinCall(v, "len")
			return ok && g.isLoadOf(c.Call.Args[0], "Status", "Canary", "Nodes")
		}},
		"ExtendedDaemonSet|canary_paused":           {atoms: []c20Atom{canaryNonNil, condTrue(pkgEDSCond, "ConditionTypeEDSCanaryPaused")}, on: c20One, onDesc: "1"},
		"ExtendedDaemonSet|rolling_update_paused":   {atoms: []c20Atom{stateIs("ExtendedDaemonSetStatusStateRollingUpdatePaused")}, on: c20One, onDesc: "1"},
		"ExtendedDaemonSet|rollout_frozen":          {atoms: []c20Atom{stateIs("ExtendedDaemonSetStatusStateRolloutFrozen")}, on: c20One, onDesc: "1"},
		"ExtendedDaemonSetReplicaSet|canary_failed": {atoms: []c20Atom{condTrue(pkgERSCond, "ConditionTypeCanaryFailed")}, on: c20One, onDesc: "1"},
	}
}

func c20Fold(s string) string { return strings.ToLower(strings.ReplaceAll(s, "_", "")) }

func runC20(r *Run) {
	r.RuleDoc("C20.R1", "metric family table: asserted kind = registered kind; Value = the matching status field or the defining expression of a derived family")
	r.RuleDoc("C20.R2", "BuildInfoLabels: values are read with the original label key whose sanitised form is stored at the same position; every key once")
	r.RuleDoc("C20.R3", "GetLabelsValues pairs namespace/name keys with the object's namespace/name at the same positions")
	r.RuleDoc("C20.R5", "the label-name sanitiser keeps exactly the characters [a-zA-Z0-9_] and replaces every other character by a character of that class")
	r.RuleDoc("C20.R6", "the condition readers behind the canary_paused / canary_failed values: IsConditionTrue is true exactly for an existing True condition; the lookup returns the found element and nil only when not found; the index function reports only a matching element")
	r.RuleDoc("C20.R4", "LabelKeys and LabelValues of every metric are built in lock-step from the same calls on the asserted object")
	r.Floor("C20.R1", 2+21+21) // 2 registrations, 21 families: kind + value each
	r.Floor("C20.R2", 4)
	r.Floor("C20.R3", 2)
	r.Floor("C20.R4", 21)
	r.Floor("C20.R5", 1)
	r.Floor("C20.R6", 4)
	r.NotCovered("that the sanitising function yields a legal Prometheus name and what happens to keys that collide after sanitising (both are exported, each with its own value); the numeric conversion's precision; the registration plumbing of kube-state-metrics and the informer store; semantics of the conditions helpers (IsConditionTrue)")

	fams := c20Families(r)
	derived := c20DerivedTable(r)
	build := r.Prog.Func(pkgUtils, "BuildInfoLabels")
	getLV := r.Prog.Func(pkgUtils, "GetLabelsValues")
	if build == nil || getLV == nil {
		r.Fatal("anchors %s.BuildInfoLabels / GetLabelsValues not found", pkgUtils)
		return
	}
	seenName := map[string]bool{}
	for _, f := range fams {
		c20Family1(r, f, derived, build, getLV)
		if seenName[f.name] {
			r.Check("C20.R1", "family "+f.name+" unique", r.Prog.Pos(f.pos), shortFunc(f.list), "family names are unique", false, "duplicate family name")
		}
		seenName[f.name] = true
	}
	c20BuildInfoLabels(r, build)
	c20Sanitisers(r, build)
	c20ConditionReaders(r)
	c20GetLabelsValues(r, getLV)
}

func c20Family1(r *Run, f c20Family, derived map[string]c20Derived, build, getLV *ssa.Function) {
	fn := f.gen
	pos := r.Prog.Pos(fn.Pos())
	sfn := shortFunc(f.list) // key by the list function + family name: closure numbers shift when families are added
	g, why := c20Analyse(fn)
	if g == nil {
		r.Undecided("C20.R1", "family "+f.name+" kind", pos, sfn, why)
		return
	}
	g.F, g.fr = f.F, f.fr
	if g.F == nil {
		g.F = newFrames(r.Prog)
		g.fr = g.F.top(fn)
	}
	kindOK := isPtrToNamed(g.typ, pkgAPI, f.kind)
	r.Check("C20.R1", "family "+f.name+" kind", pos, sfn, "generator asserts *"+f.kind+", the kind its family set is registered for", kindOK, "asserts "+g.typ.String())
	statusStruct := func() *types.Struct {
		_, t := structField(namedStruct(g.typ), "Status")
		if t == nil {
			return nil
		}
		return namedStruct(t)
	}()

	// classify the family by its name
	var field string // direct status field
	var der *c20Derived
	special := ""
	if i := strings.Index(f.name, "_status_"); i >= 0 {
		x := f.name[i+len("_status_"):]
		if d, ok := derived[f.kind+"|"+x]; ok {
			der = &d
		} else if statusStruct != nil {
			for j := 0; j < statusStruct.NumFields(); j++ {
				b, isB := statusStruct.Field(j).Type().Underlying().(*types.Basic)
				if isB && b.Info()&types.IsNumeric != 0 && c20Fold(jsonName(statusStruct, j)) == c20Fold(x) {
					field = statusStruct.Field(j).Name()
				}
			}
		}
	} else if i := strings.Index(f.name, "_"); i >= 0 {
		switch f.name[i+1:] {
		case "created", "labels":
			special = f.name[i+1:]
		}
	}
	construct := "family " + f.name + " value"
	if field == "" && der == nil && special == "" {
		r.Undecided("C20.R1", construct, pos, sfn, "family name matches neither a numeric status field of "+f.kind+" nor the derived-family table")
		return
	}

	paths, _, ok := funcPaths(fn, 5000)
	r.paths += len(paths)
	if !ok {
		r.Undecided("C20.R1", construct, pos, sfn, "path cap exceeded")
		return
	}
	valOK, pairOK := true, true
	valWhy, pairWhy := "", ""
	nPaths := 0
	skip := map[*ssa.Function]bool{build: true, getLV: true}
	scenes, whyS := c20Scenes(r, g, paths, skip)
	if scenes == nil {
		r.Undecided("C20.R1", construct, pos, sfn, whyS)
		return
	}
	defer func() { g.F.rets = nil }()
	for qi := 0; qi < len(scenes); qi++ {
		sc := scenes[qi]
		if len(scenes) > 4000 {
			valOK, valWhy = false, "undecided: too many combinations of paths"
			break
		}
		p := sc.parts[0].p
		res := sc.result()
		if res.v == nil {
			valOK, valWhy = false, "unexpected result count"
			continue
		}
		if isNilConst(res.v) {
			// no series: only when the object is not of the asserted kind
			if g.okFlag == nil || !p.Has(false, func(v ssa.Value, _ string) bool { return v == g.okFlag }) {
				valOK, valWhy = false, "returns no family on path ["+sc.facts()+"]"
			}
			continue
		}
		m, why := c20MetricOf(sc)
		if m == nil {
			valOK, valWhy = false, "undecided: "+why
			pairOK, pairWhy = false, "undecided: "+why
			continue
		}
		// helpers whose results feed the metric and must be read path by path
		inl := false
		for _, root := range []fval{m.value, m.keys, m.values} {
			if call, cfr := sc.feeder(r, root, skip, 0); call != nil && len(sc.parts) < 6 {
				if fn2, fr2 := sc.inlinable(call, cfr, skip); fn2 != nil {
					if next, okE := sc.expand(r, call, cfr, fn2, fr2); okE {
						scenes = append(scenes, next...)
						inl = true
						break
					}
				}
			}
		}
		if inl {
			continue
		}
		nPaths++
		valF := sc.valueF(m.value)
		val := valF.v
		inGen := sc.partOf(valF.fr) != nil
		g.cur = valF.fr
		switch {
		case field != "":
			if !g.isLoadOfF(valF, "Status", field) {
				valOK, valWhy = false, fmt.Sprintf("Value is %s, not a conversion of obj.Status.%s", c20DescribeF(g, valF), field)
			}
		case special == "labels":
			if !c20One(g, val) {
				valOK, valWhy = false, "Value of the label-info series is not the constant 1"
			}
		case special == "created":
			if !dependsOn(val, func(x ssa.Value) bool {
				pp := g.pathF(fval{v: x, fr: valF.fr})
				return len(pp) > 0 && pp[len(pp)-1] == "CreationTimestamp" || len(pp) > 1 && pp[len(pp)-2] == "CreationTimestamp"
			}) {
				valOK, valWhy = false, "Value does not derive from the object's CreationTimestamp"
			}
		case !inGen && !func() bool { z, isNum := constNum(val); return isNum && (z == 0 || z == 1) }():
			valOK, valWhy = false, "undecided: the value of a derived family is computed outside the generator: "+val.String()
		default:
			// the value, possibly as a 0/1 indicator of a boolean (a helper that returns 1 exactly for true):
			// one case per outcome, each with the facts the outcome adds to the path
			type vcase struct {
				val     ssa.Value
				extra   []Fact
				extraFr *frame
			}
			cases := []vcase{{val: val}}
			if call, isCall := val.(*ssa.Call); isCall {
				if bi, okI := c20Indicator(r, staticCallee(&call.Call)); okI {
					bv := sc.resolve(fval{v: call.Call.Args[bi], fr: valF.fr})
					if bpart := sc.partOf(bv.fr); bpart != nil {
						b := bv.v
						one := ssa.NewConst(constant.MakeInt64(1), types.Typ[types.Float64])
						zero := ssa.NewConst(constant.MakeInt64(0), types.Typ[types.Float64])
						if cb, isC := constBool(b); isC {
							if cb {
								cases = []vcase{{val: one}}
							} else {
								cases = []vcase{{val: zero}}
							}
						} else {
							k := newKeyer(bpart.fr.fn)
							cases = []vcase{{val: one, extra: k.normCond(b, true), extraFr: bv.fr}, {val: zero, extra: k.normCond(b, false), extraFr: bv.fr}}
						}
					}
				}
			}
			for _, vc := range cases {
				has := func(pol bool, a c20Atom) bool {
					if sc.has(pol, func(v ssa.Value, _ string) bool { return a.match(g, v) }) {
						return true
					}
					g.cur = vc.extraFr
					defer func() { g.cur = nil }()
					for _, f := range vc.extra {
						if f.Pol == pol && a.match(g, f.V) {
							return true
						}
					}
					return false
				}
				allTrue, someFalse := true, false
				var missing []string
				for _, a := range der.atoms {
					if !has(a.pol, a) {
						allTrue = false
						missing = append(missing, a.desc)
					}
					if has(!a.pol, a) {
						someFalse = true
					}
				}
				zero, isNum := constNum(vc.val)
				g.cur = valF.fr
				isOn := der.on(g, vc.val)
				g.cur = nil
				switch {
				case isOn:
					if !allTrue {
						valOK, valWhy = false, fmt.Sprintf("Value is %s on a path that does not establish %s", der.onDesc, strings.Join(missing, " ∧ "))
					}
				case isNum && zero == 0:
					if !someFalse {
						valOK, valWhy = false, "Value is 0 on a path where no defining fact is false: ["+sc.facts()+"]"
					}
				default:
					g.cur = valF.fr
					valOK, valWhy = false, fmt.Sprintf("Value is %s, neither %s nor 0", c20Describe(g, vc.val), der.onDesc)
					g.cur = nil
				}
			}
		}
		g.cur = nil
		// R4: lock-step construction of keys and values
		ks, ok1 := c20Seq(sc, nil, m.keys, 0)
		vs, ok2 := c20Seq(sc, nil, m.values, 0)
		if !ok1 || !ok2 {
			pairOK, pairWhy = false, "undecided: LabelKeys/LabelValues are not built from pair-function results, appends and literals"
			continue
		}
		if why := c20PairSeq(r, sc, ks, vs, build, getLV); why != "" {
			pairOK, pairWhy = false, why
		}
		if special == "labels" {
			has := false
			for _, e := range ks {
				if e.call != nil && staticCallee(&e.call.Call) == build {
					has = true
				}
			}
			if !has {
				pairOK, pairWhy = false, "the label-info family does not take its labels from BuildInfoLabels"
			}
		}
	}
	if nPaths == 0 && valOK {
		valOK, valWhy = false, "no path returns a family"
	}
	need := ""
	switch {
	case field != "":
		need = "Value is a conversion of obj.Status." + field + " (JSON name matches the family name)"
	case der != nil:
		var ds []string
		for _, a := range der.atoms {
			ds = append(ds, a.desc)
		}
		need = "Value is " + der.onDesc + " exactly when " + strings.Join(ds, " ∧ ") + ", else 0"
	default:
		need = "Value of the " + special + " family follows its definition"
	}
	r.Check("C20.R1", construct, pos, sfn, need, valOK, valWhy)
	r.Check("C20.R4", "family "+f.name+" labels", pos, sfn,
		"LabelKeys/LabelValues are the #0/#1 results of the same GetLabelsValues/BuildInfoLabels calls on the asserted object, plus constant keys paired one-to-one with values", pairOK, pairWhy)
}

func c20DescribeF(g *c20Gen, x fval) string {
	if p := g.pathF(x); p != nil {
		return "obj." + strings.Join(p, ".")
	}
	return x.v.String()
}

// c20Indicator recognises a repository function with one boolean parameter that returns the constant 1
// exactly on the paths where the parameter is true and the constant 0 exactly where it is false.
func c20Indicator(r *Run, fn *ssa.Function) (int, bool) {
	if fn == nil || !r.Prog.IsRuleSite(fn) || len(fn.Blocks) == 0 || fn.Signature.Results().Len() != 1 {
		return 0, false
	}
	bi := -1
	for i, p := range fn.Params {
		if bt, isB := p.Type().Underlying().(*types.Basic); isB && bt.Info()&types.IsBoolean != 0 {
			if bi >= 0 {
				return 0, false
			}
			bi = i
		}
	}
	if bi < 0 {
		return 0, false
	}
	paths, _, ok := funcPaths(fn, 200)
	if !ok || len(paths) == 0 {
		return 0, false
	}
	isB := func(v ssa.Value, _ string) bool { return v == ssa.Value(fn.Params[bi]) }
	for _, p := range paths {
		ret := returnOf(p.Blocks[len(p.Blocks)-1])
		z, isNum := constNum(p.Resolve(ret.Results[0]))
		switch {
		case isNum && z == 1 && p.Has(true, isB):
		case isNum && z == 0 && p.Has(false, isB):
		default:
			return 0, false
		}
	}
	return bi, true
}

func c20Describe(g *c20Gen, v ssa.Value) string {
	if p := g.path(v); p != nil {
		return "obj." + strings.Join(p, ".")
	}
	return v.String()
}

// c20Elem is one segment of a label slice: a whole result of a pair function, or one scalar.
type c20Elem struct {
	call   *ssa.Call
	idx    int
	scalar ssa.Value
	fr     *frame
}

// c20Seq reads a label slice as a sequence of segments; values are followed through helper
// parameters (F, fr), phis are resolved along the path p of the top frame.
func c20Seq(sc *c20Scene, p *Path, x fval, depth int) ([]c20Elem, bool) {
	if depth > 12 {
		return nil, false
	}
	if sc != nil {
		x = sc.resolve(x)
	} else if p != nil {
		x.v = p.Resolve(x.v)
	}
	switch y := x.v.(type) {
	case *ssa.Const:
		if y.IsNil() {
			return nil, true
		}
	case *ssa.Extract:
		if c, ok := y.Tuple.(*ssa.Call); ok {
			return []c20Elem{{call: c, idx: y.Index, fr: x.fr}}, true
		}
	case *ssa.Slice:
		if a, ok := y.X.(*ssa.Alloc); ok && y.Low == nil && y.High == nil {
			elems, ok := orderedArrayElems(a)
			if !ok {
				return nil, false
			}
			var out []c20Elem
			for _, e := range elems {
				out = append(out, c20Elem{scalar: e, fr: x.fr})
			}
			return out, true
		}
	case *ssa.Call:
		if _, ok := isBuiltinCall(y, "append"); ok {
			a, ok1 := c20Seq(sc, p, fval{v: y.Call.Args[0], fr: x.fr}, depth+1)
			if !ok1 {
				return nil, false
			}
			if len(y.Call.Args) < 2 {
				return a, true
			}
			b, ok2 := c20Seq(sc, p, fval{v: y.Call.Args[1], fr: x.fr}, depth+1)
			if !ok2 {
				return nil, false
			}
			return append(append([]c20Elem{}, a...), b...), true
		}
	}
	return nil, false
}

func c20PairSeq(r *Run, sc *c20Scene, ks, vs []c20Elem, build, getLV *ssa.Function) string {
	g := sc.g
	if len(ks) != len(vs) {
		return fmt.Sprintf("LabelKeys has %d segments, LabelValues %d", len(ks), len(vs))
	}
	for i := range ks {
		k, v := ks[i], vs[i]
		if (k.call == nil) != (v.call == nil) {
			return fmt.Sprintf("segment %d pairs a call result with a single element", i)
		}
		if k.call == nil {
			key, isC := constString(k.scalar)
			if !isC {
				return fmt.Sprintf("key at segment %d is not a constant", i)
			}
			if why := c20AuxLabel(r, sc, key, v); why != "" {
				return why
			}
			continue
		}
		if k.call != v.call || k.fr != v.fr {
			return fmt.Sprintf("segment %d: keys and values come from different calls", i)
		}
		if k.idx != 0 || v.idx != 1 {
			return fmt.Sprintf("segment %d: keys take result #%d and values result #%d of %s (need #0 / #1)", i, k.idx, v.idx, calleeName(&k.call.Call))
		}
		cal := staticCallee(&k.call.Call)
		if cal != build && cal != getLV {
			return fmt.Sprintf("segment %d comes from %s, which is not one of the verified pair functions", i, calleeName(&k.call.Call))
		}
		if len(k.call.Call.Args) != 1 || !samePath(g.pathF(fval{v: k.call.Call.Args[0], fr: k.fr}), []string{"ObjectMeta"}) {
			return fmt.Sprintf("segment %d: %s is not called on the asserted object's ObjectMeta", i, shortFunc(cal))
		}
	}
	return ""
}

// c20AuxLabel: the value paired with an auxiliary constant label key reports the status field the key
// stands for (table): "replicaset" ← Status.Canary.ReplicaSet while a canary is recorded, "" otherwise;
// "paused_reason" ← Reason of the Canary-Paused condition of the object's status.
func c20AuxLabel(r *Run, sc *c20Scene, key string, v c20Elem) string {
	g := sc.g
	x := sc.resolve(fval{v: v.scalar, fr: v.fr})
	switch key {
	case "replicaset":
		isCanaryNil := func(cv ssa.Value, _ string) bool {
			return isNilCompareOf(cv, func(y ssa.Value) bool { return g.isLoadOf(y, "Status", "Canary") })
		}
		switch {
		case sc.has(false, isCanaryNil):
			if !g.isLoadOfF(x, "Status", "Canary", "ReplicaSet") {
				return "label \"replicaset\" is " + x.v.String() + " on a path where status.canary is set: it must report status.canary.replicaSet"
			}
		case sc.has(true, isCanaryNil):
			if s, isC := constString(x.v); !isC || s != "" {
				return "label \"replicaset\" is not empty on a path where status.canary is nil"
			}
		default:
			if !g.isLoadOfF(x, "Status", "Canary", "ReplicaSet") {
				return "label \"replicaset\" is " + x.v.String() + ", not status.canary.replicaSet"
			}
		}
		return ""
	case "paused_reason":
		want, _ := r.Prog.constStr(pkgAPI, "ConditionTypeEDSCanaryPaused")
		root, path := accessPath(unwrap(x.v))
		call, isCall := root.(*ssa.Call)
		if !isCall || !samePath(path, []string{"Reason"}) || staticCallee(&call.Call) == nil || len(call.Call.Args) != 2 {
			return "label \"paused_reason\" is not the Reason of a status condition"
		}
		cs, isC := constString(call.Call.Args[1])
		g.cur = x.fr
		ofStatus := g.isPath(call.Call.Args[0], "Status")
		g.cur = nil
		if !isC || cs != want || !ofStatus || !isPtrToNamed(call.Type(), pkgAPI, "ExtendedDaemonSetCondition") {
			return "label \"paused_reason\" is not the Reason of the object's Canary-Paused condition"
		}
		return ""
	}
	return "undecided: auxiliary label \"" + key + "\" has no entry in the label table"
}

// ---------------------------------------------------------------------------------------------
// R6: the condition readers the metric values rely on

// c20ConditionReaders: IsConditionTrue(status, t) of both conditions packages returns true exactly when
// the condition returned by the lookup is non-nil and has Status == True; the lookup returns nil
// exactly when the index function reported "not found" and the element at the reported index
// otherwise; the index function reports an index only for an element whose Type equals t.
func c20ConditionReaders(r *Run) {
	for _, pkg := range []string{pkgEDSCond, pkgERSCond} {
		fn := r.Prog.Func(pkg, "IsConditionTrue")
		if fn == nil {
			r.Fatal("anchor %s.IsConditionTrue not found", pkg)
			continue
		}
		cr := &c20CondReader{r: r, done: map[*ssa.Function]bool{}}
		cr.isTrue(fn)
	}
}

// c20CondReader analyses the functions that find a condition by type in status.Conditions. An "index
// value" of a function with parameters (status, t) is the result of a verified index finder called
// with (status, t), or of slices.IndexFunc(status.Conditions, func(c) bool { return c.Type == t });
// it is negative exactly when no element matches. A "match fact" for i is Conditions[i].Type == t.
type c20CondReader struct {
	r    *Run
	done map[*ssa.Function]bool
}

func c20CondsOf(v ssa.Value, status *ssa.Parameter) bool {
	root, pp := accessPath(v)
	return root == ssa.Value(status) && samePath(pp, []string{"Conditions"})
}

// indexValue: v is an index value of fn (see above).
func (c *c20CondReader) indexValue(fn *ssa.Function, v ssa.Value) bool {
	call, ok := v.(*ssa.Call)
	if !ok || len(fn.Params) != 2 {
		return false
	}
	status, t := fn.Params[0], fn.Params[1]
	if strings.HasPrefix(calleeName(&call.Call), "slices.IndexFunc") && len(call.Call.Args) == 2 {
		if !c20CondsOf(call.Call.Args[0], status) {
			return false
		}
		F := newFrames(c.r.Prog)
		top := F.top(fn)
		var cl *ssa.Function
		clFr := &frame{}
		switch f := call.Call.Args[1].(type) {
		case *ssa.Function:
			cl = f
		case *ssa.MakeClosure:
			cl, _ = f.Fn.(*ssa.Function)
			for _, bnd := range f.Bindings {
				clFr.free = append(clFr.free, fval{v: bnd, fr: top})
			}
		}
		if cl == nil || len(cl.Params) != 1 {
			return false
		}
		clFr.fn = cl
		clFr.id = -1
		bo, isB := singleReturn(cl, 0).(*ssa.BinOp)
		if !isB || bo.Op != token.EQL {
			return false
		}
		for _, pr := range [][2]ssa.Value{{bo.X, bo.Y}, {bo.Y, bo.X}} {
			root, pp := accessPathThroughCopies(unwrap(pr[0]))
			if a, isA := root.(*ssa.Alloc); isA { // the by-value parameter spilled into a local
				if st, ro := readOnlyCopy(a); ro {
					root = st.Val
				}
			}
			if root != ssa.Value(cl.Params[0]) || !samePath(pp, []string{"Type"}) {
				continue
			}
			if x := F.resolve(fval{v: pr[1], fr: clFr}); x.v == ssa.Value(t) {
				return true
			}
		}
		return false
	}
	cal := staticCallee(&call.Call)
	if cal == nil || !c.r.Prog.IsRuleSite(cal) || len(call.Call.Args) != 2 || call.Call.Args[0] != ssa.Value(status) || call.Call.Args[1] != ssa.Value(t) {
		return false
	}
	if bt, isB := call.Type().Underlying().(*types.Basic); !isB || bt.Info()&types.IsInteger == 0 {
		return false
	}
	return c.index(cal)
}

// notFound reads the facts of a path about an index value: (negative, non-negative).
func c20NotFound(p *Path, index ssa.Value) (yes, no bool) {
	for _, f := range p.Facts {
		bo, isB := f.V.(*ssa.BinOp)
		if !isB {
			continue
		}
		var other ssa.Value
		flipped := false
		if bo.X == index {
			other = bo.Y
		} else if bo.Y == index {
			other, flipped = bo.X, true
		}
		if other == nil {
			continue
		}
		cv, isC := constInt(other)
		if !isC {
			continue
		}
		truth := f.Pol
		switch bo.Op {
		case token.NEQ, token.GEQ, token.LEQ:
			truth = !f.Pol
		}
		op := bo.Op
		if flipped {
			switch op {
			case token.LSS:
				op = token.GTR
			case token.GTR:
				op = token.LSS
			case token.LEQ:
				op = token.GEQ
			case token.GEQ:
				op = token.LEQ
			}
		}
		means := 0 // +1: the comparison being true means "not found", -1: means "found"
		switch {
		case op == token.EQL && cv == -1, op == token.LSS && cv == 0, op == token.LEQ && cv == -1:
			means = 1
		case op == token.NEQ && cv == -1, op == token.GEQ && cv == 0, op == token.GTR && cv == -1:
			means = -1
		}
		if means == 0 {
			continue
		}
		if (means == 1) == truth {
			yes = true
		} else {
			no = true
		}
	}
	return
}

// matches: index values i with the fact Conditions[i].Type == t on the path.
func c20Matches(p *Path, k *keyer, status, t *ssa.Parameter) []ssa.Value {
	var out []ssa.Value
	for _, f := range p.Facts {
		if !f.Pol {
			continue
		}
		x, y, isEq := eqOperands(f.V)
		if !isEq {
			continue
		}
		for _, pr := range [][2]ssa.Value{{x, y}, {y, x}} {
			if pr[1] != ssa.Value(t) {
				continue
			}
			root, pp := accessPath(unwrap(pr[0]))
			if !samePath(pp, []string{"Type"}) {
				continue
			}
			S, idx, okE := c13Elem(k, root)
			if okE && c20CondsOf(S, status) {
				out = append(out, idx)
			}
		}
	}
	return out
}

// elemOf: v is &status.Conditions[i]; returns i.
func c20ElemAddr(v ssa.Value, status *ssa.Parameter) (ssa.Value, bool) {
	ia, ok := v.(*ssa.IndexAddr)
	if !ok || !c20CondsOf(ia.X, status) {
		return nil, false
	}
	return ia.Index, true
}

func (c *c20CondReader) isTrue(fn *ssa.Function) {
	r := c.r
	sf := shortFunc(fn)
	pos := r.Prog.Pos(fn.Pos())
	const cA = "true exactly for an existing True condition"
	paths, _, ok := funcPaths(fn, 2000)
	r.paths += len(paths)
	if !ok || len(fn.Params) != 2 {
		r.Undecided("C20.R6", cA, pos, sf, "path cap exceeded or unexpected signature")
		return
	}
	status, t := fn.Params[0], fn.Params[1]
	trueVal, _ := r.Prog.constStr(pkgCoreV1, "ConditionTrue")
	if trueVal == "" {
		trueVal = "True"
	}
	// the element the verdict is about: the pointer a verified lookup returned, or Conditions[i] for an index value i
	var lookup *ssa.Call
	for _, ci := range callsIn(fn) {
		call, isCall := ci.(*ssa.Call)
		if !isCall {
			continue
		}
		cal := staticCallee(&call.Call)
		if cal == nil || !r.Prog.IsRuleSite(cal) || len(call.Call.Args) != 2 || call.Call.Args[0] != ssa.Value(status) || call.Call.Args[1] != ssa.Value(t) {
			continue
		}
		if _, isPtr := call.Type().Underlying().(*types.Pointer); isPtr && c.lookup(cal) {
			lookup = call
		}
	}
	// element accessor of a Status load: (kind, index value)
	elemOfStatus := func(x ssa.Value) (isLookup bool, idx ssa.Value, ok bool) {
		root, pp := accessPath(unwrap(x))
		if !samePath(pp, []string{"Status"}) {
			return false, nil, false
		}
		if lookup != nil && root == ssa.Value(lookup) {
			return true, nil, true
		}
		if i, isE := c20ElemAddr(root, status); isE && c.indexValue(fn, i) {
			return false, i, true
		}
		return false, nil, false
	}
	okA, whyA := true, ""
	nTrue := 0
	for _, p := range paths {
		ret := returnOf(p.Blocks[len(p.Blocks)-1])
		res := p.Resolve(ret.Results[0])
		// S facts and found facts on this path
		sT, sF, found, notFound := false, false, false, false
		consider := func(v ssa.Value, pol bool, have bool) (isS bool) {
			x, y, isEq := eqOperands(v)
			if !isEq {
				return false
			}
			for _, pr := range [][2]ssa.Value{{x, y}, {y, x}} {
				if sv, isC := constString(pr[1]); !isC || sv != trueVal {
					continue
				}
				isL, idx, okE := elemOfStatus(pr[0])
				if !okE {
					continue
				}
				if have {
					if pol {
						sT = true
					} else {
						sF = true
					}
				}
				// existence of the element
				if isL {
					if p.Has(false, func(cv ssa.Value, _ string) bool {
						return isNilCompareOf(cv, func(z ssa.Value) bool { return z == ssa.Value(lookup) })
					}) {
						found = true
					}
				} else {
					nf, fd := c20NotFound(p, idx)
					found = found || fd
					notFound = notFound || nf
				}
				return true
			}
			return false
		}
		for _, f := range p.Facts {
			consider(f.V, f.Pol, true)
		}
		if lookup != nil && p.Has(true, func(cv ssa.Value, _ string) bool {
			return isNilCompareOf(cv, func(z ssa.Value) bool { return z == ssa.Value(lookup) })
		}) {
			notFound = true
		}
		// not-found facts on index values used without a Status comparison on this path
		for _, ci := range callsIn(fn) {
			if call, isCall := ci.(*ssa.Call); isCall && c.indexValue(fn, call) {
				nf, _ := c20NotFound(p, call)
				notFound = notFound || nf
			}
		}
		if b, isC := constBool(res); isC {
			switch {
			case b:
				nTrue++
				if !(sT && found) {
					okA, whyA = false, fmt.Sprintf("returns true on path [%s] without both facts: the condition exists (%v) and its Status == True (%v)", shortFacts(p), found, sT)
				}
			case !(notFound || sF):
				okA, whyA = false, "returns false on path ["+shortFacts(p)+"] although the condition exists with Status True"
			}
			continue
		}
		// the comparison itself is returned: the verdict is Status == True of an element known to exist
		if bo, isB := res.(*ssa.BinOp); isB && bo.Op == token.EQL && consider(res, true, false) && found {
			nTrue++
			continue
		}
		okA, whyA = false, "undecided: result is neither a constant nor `element.Status == True` for an element known to exist: "+res.String()
	}
	if nTrue == 0 && okA {
		okA, whyA = false, "IsConditionTrue never returns true"
	}
	r.Check("C20.R6", cA, pos, sf, "IsConditionTrue returns true exactly when the condition of the requested type exists and its Status is True (metric values canary_paused / canary_failed rely on it)", okA, whyA)
}

// lookup verifies a pointer finder (once) and reports whether fn is one.
func (c *c20CondReader) lookup(fn *ssa.Function) bool {
	if len(fn.Params) != 2 || len(fn.Blocks) == 0 {
		return false
	}
	if c.done[fn] {
		return true
	}
	c.done[fn] = true
	r := c.r
	sf := shortFunc(fn)
	pos := r.Prog.Pos(fn.Pos())
	const cB = "lookup returns the found element, nil only when not found"
	paths, k, ok := funcPaths(fn, 2000)
	r.paths += len(paths)
	if !ok {
		r.Undecided("C20.R6", cB, pos, sf, "path cap exceeded")
		return true
	}
	status, t := fn.Params[0], fn.Params[1]
	okB, whyB := true, ""
	nElem := 0
	for _, p := range paths {
		ret := returnOf(p.Blocks[len(p.Blocks)-1])
		res := p.Resolve(ret.Results[0])
		matched := c20Matches(p, k, status, t)
		if isNilConst(res) {
			// not found: a negative index value, or no matching element on the path
			bad := len(matched) > 0
			for _, ci := range callsIn(fn) {
				if call, isCall := ci.(*ssa.Call); isCall && c.indexValue(fn, call) && p.Contains(call.Block()) {
					if nf, _ := c20NotFound(p, call); !nf {
						if !p.Has(true, func(cv ssa.Value, _ string) bool { return isNilCompareOf(cv, isParam(status)) }) {
							bad = true
						}
					}
				}
			}
			if bad {
				okB, whyB = false, "returns nil on path ["+shortFacts(p)+"] although a matching condition was found"
			}
			continue
		}
		i, isE := c20ElemAddr(res, status)
		if !isE {
			okB, whyB = false, "undecided: returns something other than nil or &status.Conditions[i]: "+res.String()
			continue
		}
		nElem++
		good := false
		for _, m := range matched {
			if m == i {
				good = true
			}
		}
		if !good && c.indexValue(fn, i) {
			_, fd := c20NotFound(p, i)
			good = fd
		}
		if !good {
			okB, whyB = false, "returns &status.Conditions[i] on path ["+shortFacts(p)+"] without knowing that element i is the condition of the requested type"
		}
	}
	if nElem == 0 && okB {
		okB, whyB = false, "the lookup never returns an element"
	}
	r.Check("C20.R6", cB, pos, sf, "the condition lookup returns &status.Conditions[i] only for the element of the requested type, and nil only when there is none", okB, whyB)
	return true
}

// index verifies an index finder (once).
func (c *c20CondReader) index(fn *ssa.Function) bool {
	if len(fn.Params) != 2 || len(fn.Blocks) == 0 {
		return false
	}
	if c.done[fn] {
		return true
	}
	c.done[fn] = true
	r := c.r
	sf := shortFunc(fn)
	pos := r.Prog.Pos(fn.Pos())
	const cC = "index function reports only a matching element"
	paths, k, ok := funcPaths(fn, 2000)
	r.paths += len(paths)
	if !ok {
		r.Undecided("C20.R6", cC, pos, sf, "path cap exceeded")
		return true
	}
	status, t := fn.Params[0], fn.Params[1]
	okC, whyC := true, ""
	nIdx := 0
	for _, p := range paths {
		ret := returnOf(p.Blocks[len(p.Blocks)-1])
		res := p.Resolve(ret.Results[0])
		matched := c20Matches(p, k, status, t)
		if cv, isC := constInt(res); isC {
			if cv >= 0 {
				// a loop counter that is this constant on this path (first iteration of a counting loop)
				// (the returned value must BE the counter of the matching fact, not merely equal it here)
				good := false
				v := ret.Results[0]
				for i := 0; i < 32 && !good; i++ {
					for _, m := range matched {
						if _, litC := m.(*ssa.Const); !litC && m == v {
							good = true
						}
					}
					w := p.ResolveOnce(v)
					if w == v {
						break
					}
					v = w
				}
				if good {
					nIdx++
				} else {
					okC, whyC = false, "returns a constant index"
				}
			} else if len(matched) > 0 {
				okC, whyC = false, "reports not-found on a path where an element's Type equals t"
			}
			continue
		}
		nIdx++
		good := c.indexValue(fn, res) // slices.IndexFunc over the conditions with the matching predicate, or another finder
		for _, m := range matched {
			if m == res {
				good = true
			}
		}
		if !good {
			okC, whyC = false, "returns index "+res.Name()+" on path ["+shortFacts(p)+"] without the fact Conditions[index].Type == t"
		}
	}
	if nIdx == 0 && okC {
		okC, whyC = false, "the index function never reports an index"
	}
	r.Check("C20.R6", cC, pos, sf, "an index is reported only for the element whose Type equals the requested type; not-found is never reported past a matching element", okC, whyC)
	return true
}

// ---------------------------------------------------------------------------------------------
// R3

func c20GetLabelsValues(r *Run, fn *ssa.Function) {
	pos := r.Prog.Pos(fn.Pos())
	paths, _, ok := funcPaths(fn, 100)
	if !ok || len(fn.Params) != 1 {
		r.Undecided("C20.R3", "pairing", pos, shortFunc(fn), "path cap exceeded or unexpected signature")
		return
	}
	obj := isParam(fn.Params[0])
	for i, p := range paths {
		ret := returnOf(p.Blocks[len(p.Blocks)-1])
		construct := fmt.Sprintf("return %d", i)
		if len(ret.Results) != 2 {
			r.Undecided("C20.R3", construct, pos, shortFunc(fn), "unexpected result count")
			continue
		}
		ks, ok1 := c20Seq(nil, p, fval{v: ret.Results[0]}, 0)
		vs, ok2 := c20Seq(nil, p, fval{v: ret.Results[1]}, 0)
		if !ok1 || !ok2 {
			r.Undecided("C20.R3", construct, r.Prog.Pos(instrPos(ret)), shortFunc(fn), "results are not slice literals")
			continue
		}
		good := len(ks) == len(vs) && len(ks) > 0
		why := fmt.Sprintf("%d keys, %d values", len(ks), len(vs))
		nNS, nName := 0, 0
		for j := 0; good && j < len(ks); j++ {
			key, isC := constString(ks[j].scalar)
			if ks[j].scalar == nil || vs[j].scalar == nil || !isC {
				good, why = false, fmt.Sprintf("position %d is not a constant key with one value", j)
				break
			}
			switch key {
			case "namespace":
				nNS++
				if !namespaceOf(obj)(vs[j].scalar) {
					good, why = false, fmt.Sprintf("key %q at position %d is paired with %s", key, j, vs[j].scalar.String())
				}
			case "name":
				nName++
				if !nameOf(obj)(vs[j].scalar) {
					good, why = false, fmt.Sprintf("key %q at position %d is paired with %s", key, j, vs[j].scalar.String())
				}
			default:
				good, why = false, fmt.Sprintf("unknown key %q", key)
			}
		}
		if good && (nNS != 1 || nName != 1) {
			good, why = false, "namespace and name keys must each appear once"
		}
		r.Check("C20.R3", construct, r.Prog.Pos(instrPos(ret)), shortFunc(fn), "keys \"namespace\"/\"name\" are paired position-wise with obj.GetNamespace()/obj.GetName()", good, why)
		r.Check("C20.R3", construct+" arity", r.Prog.Pos(instrPos(ret)), shortFunc(fn), "exactly the two identifying labels", len(ks) == 2, why)
	}
}

// ---------------------------------------------------------------------------------------------
// R2

// The label-info analysis follows every string of BuildInfoLabels back to one entry of obj.Labels:
// a token (one iteration of `range obj.Labels`, or one element S[i] of a collection filled once per
// iteration) and a role (the original key, its image under one function call — the sanitised name —
// or the value).

type c20Role int

const (
	c20Key c20Role = iota
	c20Name
	c20Value
)

func (r c20Role) String() string { return [...]string{"key", "name", "value"}[r] }

type c20Tok struct {
	next *ssa.Next // one iteration of range obj.Labels
	coll *c20Coll  // or element idx of a collection
	idx  ssa.Value
}

type c20Cls struct {
	tok  c20Tok
	role c20Role
}

// c20Coll is a slice filled with exactly one element per iteration of range obj.Labels.
type c20Coll struct {
	rep      ssa.Value // *ssa.Alloc (variable cell) or *ssa.Phi (loop variable)
	records  bool      // elements are structs; roles maps field name -> role
	roles    map[string]c20Role
	next     *ssa.Next
	ok       bool
	why      string
	complete bool   // one append on every iteration, starts empty, never reassigned
	whyC     string // why not complete
}

type c20Lab struct {
	prog  *Prog
	fn    *ssa.Function
	obj   *ssa.Parameter
	k     *keyer
	colls map[ssa.Value]*c20Coll
	why   string
}

func (c *c20Lab) fail(why string) (c20Cls, bool) {
	if c.why == "" {
		c.why = why
	}
	return c20Cls{}, false
}

func (c *c20Lab) isLabelsMap(v ssa.Value) bool {
	u, ok := v.(*ssa.UnOp)
	if !ok || u.Op != token.MUL {
		if call, isCall := v.(*ssa.Call); isCall && strings.HasSuffix(calleeName(&call.Call), ".GetLabels") && len(call.Call.Args) == 1 {
			root, p := accessPath(call.Call.Args[0])
			return root == ssa.Value(c.obj) && len(stripMeta(p)) == 0
		}
		return false
	}
	root, p := accessPath(v)
	return root == ssa.Value(c.obj) && samePath(stripMeta(p), []string{"Labels"})
}

func (c *c20Lab) labelsNext(v ssa.Value) *ssa.Next {
	ex, ok := v.(*ssa.Extract)
	if !ok {
		return nil
	}
	nx, ok := ex.Tuple.(*ssa.Next)
	if !ok {
		return nil
	}
	rg, ok := nx.Iter.(*ssa.Range)
	if !ok || !c.isLabelsMap(rg.X) {
		return nil
	}
	return nx
}

// c20RepOf returns the representative of a slice value: its variable cell or its loop phi.
func c20RepOf(v ssa.Value) ssa.Value {
	for i := 0; i < 8; i++ {
		switch x := v.(type) {
		case *ssa.ChangeType:
			v = x.X
			continue
		case *ssa.Convert:
			v = x.X
			continue
		case *ssa.UnOp:
			if a, ok := x.X.(*ssa.Alloc); ok && x.Op == token.MUL {
				return a
			}
		case *ssa.Phi:
			return x
		}
		break
	}
	return nil
}

func c20IsEmptySlice(v ssa.Value) bool {
	switch x := v.(type) {
	case *ssa.MakeSlice:
		n, ok := constInt(x.Len)
		return ok && n == 0
	case *ssa.Const:
		return x.IsNil()
	case *ssa.Slice:
		if a, ok := x.X.(*ssa.Alloc); ok {
			if at, isArr := a.Type().Underlying().(*types.Pointer).Elem().Underlying().(*types.Array); isArr && at.Len() == 0 {
				return true
			}
		}
	case *ssa.ChangeType:
		return c20IsEmptySlice(x.X)
	}
	return false
}

// accum splits the definitions of a slice variable into its initial values and its `x = append(x, …)` steps.
func c20Accum(rep ssa.Value) (inits []ssa.Value, steps []*ssa.Call, stepBlocks []*ssa.BasicBlock) {
	switch x := rep.(type) {
	case *ssa.Alloc:
		for _, st := range cellStores(x) {
			if ap, isAp := isBuiltinCall(st.Val, "append"); isAp {
				if l, isL := ap.Call.Args[0].(*ssa.UnOp); isL && l.X == ssa.Value(x) {
					steps = append(steps, ap)
					stepBlocks = append(stepBlocks, st.Block())
					continue
				}
			}
			inits = append(inits, st.Val)
		}
	case *ssa.Phi:
		for _, e := range x.Edges {
			if e == ssa.Value(x) {
				continue
			}
			if ap, isAp := isBuiltinCall(e, "append"); isAp && ap.Call.Args[0] == ssa.Value(x) {
				dup := false
				for _, s := range steps {
					if s == ap {
						dup = true
					}
				}
				if !dup {
					steps = append(steps, ap)
					stepBlocks = append(stepBlocks, ap.Block())
				}
				continue
			}
			inits = append(inits, e)
		}
	}
	return
}

// appendedElem returns the single element appended by `append(x, e)`.
func c20AppendedElem(ap *ssa.Call) (litElem, bool) {
	if len(ap.Call.Args) != 2 {
		return litElem{}, false
	}
	arr := sliceLit(ap.Call.Args[1])
	if arr == nil {
		return litElem{}, false
	}
	el, ok := litElems(arr)
	if !ok || len(el) != 1 {
		return litElem{}, false
	}
	return el[0], true
}

func (c *c20Lab) coll(S ssa.Value) *c20Coll {
	rep := c20RepOf(S)
	if rep == nil {
		return nil
	}
	if cl, ok := c.colls[rep]; ok {
		return cl
	}
	cl := &c20Coll{rep: rep, roles: map[string]c20Role{}}
	c.colls[rep] = cl
	inits, steps, stepBlocks := c20Accum(rep)
	if len(steps) != 1 || len(inits) != 1 {
		cl.why = fmt.Sprintf("the slice has %d initialisations and %d appends (need one each)", len(inits), len(steps))
		return cl
	}
	el, ok := c20AppendedElem(steps[0])
	if !ok {
		cl.why = "the append does not add exactly one element"
		return cl
	}
	// element
	if base := el.structBase(); base != nil && namedStruct(base.Type()) != nil {
		st := namedStruct(base.Type())
		cl.records = true
		for i := 0; i < st.NumFields(); i++ {
			f := st.Field(i).Name()
			vs := fieldStores(base, f)
			if len(vs) == 0 {
				continue // zero value: carries no label data
			}
			if len(vs) != 1 {
				cl.why = "field " + f + " of the collected record is stored more than once"
				return cl
			}
			cls, okc := c.classify(vs[0], 0)
			if !okc || cls.tok.next == nil || (cl.next != nil && cls.tok.next != cl.next) {
				cl.why = "field " + f + " of the collected record does not stem from the current entry of range obj.Labels (" + c.why + ")"
				return cl
			}
			cl.next = cls.tok.next
			cl.roles[f] = cls.role
		}
		if a, isA := base.(*ssa.Alloc); isA {
			if _, ro := readOnlyLiteral(a); !ro {
				cl.why = "the collected record is modified after it was built"
				return cl
			}
		}
	} else if el.val != nil {
		cls, okc := c.classify(el.val, 0)
		if !okc || cls.tok.next == nil || cls.role != c20Key {
			cl.why = "the appended element is not the key of range obj.Labels (" + c.why + ")"
			return cl
		}
		cl.next = cls.tok.next
	} else {
		cl.why = "the appended element is not understood"
		return cl
	}
	if cl.next == nil {
		cl.why = "the collected elements carry no label data"
		return cl
	}
	if why := c.collUses(cl); why != "" {
		cl.why = why
		return cl
	}
	cl.ok = true
	// completeness
	header := cl.next.Block()
	switch {
	case !c20IsEmptySlice(inits[0]):
		cl.whyC = "the collection does not start empty"
	case len(header.Succs) != 2:
		cl.whyC = "undecided: range loop shape"
	case !onEveryIteration(c.fn, header.Succs[0], header, stepBlocks[0]):
		cl.whyC = "some label keys are skipped (the append is not executed on every iteration)"
	default:
		cl.complete = true
	}
	return cl
}

// collUses: every use of the collection keeps it a multiset of entries: element reads, len, the
// append step, permutation by sort (also through sort.Interface methods of its named type, which
// must only move elements), read-only capture by closures.
func (c *c20Lab) collUses(cl *c20Coll) string {
	seen := map[ssa.Value]bool{}
	var uses func(v ssa.Value) string
	elemAddr := func(x *ssa.IndexAddr) string {
		for _, r2 := range refs(x) {
			switch y := r2.(type) {
			case *ssa.UnOp:
				if y.Op != token.MUL {
					return "address of an element is used"
				}
			case *ssa.FieldAddr:
				for _, r3 := range refs(y) {
					if l, isL := r3.(*ssa.UnOp); !isL || l.Op != token.MUL {
						if _, isD := r3.(*ssa.DebugRef); !isD {
							return "a field of a collected element is written or its address escapes"
						}
					}
				}
			case *ssa.Call:
				// method on the element taking its address: only known readers
				if !knownReader(calleeName(&y.Call)) {
					return "a collected element is passed to " + calleeName(&y.Call)
				}
			case *ssa.DebugRef:
			default:
				return "an element of the collection is written outside the append"
			}
		}
		return ""
	}
	uses = func(v ssa.Value) string {
		if seen[v] {
			return ""
		}
		seen[v] = true
		for _, rr := range refs(v) {
			switch x := rr.(type) {
			case *ssa.IndexAddr:
				if why := elemAddr(x); why != "" {
					return why
				}
			case *ssa.Index, *ssa.DebugRef, *ssa.Return:
				if _, isRet := rr.(*ssa.Return); isRet {
					return "the collection itself is returned"
				}
			case *ssa.Phi:
				if c20RepOf(x) != cl.rep {
					return "the collection is merged with another slice"
				}
				if why := uses(x); why != "" {
					return why
				}
			case *ssa.Store:
				if x.Addr != cl.rep || x.Val != v {
					return "the collection is stored outside its variable"
				}
			case *ssa.Slice, *ssa.ChangeType, *ssa.Convert:
				if why := uses(rr.(ssa.Value)); why != "" {
					return why
				}
			case *ssa.Call:
				n := calleeName(&x.Call)
				switch {
				case strings.HasPrefix(n, "builtin:len"), strings.HasPrefix(n, "builtin:cap"), strings.HasPrefix(n, "builtin:append"):
				case strings.HasPrefix(n, "sort.Strings"), strings.HasPrefix(n, "slices.Sort"), strings.HasPrefix(n, "sort.Sort"), strings.HasPrefix(n, "sort.Stable"):
				default:
					return "the collection is passed to " + n
				}
			case *ssa.MakeInterface:
				for _, r2 := range refs(x) {
					call, ok := r2.(*ssa.Call)
					if !ok {
						if _, isD := r2.(*ssa.DebugRef); isD {
							continue
						}
						return "the collection is converted to an interface and kept"
					}
					n := calleeName(&call.Call)
					if !strings.HasPrefix(n, "sort.Slice") && !strings.HasPrefix(n, "sort.Sort") && !strings.HasPrefix(n, "sort.Stable") {
						return "the collection is passed to " + n
					}
				}
				// sort.Interface: the methods of the named type may only move elements
				if why := c.permutingMethods(x.X.Type()); why != "" {
					return why
				}
			default:
				return "unexpected use of the collection: " + rr.String()
			}
		}
		return ""
	}
	switch rep := cl.rep.(type) {
	case *ssa.Phi:
		if why := uses(rep); why != "" {
			return why
		}
		_, steps, _ := c20Accum(rep)
		for _, s := range steps {
			if why := uses(s); why != "" {
				return why
			}
		}
	case *ssa.Alloc:
		for _, rr := range refs(rep) {
			switch x := rr.(type) {
			case *ssa.Store:
				if x.Addr != ssa.Value(rep) {
					return "the address of the collection variable is stored"
				}
			case *ssa.UnOp:
				if x.Op != token.MUL {
					return "unexpected use of the collection variable"
				}
				if why := uses(x); why != "" {
					return why
				}
			case *ssa.MakeClosure:
				cf, _ := x.Fn.(*ssa.Function)
				if cf == nil {
					return "the collection variable is captured by an unknown closure"
				}
				for i, b := range x.Bindings {
					if b == ssa.Value(rep) && !c20ClosureReadsOnly(cf.FreeVars[i]) {
						return "a closure capturing the collection writes to it"
					}
				}
			case *ssa.DebugRef:
			default:
				return "the collection variable escapes"
			}
		}
	}
	return ""
}

func c20ClosureReadsOnly(fv *ssa.FreeVar) bool {
	for _, rr := range refs(fv) {
		u, ok := rr.(*ssa.UnOp)
		if !ok || u.Op != token.MUL {
			return false
		}
		for _, r2 := range refs(u) {
			switch y := r2.(type) {
			case *ssa.IndexAddr:
				for _, r3 := range refs(y) {
					switch z := r3.(type) {
					case *ssa.UnOp:
						if z.Op != token.MUL {
							return false
						}
					case *ssa.FieldAddr:
						for _, r4 := range refs(z) {
							if l, isL := r4.(*ssa.UnOp); !isL || l.Op != token.MUL {
								return false
							}
						}
					default:
						return false
					}
				}
			case *ssa.Call:
				if _, isLen := isBuiltinCall(y, "len"); !isLen {
					return false
				}
			case *ssa.DebugRef:
			default:
				return false
			}
		}
	}
	return true
}

// permutingMethods: the repository methods of a named slice type store into elements of the
// receiver only values loaded from elements of the receiver (Swap), so sorting through
// sort.Interface permutes the collection.
func (c *c20Lab) permutingMethods(t types.Type) string {
	named, ok := t.(*types.Named)
	if !ok {
		return ""
	}
	for _, tt := range []types.Type{named, types.NewPointer(named)} {
		ms := c.prog.SSA.MethodSets.MethodSet(tt)
		for i := 0; i < ms.Len(); i++ {
			m := c.prog.SSA.MethodValue(ms.At(i))
			if m == nil || len(m.Blocks) == 0 || m.Synthetic != "" || len(m.Params) == 0 {
				continue
			}
			recv := m.Params[0]
			fromRecv := func(v ssa.Value) bool {
				root, _ := deepPath(v)
				return root == ssa.Value(recv)
			}
			for _, b := range m.Blocks {
				for _, in := range b.Instrs {
					switch x := in.(type) {
					case *ssa.Store:
						if !fromRecv(x.Addr) {
							continue
						}
						if u, isL := x.Val.(*ssa.UnOp); !isL || u.Op != token.MUL || !fromRecv(u.X) {
							return "method " + m.Name() + " of the collection's type writes something other than one of its own elements"
						}
					case *ssa.MapUpdate:
						return "method " + m.Name() + " of the collection's type updates a map"
					}
				}
			}
		}
	}
	return ""
}

// classify follows a string back to (entry token, role).
func (c *c20Lab) classify(v ssa.Value, depth int) (c20Cls, bool) {
	if depth > 12 {
		return c.fail("value too deep")
	}
	switch x := v.(type) {
	case *ssa.Extract:
		if nx := c.labelsNext(x); nx != nil {
			switch x.Index {
			case 1:
				return c20Cls{c20Tok{next: nx}, c20Key}, true
			case 2:
				return c20Cls{c20Tok{next: nx}, c20Value}, true
			}
		}
		if l, ok := x.Tuple.(*ssa.Lookup); ok && x.Index == 0 {
			return c.classify(l, depth+1)
		}
	case *ssa.Lookup:
		if c.isLabelsMap(x.X) {
			kc, ok := c.classify(x.Index, depth+1)
			if !ok {
				return kc, false
			}
			if kc.role != c20Key {
				return c.fail("obj.Labels is indexed with a derived (" + kc.role.String() + ") value, not an original key")
			}
			return c20Cls{kc.tok, c20Value}, true
		}
	case *ssa.Call:
		if _, isB := x.Call.Value.(*ssa.Builtin); !isB && staticCallee(&x.Call) != nil {
			var arg ssa.Value
			n := 0
			for _, a := range x.Call.Args {
				if _, isC := a.(*ssa.Const); isC {
					continue
				}
				n++
				arg = a
			}
			if n == 1 {
				kc, ok := c.classify(arg, depth+1)
				if !ok {
					return kc, false
				}
				if kc.role != c20Key {
					return c.fail("a key image is computed from a " + kc.role.String())
				}
				return c20Cls{kc.tok, c20Name}, true
			}
		}
	case *ssa.Phi:
		var out c20Cls
		for i, e := range x.Edges {
			ec, ok := c.classify(e, depth+1)
			if !ok {
				return ec, false
			}
			if i > 0 && ec != out {
				return c.fail("a value merges different label entries")
			}
			out = ec
		}
		return out, len(x.Edges) > 0
	case *ssa.Field:
		return c.classifyField(x.X, fieldName(x), depth)
	case *ssa.UnOp:
		if x.Op != token.MUL {
			break
		}
		switch a := x.X.(type) {
		case *ssa.IndexAddr:
			cl := c.coll(a.X)
			if cl == nil || !cl.ok || cl.records {
				why := "element of a slice that is not a collection of label keys"
				if cl != nil && cl.why != "" {
					why = cl.why
				}
				return c.fail(why)
			}
			return c20Cls{c20Tok{coll: cl, idx: a.Index}, c20Key}, true
		case *ssa.FieldAddr:
			return c.classifyField(a.X, fieldName(a), depth)
		case *ssa.Alloc:
			sts := cellStores(a)
			if len(sts) == 0 || len(sts) != len(refsStores(a)) {
				return c.fail("a variable is written through an alias")
			}
			var out c20Cls
			for i, st := range sts {
				ec, ok := c.classify(st.Val, depth+1)
				if !ok {
					return ec, false
				}
				if i > 0 && ec != out {
					return c.fail("a variable holds different label entries")
				}
				out = ec
			}
			return out, true
		}
	}
	return c.fail(fmt.Sprintf("%s (%s) does not stem from an entry of obj.Labels", v.Name(), v.String()))
}

// classifyField: field f of a collected record (element address, or a read-only local copy of an element).
func (c *c20Lab) classifyField(base ssa.Value, f string, depth int) (c20Cls, bool) {
	var ia *ssa.IndexAddr
	switch b := base.(type) {
	case *ssa.IndexAddr:
		ia = b
	case *ssa.Alloc:
		if st, ro := readOnlyCopy(b); ro {
			if u, ok := st.Val.(*ssa.UnOp); ok && u.Op == token.MUL {
				ia, _ = u.X.(*ssa.IndexAddr)
			}
		}
	case *ssa.UnOp:
		if b.Op == token.MUL {
			ia, _ = b.X.(*ssa.IndexAddr)
		}
	}
	if ia == nil {
		return c.fail("field " + f + " of something that is not a collected label record")
	}
	cl := c.coll(ia.X)
	if cl == nil || !cl.ok || !cl.records {
		why := "field of an element of a slice that is not a collection of label records"
		if cl != nil && cl.why != "" {
			why = cl.why
		}
		return c.fail(why)
	}
	role, ok := cl.roles[f]
	if !ok {
		return c.fail("field " + f + " of the collected record carries no label data")
	}
	return c20Cls{c20Tok{coll: cl, idx: ia.Index}, role}, true
}

func refsStores(a *ssa.Alloc) []*ssa.Store {
	var out []*ssa.Store
	for _, rr := range refs(a) {
		if st, ok := rr.(*ssa.Store); ok {
			out = append(out, st)
		}
	}
	return out
}

// c20Write is one write into a result slice: by index (MakeSlice + store) or by append.
type c20Write struct {
	val   ssa.Value
	block *ssa.BasicBlock
	index ssa.Value // index store
	phi   *ssa.Phi  // append form: the accumulating variable
	mk    *ssa.MakeSlice
	pos   token.Pos
}

func c20ResultWrite(v ssa.Value) (*c20Write, string) {
	if mk, ok := v.(*ssa.MakeSlice); ok {
		var w *c20Write
		for _, rr := range refs(mk) {
			switch x := rr.(type) {
			case *ssa.IndexAddr:
				for _, r2 := range refs(x) {
					if s2, isSt := r2.(*ssa.Store); isSt && s2.Addr == ssa.Value(x) {
						if w != nil {
							return nil, "more than one element store"
						}
						w = &c20Write{val: s2.Val, block: s2.Block(), index: x.Index, mk: mk, pos: instrPos(s2)}
					} else if _, isLoad := r2.(*ssa.UnOp); !isLoad {
						if _, isD := r2.(*ssa.DebugRef); !isD {
							return nil, "element address escapes"
						}
					}
				}
			case *ssa.Return, *ssa.DebugRef:
			case *ssa.Call:
				if _, isLen := isBuiltinCall(x, "len"); !isLen {
					return nil, "slice is passed to a call"
				}
			default:
				return nil, "slice is used by " + rr.String()
			}
		}
		if w == nil {
			return nil, "no element store"
		}
		return w, ""
	}
	rep := c20RepOf(v)
	ph, ok := rep.(*ssa.Phi)
	if !ok {
		return nil, "the result is neither a slice made with a length and filled by index nor a slice appended to in a loop"
	}
	inits, steps, blocks := c20Accum(ph)
	if len(inits) != 1 || len(steps) != 1 || !c20IsEmptySlice(inits[0]) {
		return nil, fmt.Sprintf("the result has %d initialisations and %d appends (need an empty start and one append)", len(inits), len(steps))
	}
	el, ok := c20AppendedElem(steps[0])
	if !ok || el.val == nil {
		return nil, "the append does not add exactly one string"
	}
	return &c20Write{val: el.val, block: blocks[0], phi: ph, pos: steps[0].Pos()}, ""
}

func c20BuildInfoLabels(r *Run, fn *ssa.Function) {
	pos := r.Prog.Pos(fn.Pos())
	sf := shortFunc(fn)
	if len(fn.Params) != 1 {
		r.Undecided("C20.R2", "signature", pos, sf, "unexpected signature")
		return
	}
	c := &c20Lab{prog: r.Prog, fn: fn, obj: fn.Params[0], k: newKeyer(fn), colls: map[ssa.Value]*c20Coll{}}

	// (a) every lookup into obj.Labels, in the function and its closures, uses an original key
	nLookups := 0
	fns := append([]*ssa.Function{fn}, fn.AnonFuncs...)
	for _, f := range fns {
		for _, b := range f.Blocks {
			for _, in := range b.Instrs {
				lk, ok := in.(*ssa.Lookup)
				if !ok {
					continue
				}
				if f != fn {
					r.Undecided("C20.R2", "lookup in closure", r.Prog.Pos(instrPos(lk)), shortFunc(f), "map lookup inside a closure of BuildInfoLabels")
					continue
				}
				if !c.isLabelsMap(lk.X) {
					continue
				}
				nLookups++
				c.why = ""
				kc, ok2 := c.classify(lk.Index, 0)
				if ok2 && kc.role != c20Key {
					ok2, c.why = false, "the index is a "+kc.role.String()+" of a label entry, not its original key"
				}
				r.Check("C20.R2", fmt.Sprintf("lookup %d key domain", nLookups), r.Prog.Pos(instrPos(lk)), sf,
					"index into obj.Labels is an original key of obj.Labels (element of range obj.Labels, unchanged)", ok2, c.why)
			}
		}
	}
	if nLookups == 0 {
		o := r.Check("C20.R2", "lookup 1 key domain", pos, sf, "no lookup into obj.Labels: the values must be the range values (decided by the pairing obligation)", true, "")
		o.Trivial = true
	}

	for _, b := range fn.Blocks {
		ret := returnOf(b)
		if ret == nil {
			continue
		}
		rpos := r.Prog.Pos(instrPos(ret))
		if len(ret.Results) != 2 {
			r.Undecided("C20.R2", "results", rpos, sf, "unexpected result count")
			continue
		}
		c20Fill(r, c, fn, ret)
	}
}

// c20Fill checks the two results: position-wise, the key slice holds the image (or the key itself) and
// the value slice the value of one and the same label entry; every entry is written once.
func c20Fill(r *Run, c *c20Lab, fn *ssa.Function, ret *ssa.Return) {
	sf := shortFunc(fn)
	rpos := r.Prog.Pos(instrPos(ret))
	k := c.k
	const (
		cPair = "pairing of key and value stores"
		cFill = "fill loop covers every collected key"
		cColl = "every label key is collected once"
	)
	undecidedAll := func(pos, why string) {
		for _, cc := range []string{cPair, cFill, cColl} {
			r.Undecided("C20.R2", cc, pos, sf, why)
		}
	}
	kw, why1 := c20ResultWrite(ret.Results[0])
	vw, why2 := c20ResultWrite(ret.Results[1])
	if kw == nil || vw == nil {
		undecidedAll(rpos, "key slice: "+why1+"; value slice: "+why2)
		return
	}
	spos := r.Prog.Pos(vw.pos)
	c.why = ""
	kc, okK := c.classify(kw.val, 0)
	whyK := c.why
	c.why = ""
	vc, okV := c.classify(vw.val, 0)
	whyV := c.why
	pairOK := okK && okV
	detail := ""
	switch {
	case !okK:
		detail = "label key: " + whyK
	case !okV:
		detail = "label value: " + whyV
	case kc.role == c20Value || vc.role != c20Value:
		pairOK, detail = false, fmt.Sprintf("the key slice receives a %s and the value slice a %s of a label entry (need name/key and value)", kc.role, vc.role)
	case kc.tok != vc.tok:
		pairOK, detail = false, "the label name and the label value written at one position belong to different entries of obj.Labels (the value is not read with the key the name was computed from)"
	case kw.block != vw.block:
		pairOK, detail = false, "name and value are written in different blocks (one of them can be skipped)"
	case (kw.mk == nil) != (vw.mk == nil):
		pairOK, detail = false, "one result is filled by index and the other by append"
	case kw.mk != nil && kw.index != vw.index:
		pairOK, detail = false, "name and value are stored at different indices"
	default:
		detail = fmt.Sprintf("position-wise: %s and %s of the same entry", kc.role, vc.role)
	}
	r.Check("C20.R2", cPair, spos, sf,
		"at every position the key slice holds the name computed from (or equal to) an original key k of obj.Labels and the value slice holds obj.Labels[k] for the same k", pairOK, detail)
	if !pairOK {
		r.Undecided("C20.R2", cFill, spos, sf, "pairing not established")
		r.Undecided("C20.R2", cColl, spos, sf, "pairing not established")
		return
	}
	tok := vc.tok
	// the loop that produces the positions
	var header, body *ssa.BasicBlock
	covOK, covWhy := false, ""
	switch {
	case tok.next != nil:
		header = tok.next.Block()
		if kw.mk != nil {
			covWhy = "undecided: index stores inside the range over the map"
		} else {
			covOK = true
		}
	default:
		h, why := indexLoopOver(k, tok.idx, c20CollValue(tok))
		header, covWhy = h, why
		covOK = h != nil
		if covOK && kw.mk != nil {
			if kw.index != tok.idx {
				covOK, covWhy = false, "the entry is read at a different index than the one the results are stored at"
			} else {
				lk, lv, ls := k.key(kw.mk.Len), k.key(vw.mk.Len), "builtin:len("+k.key(c20CollValue(tok))+")"
				if lk != ls || lv != ls {
					covOK, covWhy = false, fmt.Sprintf("result lengths %s / %s differ from the number of collected entries %s", lk, lv, ls)
				}
			}
		}
	}
	if covOK {
		if len(header.Succs) != 2 {
			covOK, covWhy = false, "undecided: loop shape"
		} else {
			body = header.Succs[0]
			if !onEveryIteration(fn, body, header, vw.block) {
				covOK, covWhy = false, "the writes are skipped on some iterations"
			}
			if covOK && kw.phi != nil && (kw.phi.Block() != header || vw.phi.Block() != header) {
				covOK, covWhy = false, "the results are not accumulated by the loop that enumerates the entries"
			}
		}
	}
	if covOK {
		covWhy = "one position per entry"
	}
	r.Check("C20.R2", cFill, spos, sf,
		"the loop writes one position for every collected entry (every index 0..len(S)-1 of the collection, or every iteration of range obj.Labels), and index-filled results have length len(S)", covOK, covWhy)

	colOK, colWhy := true, "entries are taken directly from range obj.Labels"
	if tok.coll != nil {
		colOK, colWhy = tok.coll.complete, tok.coll.whyC
		if colOK {
			colWhy = "one append per iteration of range obj.Labels"
			// the fill happens after the collection loop
			ch := tok.coll.next.Block()
			if len(ch.Succs) == 2 && !ch.Succs[1].Dominates(vw.block) {
				colOK, colWhy = false, "the results are filled before the collection loop has finished"
			}
		}
	}
	r.Check("C20.R2", cColl, r.Prog.Pos(fn.Pos()), sf,
		"the collection starts empty and gets exactly one entry on every iteration of range obj.Labels; it is not reassigned afterwards", colOK, colWhy)
}

// c20CollValue returns an SSA value of the collection usable for keys (the slice indexed by the token).
func c20CollValue(t c20Tok) ssa.Value {
	// the IndexAddr the token was read from is not kept; the representative's loads share one key
	switch rep := t.coll.rep.(type) {
	case *ssa.Phi:
		return rep
	case *ssa.Alloc:
		for _, rr := range refs(rep) {
			if u, ok := rr.(*ssa.UnOp); ok && u.Op == token.MUL {
				return u
			}
		}
	}
	return t.coll.rep
}

// ---------------------------------------------------------------------------------------------
// R5: the sanitiser's character class

// runeSet is a sorted list of disjoint closed intervals of runes.
type runeSet [][2]rune

const maxRune = rune(0x10FFFF)

func (a runeSet) norm() runeSet {
	var in runeSet
	for _, iv := range a {
		if iv[0] <= iv[1] {
			in = append(in, iv)
		}
	}
	sort.Slice(in, func(i, j int) bool { return in[i][0] < in[j][0] })
	var out runeSet
	for _, iv := range in {
		if n := len(out); n > 0 && iv[0] <= out[n-1][1]+1 {
			if iv[1] > out[n-1][1] {
				out[n-1][1] = iv[1]
			}
			continue
		}
		out = append(out, iv)
	}
	return out
}

func (a runeSet) complement() runeSet {
	a = a.norm()
	var out runeSet
	next := rune(0)
	for _, iv := range a {
		if iv[0] > next {
			out = append(out, [2]rune{next, iv[0] - 1})
		}
		next = iv[1] + 1
	}
	if next <= maxRune {
		out = append(out, [2]rune{next, maxRune})
	}
	return out
}

func (a runeSet) intersect(b runeSet) runeSet {
	var out runeSet
	for _, x := range a.norm() {
		for _, y := range b.norm() {
			lo, hi := x[0], x[1]
			if y[0] > lo {
				lo = y[0]
			}
			if y[1] < hi {
				hi = y[1]
			}
			if lo <= hi {
				out = append(out, [2]rune{lo, hi})
			}
		}
	}
	return out.norm()
}

func (a runeSet) equal(b runeSet) bool {
	a, b = a.norm(), b.norm()
	if len(a) != len(b) {
		return false
	}
	for i := range a {
		if a[i] != b[i] {
			return false
		}
	}
	return true
}

func (a runeSet) String() string {
	var out []string
	for _, iv := range a.norm() {
		f := func(r rune) string {
			if r >= 0x21 && r < 0x7f {
				return string(r)
			}
			return fmt.Sprintf("U+%04X", r)
		}
		if iv[0] == iv[1] {
			out = append(out, f(iv[0]))
		} else {
			out = append(out, f(iv[0])+"-"+f(iv[1]))
		}
	}
	return "[" + strings.Join(out, " ") + "]"
}

var c20PromLabelClass = runeSet{{'0', '9'}, {'A', 'Z'}, {'_', '_'}, {'a', 'z'}}

// c20Sanitisers checks every string→string repository function applied inside BuildInfoLabels (the
// key image): decided on constants only — the character class of a constant regular expression, or
// the rune ranges tested on the paths of a strings.Map callback.
func c20Sanitisers(r *Run, build *ssa.Function) {
	seen := map[*ssa.Function]bool{}
	fns := append([]*ssa.Function{build}, build.AnonFuncs...)
	n := 0
	for _, f := range fns {
		for _, ci := range callsIn(f) {
			cal := staticCallee(ci.Common())
			if cal == nil || !r.Prog.IsRuleSite(cal) || seen[cal] {
				continue
			}
			sig := cal.Signature
			isStr := func(t types.Type) bool {
				b, ok := t.Underlying().(*types.Basic)
				return ok && b.Info()&types.IsString != 0
			}
			if sig.Recv() != nil || sig.Params().Len() != 1 || sig.Results().Len() != 1 || !isStr(sig.Params().At(0).Type()) || !isStr(sig.Results().At(0).Type()) {
				continue
			}
			seen[cal] = true
			n++
			kept, repl, why := c20SanitiserClass(r, cal)
			pos := r.Prog.Pos(cal.Pos())
			construct := "character class of the sanitiser"
			if n > 1 {
				construct = fmt.Sprintf("character class of sanitiser %d", n)
			}
			if why != "" {
				r.Undecided("C20.R5", construct, pos, shortFunc(cal), why)
				continue
			}
			okC := kept.equal(c20PromLabelClass)
			detail := "keeps " + kept.String()
			for _, rr := range repl {
				if len(c20PromLabelClass.intersect(runeSet{{rr, rr}})) == 0 {
					okC = false
					detail += fmt.Sprintf("; replaces with %q, which is not a legal label-name character", rr)
				}
			}
			if !kept.equal(c20PromLabelClass) {
				detail += "; a Prometheus label name consists of " + c20PromLabelClass.String() + " (a kept character outside it is illegal, a replaced character inside it changes a legal key and can make two different keys collide)"
			}
			r.Check("C20.R5", construct, pos, shortFunc(cal), "the sanitiser keeps exactly [a-zA-Z0-9_] and replaces everything else by one of those characters", okC, detail)
		}
	}
	if n == 0 {
		r.Check("C20.R5", "character class of the sanitiser", r.Prog.Pos(build.Pos()), shortFunc(build), "label keys are sanitised by a repository function", false, "no string→string repository function is applied in BuildInfoLabels")
	}
}

// c20SanitiserClass returns the set of runes the function leaves unchanged and the runes it can
// substitute, or why it cannot tell.
func c20SanitiserClass(r *Run, fn *ssa.Function) (kept runeSet, repl []rune, why string) {
	rv := singleReturn(fn, 0)
	call, ok := rv.(*ssa.Call)
	if !ok || len(fn.Params) != 1 {
		return nil, nil, "undecided: the sanitiser is not a single call of regexp ReplaceAllString or strings.Map"
	}
	param := fn.Params[0]
	switch calleeName(&call.Call) {
	case "(regexp.Regexp).ReplaceAllString":
		if len(call.Call.Args) != 3 || call.Call.Args[1] != ssa.Value(param) {
			return nil, nil, "undecided: ReplaceAllString is not applied to the parameter"
		}
		rs, isC := constString(call.Call.Args[2])
		if !isC {
			return nil, nil, "undecided: the replacement is not a constant"
		}
		repl = []rune(rs)
		// the regular expression: a package variable initialised once with MustCompile(constant)
		u, isL := call.Call.Args[0].(*ssa.UnOp)
		if !isL || u.Op != token.MUL {
			return nil, nil, "undecided: the regular expression is not a package variable"
		}
		g, isG := u.X.(*ssa.Global)
		if !isG || g.Pkg == nil {
			return nil, nil, "undecided: the regular expression is not a package variable"
		}
		pattern, nSt := "", 0
		for _, mem := range g.Pkg.Members {
			mf, isFn := mem.(*ssa.Function)
			if !isFn {
				continue
			}
			for _, f := range append([]*ssa.Function{mf}, mf.AnonFuncs...) {
				for _, b := range f.Blocks {
					for _, in := range b.Instrs {
						st, isSt := in.(*ssa.Store)
						if !isSt || st.Addr != ssa.Value(g) {
							continue
						}
						nSt++
						if mc, isCall := st.Val.(*ssa.Call); isCall && (calleeName(&mc.Call) == "regexp.MustCompile" || calleeName(&mc.Call) == "regexp.MustCompilePOSIX") && len(mc.Call.Args) == 1 {
							pattern, _ = constString(mc.Call.Args[0])
						}
					}
				}
			}
		}
		if nSt != 1 || pattern == "" {
			return nil, nil, "undecided: the regular expression is not initialised once from a constant pattern"
		}
		re, err := syntax.Parse(pattern, syntax.Perl)
		if err != nil || re.Op != syntax.OpCharClass {
			return nil, nil, "undecided: the pattern " + pattern + " is not a single character class"
		}
		var replaced runeSet
		for i := 0; i+1 < len(re.Rune); i += 2 {
			replaced = append(replaced, [2]rune{re.Rune[i], re.Rune[i+1]})
		}
		return replaced.complement(), repl, ""
	case "strings.Map":
		if len(call.Call.Args) != 2 || call.Call.Args[1] != ssa.Value(param) {
			return nil, nil, "undecided: strings.Map is not applied to the parameter"
		}
		var cb *ssa.Function
		switch f := call.Call.Args[0].(type) {
		case *ssa.Function:
			cb = f
		case *ssa.MakeClosure:
			if len(f.Bindings) == 0 {
				cb, _ = f.Fn.(*ssa.Function)
			}
		}
		if cb == nil || len(cb.Params) != 1 {
			return nil, nil, "undecided: the mapping function is not a function literal without captures"
		}
		rp := cb.Params[0]
		paths, _, okP := funcPaths(cb, 5000)
		if !okP {
			return nil, nil, "undecided: path cap exceeded in the mapping function"
		}
		for _, p := range paths {
			set := runeSet{{0, maxRune}}
			for _, f := range p.Facts {
				bo, isB := f.V.(*ssa.BinOp)
				if !isB {
					return nil, nil, "undecided: a condition of the mapping function is not a comparison of the rune with a constant"
				}
				var cst int64
				var okC bool
				op := bo.Op
				switch {
				case bo.X == ssa.Value(rp):
					cst, okC = constInt(bo.Y)
				case bo.Y == ssa.Value(rp):
					cst, okC = constInt(bo.X)
					switch op { // c op r  ==  r op' c
					case token.LSS:
						op = token.GTR
					case token.GTR:
						op = token.LSS
					case token.LEQ:
						op = token.GEQ
					case token.GEQ:
						op = token.LEQ
					}
				}
				if !okC {
					return nil, nil, "undecided: a condition of the mapping function is not a comparison of the rune with a constant"
				}
				// truth of the ORIGINAL comparison on this path (facts are normalised: see normCond)
				truth := f.Pol
				switch bo.Op {
				case token.NEQ, token.GEQ, token.LEQ:
					truth = !f.Pol
				}
				cr := rune(cst)
				var sat runeSet
				switch op {
				case token.EQL:
					sat = runeSet{{cr, cr}}
				case token.NEQ:
					sat = runeSet{{cr, cr}}.complement()
				case token.LSS:
					sat = runeSet{{0, cr - 1}}
				case token.LEQ:
					sat = runeSet{{0, cr}}
				case token.GTR:
					sat = runeSet{{cr + 1, maxRune}}
				case token.GEQ:
					sat = runeSet{{cr, maxRune}}
				default:
					return nil, nil, "undecided: unsupported comparison in the mapping function"
				}
				if !truth {
					sat = sat.complement()
				}
				set = set.intersect(sat)
			}
			if len(set) == 0 {
				continue // infeasible path
			}
			ret := returnOf(p.Blocks[len(p.Blocks)-1])
			res := p.Resolve(ret.Results[0])
			switch {
			case res == ssa.Value(rp):
				kept = append(kept, set...)
			default:
				cv, isC := constInt(res)
				if !isC {
					return nil, nil, "undecided: the mapping function returns something other than the rune or a constant"
				}
				if cv < 0 {
					return nil, nil, "undecided: the mapping function drops characters"
				}
				// a constant returned for a set that is exactly that constant keeps the character
				if set.equal(runeSet{{rune(cv), rune(cv)}}) {
					kept = append(kept, set...)
				} else {
					repl = append(repl, rune(cv))
				}
			}
		}
		return kept.norm(), repl, ""
	}
	return nil, nil, "undecided: the sanitiser is not a single call of regexp ReplaceAllString or strings.Map"
}

var _ = sort.Strings
