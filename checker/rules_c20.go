package main

// C20 — exported metrics match the objects' status; label values match their keys.

import (
	"fmt"
	"go/token"
	"go/types"
	"sort"
	"strings"

	"golang.org/x/tools/go/ssa"
)

const (
	c20PkgKSMetric = "k8s.io/kube-state-metrics/v2/pkg/metric"
	c20PkgKSGen    = "k8s.io/kube-state-metrics/v2/pkg/metric_generator"
)

func init() {
	register("C20", "Decides the metric tables and the label pairing structurally: (R1) every FamilyGenerator literal handed to metrics.AddMetrics type-asserts the kind the family set is registered for, returns exactly one Metric on every path, and its Value is — for a family named <prefix>_status_<x> whose <x> (case and '_' folded) is the JSON name of a numeric field F of that kind's status type — a conversion of obj.Status.F; for the derived families (created, labels, canary_activated, canary_node_number, canary_paused, rolling_update_paused, rollout_frozen, canary_failed) the value on every path agrees with the defining expression table (1/len(...) exactly under the defining facts, 0 exactly when one of them is false); any other family name is undecided; (R2) in BuildInfoLabels every lookup into obj.Labels uses a key that is an element of `range obj.Labels` unchanged (directly or through a slice that only ever receives such keys and is at most permuted by sort), the value stored at position i is obj.Labels[k] for the same k whose image under one function call is stored at position i of the key slice (same block, same index), both result slices have the length of the collected key slice, the fill loop visits every position, and the collected key slice receives exactly one key per iteration of the range over the label map; (R3) GetLabelsValues pairs the \"namespace\"/\"name\" keys with the object's namespace/name at the same positions; (R4) on every path of every generator LabelKeys and LabelValues are built in lock-step: the same sequence of segments, a segment being result #0 / result #1 of one call of GetLabelsValues or BuildInfoLabels on the asserted object's ObjectMeta, or a constant key paired with one value.", runC20)
}

type c20Family struct {
	name string
	gen  *ssa.Function
	list *ssa.Function
	kind string
	pos  token.Pos
}

// c20Families finds the FamilyGenerator literals of every generator list handed to AddMetrics.
func c20Families(r *Run) []c20Family {
	addM := r.Prog.Func(pkgMetrics, "AddMetrics")
	if addM == nil {
		r.Fatal("anchor %s.AddMetrics not found", pkgMetrics)
		return nil
	}
	var out []c20Family
	nReg := 0
	for _, fn := range r.Prog.RepoFuncs() {
		for _, c := range callsIn(fn) {
			if staticCallee(c.Common()) != addM || len(c.Common().Args) < 4 {
				continue
			}
			nReg++
			args := c.Common().Args
			pos := r.Prog.Pos(c.Pos())
			kind := ""
			if wk, ok := unwrap(args[0]).(*ssa.Call); ok && strings.HasSuffix(calleeName(&wk.Call), "schema.GroupVersion).WithKind") && len(wk.Call.Args) == 2 {
				gvOK := false
				if u, isLoad := wk.Call.Args[0].(*ssa.UnOp); isLoad && u.Op == token.MUL {
					if g, isG := u.X.(*ssa.Global); isG && g.Pkg.Pkg.Path() == pkgAPI && g.Name() == "GroupVersion" {
						gvOK = true
					}
				}
				if s, isC := constString(wk.Call.Args[1]); isC && gvOK {
					kind = s
				}
			}
			var lists []*ssa.Function
			okLists := true
			for _, o := range origins(args[3]) {
				if call, isCall := o.(*ssa.Call); isCall {
					if cal := staticCallee(&call.Call); cal != nil && r.Prog.IsRuleSite(cal) {
						lists = append(lists, cal)
						continue
					}
				}
				okLists = false
			}
			named := r.Prog.Named(pkgAPI, kind)
			r.Check("C20.R1", "registration of "+kind, pos, shortFunc(fn),
				"AddMetrics is called with api GroupVersion.WithKind(<constant kind of the api package>) and a generator list built by one repository function",
				kind != "" && named != nil && okLists && len(lists) == 1, fmt.Sprintf("kind=%q list functions=%d", kind, len(lists)))
			if kind == "" || named == nil || !okLists || len(lists) != 1 {
				continue
			}
			list := lists[0]
			for _, b := range list.Blocks {
				for _, in := range b.Instrs {
					st, isSt := in.(*ssa.Store)
					if !isSt {
						continue
					}
					fa, isFA := st.Addr.(*ssa.FieldAddr)
					if !isFA || fieldName(fa) != "Name" || typeName(fa.X.Type()) != c20PkgKSGen+".FamilyGenerator" {
						continue
					}
					fpos := r.Prog.Pos(instrPos(st))
					name, isC := constString(st.Val)
					if !isC {
						r.Undecided("C20.R1", "family with non-constant name", fpos, shortFunc(list), "family name is not a constant")
						continue
					}
					gfs := fieldStores(fa.X, "GenerateFunc")
					var gen *ssa.Function
					if len(gfs) == 1 {
						switch g := gfs[0].(type) {
						case *ssa.Function:
							gen = g
						case *ssa.MakeClosure:
							gen, _ = g.Fn.(*ssa.Function)
						}
					}
					if gen == nil || len(gen.Params) != 1 {
						r.Undecided("C20.R1", "family "+name, fpos, shortFunc(list), "GenerateFunc is not a function literal")
						continue
					}
					out = append(out, c20Family{name: name, gen: gen, list: list, kind: kind, pos: instrPos(st)})
				}
			}
		}
	}
	if nReg == 0 {
		r.Check("C20.R1", "registration", "-", "-", "a call of metrics.AddMetrics in the repository", false, "none found")
	}
	return out
}

// c20Gen is the analysed body of one GenerateFunc.
type c20Gen struct {
	fn     *ssa.Function
	obj    ssa.Value // the asserted object
	okFlag ssa.Value // comma-ok result of the assertion (nil for the panicking form)
	typ    types.Type
}

func c20Analyse(fn *ssa.Function) (*c20Gen, string) {
	g := &c20Gen{fn: fn}
	n := 0
	for _, b := range fn.Blocks {
		for _, in := range b.Instrs {
			ta, ok := in.(*ssa.TypeAssert)
			if !ok {
				continue
			}
			if ta.X != ssa.Value(fn.Params[0]) {
				return nil, "type assertion on something other than the generator's parameter"
			}
			n++
			g.typ = ta.AssertedType
			if !ta.CommaOk {
				g.obj = ta
				continue
			}
			for _, rr := range refs(ta) {
				if ex, isE := rr.(*ssa.Extract); isE {
					if ex.Index == 0 {
						g.obj = ex
					} else {
						g.okFlag = ex
					}
				}
			}
		}
	}
	if n != 1 || g.obj == nil {
		return nil, fmt.Sprintf("%d type assertions of the parameter (need exactly one)", n)
	}
	return g, ""
}

// path returns the field path of a load rooted at the asserted object (nil otherwise).
func (g *c20Gen) path(v ssa.Value) []string {
	v = unwrap(v)
	root, p := accessPathThroughCopies(v)
	if root != g.obj || len(p) == 0 {
		return nil
	}
	return p
}

func (g *c20Gen) isPath(v ssa.Value, want ...string) bool {
	p := g.path(v)
	if len(p) != len(want) {
		return false
	}
	for i := range p {
		if p[i] != want[i] {
			return false
		}
	}
	return true
}

// isLoadOf: v is a load (not an address) of the given path of the object.
func (g *c20Gen) isLoadOf(v ssa.Value, want ...string) bool {
	v = unwrap(v)
	if u, ok := v.(*ssa.UnOp); !ok || u.Op != token.MUL {
		if _, isF := v.(*ssa.Field); !isF {
			return false
		}
	}
	return g.isPath(v, want...)
}

// c20Metric locates the single Metric of the Family returned on a path: the stores of its Value,
// LabelKeys and LabelValues fields.
type c20Metric struct{ value, keys, values *ssa.Store }

func c20MetricOf(p *Path, ret *ssa.Return) (*c20Metric, string) {
	fam, ok := unwrap(p.Resolve(ret.Results[0])).(*ssa.Alloc)
	if !ok || typeName(fam.Type()) != c20PkgKSMetric+".Family" {
		return nil, "returned value is not a Family literal"
	}
	ms := fieldStores(fam, "Metrics")
	if len(ms) != 1 {
		return nil, fmt.Sprintf("%d stores to Family.Metrics", len(ms))
	}
	elems, complete := varargElems(ms[0])
	if !complete || len(elems) != 1 {
		return nil, fmt.Sprintf("Family.Metrics holds %d metrics (need exactly one literal)", len(elems))
	}
	m, ok := unwrap(elems[0]).(*ssa.Alloc)
	if !ok || typeName(m.Type()) != c20PkgKSMetric+".Metric" {
		return nil, "the metric is not a Metric literal"
	}
	one := func(name string) *ssa.Store {
		var found []*ssa.Store
		for _, rr := range refs(m) {
			if fa, isFA := rr.(*ssa.FieldAddr); isFA && fieldName(fa) == name {
				for _, r2 := range refs(fa) {
					if st, isSt := r2.(*ssa.Store); isSt && st.Addr == ssa.Value(fa) {
						found = append(found, st)
					}
				}
			}
		}
		if len(found) != 1 {
			return nil
		}
		return found[0]
	}
	out := &c20Metric{value: one("Value"), keys: one("LabelKeys"), values: one("LabelValues")}
	if out.value == nil || out.keys == nil || out.values == nil {
		return nil, "Value, LabelKeys and LabelValues are not each stored exactly once"
	}
	for _, st := range []*ssa.Store{out.value, out.keys, out.values} {
		if !p.Contains(st.Block()) {
			return nil, "a field of the metric is not stored on this path"
		}
	}
	return out, ""
}

// c20Atom is one defining fact of a derived family.
type c20Atom struct {
	desc  string
	pol   bool // polarity (in the normalised fact sense: x==nil / x==c / call) under which the family is "on"
	match func(g *c20Gen, v ssa.Value) bool
}

type c20Derived struct {
	atoms  []c20Atom
	on     func(g *c20Gen, v ssa.Value) bool
	onDesc string
}

func c20One(_ *c20Gen, v ssa.Value) bool { f, ok := constNum(v); return ok && f == 1 }

func c20DerivedTable(r *Run) map[string]c20Derived {
	cs := func(name string) string {
		s, ok := r.Prog.constStr(pkgAPI, name)
		if !ok {
			r.Fatal("anchor constant %s.%s not found", pkgAPI, name)
		}
		return s
	}
	canaryNonNil := c20Atom{desc: "Status.Canary != nil", pol: false, match: func(g *c20Gen, v ssa.Value) bool {
		return isNilCompareOf(v, func(x ssa.Value) bool { return g.isLoadOf(x, "Status", "Canary") })
	}}
	stateIs := func(constName string) c20Atom {
		val := cs(constName)
		return c20Atom{desc: "Status.State == " + constName, pol: true, match: func(g *c20Gen, v ssa.Value) bool {
			return isEqCompare(v, func(x ssa.Value) bool { return g.isLoadOf(x, "Status", "State") }, isConstStringVal(val))
		}}
	}
	condTrue := func(condPkg, constName string) c20Atom {
		val := cs(constName)
		return c20Atom{desc: "IsConditionTrue(&Status, " + constName + ")", pol: true, match: func(g *c20Gen, v ssa.Value) bool {
			c, ok := isCallTo(v, condPkg+".IsConditionTrue")
			if !ok || len(c.Call.Args) != 2 {
				return false
			}
			s, isC := constString(c.Call.Args[1])
			return isC && s == val && g.isPath(c.Call.Args[0], "Status")
		}}
	}
	return map[string]c20Derived{
		"ExtendedDaemonSet|canary_activated": {atoms: []c20Atom{canaryNonNil}, on: c20One, onDesc: "1"},
		"ExtendedDaemonSet|canary_node_number": {atoms: []c20Atom{canaryNonNil}, onDesc: "len(Status.Canary.Nodes)", on: func(g *c20Gen, v ssa.Value) bool {
			c, ok := isBuiltinCall(v, "len")
			return ok && g.isLoadOf(c.Call.Args[0], "Status", "Canary", "Nodes")
		}},
		"ExtendedDaemonSet|canary_paused":           {atoms: []c20Atom{canaryNonNil, condTrue(pkgEDSCond, "ConditionTypeEDSCanaryPaused")}, on: c20One, onDesc: "1"},
		"ExtendedDaemonSet|rolling_update_paused":   {atoms: []c20Atom{stateIs("ExtendedDaemonSetStatusStateRollingUpdatePaused")}, on: c20One, onDesc: "1"},
		"ExtendedDaemonSet|rollout_frozen":          {atoms: []c20Atom{stateIs("ExtendedDaemonSetStatusStateRolloutFrozen")}, on: c20One, onDesc: "1"},
		"ExtendedDaemonSetReplicaSet|canary_failed": {atoms: []c20Atom{condTrue(pkgERSCond, "ConditionTypeCanaryFailed")}, on: c20One, onDesc: "1"},
	}
}

func c20Fold(s string) string { return strings.ToLower(strings.ReplaceAll(s, "_", "")) }

func runC20(r *Run) {
	r.RuleDoc("C20.R1", "metric family table: asserted kind = registered kind; Value = the matching status field or the defining expression of a derived family")
	r.RuleDoc("C20.R2", "BuildInfoLabels: values are read with the original label key whose sanitised form is stored at the same position; every key once")
	r.RuleDoc("C20.R3", "GetLabelsValues pairs namespace/name keys with the object's namespace/name at the same positions")
	r.RuleDoc("C20.R4", "LabelKeys and LabelValues of every metric are built in lock-step from the same calls on the asserted object")
	r.Floor("C20.R1", 2+21+21) // 2 registrations, 21 families: kind + value each
	r.Floor("C20.R2", 4)
	r.Floor("C20.R3", 2)
	r.Floor("C20.R4", 21)
	r.NotCovered("that the sanitising function yields a legal Prometheus name and what happens to keys that collide after sanitising (both are exported, each with its own value); the numeric conversion's precision; the registration plumbing of kube-state-metrics and the informer store; semantics of the conditions helpers (IsConditionTrue)")

	fams := c20Families(r)
	derived := c20DerivedTable(r)
	build := r.Prog.Func(pkgUtils, "BuildInfoLabels")
	getLV := r.Prog.Func(pkgUtils, "GetLabelsValues")
	if build == nil || getLV == nil {
		r.Fatal("anchors %s.BuildInfoLabels / GetLabelsValues not found", pkgUtils)
		return
	}
	seenName := map[string]bool{}
	for _, f := range fams {
		c20Family1(r, f, derived, build, getLV)
		if seenName[f.name] {
			r.Check("C20.R1", "family "+f.name+" unique", r.Prog.Pos(f.pos), shortFunc(f.list), "family names are unique", false, "duplicate family name")
		}
		seenName[f.name] = true
	}
	c20BuildInfoLabels(r, build)
	c20GetLabelsValues(r, getLV)
}

func c20Family1(r *Run, f c20Family, derived map[string]c20Derived, build, getLV *ssa.Function) {
	fn := f.gen
	pos := r.Prog.Pos(fn.Pos())
	sfn := shortFunc(f.list) // key by the list function + family name: closure numbers shift when families are added
	g, why := c20Analyse(fn)
	if g == nil {
		r.Undecided("C20.R1", "family "+f.name+" kind", pos, sfn, why)
		return
	}
	kindOK := isPtrToNamed(g.typ, pkgAPI, f.kind)
	r.Check("C20.R1", "family "+f.name+" kind", pos, sfn, "generator asserts *"+f.kind+", the kind its family set is registered for", kindOK, "asserts "+g.typ.String())
	statusStruct := func() *types.Struct {
		_, t := structField(namedStruct(g.typ), "Status")
		if t == nil {
			return nil
		}
		return namedStruct(t)
	}()

	// classify the family by its name
	var field string // direct status field
	var der *c20Derived
	special := ""
	if i := strings.Index(f.name, "_status_"); i >= 0 {
		x := f.name[i+len("_status_"):]
		if d, ok := derived[f.kind+"|"+x]; ok {
			der = &d
		} else if statusStruct != nil {
			for j := 0; j < statusStruct.NumFields(); j++ {
				b, isB := statusStruct.Field(j).Type().Underlying().(*types.Basic)
				if isB && b.Info()&types.IsNumeric != 0 && c20Fold(jsonName(statusStruct, j)) == c20Fold(x) {
					field = statusStruct.Field(j).Name()
				}
			}
		}
	} else if i := strings.Index(f.name, "_"); i >= 0 {
		switch f.name[i+1:] {
		case "created", "labels":
			special = f.name[i+1:]
		}
	}
	construct := "family " + f.name + " value"
	if field == "" && der == nil && special == "" {
		r.Undecided("C20.R1", construct, pos, sfn, "family name matches neither a numeric status field of "+f.kind+" nor the derived-family table")
		return
	}

	paths, _, ok := funcPaths(fn, 5000)
	r.paths += len(paths)
	if !ok {
		r.Undecided("C20.R1", construct, pos, sfn, "path cap exceeded")
		return
	}
	valOK, pairOK := true, true
	valWhy, pairWhy := "", ""
	nPaths := 0
	for _, p := range paths {
		ret := returnOf(p.Blocks[len(p.Blocks)-1])
		if len(ret.Results) != 1 {
			valOK, valWhy = false, "unexpected result count"
			continue
		}
		if isNilConst(p.Resolve(ret.Results[0])) {
			// no series: only when the object is not of the asserted kind
			if g.okFlag == nil || !p.Has(false, func(v ssa.Value, _ string) bool { return v == g.okFlag }) {
				valOK, valWhy = false, "returns no family on path ["+shortFacts(p)+"]"
			}
			continue
		}
		m, why := c20MetricOf(p, ret)
		if m == nil {
			valOK, valWhy = false, "undecided: "+why
			pairOK, pairWhy = false, "undecided: "+why
			continue
		}
		nPaths++
		val := resolveDeep(p, m.value.Val)
		switch {
		case field != "":
			if !g.isLoadOf(val, "Status", field) {
				valOK, valWhy = false, fmt.Sprintf("Value is %s, not a conversion of obj.Status.%s", c20Describe(g, val), field)
			}
		case special == "labels":
			if !c20One(g, val) {
				valOK, valWhy = false, "Value of the label-info series is not the constant 1"
			}
		case special == "created":
			if !dependsOn(val, func(x ssa.Value) bool {
				pp := g.path(x)
				return len(pp) > 0 && pp[len(pp)-1] == "CreationTimestamp" || len(pp) > 1 && pp[len(pp)-2] == "CreationTimestamp"
			}) {
				valOK, valWhy = false, "Value does not derive from the object's CreationTimestamp"
			}
		default:
			allTrue, someFalse := true, false
			var missing []string
			for _, a := range der.atoms {
				t := p.Has(a.pol, func(v ssa.Value, _ string) bool { return a.match(g, v) })
				fl := p.Has(!a.pol, func(v ssa.Value, _ string) bool { return a.match(g, v) })
				if !t {
					allTrue = false
					missing = append(missing, a.desc)
				}
				if fl {
					someFalse = true
				}
			}
			zero, isNum := constNum(val)
			switch {
			case der.on(g, val):
				if !allTrue {
					valOK, valWhy = false, fmt.Sprintf("Value is %s on a path that does not establish %s", der.onDesc, strings.Join(missing, " ∧ "))
				}
			case isNum && zero == 0:
				if !someFalse {
					valOK, valWhy = false, "Value is 0 on a path where no defining fact is false: ["+shortFacts(p)+"]"
				}
			default:
				valOK, valWhy = false, fmt.Sprintf("Value is %s, neither %s nor 0", c20Describe(g, val), der.onDesc)
			}
		}
		// R4: lock-step construction of keys and values
		ks, ok1 := c20Seq(p, m.keys.Val, 0)
		vs, ok2 := c20Seq(p, m.values.Val, 0)
		if !ok1 || !ok2 {
			pairOK, pairWhy = false, "undecided: LabelKeys/LabelValues are not built from pair-function results, appends and literals"
			continue
		}
		if why := c20PairSeq(g, ks, vs, build, getLV); why != "" {
			pairOK, pairWhy = false, why
		}
		if special == "labels" {
			has := false
			for _, e := range ks {
				if e.call != nil && staticCallee(&e.call.Call) == build {
					has = true
				}
			}
			if !has {
				pairOK, pairWhy = false, "the label-info family does not take its labels from BuildInfoLabels"
			}
		}
	}
	if nPaths == 0 && valOK {
		valOK, valWhy = false, "no path returns a family"
	}
	need := ""
	switch {
	case field != "":
		need = "Value is a conversion of obj.Status." + field + " (JSON name matches the family name)"
	case der != nil:
		var ds []string
		for _, a := range der.atoms {
			ds = append(ds, a.desc)
		}
		need = "Value is " + der.onDesc + " exactly when " + strings.Join(ds, " ∧ ") + ", else 0"
	default:
		need = "Value of the " + special + " family follows its definition"
	}
	r.Check("C20.R1", construct, pos, sfn, need, valOK, valWhy)
	r.Check("C20.R4", "family "+f.name+" labels", pos, sfn,
		"LabelKeys/LabelValues are the #0/#1 results of the same GetLabelsValues/BuildInfoLabels calls on the asserted object, plus constant keys paired one-to-one with values", pairOK, pairWhy)
}

func c20Describe(g *c20Gen, v ssa.Value) string {
	if p := g.path(v); p != nil {
		return "obj." + strings.Join(p, ".")
	}
	return v.String()
}

// c20Elem is one segment of a label slice: a whole result of a pair function, or one scalar.
type c20Elem struct {
	call   *ssa.Call
	idx    int
	scalar ssa.Value
}

func c20Seq(p *Path, v ssa.Value, depth int) ([]c20Elem, bool) {
	if depth > 12 {
		return nil, false
	}
	v = p.Resolve(v)
	switch x := v.(type) {
	case *ssa.Const:
		if x.IsNil() {
			return nil, true
		}
	case *ssa.Extract:
		if c, ok := x.Tuple.(*ssa.Call); ok {
			return []c20Elem{{call: c, idx: x.Index}}, true
		}
	case *ssa.Slice:
		if a, ok := x.X.(*ssa.Alloc); ok && x.Low == nil && x.High == nil {
			elems, ok := orderedArrayElems(a)
			if !ok {
				return nil, false
			}
			var out []c20Elem
			for _, e := range elems {
				out = append(out, c20Elem{scalar: e})
			}
			return out, true
		}
	case *ssa.Call:
		if _, ok := isBuiltinCall(x, "append"); ok {
			a, ok1 := c20Seq(p, x.Call.Args[0], depth+1)
			if !ok1 {
				return nil, false
			}
			if len(x.Call.Args) < 2 {
				return a, true
			}
			b, ok2 := c20Seq(p, x.Call.Args[1], depth+1)
			if !ok2 {
				return nil, false
			}
			return append(append([]c20Elem{}, a...), b...), true
		}
	}
	return nil, false
}

func c20PairSeq(g *c20Gen, ks, vs []c20Elem, build, getLV *ssa.Function) string {
	if len(ks) != len(vs) {
		return fmt.Sprintf("LabelKeys has %d segments, LabelValues %d", len(ks), len(vs))
	}
	for i := range ks {
		k, v := ks[i], vs[i]
		if (k.call == nil) != (v.call == nil) {
			return fmt.Sprintf("segment %d pairs a call result with a single element", i)
		}
		if k.call == nil {
			if _, isC := constString(k.scalar); !isC {
				return fmt.Sprintf("key at segment %d is not a constant", i)
			}
			continue
		}
		if k.call != v.call {
			return fmt.Sprintf("segment %d: keys and values come from different calls", i)
		}
		if k.idx != 0 || v.idx != 1 {
			return fmt.Sprintf("segment %d: keys take result #%d and values result #%d of %s (need #0 / #1)", i, k.idx, v.idx, calleeName(&k.call.Call))
		}
		cal := staticCallee(&k.call.Call)
		if cal != build && cal != getLV {
			return fmt.Sprintf("segment %d comes from %s, which is not one of the verified pair functions", i, calleeName(&k.call.Call))
		}
		if len(k.call.Call.Args) != 1 || !g.isPath(k.call.Call.Args[0], "ObjectMeta") {
			return fmt.Sprintf("segment %d: %s is not called on the asserted object's ObjectMeta", i, shortFunc(cal))
		}
	}
	return ""
}

// ---------------------------------------------------------------------------------------------
// R3

func c20GetLabelsValues(r *Run, fn *ssa.Function) {
	pos := r.Prog.Pos(fn.Pos())
	paths, _, ok := funcPaths(fn, 100)
	if !ok || len(fn.Params) != 1 {
		r.Undecided("C20.R3", "pairing", pos, shortFunc(fn), "path cap exceeded or unexpected signature")
		return
	}
	obj := isParam(fn.Params[0])
	for i, p := range paths {
		ret := returnOf(p.Blocks[len(p.Blocks)-1])
		construct := fmt.Sprintf("return %d", i)
		if len(ret.Results) != 2 {
			r.Undecided("C20.R3", construct, pos, shortFunc(fn), "unexpected result count")
			continue
		}
		ks, ok1 := c20Seq(p, ret.Results[0], 0)
		vs, ok2 := c20Seq(p, ret.Results[1], 0)
		if !ok1 || !ok2 {
			r.Undecided("C20.R3", construct, r.Prog.Pos(instrPos(ret)), shortFunc(fn), "results are not slice literals")
			continue
		}
		good := len(ks) == len(vs) && len(ks) > 0
		why := fmt.Sprintf("%d keys, %d values", len(ks), len(vs))
		nNS, nName := 0, 0
		for j := 0; good && j < len(ks); j++ {
			key, isC := constString(ks[j].scalar)
			if ks[j].scalar == nil || vs[j].scalar == nil || !isC {
				good, why = false, fmt.Sprintf("position %d is not a constant key with one value", j)
				break
			}
			switch key {
			case "namespace":
				nNS++
				if !namespaceOf(obj)(vs[j].scalar) {
					good, why = false, fmt.Sprintf("key %q at position %d is paired with %s", key, j, vs[j].scalar.String())
				}
			case "name":
				nName++
				if !nameOf(obj)(vs[j].scalar) {
					good, why = false, fmt.Sprintf("key %q at position %d is paired with %s", key, j, vs[j].scalar.String())
				}
			default:
				good, why = false, fmt.Sprintf("unknown key %q", key)
			}
		}
		if good && (nNS != 1 || nName != 1) {
			good, why = false, "namespace and name keys must each appear once"
		}
		r.Check("C20.R3", construct, r.Prog.Pos(instrPos(ret)), shortFunc(fn), "keys \"namespace\"/\"name\" are paired position-wise with obj.GetNamespace()/obj.GetName()", good, why)
		r.Check("C20.R3", construct+" arity", r.Prog.Pos(instrPos(ret)), shortFunc(fn), "exactly the two identifying labels", len(ks) == 2, why)
	}
}

// ---------------------------------------------------------------------------------------------
// R2

// c20Raw decides whether string values are label keys taken unchanged from `range obj.Labels`.
type c20Raw struct {
	fn      *ssa.Function
	obj     *ssa.Parameter
	memo    map[ssa.Value]int // 1 in progress/true, 2 false
	why     string
	sorted  bool
	rangeIt *ssa.Range
}

func (c *c20Raw) isLabelsMap(v ssa.Value) bool {
	root, p := accessPath(v)
	if root != ssa.Value(c.obj) || len(p) == 0 || p[len(p)-1] != "Labels" {
		return false
	}
	for _, f := range p[:len(p)-1] {
		if f != "ObjectMeta" {
			return false
		}
	}
	u, ok := v.(*ssa.UnOp)
	return ok && u.Op == token.MUL
}

func (c *c20Raw) fail(why string) bool {
	if c.why == "" {
		c.why = why
	}
	return false
}

// key: v is a raw label key.
func (c *c20Raw) key(v ssa.Value) bool {
	switch x := v.(type) {
	case *ssa.Extract:
		if nx, ok := x.Tuple.(*ssa.Next); ok && x.Index == 1 {
			if rg, ok := nx.Iter.(*ssa.Range); ok && c.isLabelsMap(rg.X) {
				return true
			}
		}
		return c.fail("key " + v.Name() + " is not the key of a range over obj.Labels")
	case *ssa.Phi:
		if c.memo[v] == 1 {
			return true
		}
		c.memo[v] = 1
		for _, e := range x.Edges {
			if !c.key(e) {
				return false
			}
		}
		return true
	case *ssa.UnOp:
		if x.Op == token.MUL {
			if ia, ok := x.X.(*ssa.IndexAddr); ok {
				return c.slice(ia.X)
			}
			if a, ok := x.X.(*ssa.Alloc); ok {
				sts := cellStores(a)
				if len(sts) == 0 || len(sts) != len(refsStores(a)) {
					return c.fail("key variable is written through an alias")
				}
				for _, st := range sts {
					if !c.key(st.Val) {
						return false
					}
				}
				return true
			}
		}
	case *ssa.Index:
		return c.slice(x.X)
	}
	return c.fail(fmt.Sprintf("key %s (%s) is derived, not an original key of obj.Labels", v.Name(), v.String()))
}

func refsStores(a *ssa.Alloc) []*ssa.Store {
	var out []*ssa.Store
	for _, rr := range refs(a) {
		if st, ok := rr.(*ssa.Store); ok {
			out = append(out, st)
		}
	}
	return out
}

// slice: every element the slice can hold is a raw label key.
func (c *c20Raw) slice(v ssa.Value) bool {
	if c.memo[v] == 1 {
		return true
	}
	c.memo[v] = 1
	switch x := v.(type) {
	case *ssa.Const:
		if x.IsNil() {
			return true
		}
	case *ssa.MakeSlice:
		if n, ok := constInt(x.Len); ok && n == 0 {
			return c.sliceUses(x)
		}
		return c.fail("key slice is made with a non-zero length (holds empty strings)")
	case *ssa.Slice:
		if a, ok := x.X.(*ssa.Alloc); ok {
			elems, ok := orderedArrayElems(a)
			if !ok {
				return c.fail("key slice literal is not understood")
			}
			for _, e := range elems {
				if !c.key(e) {
					return false
				}
			}
			return true
		}
		return c.slice(x.X)
	case *ssa.Phi:
		for _, e := range x.Edges {
			if !c.slice(e) {
				return false
			}
		}
		return c.sliceUses(x)
	case *ssa.Call:
		if _, ok := isBuiltinCall(x, "append"); ok {
			for _, a := range x.Call.Args {
				if !c.slice(a) {
					return false
				}
			}
			return c.sliceUses(x)
		}
	case *ssa.UnOp:
		if x.Op == token.MUL {
			if a, ok := x.X.(*ssa.Alloc); ok {
				return c.cell(a) && c.sliceUses(x)
			}
			if fv, ok := x.X.(*ssa.FreeVar); ok {
				_ = fv
				return c.fail("key slice is read through a captured variable outside its defining function")
			}
		}
	}
	return c.fail(fmt.Sprintf("key slice %s (%s) is not built only from original keys", v.Name(), v.String()))
}

// cell: a local variable holding the key slice; all its stores are raw slices and it is otherwise only
// loaded, or captured by closures that only read it.
func (c *c20Raw) cell(a *ssa.Alloc) bool {
	if c.memo[a] == 1 {
		return true
	}
	c.memo[a] = 1
	for _, rr := range refs(a) {
		switch x := rr.(type) {
		case *ssa.Store:
			if x.Addr != ssa.Value(a) {
				return c.fail("the key slice variable's address is stored")
			}
			if !c.slice(x.Val) {
				return false
			}
		case *ssa.UnOp:
			if x.Op != token.MUL {
				return c.fail("unexpected use of the key slice variable")
			}
			if !c.sliceUses(x) {
				return false
			}
		case *ssa.MakeClosure:
			cl, _ := x.Fn.(*ssa.Function)
			if cl == nil {
				return c.fail("key slice variable captured by an unknown closure")
			}
			for i, b := range x.Bindings {
				if b != ssa.Value(a) {
					continue
				}
				if !c.closureReadsOnly(cl.FreeVars[i]) {
					return c.fail("a closure capturing the key slice writes to it")
				}
			}
		case *ssa.DebugRef:
		default:
			return c.fail("the key slice variable escapes")
		}
	}
	return true
}

func (c *c20Raw) closureReadsOnly(fv *ssa.FreeVar) bool {
	for _, rr := range refs(fv) {
		u, ok := rr.(*ssa.UnOp)
		if !ok || u.Op != token.MUL {
			return false
		}
		for _, r2 := range refs(u) {
			switch y := r2.(type) {
			case *ssa.IndexAddr:
				for _, r3 := range refs(y) {
					if l, isL := r3.(*ssa.UnOp); !isL || l.Op != token.MUL {
						return false
					}
				}
			case *ssa.Call:
				if _, isLen := isBuiltinCall(y, "len"); !isLen {
					return false
				}
			case *ssa.DebugRef:
			default:
				return false
			}
		}
	}
	return true
}

// sliceUses: the uses of one SSA slice value keep it a multiset of raw keys: element loads, element
// stores of raw keys, len, append, storing back to a raw cell, phi, and permutation by sort.
func (c *c20Raw) sliceUses(v ssa.Value) bool {
	for _, rr := range refs(v) {
		switch x := rr.(type) {
		case *ssa.IndexAddr:
			for _, r2 := range refs(x) {
				switch y := r2.(type) {
				case *ssa.UnOp:
					if y.Op != token.MUL {
						return c.fail("address of a key slice element is used")
					}
				case *ssa.Store:
					if y.Addr != ssa.Value(x) || !c.key(y.Val) {
						return c.fail("an element that is not an original key is stored into the key slice")
					}
				case *ssa.DebugRef:
				default:
					return c.fail("address of a key slice element escapes")
				}
			}
		case *ssa.Index, *ssa.DebugRef:
		case *ssa.Phi:
			if !c.slice(x) {
				return false
			}
		case *ssa.Store:
			a, ok := x.Addr.(*ssa.Alloc)
			if !ok || x.Val != v {
				return c.fail("the key slice is stored outside a local variable")
			}
			if !c.cell(a) {
				return false
			}
		case *ssa.Slice:
			// re-slicing keeps a sub-multiset
			if !c.sliceUses(x) {
				return false
			}
		case *ssa.Call:
			if _, ok := isBuiltinCall(x, "len"); ok {
				continue
			}
			if _, ok := isBuiltinCall(x, "cap"); ok {
				continue
			}
			if _, ok := isBuiltinCall(x, "append"); ok {
				continue
			}
			switch calleeName(&x.Call) {
			case "sort.Strings", "slices.Sort":
				c.sorted = true
				continue
			}
			return c.fail("the key slice is passed to " + calleeName(&x.Call))
		case *ssa.MakeInterface:
			for _, r2 := range refs(x) {
				call, ok := r2.(*ssa.Call)
				if !ok {
					if _, isD := r2.(*ssa.DebugRef); isD {
						continue
					}
					return c.fail("the key slice is converted to an interface and kept")
				}
				switch calleeName(&call.Call) {
				case "sort.Slice", "sort.SliceStable":
					c.sorted = true
				default:
					return c.fail("the key slice is passed to " + calleeName(&call.Call))
				}
			}
		case *ssa.ChangeType, *ssa.Convert:
			// e.g. sort.StringSlice(keys)
			if !c.sliceUses(rr.(ssa.Value)) {
				return false
			}
		default:
			return c.fail(fmt.Sprintf("unexpected use of the key slice: %s", rr.String()))
		}
	}
	return true
}

func c20BuildInfoLabels(r *Run, fn *ssa.Function) {
	pos := r.Prog.Pos(fn.Pos())
	sf := shortFunc(fn)
	if len(fn.Params) != 1 {
		r.Undecided("C20.R2", "signature", pos, sf, "unexpected signature")
		return
	}
	c := &c20Raw{fn: fn, obj: fn.Params[0], memo: map[ssa.Value]int{}}

	// (a) every lookup into obj.Labels, in the function and its closures, uses a raw key
	nLookups := 0
	fns := []*ssa.Function{fn}
	fns = append(fns, fn.AnonFuncs...)
	for _, f := range fns {
		for _, b := range f.Blocks {
			for _, in := range b.Instrs {
				lk, ok := in.(*ssa.Lookup)
				if !ok {
					continue
				}
				if f != fn {
					// a closure cannot see the parameter except through a capture; any map lookup in it whose map derives from a capture is undecided
					r.Undecided("C20.R2", "lookup in closure", r.Prog.Pos(instrPos(lk)), shortFunc(f), "map lookup inside a closure of BuildInfoLabels")
					continue
				}
				if !c.isLabelsMap(lk.X) {
					continue
				}
				nLookups++
				c.why, c.memo = "", map[ssa.Value]int{}
				ok2 := c.key(lk.Index)
				r.Check("C20.R2", fmt.Sprintf("lookup %d key domain", nLookups), r.Prog.Pos(instrPos(lk)), sf,
					"index into obj.Labels is an original key of obj.Labels (element of range obj.Labels, unchanged)", ok2, c.why)
			}
		}
	}
	if nLookups == 0 {
		r.Check("C20.R2", "lookup key domain", pos, sf, "label values are read from obj.Labels", false, "no lookup into obj.Labels found")
	}

	// (b) pairing of the two results, (c) coverage
	k := newKeyer(fn)
	for _, b := range fn.Blocks {
		ret := returnOf(b)
		if ret == nil {
			continue
		}
		rpos := r.Prog.Pos(instrPos(ret))
		if len(ret.Results) != 2 {
			r.Undecided("C20.R2", "results", rpos, sf, "unexpected result count")
			continue
		}
		c20Fill(r, c, k, fn, ret)
	}
}

// c20Fill checks the index-store idiom: K := make(n); V := make(n); for i, key := range S { K[i] = f(key); V[i] = obj.Labels[key] }.
func c20Fill(r *Run, c *c20Raw, k *keyer, fn *ssa.Function, ret *ssa.Return) {
	sf := shortFunc(fn)
	rpos := r.Prog.Pos(instrPos(ret))
	K, okK := ret.Results[0].(*ssa.MakeSlice)
	V, okV := ret.Results[1].(*ssa.MakeSlice)
	undecidedAll := func(pos, why string) {
		for _, c := range []string{"pairing of key and value stores", "fill loop covers every collected key", "every label key is collected once"} {
			r.Undecided("C20.R2", c, pos, sf, why)
		}
	}
	if !okK || !okV {
		undecidedAll(rpos, "results are not two slices made with a length and filled by index (the only idiom the rule decides)")
		return
	}
	single := func(s *ssa.MakeSlice) (*ssa.Store, *ssa.IndexAddr, string) {
		var st *ssa.Store
		var at *ssa.IndexAddr
		for _, rr := range refs(s) {
			switch x := rr.(type) {
			case *ssa.IndexAddr:
				for _, r2 := range refs(x) {
					if s2, isSt := r2.(*ssa.Store); isSt && s2.Addr == ssa.Value(x) {
						if st != nil {
							return nil, nil, "more than one element store"
						}
						st, at = s2, x
					} else if _, isLoad := r2.(*ssa.UnOp); !isLoad {
						if _, isD := r2.(*ssa.DebugRef); !isD {
							return nil, nil, "element address escapes"
						}
					}
				}
			case *ssa.Return, *ssa.DebugRef:
			case *ssa.Call:
				if _, isLen := isBuiltinCall(x, "len"); !isLen {
					return nil, nil, "slice is passed to a call"
				}
			default:
				return nil, nil, "slice is used by " + rr.String()
			}
		}
		if st == nil {
			return nil, nil, "no element store"
		}
		return st, at, ""
	}
	ks, kAt, why1 := single(K)
	vs, vAt, why2 := single(V)
	if ks == nil || vs == nil {
		undecidedAll(rpos, "key slice: "+why1+"; value slice: "+why2)
		return
	}
	// value = obj.Labels[key]
	var key ssa.Value
	vv := vs.Val
	if ex, ok := vv.(*ssa.Extract); ok && ex.Index == 0 {
		vv = ex.Tuple
	}
	if lk, ok := vv.(*ssa.Lookup); ok && c.isLabelsMap(lk.X) {
		key = lk.Index
	}
	spos := r.Prog.Pos(instrPos(vs))
	if key == nil {
		r.Check("C20.R2", "pairing of key and value stores", spos, sf, "the stored label value is obj.Labels[key]", false, "stored value is "+vs.Val.String())
		undecidedAll2 := []string{"fill loop covers every collected key", "every label key is collected once"}
		for _, c := range undecidedAll2 {
			r.Undecided("C20.R2", c, spos, sf, "the stored label value is not a lookup into obj.Labels")
		}
		return
	}
	c.why, c.memo = "", map[ssa.Value]int{}
	rawOK := c.key(key)
	samePos := ks.Block() == vs.Block() && kAt.Index == vAt.Index
	// key image: a call whose only non-constant string argument is the same key value
	imgOK := false
	imgWhy := "stored key is " + ks.Val.String()
	if call, ok := ks.Val.(*ssa.Call); ok {
		n := 0
		same := true
		for _, a := range call.Call.Args {
			if _, isC := a.(*ssa.Const); isC {
				continue
			}
			n++
			if a != key {
				same = false
			}
		}
		if n == 1 && same && staticCallee(&call.Call) != nil {
			imgOK = true
			imgWhy = "key image " + calleeName(&call.Call) + "(key)"
		} else {
			imgWhy = "the sanitised key is computed from a different value than the key used for the lookup"
		}
	} else if ks.Val == key {
		imgOK = true
		imgWhy = "key stored unchanged"
	}
	r.Check("C20.R2", "pairing of key and value stores", spos, sf,
		"labelValues[i] = obj.Labels[k] and labelKeys[i] = sanitise(k) for the same original key k and the same index i, in the same block",
		rawOK && samePos && imgOK, fmt.Sprintf("original key=%v (%s) same block and index=%v; %s", rawOK, c.why, samePos, imgWhy))

	// coverage: key = S[i], i runs over every index of S, K and V have len(S)
	var S ssa.Value
	var idx ssa.Value
	if u, ok := key.(*ssa.UnOp); ok && u.Op == token.MUL {
		if ia, ok := u.X.(*ssa.IndexAddr); ok {
			S, idx = ia.X, ia.Index
		}
	}
	covOK, covWhy := false, ""
	switch {
	case S == nil:
		covWhy = "undecided: the key is not an element S[i] of a collected key slice"
	case idx != kAt.Index:
		covWhy = "the key is read at a different index than the one the results are stored at"
	default:
		covOK, covWhy = c20FullIndexLoop(fn, k, idx, S, ks.Block())
		if covOK {
			lk, lv, ls := k.key(K.Len), k.key(V.Len), "builtin:len("+k.key(S)+")"
			if lk != ls || lv != ls {
				covOK, covWhy = false, fmt.Sprintf("result lengths %s / %s differ from the number of collected keys %s", lk, lv, ls)
			}
		}
	}
	r.Check("C20.R2", "fill loop covers every collected key", spos, sf,
		"the loop stores at every index 0..len(S)-1 of the collected key slice S, and both results have length len(S)", covOK, covWhy)

	// collection: S receives exactly one original key per iteration of range obj.Labels, and nothing after
	colOK, colWhy := c20Collection(fn, c, S, ks.Block())
	r.Check("C20.R2", "every label key is collected once", r.Prog.Pos(fn.Pos()), sf,
		"the key slice starts empty and gets exactly one append of the range key on every iteration of range obj.Labels; it is not reassigned afterwards", colOK, colWhy)
}

// c20FullIndexLoop: idx enumerates 0..len(S)-1 (range-over-slice or the classic for loop) and block b
// runs on every iteration.
func c20FullIndexLoop(fn *ssa.Function, k *keyer, idx, S ssa.Value, b *ssa.BasicBlock) (bool, string) {
	header, why := indexLoopOver(k, idx, S)
	if header == nil {
		return false, why
	}
	body := header.Succs[0]
	if !onEveryIteration(fn, body, header, b) {
		return false, "the stores are skipped on some iterations"
	}
	return true, "index runs over 0..len(S)-1"
}

func c20Collection(fn *ssa.Function, c *c20Raw, S ssa.Value, after *ssa.BasicBlock) (bool, string) {
	if S == nil {
		return false, "undecided: no collected key slice"
	}
	var inits []ssa.Value
	var steps []*ssa.Call
	var stepBlocks []*ssa.BasicBlock
	switch x := S.(type) {
	case *ssa.UnOp:
		a, ok := x.X.(*ssa.Alloc)
		if !ok || x.Op != token.MUL {
			return false, "undecided: collected key slice is not a local variable"
		}
		for _, st := range cellStores(a) {
			if ap, isAp := isBuiltinCall(st.Val, "append"); isAp {
				if l, isL := ap.Call.Args[0].(*ssa.UnOp); isL && l.X == ssa.Value(a) {
					steps = append(steps, ap)
					stepBlocks = append(stepBlocks, st.Block())
					continue
				}
			}
			inits = append(inits, st.Val)
		}
	case *ssa.Phi:
		for _, e := range x.Edges {
			if ap, isAp := isBuiltinCall(e, "append"); isAp && ap.Call.Args[0] == ssa.Value(x) {
				steps = append(steps, ap)
				stepBlocks = append(stepBlocks, ap.Block())
				continue
			}
			inits = append(inits, e)
		}
	default:
		return false, "undecided: collected key slice is neither a local variable nor a loop phi"
	}
	if len(inits) != 1 || len(steps) != 1 {
		return false, fmt.Sprintf("the key slice has %d initialisations and %d appends (need one each)", len(inits), len(steps))
	}
	switch x := inits[0].(type) {
	case *ssa.MakeSlice:
		if n, ok := constInt(x.Len); !ok || n != 0 {
			return false, "the key slice does not start empty"
		}
	case *ssa.Const:
		if !x.IsNil() {
			return false, "the key slice does not start empty"
		}
	case *ssa.Slice:
		a, ok := x.X.(*ssa.Alloc)
		if !ok {
			return false, "the key slice does not start empty"
		}
		if at, isArr := a.Type().Underlying().(*types.Pointer).Elem().Underlying().(*types.Array); !isArr || at.Len() != 0 {
			return false, "the key slice does not start empty"
		}
	default:
		return false, "the key slice does not start empty"
	}
	ap := steps[0]
	if len(ap.Call.Args) != 2 {
		return false, "append without element"
	}
	sl, ok := ap.Call.Args[1].(*ssa.Slice)
	if !ok {
		return false, "undecided: appended elements are not a single key"
	}
	arr, ok := sl.X.(*ssa.Alloc)
	if !ok {
		return false, "undecided: appended elements are not a single key"
	}
	elems, ok := orderedArrayElems(arr)
	if !ok || len(elems) != 1 {
		return false, fmt.Sprintf("%d elements appended per iteration (need exactly one)", len(elems))
	}
	ex, ok := elems[0].(*ssa.Extract)
	if !ok {
		return false, "the appended element is not the range key"
	}
	nx, ok := ex.Tuple.(*ssa.Next)
	if !ok || ex.Index != 1 {
		return false, "the appended element is not the range key"
	}
	rg, ok := nx.Iter.(*ssa.Range)
	if !ok || !c.isLabelsMap(rg.X) {
		return false, "the appended element is not the key of range obj.Labels"
	}
	header := nx.Block()
	iff, ok := header.Instrs[len(header.Instrs)-1].(*ssa.If)
	if !ok || len(header.Succs) != 2 {
		return false, "undecided: range loop shape"
	}
	_ = iff
	body := header.Succs[0]
	if !onEveryIteration(fn, body, header, stepBlocks[0]) {
		return false, "some label keys are skipped (the append is not executed on every iteration)"
	}
	// the fill happens after the loop: the loop exit dominates the fill block
	exit := header.Succs[1]
	if !exit.Dominates(after) {
		return false, "the results are filled before the collection loop has finished"
	}
	return true, "one append of the range key per iteration"
}

var _ = sort.Strings
