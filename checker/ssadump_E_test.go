package main

import (
	"os"
	"strings"
	"testing"
)

// TestDbg prints the SSA exactly as the rules see it (x/tools v0.29.0 initialises composite literals in
// place, unlike the system ssadump): DBG=pkgpath.Func[,pkgpath.Func] go test -run TestDbg -v .
func TestDbg(t *testing.T) {
	repo := os.Getenv("DBGREPO")
	if repo == "" {
		repo = "/repo"
	}
	p, err := Load(repo, "")
	if err != nil {
		t.Fatal(err)
	}
	for _, spec := range strings.Split(os.Getenv("DBG"), ",") {
		i := strings.LastIndex(spec, ".")
		if i < 0 {
			continue
		}
		fn := p.Func(spec[:i], spec[i+1:])
		if fn == nil {
			t.Logf("not found %s", spec)
			continue
		}
		fn.WriteTo(os.Stdout)
		for _, a := range fn.AnonFuncs {
			a.WriteTo(os.Stdout)
		}
	}
}
