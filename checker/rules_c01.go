package main

// C01 — at most one daemon pod per node, and only on eligible nodes.

import (
	"fmt"
	"go/types"
	"sort"
	"strings"

	"golang.org/x/tools/go/ssa"
)

func init() {
	register("C01", "Decides the structure that makes the replica-set sync create at most one pod per eligible node: (R1) the per-node map of the mapping function gets a new key only under CheckNodeFitness(template pod of this replica set, node)==true for the node whose name is the key, the node index is keyed by the node's own name, and the de-duplication step creates output entries only for keys of its input; (R2) every iteration of the pod-association loop that does not attach the pod to its node's list carries an allowed reason (no node name, phase Unknown, phase Failed and appended to the clean-up list, node not in the map) — in particular terminating pods keep their node's entry non-nil; (R3) every append of a pod to the per-node list or to the clean-up list is dominated by phase != Unknown, the clean-up list is otherwise fed only by the de-duplication step, and a pod whose node is not in the map is put on the clean-up list unless the node is ignored or the pod is already terminating; (R4) every element that can reach Result.PodsToCreate is appended under `pod == nil` for the (node,pod) pair of the per-node map (range pair, or present-and-nil lookup), the creator receives Result.PodsToCreate unmodified and issues exactly one Create(*Pod), outside any inner loop, per element of one range over that list, for a pod built for element.Node; (R5) creation candidates are keys of one map range or NodeByName[n] for n ranging over the canary node names (distinct by C15.R1); (R6) the kept pod of a node is index 0 after sorting with a comparator that orders scheduled before unscheduled and, among equally scheduled pods, earlier creation first; (R7) CheckNodeFitness is true only with node-selector match, required-node-affinity match and all taints of effect exactly {NoSchedule, NoExecute} tolerated.", runC01)
}

// c01Anchors are the functions and values the C01/C04 rules are instantiated on, found from what
// they do (stores into strategy.Parameters) rather than by name.
type c01Anchors struct {
	rec        *ssa.Function
	reach      map[*ssa.Function]bool
	builder    *ssa.Function // function that fills strategy.Parameters (buildStrategyParams)
	mapping    *ssa.Function // FilterAndMapPodsByNode
	mapCall    *ssa.Call
	podMapIdx  int
	cleanIdx   int
	nodeMapIdx int
	dedup      *ssa.Function // FilterPodsByNode
	dedupCall  *ssa.Call
	nameMap    ssa.Value       // map[node name][]*Pod inside mapping
	nodeIndex  ssa.Value       // map[node name]*NodeItem inside mapping
	al         *aliasC         // identity of values across the mapping function's helpers
	scope      []*ssa.Function // the mapping function and the repository helpers it reaches (sorted)
}

// isNameMap / isNodeIndex: v denotes the per-node-name map / the node index, in the mapping
// function or in a helper it hands the map to or gets it from.
func (a *c01Anchors) isNameMap(v ssa.Value) bool   { return a.al.same(v, a.nameMap) }
func (a *c01Anchors) isNodeIndex(v ssa.Value) bool { return a.al.same(v, a.nodeIndex) }

func c01ERSReconcile(r *Run) (*ssa.Function, map[*ssa.Function]bool) {
	rec := r.Prog.Method(pkgERS, "Reconciler", "Reconcile")
	if rec == nil {
		r.Fatal("anchor (%s.Reconciler).Reconcile not found", pkgERS)
		return nil, nil
	}
	return rec, r.Prog.reachableFuncs(rec)
}

// c01ExtractOfRepoCall: v is `extract call #i` of a call to a repository function.
func c01ExtractOfRepoCall(p *Prog, v ssa.Value) (*ssa.Call, int, bool) {
	e, ok := v.(*ssa.Extract)
	if !ok {
		return nil, 0, false
	}
	c, ok := e.Tuple.(*ssa.Call)
	if !ok {
		return nil, 0, false
	}
	cal := staticCallee(&c.Call)
	if cal == nil || !p.IsRuleSite(cal) {
		return nil, 0, false
	}
	return c, e.Index, true
}

func c01FindAnchors(r *Run) *c01Anchors {
	rec, reach := c01ERSReconcile(r)
	if rec == nil {
		return nil
	}
	a := &c01Anchors{rec: rec, reach: reach, podMapIdx: -1, cleanIdx: -1, nodeMapIdx: -1}
	for _, fn := range sortedFuncs(reach) {
		for field, dst := range map[string]*int{"PodByNodeName": &a.podMapIdx, "PodToCleanUp": &a.cleanIdx, "NodeByName": &a.nodeMapIdx} {
			for _, st := range fieldStoresInC(fn, pkgStrategy, "Parameters", field) {
				c, idx, ok := c01ExtractOfRepoCall(r.Prog, st.Val)
				if !ok {
					r.Fatal("store to strategy.Parameters.%s in %s does not take a result of a repository mapping function", field, shortFunc(fn))
					return nil
				}
				if a.mapCall != nil && a.mapCall != c {
					r.Fatal("strategy.Parameters.%s is filled from a different call than the other per-node fields", field)
					return nil
				}
				a.mapCall, a.builder = c, fn
				*dst = idx
			}
		}
	}
	if a.mapCall == nil || a.podMapIdx < 0 || a.cleanIdx < 0 || a.nodeMapIdx < 0 {
		r.Fatal("no function reachable from the replica-set Reconcile fills strategy.Parameters.{PodByNodeName,PodToCleanUp,NodeByName} from one mapping call")
		return nil
	}
	a.mapping = staticCallee(&a.mapCall.Call)
	// the per-node map result comes from the de-duplication step
	for _, b := range a.mapping.Blocks {
		ret := returnOf(b)
		if ret == nil {
			continue
		}
		for _, o := range origins(ret.Results[a.podMapIdx]) {
			c, idx, ok := c01ExtractOfRepoCall(r.Prog, o)
			if !ok || idx != 0 || len(c.Call.Args) != 2 {
				r.Fatal("per-node map returned by %s does not come from result #0 of a two-argument de-duplication function", shortFunc(a.mapping))
				return nil
			}
			if a.dedupCall != nil && a.dedupCall != c {
				r.Fatal("per-node map returned by %s comes from several calls", shortFunc(a.mapping))
				return nil
			}
			a.dedupCall = c
		}
	}
	if a.dedupCall == nil {
		r.Fatal("per-node map returned by %s has no recognised origin", shortFunc(a.mapping))
		return nil
	}
	a.dedup = staticCallee(&a.dedupCall.Call)
	a.nameMap, a.nodeIndex = a.dedupCall.Call.Args[0], a.dedupCall.Call.Args[1]
	a.al = newAliasC(r.Prog, reach)
	for _, f := range sortedFuncs(r.Prog.reachableFuncs(a.mapping)) {
		if r.Prog.IsRuleSite(f) && f != a.dedup {
			a.scope = append(a.scope, f)
		}
	}
	// the maps are made (make/literal) by the mapping function or by a helper that returns them
	if _, ok := a.al.canon(a.nameMap).(*ssa.MakeMap); !ok {
		r.Fatal("the map handed to %s is not a map made by %s or a helper it calls", shortFunc(a.dedup), shortFunc(a.mapping))
		return nil
	}
	if _, ok := a.al.canon(a.nodeIndex).(*ssa.MakeMap); !ok {
		r.Fatal("the node index handed to %s is not a map made by %s or a helper it calls", shortFunc(a.dedup), shortFunc(a.mapping))
		return nil
	}
	return a
}

func runC01(r *Run) {
	r.RuleDoc("C01.R1", "per-node map entries only for nodes passing CheckNodeFitness; node index keyed by the node's name; de-duplication output keys ⊆ input keys")
	r.RuleDoc("C01.R2", "association loop: a pod is left out of its node's list only for an allowed reason (terminating pods are kept)")
	r.RuleDoc("C01.R3", "Unknown-phase pods reach neither the per-node lists nor the clean-up list; pods of unmapped nodes are cleaned up")
	r.RuleDoc("C01.R4", "creation candidates only under pod==nil for the (node,pod) pair; one Create(*Pod) per element of Result.PodsToCreate")
	r.RuleDoc("C01.R5", "creation candidates are pairwise distinct by construction (keys of one map range / canary node names)")
	r.RuleDoc("C01.R6", "kept pod is index 0 after sorting scheduled-first, then oldest-first")
	r.RuleDoc("C01.R7", "CheckNodeFitness: true only with selector, required affinity and {NoSchedule,NoExecute} taints satisfied")
	r.Floor("C01.R1", 4)
	r.Floor("C01.R2", 5)
	r.Floor("C01.R3", 5)
	r.Floor("C01.R4", 6)
	r.Floor("C01.R5", 2)
	r.Floor("C01.R6", 6)
	r.Floor("C01.R7", 8)
	r.NotCovered("two replica sets of one ExtendedDaemonSet creating for the same node in different reconciles; stale informer caches; kubelet/scheduler/user actions between the List and the Create; the arithmetic of how many candidates are created per sync (C03/C09); the pod built by the constructor (C10)")

	a := c01FindAnchors(r)
	if a == nil {
		return
	}
	c01MapEntries(r, a)
	c01Association(r, a)
	c01Candidates(r, a)
	c01Creator(r, a)
	c01Dedup(r, a)
	c01Fitness(r)
	c01CleanupAlways(r)
}

// ---------------------------------------------------------------------------------------------
// R1

// c01TemplatePod: v is result #0 of CreatePodFromDaemonSetReplicaSet(_, <replica-set parameter>, ...).
func c01TemplatePod(v ssa.Value) bool {
	c, ok := isResultOf(v, pkgPodUtils+".CreatePodFromDaemonSetReplicaSet", 0)
	if !ok || len(c.Call.Args) < 2 {
		return false
	}
	p, isP := c.Call.Args[1].(*ssa.Parameter)
	return isP && isPtrToNamed(p.Type(), pkgAPI, "ExtendedDaemonSetReplicaSet")
}

// c01TemplatePodA: like c01TemplatePod, for a pod handed to a helper as a parameter.
func c01TemplatePodA(al *aliasC, v ssa.Value) bool {
	if c01TemplatePod(v) {
		return true
	}
	var c *ssa.Call
	for _, w := range al.chain(v) {
		if cc, ok := isResultOf(w, pkgPodUtils+".CreatePodFromDaemonSetReplicaSet", 0); ok {
			c = cc
			break
		}
	}
	if c == nil || len(c.Call.Args) < 2 {
		return false
	}
	rs := c.Call.Args[1]
	if ld, isLd := rs.(*ssa.UnOp); isLd {
		if cell, isA := ld.X.(*ssa.Alloc); isA && spillOfC(cell) != nil {
			rs = spillOfC(cell)
		}
	}
	p, isP := rs.(*ssa.Parameter)
	return isP && isPtrToNamed(p.Type(), pkgAPI, "ExtendedDaemonSetReplicaSet")
}

// c01FitFact: the facts contain CheckNodeFitness(_, template pod, N)==true with key == N.Name.
func c01FitFact(al *aliasC, k *keyer, fs factSet, key ssa.Value) (bool, string) {
	kroot, kpath := accessPath(unwrap(key))
	why := "no fact CheckNodeFitness(...)==true"
	for _, f := range fs {
		c, ok := f.V.(*ssa.Call)
		if !ok || !f.Pol || calleeName(&c.Call) != pkgSched+".CheckNodeFitness" || len(c.Call.Args) != 3 {
			continue
		}
		if !c01TemplatePodA(al, c.Call.Args[1]) {
			why = "CheckNodeFitness is not given the pod built from this replica set's template"
			continue
		}
		nroot, npath := accessPath(unwrap(c.Call.Args[2]))
		if !sameValueC(k, nroot, kroot) && nroot != kroot {
			why = "CheckNodeFitness is applied to a different node than the one whose name is the key"
			continue
		}
		if len(kpath) > len(npath) && pathIsC(kpath[:len(npath)], npath...) && pathIsMetaC(kpath[len(npath):], "Name") {
			return true, "CheckNodeFitness(template pod, " + descValueC(c.Call.Args[2]) + ")"
		}
		why = "key " + descValueC(key) + " is not the Name of the node checked (" + descValueC(c.Call.Args[2]) + ")"
	}
	return false, why
}

// c01ExistingKey: the facts contain `nameMap[k],ok` with ok true for the same key.
func c01LookupOK(k *keyer, fs factSet, isMap func(ssa.Value) bool, key ssa.Value, pol bool) bool {
	return valueFactC(fs, pol, func(v ssa.Value) bool {
		e, ok := v.(*ssa.Extract)
		if !ok || e.Index != 1 {
			return false
		}
		l, ok := e.Tuple.(*ssa.Lookup)
		return ok && l.CommaOk && isMap(l.X) && sameValueC(k, l.Index, key)
	})
}

func c01MapEntries(r *Run, a *c01Anchors) {
	nCreate := 0
	for _, fn := range a.scope {
		var ff *FuncFacts
		for _, b := range fn.Blocks {
			for _, in := range b.Instrs {
				mu, ok := in.(*ssa.MapUpdate)
				if !ok {
					continue
				}
				if ff == nil {
					ff = computeFacts(fn)
				}
				pos := r.Prog.Pos(instrPos(mu))
				switch {
				case a.isNameMap(mu.Map):
					fs := ff.At(b)
					if c01LookupOK(ff.K, fs, a.isNameMap, mu.Key, true) {
						o := r.Check("C01.R1", "update of an existing per-node entry", pos, shortFunc(fn), "key already present (lookup ok)", true, "")
						o.Trivial = true
						continue
					}
					nCreate++
					ok, detail := c01FitFact(a.al, ff.K, fs, mu.Key)
					r.Check("C01.R1", "new per-node entry "+descValueC(mu.Key), pos, shortFunc(fn),
						"a node enters the per-node map only under CheckNodeFitness(pod of this replica set's template, that node) == true", ok, detail)
				case a.isNodeIndex(mu.Map):
					// node index: key is the Name of the stored item's node
					vroot, vpath := accessPath(unwrap(mu.Value))
					kroot, kpath := accessPath(unwrap(mu.Key))
					ok := (vroot == kroot || sameValueC(ff.K, vroot, kroot)) && len(kpath) > len(vpath) && pathIsC(kpath[:len(vpath)], vpath...) && pathIsMetaC(kpath[len(vpath):], "Node", "Name")
					r.Check("C01.R1", "node index entry", pos, shortFunc(fn), "the node index maps a node's own name to its item", ok, "key "+descValueC(mu.Key)+" value "+descValueC(mu.Value))
				}
			}
		}
	}
	if nCreate == 0 {
		fn := a.mapping
		r.Check("C01.R1", "new per-node entry", r.Prog.Pos(fn.Pos()), shortFunc(fn), "the mapping function creates per-node entries", false, "no entry-creating map update found")
	}
	// de-duplication: output keys are nodeIndex[k] for k ranging over the input map
	d := a.dedup
	var loops []*mapLoopC
	for _, l := range mapLoopsC(d) {
		if len(d.Params) == 2 && l.Map == ssa.Value(d.Params[0]) {
			loops = append(loops, l)
		}
	}
	n := 0
	for _, b := range d.Blocks {
		for _, in := range b.Instrs {
			mu, ok := in.(*ssa.MapUpdate)
			if !ok {
				continue
			}
			if _, isOut := mu.Map.(*ssa.MakeMap); !isOut {
				continue
			}
			n++
			good := false
			if lk, isL := mu.Key.(*ssa.Lookup); isL && len(d.Params) == 2 && lk.X == ssa.Value(d.Params[1]) {
				for _, l := range loops {
					if l.Key() != nil && lk.Index == l.Key() && l.In[b] {
						good = true
					}
				}
			}
			r.Check("C01.R1", "de-duplication output entry", r.Prog.Pos(instrPos(mu)), shortFunc(d),
				"output entries are created only for keys of the input map (through the node index)", good, "key "+descValueC(mu.Key))
		}
	}
	if n == 0 {
		r.Check("C01.R1", "de-duplication output entry", r.Prog.Pos(d.Pos()), shortFunc(d), "the de-duplication step fills its output map", false, "no map update found")
	}
}

// ---------------------------------------------------------------------------------------------
// R2 / R3: the pod-association loop

type c01Loop struct {
	l        *sliceLoopC
	k        *keyer
	ff       *FuncFacts
	assoc    []*ssa.MapUpdate     // nameMap[k] = append(nameMap[k], pod)
	cleanApp map[*ssa.Call]bool   // appends that flow into the clean-up result
	ignore   func(ssa.Value) bool // is v `ignoreMap[k],ok`#1 / membership in the ignore parameter
	pre      *c01Pre              // filter phase, when the pods are first collected and then classified
}

// c01Pre is a filter phase in front of the classification loop: a range over the listed pods (in the
// mapping function or a helper) that passes some pods on, as elements {pod, node name} of the list
// the classification loop then ranges over.
type c01Pre struct {
	fn        *ssa.Function
	l         *sliceLoopC
	k         *keyer
	ff        *FuncFacts
	pass      []*ssa.Call // the appends that pass a pod on
	podField  string      // field of the passed element holding the pod
	nameField string      // field holding GetNodeNameFromPod(pod)
}

func (p *c01Pre) isPod(v ssa.Value) bool { return p.l.isElem(p.k, v) }
func (p *c01Pre) podPath(v ssa.Value, want ...string) bool {
	pp, ok := p.l.elemPath(p.k, v)
	return ok && pathIsMetaC(pp, want...)
}

// c01PodLoop finds the loop that classifies the listed pods: the range loop over <PodList
// parameter>.Items of the mapping function, or — when the pods are collected first — the loop that
// attaches pods to the per-node map together with the filter phase feeding it.
func c01PodLoop(r *Run, a *c01Anchors) *c01Loop {
	fn := a.mapping
	var podList *ssa.Parameter
	for _, p := range fn.Params {
		if isPtrToNamed(p.Type(), pkgCoreV1, "PodList") {
			podList = p
		}
	}
	var found *sliceLoopC
	var pre *c01Pre
	for _, l := range sliceLoopsC(fn) {
		root, p := accessPath(l.Slice)
		if pr, ok := root.(*ssa.Parameter); ok && pr == podList && pathIsC(p, "Items") {
			if found != nil {
				r.Fatal("%s ranges twice over the listed pods", shortFunc(fn))
				return nil
			}
			found = l
		}
	}
	if found == nil && podList != nil {
		// collect-then-classify: the loop holding the association site ranges over a list built, by a
		// range over the listed pods, of {pod, node name} elements
		for _, l := range sliceLoopsC(fn) {
			has := false
			for b := range l.In {
				for _, in := range b.Instrs {
					if mu, ok := in.(*ssa.MapUpdate); ok && a.isNameMap(mu.Map) && builtinCallC(mu.Value, "append") != nil {
						has = true
					}
				}
			}
			if !has {
				continue
			}
			if p := c01FindPre(r, a, podList, l); p != nil {
				found, pre = l, p
			}
		}
	}
	if found == nil {
		r.Fatal("%s has no range loop over the listed pods (directly, or over a list collected from them)", shortFunc(fn))
		return nil
	}
	cl := &c01Loop{l: found, ff: computeFacts(fn), cleanApp: map[*ssa.Call]bool{}, pre: pre}
	cl.k = cl.ff.K
	for _, b := range fn.Blocks {
		if ret := returnOf(b); ret != nil {
			apps, _ := sliceChainC(ret.Results[a.cleanIdx])
			for _, c := range apps {
				cl.cleanApp[c] = true
			}
		}
		if !found.In[b] {
			continue
		}
		for _, in := range b.Instrs {
			if mu, ok := in.(*ssa.MapUpdate); ok && a.isNameMap(mu.Map) {
				cl.assoc = append(cl.assoc, mu)
			}
		}
	}
	return cl
}

// c01FindPre recognises the filter phase feeding loop l: l's slice is built only by appends, all in
// one range loop over <podList>.Items (podList handed to a helper or not), of struct elements one
// field of which is the current pod and another GetNodeNameFromPod(pod).
func c01FindPre(r *Run, a *c01Anchors, podList *ssa.Parameter, l *sliceLoopC) *c01Pre {
	apps, leaves := sliceChainIPC(l.Slice)
	if len(leaves) > 0 || len(apps) == 0 {
		return nil
	}
	h := apps[0].Parent()
	var l1 *sliceLoopC
	for _, c := range sliceLoopsC(h) {
		if ipIsC(a.al, c.Slice, podList, "Items") && c.In[apps[0].Block()] {
			l1 = c
		}
	}
	if l1 == nil {
		return nil
	}
	p := &c01Pre{fn: h, l: l1, ff: computeFacts(h)}
	p.k = p.ff.K
	for _, ap := range apps {
		if ap.Parent() != h || !l1.In[ap.Block()] {
			return nil
		}
		_, elems, spread := appendPartsC(ap)
		if spread != nil || len(elems) != 1 {
			return nil
		}
		ld, ok := elems[0].(*ssa.UnOp)
		if !ok {
			return nil
		}
		st, ok := ld.X.(*ssa.Alloc)
		if !ok || !localStructC(st) {
			return nil
		}
		podF, nameF := "", ""
		for _, rf := range refs(st) {
			fa, isFA := rf.(*ssa.FieldAddr)
			if !isFA {
				continue
			}
			for _, r2 := range refs(fa) {
				sto, isSt := r2.(*ssa.Store)
				if !isSt || sto.Addr != ssa.Value(fa) {
					continue
				}
				if l1.isElem(p.k, sto.Val) {
					podF = fieldName(fa)
				}
				if c, isRes := isResultOf(sto.Val, pkgPodUtils+".GetNodeNameFromPod", 0); isRes && l1.isElem(p.k, c.Call.Args[0]) {
					nameF = fieldName(fa)
				}
			}
		}
		if podF == "" || nameF == "" || (p.podField != "" && (p.podField != podF || p.nameField != nameF)) {
			return nil
		}
		p.podField, p.nameField = podF, nameF
		p.pass = append(p.pass, ap)
	}
	return p
}

// isPod: v is the loop's current pod (address, copy or value; with a filter phase: the pod field of
// the current element).
func (cl *c01Loop) isPod(v ssa.Value) bool {
	if cl.pre != nil {
		p, ok := cl.l.elemPath(cl.k, v)
		return ok && pathIsC(p, cl.pre.podField)
	}
	return cl.l.isElem(cl.k, v)
}

// podField: v is a field path of the current pod.
func (cl *c01Loop) podField(v ssa.Value, want ...string) bool {
	p, ok := cl.l.elemPath(cl.k, v)
	if !ok {
		return false
	}
	if cl.pre != nil {
		return len(p) > 0 && p[0] == cl.pre.podField && pathIsMetaC(p[1:], want...)
	}
	return pathIsMetaC(p, want...)
}

// nodeNameOfPod: v is result #0 of GetNodeNameFromPod(current pod) (with a filter phase: the name
// field of the current element, which the filter phase fills with exactly that).
func (cl *c01Loop) nodeNameOfPod(v ssa.Value) bool {
	if cl.pre != nil {
		p, ok := cl.l.elemPath(cl.k, v)
		return ok && pathIsC(p, cl.pre.nameField)
	}
	c, ok := isResultOf(v, pkgPodUtils+".GetNodeNameFromPod", 0)
	return ok && cl.isPod(c.Call.Args[0])
}

// phaseIs: the facts (or, with a filter phase, the facts under which every pod is passed on) say
// whether the current pod's phase is `phase`.
func (cl *c01Loop) phaseIs(fs factSet, phase string, pol bool) bool {
	if eqFactC(fs, pol, func(v ssa.Value) bool { return cl.podField(v, "Status", "Phase") }, isConstStringVal(phase)) {
		return true
	}
	if cl.pre == nil || len(cl.pre.pass) == 0 {
		return false
	}
	for _, ap := range cl.pre.pass {
		if !eqFactC(cl.pre.ff.At(ap.Block()), pol, func(v ssa.Value) bool { return cl.pre.podPath(v, "Status", "Phase") }, isConstStringVal(phase)) {
			return false
		}
	}
	return true
}

// appendsPodTo: the path passes an append (of the current pod) that belongs to set.
func (cl *c01Loop) pathAppends(p *Path, set map[*ssa.Call]bool) bool {
	for c := range set {
		if !p.Contains(c.Block()) {
			continue
		}
		_, elems, _ := appendPartsC(c)
		for _, e := range elems {
			if cl.isPod(e) {
				return true
			}
		}
	}
	return false
}

// c01IgnoreMatcher recognises "the node name is in the ignore list": `m[name],ok` for a map m filled
// with every element of the mapping function's []string parameter (the map may be made in the
// mapping function and handed to a helper, or the other way round), or a membership call on that
// parameter.
func c01IgnoreMatcher(a *c01Anchors, name func(ssa.Value) bool) func(ssa.Value) bool {
	isIgnoreParam := func(v ssa.Value) bool {
		w := a.al.canon(v)
		pr, ok := w.(*ssa.Parameter)
		if !ok {
			// the parameter of the mapping function itself resolves further up (its single caller): accept
			// any value whose resolution chain passes through a []string parameter of the mapping function
			for _, p := range a.mapping.Params {
				if p.Type().String() == "[]string" && a.al.same(v, p) {
					return true
				}
			}
			return false
		}
		return pr.Type().String() == "[]string"
	}
	ignoreMaps := map[ssa.Value]bool{} // canonical map values
	bad := map[ssa.Value]bool{}
	for _, fn := range a.scope {
		k := newKeyer(fn)
		loops := sliceLoopsC(fn)
		for _, b := range fn.Blocks {
			for _, in := range b.Instrs {
				mu, ok := in.(*ssa.MapUpdate)
				if !ok {
					continue
				}
				m := a.al.canon(mu.Map)
				if _, isMade := m.(*ssa.MakeMap); !isMade {
					continue
				}
				okForm := false
				for _, l := range loops {
					if l.Body == b && len(b.Succs) == 1 && b.Succs[0] == l.Header && l.isElem(k, mu.Key) && isIgnoreParam(l.Slice) {
						okForm = true
					}
				}
				if okForm {
					ignoreMaps[m] = true
				} else {
					bad[m] = true
				}
			}
		}
	}
	for m := range bad {
		delete(ignoreMaps, m) // every update of an ignore set must have that form
	}
	tracked := func(v ssa.Value) bool { return ignoreMaps[a.al.canon(v)] }
	return func(v ssa.Value) bool {
		switch x := v.(type) {
		case *ssa.Extract:
			l, ok := x.Tuple.(*ssa.Lookup)
			if !ok || !l.CommaOk || x.Index != 1 {
				return false
			}
			return tracked(l.X) && name(l.Index)
		case *ssa.Lookup: // map[string]bool read without ok
			return tracked(x.X) && !x.CommaOk && name(x.Index)
		case *ssa.Call:
			cal := staticCallee(&x.Call)
			if cal == nil || len(x.Call.Args) != 2 {
				return false
			}
			if !isIgnoreParam(x.Call.Args[0]) {
				return false
			}
			return (membershipFuncC(cal) || strings.HasPrefix(funcName(cal), "slices.Contains")) && name(x.Call.Args[1])
		}
		return false
	}
}

func c01Association(r *Run, a *c01Anchors) {
	fn := a.mapping
	cl := c01PodLoop(r, a)
	if cl == nil {
		return
	}
	unknown, _ := r.Prog.constStr(pkgCoreV1, "PodUnknown")
	failed, _ := r.Prog.constStr(pkgCoreV1, "PodFailed")
	if unknown == "" || failed == "" {
		r.Fatal("pod phase constants not found")
		return
	}
	isIgnored := c01IgnoreMatcher(a, cl.nodeNameOfPod)

	// association sites: nameMap[name(pod)] = append(nameMap[name(pod)], pod)
	assocBlocks := map[*ssa.BasicBlock]bool{}
	assocApps := map[*ssa.Call]bool{}
	for _, mu := range cl.assoc {
		pos := r.Prog.Pos(instrPos(mu))
		ap := builtinCallC(mu.Value, "append")
		good := false
		detail := "value " + descValueC(mu.Value)
		if ap != nil && cl.nodeNameOfPod(mu.Key) {
			base, elems, spread := appendPartsC(ap)
			lk, isL := base.(*ssa.Lookup)
			if isL && a.isNameMap(lk.X) && sameValueC(cl.k, lk.Index, mu.Key) && spread == nil && len(elems) == 1 && cl.isPod(elems[0]) {
				good = true
				assocBlocks[mu.Block()] = true
				assocApps[ap] = true
			}
		}
		r.Check("C01.R2", "association site", pos, shortFunc(fn), "the current pod is appended to the list of its own node (GetNodeNameFromPod)", good, detail)
		if good {
			okU := cl.phaseIs(cl.ff.At(mu.Block()), unknown, false)
			r.Check("C01.R3", "per-node list append", pos, shortFunc(fn), "pods in phase Unknown are never attached to a node (phase != Unknown dominates)", okU, "must-facts: "+descFactsC(cl.ff.At(mu.Block())))
		}
	}
	if len(assocBlocks) == 0 {
		r.Check("C01.R2", "association site", r.Prog.Pos(fn.Pos()), shortFunc(fn), "the association loop attaches pods to their node's list", false, "no such site found")
		return
	}

	// R3: clean-up appends inside the loop
	var cleanInLoop []*ssa.Call
	for c := range cl.cleanApp {
		if cl.l.In[c.Block()] {
			cleanInLoop = append(cleanInLoop, c)
		}
	}
	sort.Slice(cleanInLoop, func(i, j int) bool { return cleanInLoop[i].Pos() < cleanInLoop[j].Pos() })
	for _, c := range cleanInLoop {
		pos := r.Prog.Pos(instrPos(c))
		_, elems, spread := appendPartsC(c)
		fs := cl.ff.At(c.Block())
		reason := "other"
		switch {
		case cl.phaseIs(fs, failed, true):
			reason = "failed pod"
		case c01LookupOK(cl.k, fs, a.isNameMap, nil, false) || valueFactC(fs, false, func(v ssa.Value) bool {
			e, ok := v.(*ssa.Extract)
			if !ok || e.Index != 1 {
				return false
			}
			l, ok := e.Tuple.(*ssa.Lookup)
			return ok && a.isNameMap(l.X) && cl.nodeNameOfPod(l.Index)
		}):
			reason = "node not in the map"
		}
		if spread != nil || len(elems) != 1 || !cl.isPod(elems[0]) {
			r.Undecided("C01.R3", "clean-up append ("+reason+")", pos, shortFunc(fn), "appended value is not the loop's current pod: "+descValueC(c))
			continue
		}
		r.Check("C01.R3", "clean-up append ("+reason+")", pos, shortFunc(fn), "pods in phase Unknown never reach a deletion list (phase != Unknown dominates)",
			cl.phaseIs(fs, unknown, false), "must-facts: "+descFactsC(fs))
	}
	// R3: clean-up appends outside the loop may only add the de-duplication step's second result
	for c := range cl.cleanApp {
		if cl.l.In[c.Block()] {
			continue
		}
		_, elems, spread := appendPartsC(c)
		ok := len(elems) == 0 && spread != nil
		if ok {
			e, isE := spread.(*ssa.Extract)
			ok = isE && e.Tuple == ssa.Value(a.dedupCall) && e.Index == 1
		}
		r.Check("C01.R3", "clean-up append after the loop", r.Prog.Pos(instrPos(c)), shortFunc(fn),
			"outside the association loop the clean-up list only receives the duplicates returned by the de-duplication step", ok, descValueC(c))
	}
	_, leaves := func() ([]*ssa.Call, []ssa.Value) {
		var l []ssa.Value
		for _, b := range fn.Blocks {
			if ret := returnOf(b); ret != nil {
				_, lv := sliceChainC(ret.Results[a.cleanIdx])
				for _, v := range lv {
					if e, isE := v.(*ssa.Extract); isE && e.Tuple == ssa.Value(a.dedupCall) && e.Index == 1 {
						continue
					}
					l = append(l, v)
				}
			}
		}
		return nil, l
	}()
	r.Check("C01.R3", "clean-up list sources", r.Prog.Pos(fn.Pos()), shortFunc(fn), "the clean-up list is built only from appends inside this function and the duplicates list", len(leaves) == 0,
		func() string {
			var s []string
			for _, v := range leaves {
				s = append(s, descValueC(v))
			}
			return strings.Join(s, ", ")
		}())

	// R2 / R3b: iteration paths
	paths, ok := backEdgePathsC(fn, cl.k, cl.l.Header, cl.l.Body, cl.l.In, 5000)
	r.paths += len(paths)
	if !ok {
		r.Undecided("C01.R2", "association loop paths", r.Prog.Pos(instrPos(cl.l.Header.Instrs[len(cl.l.Header.Instrs)-1])), shortFunc(fn), "path cap exceeded")
		return
	}
	type agg struct {
		ok     bool
		n      int
		detail string
		rule   string
		need   string
	}
	classes := map[string]*agg{}
	add := func(rule, construct, need string, ok bool, detail string) {
		key := rule + "|" + construct
		c := classes[key]
		if c == nil {
			c = &agg{ok: true, rule: rule, need: need}
			classes[key] = c
		}
		c.n++
		if !ok {
			c.ok = false
			c.detail = detail
		} else if c.detail == "" {
			c.detail = detail
		}
	}
	isErrOfName := func(v ssa.Value) bool {
		c, ok := isResultOf(v, pkgPodUtils+".GetNodeNameFromPod", 1)
		return ok && cl.isPod(c.Call.Args[0])
	}
	notInMap := func(fs factSet) bool {
		return valueFactC(fs, false, func(v ssa.Value) bool {
			e, ok := v.(*ssa.Extract)
			if !ok || e.Index != 1 {
				return false
			}
			l, ok := e.Tuple.(*ssa.Lookup)
			return ok && l.CommaOk && a.isNameMap(l.X) && cl.nodeNameOfPod(l.Index)
		})
	}
	for _, p := range paths {
		attached := false
		for b := range assocBlocks {
			if p.Contains(b) {
				attached = true
			}
		}
		if attached {
			add("C01.R2", "iteration attaches the pod", "—", true, "")
			continue
		}
		fs := p.Facts
		cleaned := cl.pathAppends(p, cl.cleanApp)
		switch {
		case nilFactC(fs, false, isErrOfName):
			add("C01.R2", "skip: pod has no node name", "allowed skip reason", true, "")
		case cl.phaseIs(fs, unknown, true):
			add("C01.R2", "skip: phase Unknown", "allowed skip reason", true, "")
			add("C01.R3", "Unknown-phase iteration", "an Unknown-phase pod is not put on the clean-up list", !cleaned, "path facts: "+descFactsC(fs))
		case notInMap(fs):
			add("C01.R2", "skip: node not in the per-node map", "allowed skip reason", true, "")
			if !cleaned {
				excused := valueFactC(fs, true, isIgnored) || nilFactC(fs, false, func(v ssa.Value) bool { return cl.podField(v, "DeletionTimestamp") })
				add("C01.R3", "pod of an unmapped node not cleaned up", "a pod whose node is not (or no longer) eligible is put on the clean-up list unless the node is ignored or the pod is already terminating", excused, "path facts: "+descFactsC(fs))
			} else {
				add("C01.R3", "pod of an unmapped node cleaned up", "—", true, "")
			}
		case cl.phaseIs(fs, failed, true):
			add("C01.R2", "skip: phase Failed", "a Failed pod is left out of its node's list only when it is put on the clean-up list", cleaned, "path facts: "+descFactsC(fs))
		default:
			add("C01.R2", "skip without an allowed reason ["+c01Distinguish(fs)+"]",
				"a pod is left out of its node's list only if it has no node name, is in phase Unknown, is Failed and cleaned up, or its node is not in the map (a terminating pod must keep the entry non-nil)", false, "path facts: "+descFactsC(fs))
		}
	}
	// the filter phase, if any: a pod is not passed on only for an allowed reason
	if cl.pre != nil {
		pre := cl.pre
		pp, okP := backEdgePathsC(pre.fn, pre.k, pre.l.Header, pre.l.Body, pre.l.In, 5000)
		r.paths += len(pp)
		if !okP {
			add("C01.R2", "filter phase paths", "path enumeration", false, "path cap exceeded")
		}
		isErrPre := func(v ssa.Value) bool {
			c, ok := isResultOf(v, pkgPodUtils+".GetNodeNameFromPod", 1)
			return ok && pre.isPod(c.Call.Args[0])
		}
		for _, p := range pp {
			passed := false
			for _, ap := range pre.pass {
				if p.Contains(ap.Block()) {
					passed = true
				}
			}
			switch {
			case passed:
				add("C01.R2", "filter phase passes the pod on", "—", true, "")
			case nilFactC(p.Facts, false, isErrPre):
				add("C01.R2", "skip: pod has no node name", "allowed skip reason", true, "")
			case eqFactC(p.Facts, true, func(v ssa.Value) bool { return pre.podPath(v, "Status", "Phase") }, isConstStringVal(unknown)):
				add("C01.R2", "skip: phase Unknown", "allowed skip reason", true, "")
				add("C01.R3", "Unknown-phase iteration", "an Unknown-phase pod is not put on the clean-up list", true, "dropped by the filter phase")
			default:
				add("C01.R2", "skip without an allowed reason ["+c01Distinguish(p.Facts)+"]",
					"a pod is left out of its node's list only if it has no node name, is in phase Unknown, is Failed and cleaned up, or its node is not in the map (a terminating pod must keep the entry non-nil)", false, "filter phase, path facts: "+descFactsC(p.Facts))
			}
		}
	}
	var keys []string
	for k := range classes {
		keys = append(keys, k)
	}
	sort.Strings(keys)
	for _, key := range keys {
		c := classes[key]
		construct := key[strings.Index(key, "|")+1:]
		o := r.Check(c.rule, construct, r.Prog.Pos(instrPos(cl.l.Header.Instrs[len(cl.l.Header.Instrs)-1])), shortFunc(fn), c.need, c.ok, fmt.Sprintf("%d path(s); %s", c.n, c.detail))
		if c.need == "—" {
			o.Trivial = true
		}
	}
}

// c01Distinguish describes the facts of a path that are about the pod itself (short, stable).
func c01Distinguish(fs factSet) string {
	var out []string
	for _, f := range fs {
		s := descFactC(f)
		if strings.Contains(s, "pod.") || strings.Contains(s, "Items[i].") {
			if len(s) > 70 {
				s = s[:70] + "…"
			}
			out = append(out, s)
		}
	}
	sort.Strings(out)
	return strings.Join(out, " ∧ ")
}

// ---------------------------------------------------------------------------------------------
// R4 / R5: creation candidates

func c01Candidates(r *Run, a *c01Anchors) {
	n := 0
	for _, fn := range sortedFuncs(a.reach) {
		for _, st := range fieldStoresInC(fn, pkgStrategy, "Result", "PodsToCreate") {
			n++
			c01CandidateStore(r, fn, st, "")
		}
	}
	if n == 0 {
		r.Check("C01.R4", "store Result.PodsToCreate", "-", "-", "a store to Result.PodsToCreate reachable from the replica-set Reconcile", false, "none found")
	}
}

// c01CandidateStore checks one store to Result.PodsToCreate. requireCanary != "" additionally
// demands (for C04.R4) that every candidate has the canary form; the rule id is then requireCanary.
func c01CandidateStore(r *Run, fn *ssa.Function, st *ssa.Store, requireCanary string) {
	pos := r.Prog.Pos(instrPos(st))
	// the list may be collected by a helper (returned directly or as a field of a returned struct):
	// every append is judged by the facts of the function it is in
	apps, leaves := sliceChainIPC(st.Val)
	ffs := map[*ssa.Function]*FuncFacts{}
	factsIn := func(f *ssa.Function) *FuncFacts {
		if ffs[f] == nil {
			ffs[f] = computeFacts(f)
		}
		return ffs[f]
	}
	rule := "C01.R4"
	if requireCanary != "" {
		rule = requireCanary
	}
	if len(leaves) > 0 {
		var s []string
		for _, v := range leaves {
			s = append(s, descValueC(v))
		}
		r.Undecided(rule, "store Result.PodsToCreate", pos, shortFunc(fn), "the stored list has sources other than appends (in this function or in the helper that collects it): "+strings.Join(s, ", "))
		return
	}
	if len(apps) == 0 {
		r.Check(rule, "store Result.PodsToCreate", pos, shortFunc(fn), "the stored list is built by appends", false, "no append feeds the stored value "+descValueC(st.Val))
		return
	}
	sort.Slice(apps, func(i, j int) bool { return apps[i].Pos() < apps[j].Pos() })
	for _, ap := range apps {
		fn := ap.Parent()
		ff := factsIn(fn)
		k := ff.K
		var sloops []*sliceLoopC
		for _, l := range sliceLoopsC(fn) {
			if isFieldLoadC(l.Slice, pkgStrategy, "Parameters", "CanaryNodes") {
				sloops = append(sloops, l)
			}
		}
		apos := r.Prog.Pos(instrPos(ap))
		_, elems, spread := appendPartsC(ap)
		if spread != nil {
			continue // concatenation of two tracked lists: both are walked by sliceChainC
		}
		fs := ff.At(ap.Block())
		for _, e := range elems {
			form, need, ok, detail := "", "", false, ""
			switch x := e.(type) {
			case *ssa.Extract:
				nx, isNext := x.Tuple.(*ssa.Next)
				if isNext && x.Index == 1 {
					form = "key of the per-node map range"
					need = "candidate is the key of a (node,pod) pair ranged from Parameters.PodByNodeName whose pod is nil"
					rg, _ := nx.Iter.(*ssa.Range)
					if rg != nil && isFieldLoadC(rg.X, pkgStrategy, "Parameters", "PodByNodeName") {
						ok = nilFactC(fs, true, func(v ssa.Value) bool {
							ev, isE := v.(*ssa.Extract)
							return isE && ev.Tuple == ssa.Value(nx) && ev.Index == 2
						})
						detail = "must-facts: " + descFactsC(fs)
					} else {
						detail = "the ranged map is not Parameters.PodByNodeName"
					}
				}
			case *ssa.Lookup:
				if isFieldLoadC(x.X, pkgStrategy, "Parameters", "NodeByName") {
					form = "NodeByName[n]"
					need = "candidate node is present in Parameters.PodByNodeName (lookup ok) with a nil pod"
					present := valueFactC(fs, true, func(v ssa.Value) bool {
						ev, isE := v.(*ssa.Extract)
						if !isE || ev.Index != 1 {
							return false
						}
						l, isL := ev.Tuple.(*ssa.Lookup)
						return isL && l.CommaOk && isFieldLoadC(l.X, pkgStrategy, "Parameters", "PodByNodeName") && l.Index == e
					})
					isNil := nilFactC(fs, true, func(v ssa.Value) bool {
						ev, isE := v.(*ssa.Extract)
						if !isE || ev.Index != 0 {
							return false
						}
						l, isL := ev.Tuple.(*ssa.Lookup)
						return isL && l.CommaOk && isFieldLoadC(l.X, pkgStrategy, "Parameters", "PodByNodeName") && l.Index == e
					})
					ok = present && isNil
					detail = fmt.Sprintf("present=%v nil=%v; must-facts: %s", present, isNil, descFactsC(fs))
				}
			}
			if form == "" {
				r.Undecided(rule, "creation candidate "+descValueC(e), apos, shortFunc(fn), "candidate is neither the key of a range over Parameters.PodByNodeName nor Parameters.NodeByName[n]")
				continue
			}
			if requireCanary == "" {
				r.Check("C01.R4", "creation candidate: "+form, apos, shortFunc(fn), need, ok, detail)
			}
			// R5 / C04.R4: distinctness source, canary form
			isCanaryForm := false
			if lk, isL := e.(*ssa.Lookup); isL {
				for _, l := range sloops {
					if l.isElem(k, lk.Index) && l.In[ap.Block()] {
						isCanaryForm = true
					}
				}
			}
			if requireCanary != "" {
				r.Check(requireCanary, "canary creation candidate", apos, shortFunc(fn),
					"in the canary role every creation candidate is NodeByName[n] for n ranging over Parameters.CanaryNodes", isCanaryForm, "candidate "+descValueC(e))
				continue
			}
			switch {
			case form == "key of the per-node map range":
				r.Check("C01.R5", "candidates of "+shortFunc(fn)+": "+form, apos, shortFunc(fn), "candidates are pairwise distinct", true, "keys of one map iteration are distinct")
			case isCanaryForm:
				r.Check("C01.R5", "candidates of "+shortFunc(fn)+": "+form, apos, shortFunc(fn), "candidates are pairwise distinct", true, "one candidate per canary node name; names are distinct by C15.R1 and the node index is keyed by name")
			default:
				r.Check("C01.R5", "candidates of "+shortFunc(fn)+": "+form, apos, shortFunc(fn), "candidates are pairwise distinct", false, "n does not range over Parameters.CanaryNodes")
			}
		}
	}
}

// ---------------------------------------------------------------------------------------------
// R4b: the creator

func c01Creator(r *Run, a *c01Anchors) {
	var creates []*Effect
	for _, e := range effectsOf(a.reach) {
		if e.Verb == "Create" && e.Kind == pkgCoreV1+".Pod" {
			creates = append(creates, e)
		}
	}
	if len(creates) != 1 {
		var s []string
		for _, e := range creates {
			s = append(s, r.Prog.Pos(e.Call.Pos()))
		}
		r.Check("C01.R4", "Create(*Pod) sites", "-", "-", "exactly one Create(*Pod) call site is reachable from the replica-set Reconcile", false, fmt.Sprintf("%d sites: %s", len(creates), strings.Join(s, ", ")))
		if len(creates) == 0 {
			return
		}
	}
	e := creates[0]
	inner := e.Fn
	pos := r.Prog.Pos(e.Call.Pos())
	if len(creates) == 1 {
		r.Check("C01.R4", "Create(*Pod) sites", pos, shortFunc(inner), "exactly one Create(*Pod) call site is reachable from the replica-set Reconcile", true, "")
	}
	r.Check("C01.R4", "Create(*Pod) not repeated", pos, shortFunc(inner), "the Create call is not inside a loop of its function", !inCycleC(e.Call.Block()), "")

	listParamOf := func(fn *ssa.Function) *ssa.Parameter {
		var lp *ssa.Parameter
		for _, p := range fn.Params {
			if p.Type().String() == "[]*"+pkgStrategy+".NodeItem" {
				if lp != nil {
					return nil
				}
				lp = p
			}
		}
		return lp
	}
	// The creator is the function that receives the candidate list. The Create is issued by the
	// creator itself, by a closure of it, or by a worker function the creator starts (call / go)
	// once per candidate.
	var creator *ssa.Function
	var start ssa.CallInstruction // where the creator starts `inner` (nil: inner is the creator)
	switch {
	case listParamOf(inner) != nil:
		creator = inner
	case inner.Parent() != nil && listParamOf(inner.Parent()) != nil:
		creator = inner.Parent()
	default:
		if sites := callSitesOf(inner, a.reach); len(sites) == 1 && listParamOf(sites[0].Parent()) != nil {
			creator, start = sites[0].Parent(), sites[0]
		}
	}
	if creator == nil {
		r.Undecided("C01.R4", "creator list parameter", r.Prog.Pos(inner.Pos()), shortFunc(inner), "the Create is not issued by a function taking exactly one []*NodeItem, a closure of it, or a worker started from one site of it")
		return
	}
	listParam := listParamOf(creator)
	if creator != inner && start == nil {
		var starts []ssa.CallInstruction
		for _, ci := range callsIn(creator) {
			if staticCallee(ci.Common()) == inner {
				starts = append(starts, ci)
			}
		}
		if len(starts) != 1 {
			r.Check("C01.R4", "creator loop", r.Prog.Pos(creator.Pos()), shortFunc(creator), "Create(*Pod) is issued once per iteration of the single range over the candidate list", false, fmt.Sprintf("the creating closure is started at %d sites", len(starts)))
			return
		}
		start = starts[0]
	}
	// call sites of the creator: argument is Result.PodsToCreate
	sites := callSitesOf(creator, a.reach)
	if len(sites) == 0 {
		r.Check("C01.R4", "creator call", "-", shortFunc(creator), "the creator is called from the reconcile path", false, "no static call site")
	}
	for _, cs := range sites {
		arg := cs.Common().Args[paramIndex(listParam)]
		ok := isFieldLoadC(arg, pkgStrategy, "Result", "PodsToCreate")
		r.Check("C01.R4", "creator argument", r.Prog.Pos(cs.Pos()), shortFunc(cs.Parent()), "the creator receives Result.PodsToCreate unmodified", ok, "argument "+descValueC(arg))
	}
	// one range loop over the list; the Create (or the start of its worker) happens once per iteration
	var loop *sliceLoopC
	for _, l := range sliceLoopsC(creator) {
		if isParamOrSpillC(l.Slice, listParam) {
			if loop != nil {
				r.Check("C01.R4", "creator loop", r.Prog.Pos(creator.Pos()), shortFunc(creator), "the creator ranges once over the candidate list", false, "several range loops over the list")
				return
			}
			loop = l
		}
	}
	if loop == nil {
		r.Check("C01.R4", "creator loop", r.Prog.Pos(creator.Pos()), shortFunc(creator), "the creator ranges once over the candidate list", false, "no range loop over the list parameter")
		return
	}
	k := newKeyer(creator)
	site := e.Call.Block()
	if start != nil {
		site = start.Block()
	}
	okLoop, why := loop.In[site], ""
	if !okLoop {
		why = "the Create (or the start of the function issuing it) is outside the range over the candidate list"
	}
	for _, l2 := range sliceLoopsC(creator) {
		if l2.Header != loop.Header && l2.In[site] && loop.In[l2.Header] {
			okLoop, why = false, "the Create (or the start of the function issuing it) is inside a nested loop"
		}
	}
	for _, l2 := range mapLoopsC(creator) {
		if l2.In[site] && loop.In[l2.Header] {
			okLoop, why = false, "the Create (or the start of the function issuing it) is inside a nested loop"
		}
	}
	r.Check("C01.R4", "creator loop", r.Prog.Pos(instrPos(loop.Header.Instrs[len(loop.Header.Instrs)-1])), shortFunc(creator), "Create(*Pod) is issued once per iteration of the single range over the candidate list", okLoop, why)

	// isCandidate: v (a value of `inner`) is the candidate of the current iteration
	boundTo := func(p *ssa.Parameter) ssa.Value { // argument the worker's parameter receives at its start
		if start == nil || p.Parent() != inner {
			return nil
		}
		if i := paramIndex(p); i >= 0 && i < len(start.Common().Args) {
			return start.Common().Args[i]
		}
		return nil
	}
	isLoopIdx := func(v ssa.Value) bool {
		if v == loop.Idx && inner == creator {
			return true
		}
		if p, ok := v.(*ssa.Parameter); ok {
			return boundTo(p) == loop.Idx
		}
		return false
	}
	isList := func(v ssa.Value) bool {
		if denotesParamC(v, listParam) {
			return true
		}
		if p, ok := unwrap(v).(*ssa.Parameter); ok {
			if b := boundTo(p); b != nil {
				return isParamOrSpillC(b, listParam)
			}
		}
		return false
	}
	isCandidate := func(root ssa.Value) bool {
		switch x := root.(type) {
		case *ssa.IndexAddr:
			if inner == creator && loop.isElemAddr(k, x) {
				return true
			}
			return isList(x.X) && isLoopIdx(x.Index)
		case *ssa.Parameter:
			b := boundTo(x)
			return b != nil && loop.isElem(k, b)
		case *ssa.Alloc:
			return inner == creator && loop.isElemAddr(k, x)
		}
		return false
	}
	// the created pod is built for <candidate>.Node
	built := false
	detail := ""
	for _, o := range origins(e.Obj) {
		c, ok := isResultOf(o, pkgPodUtils+".CreatePodFromDaemonSetReplicaSet", 0)
		if !ok || len(c.Call.Args) < 3 {
			detail = "created object is " + descValueC(o)
			built = false
			break
		}
		root, p := accessPath(unwrap(c.Call.Args[2]))
		if !pathIsC(p, "Node") || !isCandidate(root) {
			detail = "node argument " + descValueC(c.Call.Args[2]) + " is not the Node of the current candidate"
			built = false
			break
		}
		built = true
	}
	r.Check("C01.R4", "created pod's node", pos, shortFunc(inner), "the created pod is built by the pod constructor for the Node of the candidate of the current iteration", built, detail)
}

// ---------------------------------------------------------------------------------------------
// R6: de-duplication keeps index 0 after sorting with the comparator

func c01Dedup(r *Run, a *c01Anchors) {
	d := a.dedup
	ff := computeFacts(d)
	k := ff.K
	var outer *mapLoopC
	for _, l := range mapLoopsC(d) {
		if len(d.Params) == 2 && l.Map == ssa.Value(d.Params[0]) {
			outer = l
		}
	}
	if outer == nil || outer.Val() == nil {
		r.Undecided("C01.R6", "de-duplication loop", r.Prog.Pos(d.Pos()), shortFunc(d), "no range over the input map using its values")
		return
	}
	pods := outer.Val()
	// sort call
	var sortCall *ssa.Call
	var less *ssa.Function
	for _, ci := range callsIn(d) {
		c, ok := ci.(*ssa.Call)
		if !ok || !outer.In[c.Block()] {
			continue
		}
		switch calleeName(&c.Call) {
		case "sort.Sort", "sort.Stable":
			mi, ok := c.Call.Args[0].(*ssa.MakeInterface)
			if !ok || unwrap(mi.X) != pods {
				continue
			}
			sortCall = c
			ms := r.Prog.SSA.MethodSets.MethodSet(mi.X.Type())
			for i := 0; i < ms.Len(); i++ {
				if ms.At(i).Obj().Name() == "Less" {
					less = r.Prog.SSA.MethodValue(ms.At(i))
				}
			}
		case "sort.Slice", "sort.SliceStable":
			if unwrap(c.Call.Args[0]) != pods {
				continue
			}
			sortCall = c
			if mc, ok := c.Call.Args[1].(*ssa.MakeClosure); ok {
				less, _ = mc.Fn.(*ssa.Function)
			} else if f, ok := c.Call.Args[1].(*ssa.Function); ok {
				less = f
			}
		}
	}
	if sortCall == nil || less == nil {
		r.Check("C01.R6", "sort before choosing", r.Prog.Pos(d.Pos()), shortFunc(d), "each node's pod list is sorted (sort.Sort/Stable/Slice) before the kept pod is chosen", false, "no sort call on the ranged pod list found")
		return
	}
	// kept pod and duplicates
	nKept := 0
	for _, b := range d.Blocks {
		for _, in := range b.Instrs {
			mu, ok := in.(*ssa.MapUpdate)
			if !ok || isNilConst(mu.Value) {
				continue
			}
			if _, isOut := mu.Map.(*ssa.MakeMap); !isOut {
				continue
			}
			nKept++
			ld, _ := mu.Value.(*ssa.UnOp)
			var ia *ssa.IndexAddr
			if ld != nil {
				ia, _ = ld.X.(*ssa.IndexAddr)
			}
			isZero := func(v ssa.Value) bool { c, ok := constInt(v); return ok && c == 0 }
			ok2 := ia != nil && ia.X == pods && instrBeforeC(sortCall, mu) &&
				(isZero(ia.Index) || eqFactC(ff.At(b), true, func(v ssa.Value) bool { return v == ia.Index }, isZero))
			r.Check("C01.R6", "kept pod", r.Prog.Pos(instrPos(mu)), shortFunc(d), "the pod kept for a node is element 0 of its list after the sort", ok2, "value "+descValueC(mu.Value)+"; must-facts: "+descFactsC(ff.At(b)))
		}
	}
	if nKept == 0 {
		r.Check("C01.R6", "kept pod", r.Prog.Pos(d.Pos()), shortFunc(d), "the de-duplication step keeps one pod per node", false, "no non-nil output entry")
	}
	for _, b := range d.Blocks {
		if ret := returnOf(b); ret != nil && len(ret.Results) == 2 {
			apps, leaves := sliceChainBaseC(ret.Results[1])
			okAll := len(leaves) == 0
			detail := ""
			for _, ap := range apps {
				_, elems, spread := appendPartsC(ap)
				if spread != nil {
					// append(dup, pods[1:]...): everything but the kept first element of the sorted list
					sl, isSl := spread.(*ssa.Slice)
					tail := false
					if isSl && sl.X == pods && sl.High == nil && sl.Max == nil && sl.Low != nil && instrBeforeC(sortCall, ap) {
						if n, okc := constInt(sl.Low); okc && n == 1 {
							tail = true
						}
					}
					if !tail {
						okAll, detail = false, "spread append of "+descValueC(spread)
					}
				}
				for _, e := range elems {
					ld, _ := e.(*ssa.UnOp)
					var ia *ssa.IndexAddr
					if ld != nil {
						ia, _ = ld.X.(*ssa.IndexAddr)
					}
					if ia == nil || ia.X != pods || !eqFactC(ff.At(ap.Block()), false, func(v ssa.Value) bool { return v == ia.Index }, func(v ssa.Value) bool { c, ok := constInt(v); return ok && c == 0 }) {
						okAll = false
						detail = "element " + descValueC(e) + " at " + r.Prog.Pos(instrPos(ap))
					}
				}
			}
			r.Check("C01.R6", "duplicates list", r.Prog.Pos(instrPos(ret)), shortFunc(d), "the duplicates list holds exactly the elements of index != 0 of the input lists", okAll && len(apps) > 0, detail)
		}
	}
	_ = k
	c01Less(r, less)
}

// c01Less checks the comparator's decision table.
func c01Less(r *Run, less *ssa.Function) {
	if len(less.Params) < 2 {
		r.Undecided("C01.R6", "comparator", r.Prog.Pos(less.Pos()), shortFunc(less), "unexpected signature")
		return
	}
	pi, pj := less.Params[len(less.Params)-2], less.Params[len(less.Params)-1]
	cases, k, ok := boolCasesC(less, 0, 5000)
	r.paths += len(cases)
	if !ok {
		r.Undecided("C01.R6", "comparator", r.Prog.Pos(less.Pos()), shortFunc(less), "path cap exceeded")
		return
	}
	// which index parameter is v rooted at, and with which field path
	rooted := func(v ssa.Value) (int, []string) {
		root, p := accessPath(unwrap(v))
		ia, ok := root.(*ssa.IndexAddr)
		if !ok {
			return -1, nil
		}
		switch ia.Index {
		case ssa.Value(pi):
			return 0, p
		case ssa.Value(pj):
			return 1, p
		}
		return -1, nil
	}
	// schedOf: what the fact says about "pod i / pod j is scheduled" (who = -1: nothing). A fact is
	// either a comparison of x.Spec.NodeName (or its length) with the empty value, or the result of a
	// repository predicate P(x) that is itself decided (on every path) by such a comparison.
	schedOf := func(f Fact) (who int, val bool) {
		if w, v := c01SchedCmp(f, rooted); w >= 0 {
			return w, v
		}
		if call, ok := f.V.(*ssa.Call); ok && len(call.Call.Args) == 1 {
			if cal := repoCalleeC(&call.Call); cal != nil {
				if orient, isPred := c01SchedPredicate(cal); isPred {
					if w, p := rooted(call.Call.Args[0]); w >= 0 && len(p) == 0 {
						return w, f.Pol == orient
					}
				}
			}
		}
		return -1, false
	}
	// the conditions of the function that decide scheduled(i) / scheduled(j): used to split a case in
	// which the comparator did not branch on them individually (e.g. `if si != sj { return si }`)
	var atoms [2][]ssa.Value
	for _, b := range less.Blocks {
		for _, in := range b.Instrs {
			var cond ssa.Value
			switch x := in.(type) {
			case *ssa.BinOp:
				cond = x
			case *ssa.Call:
				if b, isBasic := x.Type().Underlying().(*types.Basic); isBasic && b.Info()&types.IsBoolean != 0 {
					cond = x
				}
			}
			if cond == nil {
				continue
			}
			fl := k.normCond(cond, true)
			if len(fl) != 1 {
				continue
			}
			if w, _ := schedOf(fl[0]); w >= 0 {
				atoms[w] = append(atoms[w], cond)
			}
		}
	}
	known := func(fs factSet, who int) bool {
		for _, f := range fs {
			if w, _ := schedOf(f); w == who {
				return true
			}
		}
		return false
	}
	// saturate with boolean-equality consequences, drop infeasible rows, split on undetermined atoms
	var expanded []boolCaseC
	var expand func(c boolCaseC, depth int)
	expand = func(c boolCaseC, depth int) {
		fs := factSet{}
		for kk, f := range c.Facts {
			fs[kk] = f
		}
		if !closeBoolEqC(k, fs) {
			return // infeasible
		}
		c.Facts = fs
		for who := 0; who < 2 && depth < 4; who++ {
			if known(fs, who) || len(atoms[who]) == 0 {
				continue
			}
			for _, pol := range []bool{true, false} {
				sub := c
				sub.Facts = factSet{}
				for kk, f := range fs {
					sub.Facts[kk] = f
				}
				for _, nf := range k.normCond(atoms[who][0], pol) {
					sub.Facts[fkey(nf)] = nf
				}
				expand(sub, depth+1)
			}
			return
		}
		expanded = append(expanded, c)
	}
	for _, c := range cases {
		expand(c, 0)
	}
	cases = expanded
	for _, c := range cases {
		var sched [2]*bool
		iOlder, iNotOlder, tie := false, false, false
		for _, f := range c.Facts {
			if w, v := schedOf(f); w >= 0 {
				sched[w] = bptr(v)
				continue
			}
			call, ok := f.V.(*ssa.Call)
			if !ok || len(call.Call.Args) != 2 {
				continue
			}
			name := calleeName(&call.Call)
			w0, p0 := rooted(call.Call.Args[0])
			w1, p1 := rooted(call.Call.Args[1])
			if w0 < 0 || w1 < 0 || w0 == w1 || !pathIsMetaC(p0, "CreationTimestamp") || !pathIsMetaC(p1, "CreationTimestamp") {
				continue
			}
			switch name {
			case "(" + pkgMetaV1 + ".Time).Before":
				if w0 == 0 { // Before(i, j)
					if f.Pol {
						iOlder = true
					} else {
						iNotOlder = true
					}
				} else if f.Pol { // Before(j, i): j strictly older
					iNotOlder = true
				}
			case "(" + pkgMetaV1 + ".Time).Equal":
				if f.Pol {
					tie = true
				}
			}
		}
		desc := fmt.Sprintf("scheduled(i)=%s scheduled(j)=%s", c01Tri(sched[0]), c01Tri(sched[1]))
		if iOlder {
			desc += " i-created-before-j"
		}
		if iNotOlder {
			desc += " i-not-created-before-j"
		}
		if tie {
			desc += " same-creation-time"
		}
		construct := fmt.Sprintf("Less=%v on [%s]", c.Result, desc)
		pos := r.Prog.Pos(instrPos(c.Ret))
		good := false
		switch {
		case is(sched[0], true) && is(sched[1], false):
			good = c.Result
		case is(sched[0], false) && is(sched[1], true):
			good = !c.Result
		case sched[0] != nil && sched[1] != nil: // equally scheduled
			if tie {
				good = true
			} else if c.Result {
				good = iOlder
			} else {
				good = iNotOlder
			}
		}
		r.Check("C01.R6", construct, pos, shortFunc(less),
			"Less(i,j) orders a scheduled pod before an unscheduled one and, among equally scheduled pods, the one created earlier first", good, "case facts: "+descFactsC(c.Facts))
	}
}

// c01SchedCmp decodes a comparison fact about <x>.Spec.NodeName: len(s) ?= 0, 0 < len(s), s ?= "".
// rooted tells which pod (index 0/1) a value is a field path of.
func c01SchedCmp(f Fact, rooted func(ssa.Value) (int, []string)) (who int, val bool) {
	cf, ok := decodeCmpC(f)
	if !ok {
		return -1, false
	}
	for _, side := range [][2]ssa.Value{{cf.X, cf.Y}, {cf.Y, cf.X}} {
		s, other := side[0], side[1]
		isLen := false
		if ln := builtinCallC(s, "len"); ln != nil {
			s, isLen = ln.Call.Args[0], true
		}
		w, p := rooted(s)
		if w < 0 || !pathIsC(p, "Spec", "NodeName") {
			continue
		}
		zero := false
		if isLen {
			z, ok := constInt(other)
			zero = ok && z == 0
		} else {
			z, ok := constString(other)
			zero = ok && z == ""
		}
		if !zero {
			continue
		}
		switch {
		case cf.Op == "==":
			return w, !cf.Pol
		case cf.Op == "<" && side[1] == cf.X && isLen: // 0 < len
			return w, cf.Pol
		}
	}
	return -1, false
}

var c01SchedPredMemo = map[*ssa.Function][2]bool{}

// c01SchedPredicate: fn(pod) bool is decided on every path by whether pod.Spec.NodeName is empty.
// orient=true: fn returns true exactly when the pod is scheduled; false: exactly when it is not.
func c01SchedPredicate(fn *ssa.Function) (orient bool, ok bool) {
	if m, seen := c01SchedPredMemo[fn]; seen {
		return m[0], m[1]
	}
	c01SchedPredMemo[fn] = [2]bool{false, false}
	if len(fn.Params) != 1 || !isPtrToNamed(fn.Params[0].Type(), pkgCoreV1, "Pod") {
		return false, false
	}
	cases, _, okc := boolCasesC(fn, 0, 200)
	if !okc || len(cases) == 0 {
		return false, false
	}
	rooted := func(v ssa.Value) (int, []string) {
		root, p := accessPath(unwrap(v))
		if root == ssa.Value(fn.Params[0]) {
			return 0, p
		}
		return -1, nil
	}
	var orientSet, first = false, true
	for _, c := range cases {
		known := false
		sched := false
		for _, f := range c.Facts {
			if w, v := c01SchedCmp(f, rooted); w == 0 {
				known, sched = true, v
			}
		}
		if !known {
			return false, false
		}
		o := c.Result == sched
		if first {
			orientSet, first = o, false
		} else if o != orientSet {
			return false, false
		}
	}
	c01SchedPredMemo[fn] = [2]bool{orientSet, true}
	return orientSet, true
}

func c01Tri(b *bool) string {
	if b == nil {
		return "?"
	}
	return fmt.Sprint(*b)
}

// ---------------------------------------------------------------------------------------------
// R7: CheckNodeFitness

func c01Fitness(r *Run) {
	fit := r.Prog.Func(pkgSched, "CheckNodeFitness")
	if fit == nil || len(fit.Params) != 3 {
		r.Fatal("anchor %s.CheckNodeFitness(logger, pod, node) not found", pkgSched)
		return
	}
	pod, node := fit.Params[1], fit.Params[2]
	cases, _, ok := boolCasesC(fit, 0, 5000)
	r.paths += len(cases)
	if !ok {
		r.Undecided("C01.R7", "fitness table", r.Prog.Pos(fit.Pos()), shortFunc(fit), "path cap exceeded")
		return
	}
	callsTo := func(fn *ssa.Function, pred func(*ssa.CallCommon) bool) bool {
		for _, ci := range callsIn(fn) {
			if pred(ci.Common()) {
				return true
			}
		}
		return false
	}
	fitReach := r.Prog.reachableFuncs(fit)
	al := newAliasC(r.Prog, fitReach)
	// the taint check is the conjunct from which a scan of node.Spec.Taints is reached
	isTaintFn := func(fn *ssa.Function) bool {
		g, l := c01TaintScan(r, al, fn)
		return g != nil && l != nil
	}
	isSelectorFn := func(fn *ssa.Function) bool {
		return callsTo(fn, func(c *ssa.CallCommon) bool {
			return c.IsInvoke() && c.Method.Name() == "Matches" && c.Method.Pkg() != nil && c.Method.Pkg().Path() == "k8s.io/apimachinery/pkg/labels"
		})
	}
	// "all entries of a constant table hold": a range over a package-level table whose every
	// continuing iteration carries entry.f(pod, node) == true and which returns true only after the
	// table is exhausted makes every function of the table a conjunct of the true cases that ran it out
	type tableAll struct {
		l   *sliceLoopC
		fns []*ssa.Function
	}
	var tables []tableAll
	kf := newKeyer(fit)
	for _, l := range sliceLoopsC(fit) {
		var dyn ssa.CallInstruction
		for _, ci := range callsIn(fit) {
			cc := ci.Common()
			if l.In[ci.Block()] && !cc.IsInvoke() && staticCallee(cc) == nil && len(cc.Args) == 2 && cc.Args[0] == ssa.Value(pod) && cc.Args[1] == ssa.Value(node) {
				if root, _ := accessPath(cc.Value); l.isElemAddr(kf, root) {
					dyn = ci
				}
			}
		}
		if dyn == nil {
			continue
		}
		fns, okD := dDynCallees(r.Prog, dyn)
		if !okD || len(fns) == 0 {
			fns, okD = tableFieldFuncsC(dyn.Common().Value)
		}
		if !okD || len(fns) == 0 {
			continue
		}
		bp, okB := backEdgePathsC(fit, kf, l.Header, l.Body, l.In, 500)
		all := okB && len(bp) > 0
		for _, p := range bp {
			if !valueFactC(p.Facts, true, func(v ssa.Value) bool { return v == dyn.Value() }) {
				all = false
			}
		}
		if all {
			tables = append(tables, tableAll{l, fns})
			for _, f := range fns { // functions called through the table belong to the analysed scope
				for g := range r.Prog.reachableFuncs(f) {
					fitReach[g] = true
				}
			}
		}
	}
	var taintFn, selFn *ssa.Function
	nTrue := 0
	for _, c := range cases {
		if !c.Result {
			continue
		}
		nTrue++
		hasT, hasS := false, false
		var conj []*ssa.Function
		for _, f := range c.Facts {
			call, ok := f.V.(*ssa.Call)
			if !ok || !f.Pol {
				continue
			}
			cal := staticCallee(&call.Call)
			if cal == nil || !r.Prog.IsRuleSite(cal) || len(call.Call.Args) != 2 || call.Call.Args[0] != ssa.Value(pod) || call.Call.Args[1] != ssa.Value(node) {
				continue
			}
			conj = append(conj, cal)
		}
		for _, t := range tables {
			ranOut, inside := false, false
			for i, b := range c.P.Blocks {
				if b == t.l.Header && i+1 < len(c.P.Blocks) && c.P.Blocks[i+1] == t.l.Done {
					ranOut = true
				}
				if b != t.l.Header && t.l.In[b] {
					inside = true
				}
			}
			if ranOut && !inside {
				conj = append(conj, t.fns...)
			}
		}
		for _, cal := range conj {
			if len(cal.Params) != 2 {
				continue
			}
			if isTaintFn(cal) {
				hasT, taintFn = true, cal
			}
			if isSelectorFn(cal) {
				hasS, selFn = true, cal
			}
		}
		r.Check("C01.R7", "fit=true on ["+descFactsC(c.Facts)+"]", r.Prog.Pos(instrPos(c.Ret)), shortFunc(fit),
			"a node is fit only if the selector/affinity check and the taint check both hold for (pod, node)", hasT && hasS, fmt.Sprintf("selector/affinity check=%v taint check=%v", hasS, hasT))
	}
	if nTrue == 0 {
		r.Check("C01.R7", "fit=true", r.Prog.Pos(fit.Pos()), shortFunc(fit), "CheckNodeFitness can return true", false, "no true case")
	}
	if taintFn != nil {
		c01Taints(r, al, taintFn)
	}
	if selFn != nil {
		c01Selector(r, selFn)
	}
}

// c01TaintScan finds the scan of node.Spec.Taints reached from the taint check T(pod, node): the
// function g (T itself or a repository function it reaches) and its range loop over a slice that
// denotes <T's node>.Spec.Taints (through parameters of helpers).
func c01TaintScan(r *Run, al *aliasC, t *ssa.Function) (*ssa.Function, *sliceLoopC) {
	if len(t.Params) != 2 {
		return nil, nil
	}
	node := t.Params[1]
	for _, g := range sortedFuncs(r.Prog.reachableFuncs(t)) {
		if !r.Prog.IsRuleSite(g) {
			continue
		}
		for _, l := range sliceLoopsC(g) {
			if ipIsC(al, l.Slice, node, "Spec", "Taints") {
				return g, l
			}
		}
	}
	return nil, nil
}

// c01Taints: the taint check. In the function g that scans node.Spec.Taints:
//   - an iteration moves on only if the taint is not selected (the filter function says no, or its
//     effect is neither NoSchedule nor NoExecute) or a toleration of pod.Spec.Tolerations tolerates it;
//   - false is returned only for a selected, untolerated taint; true only outside the scan;
//   - the selection is exactly {NoSchedule, NoExecute}; the toleration test holds only if some
//     toleration ToleratesTaint(taint); the scan's verdict is what the taint check returns.
func c01Taints(r *Run, al *aliasC, t *ssa.Function) {
	pod := t.Params[0]
	g, loop := c01TaintScan(r, al, t)
	if g == nil {
		r.Undecided("C01.R7", "taint scan", r.Prog.Pos(t.Pos()), shortFunc(t), "no scan of node.Spec.Taints is reached from the taint check")
		return
	}
	noSched, _ := r.Prog.constStr(pkgCoreV1, "TaintEffectNoSchedule")
	noExec, _ := r.Prog.constStr(pkgCoreV1, "TaintEffectNoExecute")
	k := newKeyer(g)
	pos := r.Prog.Pos(instrPos(loop.Header.Instrs[len(loop.Header.Instrs)-1]))
	// the verdict of the scan is the verdict of the taint check
	if g != t {
		good, detail := true, ""
		for _, b := range t.Blocks {
			ret := returnOf(b)
			if ret == nil {
				continue
			}
			for _, o := range origins(ret.Results[0]) {
				if bv, isC := constBool(o); isC && !bv {
					continue
				}
				c, ok := o.(*ssa.Call)
				if !ok || staticCallee(&c.Call) != g {
					good, detail = false, "returns "+descValueC(o)
				}
			}
		}
		r.Check("C01.R7", "taint check result", r.Prog.Pos(t.Pos()), shortFunc(t), "the taint check returns the verdict of the scan of node.Spec.Taints (or false)", good, detail)
	}
	// filter function (optional): a function-typed value applied to the taint
	var filterCalls []ssa.CallInstruction
	filterFns := map[*ssa.Function]bool{}
	for _, ci := range callsIn(g) {
		cc := ci.Common()
		if !loop.In[ci.Block()] || cc.IsInvoke() || staticCallee(cc) != nil || len(cc.Args) != 1 || !loop.isElem(k, cc.Args[0]) {
			continue
		}
		if _, isBuiltin := cc.Value.(*ssa.Builtin); isBuiltin {
			continue
		}
		filterCalls = append(filterCalls, ci)
		if fns, ok := dDynCallees(r.Prog, ci); ok {
			for _, f := range fns {
				filterFns[f] = true
			}
		} else {
			r.Undecided("C01.R7", "taint filter", r.Prog.Pos(ci.Pos()), shortFunc(g), "the filter applied to the taints cannot be resolved to functions")
		}
	}
	isFilterCall := func(v ssa.Value) bool {
		for _, ci := range filterCalls {
			if ci.Value() != nil && v == ssa.Value(ci.Value()) {
				return true
			}
		}
		return false
	}
	isFilterVal := func(v ssa.Value) bool {
		for _, ci := range filterCalls {
			if unwrap(v) == ci.Common().Value {
				return true
			}
		}
		return false
	}
	effect := func(v ssa.Value) bool { p, ok := loop.elemPath(k, v); return ok && pathIsC(p, "Effect") }
	effectIs := func(fs factSet, val string, pol bool) bool { return eqFactC(fs, pol, effect, isConstStringVal(val)) }
	selectedBy := func(fs factSet) (bool, string) {
		switch {
		case valueFactC(fs, true, isFilterCall):
			return true, "filter"
		case len(filterCalls) > 0 && nilFactC(fs, true, isFilterVal):
			return true, "no filter"
		case effectIs(fs, noSched, true):
			return true, noSched
		case effectIs(fs, noExec, true):
			return true, noExec
		}
		return false, ""
	}
	rejectedBy := func(fs factSet) bool {
		return valueFactC(fs, false, isFilterCall) || (effectIs(fs, noSched, false) && effectIs(fs, noExec, false))
	}
	// toleration test: M(<pod tolerations>, taint)
	tolFns := map[*ssa.Function]bool{}
	isTolCall := func(v ssa.Value) bool {
		c, ok := v.(*ssa.Call)
		if !ok || len(c.Call.Args) != 2 {
			return false
		}
		m := repoCalleeC(&c.Call)
		if m == nil || !loop.isElem(k, c.Call.Args[1]) || !ipIsC(al, c.Call.Args[0], pod, "Spec", "Tolerations") {
			return false
		}
		tolFns[m] = true
		return true
	}
	// continue paths
	bp, okB := backEdgePathsC(g, k, loop.Header, loop.Body, loop.In, 2000)
	r.paths += len(bp)
	good, detail := okB && len(bp) > 0, ""
	for _, p := range bp {
		if !rejectedBy(p.Facts) && !valueFactC(p.Facts, true, isTolCall) {
			good = false
			detail = "an iteration continues with facts " + descFactsC(p.Facts)
		}
	}
	r.Check("C01.R7", "taint scan continues", pos, shortFunc(g), "the scan moves to the next taint only if the taint is not selected (filter says no / effect is neither NoSchedule nor NoExecute) or a toleration tolerates it", good, detail)
	// rejecting paths
	inLoopReturn := func(b *ssa.BasicBlock) bool { return isReturnBlock(b) && loop.In[b] && b != loop.Header }
	stopOut := func(b *ssa.BasicBlock) bool { return !loop.In[b] || b == loop.Header }
	rp, okR := enumPaths(g, k, loop.Body, inLoopReturn, stopOut, 2000)
	r.paths += len(rp)
	goodF, detailF, nFalse := okR, "", 0
	via := map[string]bool{}
	for _, p := range rp {
		ret := returnOf(p.Blocks[len(p.Blocks)-1])
		res := p.Resolve(ret.Results[0])
		if b, isC := constBool(res); !isC || b {
			if !isC || b {
				if isC && b {
					goodF, detailF = false, "true is returned from inside the scan"
				}
			}
			continue
		}
		nFalse++
		sel, how := selectedBy(p.Facts)
		via[how] = true
		if !sel || !valueFactC(p.Facts, false, isTolCall) {
			goodF = false
			detailF = "false is returned for a taint on a path with facts " + descFactsC(p.Facts)
		}
	}
	r.Check("C01.R7", "taint scan rejects", pos, shortFunc(g),
		"a node is rejected for a taint only if that taint is selected (by the filter, or having effect NoSchedule/NoExecute) and no toleration tolerates it — ignored taints never make a node ineligible", goodF && nFalse > 0, detailF)
	// true only outside the scan
	cases, _, okc := boolCasesC(g, 0, 2000)
	goodT, detailT := okc, ""
	for _, c := range cases {
		if !c.Result {
			continue
		}
		for _, b := range c.P.Blocks {
			if b != loop.Header && loop.In[b] {
				goodT = false
				detailT = "true is returned from inside the scan at " + r.Prog.Pos(instrPos(c.Ret))
			}
		}
	}
	r.Check("C01.R7", "taint scan result", r.Prog.Pos(g.Pos()), shortFunc(g), "true is returned only before the scan (no taints) or after it is exhausted", goodT, detailT)
	// the filter, when there is one: nil-guarded and selecting exactly the two effects
	if len(filterCalls) > 0 {
		ffT := computeFacts(g)
		goodN, detailN := true, ""
		for _, ci := range filterCalls {
			fv := ci.Common().Value
			if _, isParam := unwrap(fv).(*ssa.Parameter); !isParam {
				continue // only an optional (parameter) filter can be nil
			}
			if !nilFactC(ffT.At(ci.Block()), false, func(v ssa.Value) bool { return unwrap(v) == fv }) {
				goodN = false
				detailN = "the filter is called at " + r.Prog.Pos(ci.Pos()) + " without the fact filter != nil"
			}
		}
		r.Check("C01.R7", "taint filter nil-guarded", r.Prog.Pos(g.Pos()), shortFunc(g), "the optional filter is called only where it is known to be non-nil", goodN, detailN)
		for _, f := range sortedFuncs(filterFns) {
			c01TaintFilter(r, f)
		}
	} else {
		// inline selection: both effects are seen as selecting, nothing else
		r.Check("C01.R7", "taint effect set", pos, shortFunc(g), "both NoSchedule and NoExecute taints are selected, and only those", via[noSched] && via[noExec] && len(via) == 2, "selected by: "+strings.Join(sortedKeysC(via), ","))
	}
	// the toleration test
	if len(tolFns) == 0 {
		r.Check("C01.R7", "toleration match", pos, shortFunc(g), "selected taints are tested against pod.Spec.Tolerations", false, "no call M(pod.Spec.Tolerations, taint) of a repository function found in the scan")
	}
	for _, m := range sortedFuncs(tolFns) {
		alts := r.Prog.funcTrueAlternatives(m, 0)
		goodM, detailM := len(alts) > 0, ""
		for _, alt := range alts {
			if !valueFactC(alt, true, func(v ssa.Value) bool {
				call, ok := v.(*ssa.Call)
				if !ok || calleeName(&call.Call) != "("+pkgCoreV1+".Toleration).ToleratesTaint" || len(call.Call.Args) != 2 {
					return false
				}
				return denotesParamC(call.Call.Args[1], m.Params[1])
			}) {
				goodM = false
				detailM = "true with facts " + descFactsC(alt)
			}
		}
		r.Check("C01.R7", "toleration match", r.Prog.Pos(m.Pos()), shortFunc(m), "a taint counts as tolerated only if some toleration ToleratesTaint(taint)", goodM, detailM)
	}
}

// c01TaintFilter: the filter selects exactly the effects NoSchedule and NoExecute.
func c01TaintFilter(r *Run, filter *ssa.Function) {
	noSched, _ := r.Prog.constStr(pkgCoreV1, "TaintEffectNoSchedule")
	noExec, _ := r.Prog.constStr(pkgCoreV1, "TaintEffectNoExecute")
	cases, _, ok := boolCasesC(filter, 0, 500)
	if !ok || len(filter.Params) != 1 || noSched == "" || noExec == "" {
		r.Undecided("C01.R7", "taint filter", r.Prog.Pos(filter.Pos()), shortFunc(filter), "path cap exceeded, unexpected signature or missing constants")
		return
	}
	t := filter.Params[0]
	effectIs := func(fs factSet, val string, pol bool) bool {
		return eqFactC(fs, pol, func(v ssa.Value) bool {
			root, p := accessPath(unwrap(v))
			return root == ssa.Value(t) && pathIsC(p, "Effect")
		}, isConstStringVal(val))
	}
	selected := map[string]bool{}
	for _, c := range cases {
		pos := r.Prog.Pos(instrPos(c.Ret))
		if c.Result {
			which := ""
			if effectIs(c.Facts, noSched, true) {
				which = noSched
			} else if effectIs(c.Facts, noExec, true) {
				which = noExec
			}
			selected[which] = true
			r.Check("C01.R7", "taint filter selects ["+descFactsC(c.Facts)+"]", pos, shortFunc(filter), "the filter selects a taint only for effect NoSchedule or NoExecute", which != "", "")
		} else {
			r.Check("C01.R7", "taint filter rejects ["+descFactsC(c.Facts)+"]", pos, shortFunc(filter), "the filter ignores a taint only when its effect is neither NoSchedule nor NoExecute",
				effectIs(c.Facts, noSched, false) && effectIs(c.Facts, noExec, false), "")
		}
	}
	r.Check("C01.R7", "taint filter effect set", r.Prog.Pos(filter.Pos()), shortFunc(filter), "both NoSchedule and NoExecute taints are selected", selected[noSched] && selected[noExec], "selected: "+strings.Join(sortedKeysC(selected), ","))
}

// c01Selector: the selector/affinity check.
func c01Selector(r *Run, fn *ssa.Function) {
	pod, node := fn.Params[0], fn.Params[1]
	cases, _, ok := boolCasesC(fn, 0, 5000)
	r.paths += len(cases)
	if !ok {
		r.Undecided("C01.R7", "selector table", r.Prog.Pos(fn.Pos()), shortFunc(fn), "path cap exceeded")
		return
	}
	podPath := func(v ssa.Value, want ...string) bool {
		root, p := accessPath(unwrap(v))
		if root == ssa.Value(pod) {
			return pathIsC(p, want...)
		}
		// a local alias of pod.Spec.Affinity etc.: follow the loaded pointer
		return false
	}
	// resolve a chain like (*(*pod.Spec.Affinity).NodeAffinity).Required...: accessPath already looks through loads
	affFns := map[*ssa.Function]bool{} // repository functions deciding the required-affinity match
	for _, c := range cases {
		if !c.Result {
			continue
		}
		fs := c.Facts
		noSelector := false
		for _, f := range fs {
			cf, ok := decodeCmpC(f)
			if !ok {
				continue
			}
			c15LenOf := func(v ssa.Value) bool {
				ln := builtinCallC(v, "len")
				return ln != nil && podPath(ln.Call.Args[0], "Spec", "NodeSelector")
			}
			zero := func(v ssa.Value) bool { z, ok := constInt(v); return ok && z == 0 }
			switch {
			case cf.Op == "<" && zero(cf.X) && c15LenOf(cf.Y) && !cf.Pol: // !(0 < len)
				noSelector = true
			case cf.Op == "==" && ((zero(cf.X) && c15LenOf(cf.Y)) || (zero(cf.Y) && c15LenOf(cf.X))) && cf.Pol:
				noSelector = true
			case cf.Op == "==" && cf.Pol && ((isNilConst(cf.X) && podPath(cf.Y, "Spec", "NodeSelector")) || (isNilConst(cf.Y) && podPath(cf.X, "Spec", "NodeSelector"))):
				noSelector = true
			}
		}
		selMatch := valueFactC(fs, true, func(v ssa.Value) bool {
			call, ok := v.(*ssa.Call)
			if !ok || !call.Call.IsInvoke() || call.Call.Method.Name() != "Matches" || len(call.Call.Args) != 1 {
				return false
			}
			recv, ok := call.Call.Value.(*ssa.Call)
			if !ok || !strings.HasSuffix(calleeName(&recv.Call), "labels.SelectorFromSet") || !podPath(recv.Call.Args[0], "Spec", "NodeSelector") {
				return false
			}
			root, p := accessPath(unwrap(call.Call.Args[0]))
			return root == ssa.Value(node) && pathIsMetaC(p, "Labels")
		})
		noAffinity := nilFactC(fs, true, func(v ssa.Value) bool { return podPath(v, "Spec", "Affinity") }) ||
			nilFactC(fs, true, func(v ssa.Value) bool { return podPath(v, "Spec", "Affinity", "NodeAffinity") }) ||
			nilFactC(fs, true, func(v ssa.Value) bool {
				return podPath(v, "Spec", "Affinity", "NodeAffinity", "RequiredDuringSchedulingIgnoredDuringExecution")
			})
		affMatch := valueFactC(fs, true, func(v ssa.Value) bool {
			call, ok := v.(*ssa.Call)
			if !ok {
				return false
			}
			cal := staticCallee(&call.Call)
			if cal == nil || !r.Prog.IsRuleSite(cal) {
				return false
			}
			affFns[cal] = true
			hasNode, hasTerms := false, false
			for _, a := range call.Call.Args {
				if a == ssa.Value(node) {
					hasNode = true
				}
				if podPath(a, "Spec", "Affinity", "NodeAffinity", "RequiredDuringSchedulingIgnoredDuringExecution", "NodeSelectorTerms") {
					hasTerms = true
				}
			}
			return hasNode && hasTerms
		})
		good := (noSelector || selMatch) && (noAffinity || affMatch)
		r.Check("C01.R7", "selector check true on ["+descFactsC(fs)+"]", r.Prog.Pos(instrPos(c.Ret)), shortFunc(fn),
			"true only if (no node selector ∨ selector matches node labels) ∧ (no required node affinity ∨ node matches its terms)", good,
			fmt.Sprintf("noSelector=%v selectorMatches=%v noRequiredAffinity=%v affinityMatches=%v", noSelector, selMatch, noAffinity, affMatch))
	}
	c01Terms(r, affFns)
}

// c01Terms (part of R7): a node-selector term counts as matching only if every requirement list it
// carries was honoured. For every repository function, reachable from the required-affinity check,
// that ranges over a []NodeSelectorTerm parameter: each iteration that makes the function return
// true carries, for every slice field F of the term type (MatchExpressions, MatchFields, ...), either
// len(term.F) == 0 or a selector built from term.F that Matches(...) == true; and true is returned
// only from inside the scan (an empty list of terms matches nothing).
func c01Terms(r *Run, affFns map[*ssa.Function]bool) {
	n := 0
	seen := map[*ssa.Function]bool{}
	for _, af := range sortedFuncs(affFns) {
		for _, fn := range sortedFuncs(r.Prog.reachableFuncs(af)) {
			if seen[fn] || !r.Prog.IsRuleSite(fn) {
				continue
			}
			seen[fn] = true
			for _, l := range sliceLoopsC(fn) {
				pr, ok := l.Slice.(*ssa.Parameter)
				if !ok {
					continue
				}
				sl, ok := pr.Type().Underlying().(*types.Slice)
				if !ok || typeName(sl.Elem()) != pkgCoreV1+".NodeSelectorTerm" {
					continue
				}
				st, ok := sl.Elem().Underlying().(*types.Struct)
				if !ok {
					continue
				}
				var lists []string
				for i := 0; i < st.NumFields(); i++ {
					if _, isSl := st.Field(i).Type().Underlying().(*types.Slice); isSl {
						lists = append(lists, st.Field(i).Name())
					}
				}
				n++
				k := newKeyer(fn)
				inLoopReturn := func(b *ssa.BasicBlock) bool { return isReturnBlock(b) && l.In[b] && b != l.Header }
				stop := func(b *ssa.BasicBlock) bool { return !l.In[b] || b == l.Header }
				paths, okp := enumPaths(fn, k, l.Body, inLoopReturn, stop, 5000)
				r.paths += len(paths)
				pos := r.Prog.Pos(instrPos(l.Header.Instrs[len(l.Header.Instrs)-1]))
				if !okp {
					r.Undecided("C01.R7", "node-selector term scan", pos, shortFunc(fn), "path cap exceeded")
					continue
				}
				for _, f := range lists {
					good, detail, nTrue := true, "", 0
					for _, p := range paths {
						ret := returnOf(p.Blocks[len(p.Blocks)-1])
						res := p.Resolve(ret.Results[0])
						fs := factSet{}
						for kk, ff := range p.Facts {
							fs[kk] = ff
						}
						if b, isC := constBool(res); isC {
							if !b {
								continue
							}
						} else {
							contra := false
							for _, nf := range k.normCond(res, true) {
								if fs.has(nf.Key, !nf.Pol) {
									contra = true
								}
								fs[fkey(nf)] = nf
							}
							if contra {
								continue
							}
						}
						nTrue++
						isList := func(v ssa.Value) bool { pp, isEl := l.elemPath(k, v); return isEl && pathIsC(pp, f) }
						empty, matched := c01ListHonoured(fs, isList)
						if !empty && !matched {
							// the term may be judged by a repository predicate taking the term: every way that
							// predicate returns true must honour the list
							for _, ft := range fs {
								call, isCall := ft.V.(*ssa.Call)
								if !isCall || !ft.Pol {
									continue
								}
								h := repoCalleeC(&call.Call)
								if h == nil {
									continue
								}
								for i, a := range call.Call.Args {
									if !l.isElem(k, a) || i >= len(h.Params) {
										continue
									}
									hp := h.Params[i]
									isListH := func(v ssa.Value) bool {
										root, pp := accessPath(unwrap(v))
										if al, isA := root.(*ssa.Alloc); isA && spillOfC(al) == ssa.Value(hp) {
											root = hp
										}
										return root == ssa.Value(hp) && pathIsC(pp, f)
									}
									alts := r.Prog.funcTrueAlternatives(h, 0)
									all := len(alts) > 0
									for _, alt := range alts {
										e2, m2 := c01ListHonoured(alt, isListH)
										if !e2 && !m2 {
											all = false
										}
									}
									if all {
										matched = true
									}
								}
							}
						}
						if !empty && !matched {
							good = false
							detail = "a term is accepted on a path with facts: " + descFactsC(fs)
						}
					}
					r.Check("C01.R7", "node-selector term honours "+f, pos, shortFunc(fn),
						"a node-selector term matches only if its "+f+" list is empty or the selector built from it matches", good && nTrue > 0, detail)
				}
				// converse (eligibility is exact): a term is passed over only if it is empty (every list empty)
				// or one of its non-empty lists could not be converted or did not match
				bpaths, okb := backEdgePathsC(fn, k, l.Header, l.Body, l.In, 5000)
				r.paths += len(bpaths)
				goodS, detailS := okb, ""
				for _, p := range bpaths {
					skipOK := c01TermSkipJustified(p.Facts, lists, func(f string) func(ssa.Value) bool {
						return func(v ssa.Value) bool { pp, isEl := l.elemPath(k, v); return isEl && pathIsC(pp, f) }
					})
					if !skipOK {
						// judged by a repository predicate taking the term: every way it returns false must be justified
						for _, ft := range p.Facts {
							call, isCall := ft.V.(*ssa.Call)
							if !isCall || ft.Pol {
								continue
							}
							h := repoCalleeC(&call.Call)
							if h == nil {
								continue
							}
							for i, a := range call.Call.Args {
								if !l.isElem(k, a) || i >= len(h.Params) {
									continue
								}
								hp := h.Params[i]
								hcases, _, okh := boolCasesC(h, 0, 2000)
								all := okh
								nF := 0
								for _, hc := range hcases {
									if hc.Result {
										continue
									}
									nF++
									if !c01TermSkipJustified(hc.Facts, lists, func(f string) func(ssa.Value) bool {
										return func(v ssa.Value) bool {
											root, pp := accessPath(unwrap(v))
											if al, isA := root.(*ssa.Alloc); isA && spillOfC(al) == ssa.Value(hp) {
												root = hp
											}
											return root == ssa.Value(hp) && pathIsC(pp, f)
										}
									}) {
										all = false
									}
								}
								if all && nF > 0 {
									skipOK = true
								}
							}
						}
					}
					if !skipOK {
						goodS = false
						detailS = "a term is passed over on a path with facts: " + descFactsC(p.Facts)
					}
				}
				r.Check("C01.R7", "node-selector term skipped only when empty or mismatching", pos, shortFunc(fn),
					"a term is passed over only if all its requirement lists are empty, or a non-empty list failed to convert or did not match (a term carrying only one kind of requirement still counts)", goodS, detailS)
				// true only from inside the scan
				cases, _, okc := boolCasesC(fn, 0, 5000)
				goodT, detailT := okc, ""
				for _, c := range cases {
					if !c.Result {
						continue
					}
					inside := false
					for _, b := range c.P.Blocks {
						if b != l.Header && l.In[b] {
							inside = true
						}
					}
					if !inside {
						goodT = false
						detailT = "true is returned without a matching term at " + r.Prog.Pos(instrPos(c.Ret))
					}
				}
				r.Check("C01.R7", "node-selector terms: true needs a matching term", pos, shortFunc(fn), "the term list matches only if some term matched (an empty list matches nothing)", goodT, detailT)
				// converse: the terms are ORed — a mismatching term never decides; false only after the scan
				goodO, detailO := okc, ""
				for _, c := range cases {
					if c.Result {
						continue
					}
					for _, b := range c.P.Blocks {
						if b != l.Header && l.In[b] {
							goodO = false
							detailO = "false is returned from inside the scan of the terms at " + r.Prog.Pos(instrPos(c.Ret))
						}
					}
				}
				r.Check("C01.R7", "node-selector terms are ORed", pos, shortFunc(fn), "no single term makes the match fail: false is returned only after every term was tried", goodO, detailO)
			}
		}
	}
	if n == 0 {
		o := r.Check("C01.R7", "node-selector term scan", "-", "-", "the required-affinity match ranges over the terms in repository code", true, "no repository loop over []NodeSelectorTerm: matching is delegated to a dependency")
		o.Trivial = true
	}
}

// c01ListHonoured: the facts say that the requirement list selected by isList is empty, or that a
// selector derived from it Matches(...) == true.
func c01ListHonoured(fs factSet, isList func(ssa.Value) bool) (empty, matched bool) {
	lenOfList := func(v ssa.Value) bool { ln := builtinCallC(v, "len"); return ln != nil && isList(ln.Call.Args[0]) }
	zero := func(v ssa.Value) bool { z, okz := constInt(v); return okz && z == 0 }
	for _, ft := range fs {
		cf, okc := decodeCmpC(ft)
		if !okc {
			continue
		}
		switch {
		case cf.Op == "==" && cf.Pol && ((lenOfList(cf.X) && zero(cf.Y)) || (lenOfList(cf.Y) && zero(cf.X))):
			empty = true
		case cf.Op == "<" && !cf.Pol && zero(cf.X) && lenOfList(cf.Y): // !(0 < len)
			empty = true
		case cf.Op == "==" && cf.Pol && ((isNilConst(cf.X) && isList(cf.Y)) || (isNilConst(cf.Y) && isList(cf.X))):
			empty = true
		}
	}
	matched = valueFactC(fs, true, func(v ssa.Value) bool {
		call, isCall := v.(*ssa.Call)
		if !isCall || !call.Call.IsInvoke() || call.Call.Method.Name() != "Matches" {
			return false
		}
		return dependsOn(call.Call.Value, isList)
	})
	return empty, matched
}

// c01TermSkipJustified: the facts justify passing over a term: every requirement list is known to be
// empty, or for some list the selector conversion failed (err != nil) or the selector built from it
// does not match.
func c01TermSkipJustified(fs factSet, lists []string, isListOf func(f string) func(ssa.Value) bool) bool {
	allEmpty := len(lists) > 0
	for _, f := range lists {
		isList := isListOf(f)
		empty, _ := c01ListHonoured(fs, isList)
		if !empty {
			allEmpty = false
		}
		mismatch := valueFactC(fs, false, func(v ssa.Value) bool {
			call, isCall := v.(*ssa.Call)
			return isCall && call.Call.IsInvoke() && call.Call.Method.Name() == "Matches" && dependsOn(call.Call.Value, isList)
		})
		convErr := nilFactC(fs, false, func(v ssa.Value) bool {
			e, isE := v.(*ssa.Extract)
			if !isE {
				return false
			}
			call, isCall := e.Tuple.(*ssa.Call)
			if !isCall || e.Type().String() != "error" {
				return false
			}
			for _, a := range call.Call.Args {
				if isList(a) {
					return true
				}
			}
			return false
		})
		if mismatch || convErr {
			return true
		}
	}
	return allEmpty
}
