package main

// C10 — created pods are pinned, labelled and stable under the controller's comparison.

import (
	"fmt"
	"go/constant"
	"go/token"
	"go/types"
	"sort"
	"strings"

	"golang.org/x/tools/go/ssa"
)

func init() {
	register("C10", "Decides the structural conditions of pod construction and of its agreement with the comparison: (R1) on every path of CreatePodFromDaemonSetReplicaSet the returned pod is built from a DeepCopy of replicaset.Spec.Template and, at the return, carries namespace ← replicaset.Namespace, label replica-set-name ← replicaset.Name, label extendeddaemonset-name ← replicaset.Labels[that key], annotation template-hash ← replicaset.Spec.TemplateGeneration, Tolerations ← append(·, StandardDaemonSetTolerations...); with node != nil either Spec.NodeName ← node.Name or Spec.Affinity ← ReplaceNodeNameNodeAffinity(·, node.Name), and the node-hash annotation ← GenerateHashFromEDSResourceNodeAnnotation(replicaset.Namespace, eds name, node.Annotations) exactly when that hash is non-empty; with scheme != nil SetControllerReference(replicaset, pod, scheme) — none of them overwritten later on the path, callee writes through the template pointer included (abstract last-writer simulation along every acyclic path); (R2) ReplaceNodeNameNodeAffinity: every return path installs the fresh single-term selector {metadata.name In [nodename]} or the rebuilt term list; the rebuilt list gets one term per original term (full index loop, no early exit, append on every iteration) and every appended term has the node-name requirement set, replaced or appended; GetNodeNameFromAffinity reads the same key; (R3) every Create(*Pod) reachable from a reconciler takes result #0 of that constructor called with Node and ExtendedDaemonsetSetting of one and the same creation candidate and with a scheme that traces back to a reconciler's scheme field; (R4) hash-key chain: the comparison reads the template-hash / node-hash annotation keys the constructor writes, compares the first with Replicaset.Spec.TemplateGeneration and the second with the same hash function over (replicaset.Namespace, ·, node annotations), and compareCurrentPodWithNewPod returns true only when both (and the setting check) returned true; (R5) source agreement: the constructor's writers of Containers[i].Resources are ordered by dominance (later wins); for every source written after the ExtendedDaemonsetSetting source (today: the node's annotations), every write by which the comparison overlays setting data onto the compared copy is guarded by a fact whose condition consults that source for the container (a lookup in the node's annotations with a key depending on the container name, directly or through a repository function whose results vary with such a lookup); (R5b) the guard under which the constructor stores the annotation's resources and the guard under which the comparison overlays the setting are both expressed (as a disjunction over paths of conjunctions of facts) on the results of one shared lookup function, and for every result combination that function can return (its return-path table, unknown values tried both ways) exactly one of the two guards holds; (R6) in GenerateMD5PodTemplateSpec and GenerateHashFromEDSResourceNodeAnnotation no digest feed (Write / io.Copy / Fprint* / crypto Sum input) lies inside a range-over-map loop, no string or buffer accumulated in such a loop reaches the digest, and every slice appended to in such a loop that reaches the digest is passed to a sort call that dominates the feed. (R2, survivor clause) wherever the writer, or a helper it hands the rebuilt term to, finds in a scan of the term's MatchFields an element whose Key is the node-name key, it stores the requirement at that element's index on every path of that iteration, whatever the element's operator or values — the reader returns the first requirement with that key. Shapes read through: (R2) the reader may return the node name a repository helper found (the helper then gives the Key guarantee), and an existing node-name requirement may be replaced in a loop over collected indexes when the append is skipped only for a non-empty index list; (R4) the reader of a hash annotation may be handed the pod's annotation map instead of the pod (at every call the map must be a pod's Annotations), and the replica set whose namespace enters the node hash may be reached through a field; (R8) a namespace/name read off an object that is itself reached through fields is classified by that object's type.", runC10)
}

type c10Ctx struct {
	r                       *Run
	ctor                    *ssa.Function
	scheme, rs, node, setng *ssa.Parameter
	ersKey, edsKey          string
	md5Key, md5NodeKey      string
	overlays                []c10Overlay // comparison overlay writes whose guard consults the node annotation
	overlayBad              bool
}

type c10Overlay struct {
	fn *ssa.Function
	in ssa.Instruction
	ff *FuncFacts
}

func c10Anchor(r *Run) *c10Ctx {
	c := &c10Ctx{r: r}
	c.ctor = r.Prog.Func(pkgPodUtils, "CreatePodFromDaemonSetReplicaSet")
	if c.ctor == nil {
		r.Fatal("anchor %s.CreatePodFromDaemonSetReplicaSet not found", pkgPodUtils)
		return nil
	}
	for _, p := range c.ctor.Params {
		switch {
		case isPtrToNamed(p.Type(), "k8s.io/apimachinery/pkg/runtime", "Scheme"):
			c.scheme = p
		case isPtrToNamed(p.Type(), pkgAPI, "ExtendedDaemonSetReplicaSet"):
			c.rs = p
		case isPtrToNamed(p.Type(), pkgCoreV1, "Node"):
			c.node = p
		case isPtrToNamed(p.Type(), pkgAPI, "ExtendedDaemonsetSetting"):
			c.setng = p
		}
	}
	if c.scheme == nil || c.rs == nil || c.node == nil || c.setng == nil {
		r.Fatal("constructor %s does not take (scheme, replica set, node, setting)", shortFunc(c.ctor))
		return nil
	}
	get := func(name string) string {
		s, ok := r.Prog.constStr(pkgAPI, name)
		if !ok {
			r.Fatal("anchor constant %s.%s not found", pkgAPI, name)
		}
		return s
	}
	c.ersKey = get("ExtendedDaemonSetReplicaSetNameLabelKey")
	c.edsKey = get("ExtendedDaemonSetNameLabelKey")
	c.md5Key = get("MD5ExtendedDaemonSetAnnotationKey")
	c.md5NodeKey = get("MD5NodeExtendedDaemonSetAnnotationKey")
	return c
}

func runC10(r *Run) {
	r.RuleDoc("C10.R1", "pod constructor: required stores hold at every return (namespace, labels, template hash, tolerations, node pin, node hash, owner reference)")
	r.RuleDoc("C10.R2", "ReplaceNodeNameNodeAffinity pins every term; GetNodeNameFromAffinity reads the same key")
	r.RuleDoc("C10.R3", "every Create(Pod) takes the constructor's result for one creation candidate and the reconciler's scheme")
	r.RuleDoc("C10.R4", "hash-key chain between constructor and comparison (template hash, node hash)")
	r.RuleDoc("C10.R5", "sources the constructor consults with higher precedence than the setting are consulted by the comparison's setting check")
	r.RuleDoc("C10.R5b", "constructor and comparison agree on WHEN the node annotation overrides: for every result combination the shared lookup can return, exactly one of {constructor applies the annotation, comparison applies the setting check} holds")
	r.RuleDoc("C10.R7", "every container is resolved: a loop over the template's containers in the constructor's helpers is never left early on a path that has not applied (or collected) the current container's override")
	r.RuleDoc("C10.R8", "writer and reader build the node-annotation key from the same things: at every call of the functions that format the resources-annotation key, each key component has the same role (replica-set/pod namespace, ExtendedDaemonSet name, container name)")
	r.RuleDoc("C10.R9", "the comparison never discards data of the pod it compares: inside compareCurrentPodWithNewPod's functions a fresh empty map or slice is stored into memory only in place of a nil one (under the fact `that location == nil`)")
	r.RuleDoc("C10.R6", "hash determinism: no digest feed inside a range-over-map loop; map-collected data reaches the digest only through a slice sorted before the feeding loop")
	r.Floor("C10.R1", 9)
	r.Floor("C10.R2", 6)
	r.Floor("C10.R3", 3)
	r.Floor("C10.R4", 6)
	r.Floor("C10.R5", 3)
	r.Floor("C10.R5b", 2)
	r.Floor("C10.R6", 4)
	r.Floor("C10.R7", 1)
	r.Floor("C10.R8", 3)
	r.Floor("C10.R9", 1)
	r.NotCovered("value-level round trip for every template / annotation / setting (e.g. that overlaying a setting onto a pod built from it is the identity, that DeepEqual sees no defaulted fields); that the node pointer of a creation candidate is non-nil (C01); that Parameters.EDSName equals the replica set's extendeddaemonset-name label; affinity terms that conflict with the node name; the error of overwriteResourcesFromNode being replaced by SetControllerReference's result")

	c := c10Anchor(r)
	if c == nil {
		return
	}
	c.constructor()
	c10Affinity(r)
	c.createSites()
	c10HashChainPod(r, "C10.R4", false)
	c.nodeHashChain()
	c.sources()
	c.overrideAgreement()
	c10HashDeterminism(r)
	c.containerLoops()
	c.keyRoles()
	c.comparisonKeepsPodData()
	c10Imports(r)
}

// ---------------------------------------------------------------------------------------------
// R1: last-writer simulation of the pod under construction, through repository helpers

var c10Unknown ssa.Value = ssa.NewConst(constant.MakeString("<unknown>"), types.Typ[types.String])

type c10FFact struct {
	f  Fact
	fr *frame
}

type c10RetKey struct {
	call *ssa.Call
	fr   *frame
}

type c10LoadKey struct {
	v  ssa.Value
	fr *frame
}

type c10State struct {
	c        *c10Ctx
	T        ssa.Value
	P        *ssa.Alloc
	t, p     map[string]fval
	dyn      map[string]bool // maps updated with a non-constant key (applies to both)
	copied   map[string]bool
	pOwn     map[string]bool // fields of P stored directly after the copy (alias with T broken)
	ownerRef int             // 0 none, 1 correct, 2 wrong arguments
	undec    string
	clock    int
	storeAt  map[string]int     // field path -> time of the last direct store on this path
	loadAt   map[c10LoadKey]int // load instruction -> time
	facts    []c10FFact         // path facts of the constructor and of the inlined helpers
	rets     map[c10RetKey][]fval
	lastRet  []fval
}

func (s *c10State) clone() *c10State {
	n := *s
	n.t, n.p = map[string]fval{}, map[string]fval{}
	for k, v := range s.t {
		n.t[k] = v
	}
	for k, v := range s.p {
		n.p[k] = v
	}
	cp := func(m map[string]bool) map[string]bool {
		o := map[string]bool{}
		for k, v := range m {
			o[k] = v
		}
		return o
	}
	n.dyn, n.copied, n.pOwn = cp(s.dyn), cp(s.copied), cp(s.pOwn)
	n.storeAt = map[string]int{}
	for k, v := range s.storeAt {
		n.storeAt[k] = v
	}
	n.loadAt = map[c10LoadKey]int{}
	for k, v := range s.loadAt {
		n.loadAt[k] = v
	}
	n.facts = append([]c10FFact{}, s.facts...)
	n.rets = map[c10RetKey][]fval{}
	for k, v := range s.rets {
		n.rets[k] = v
	}
	n.lastRet = nil
	return &n
}

func pkey(p []string) string { return strings.Join(p, ".") }

var c10UnknownF = fval{v: c10Unknown}

func (s *c10State) setField(m map[string]fval, path []string, val fval, nilInit bool) {
	k := pkey(path)
	for e := range m {
		if !nilInit && (strings.HasPrefix(e, k+".") || strings.HasPrefix(e, k+"{")) {
			delete(m, e)
		}
		if strings.HasPrefix(k, e+".") { // write below an existing entry: its pointee changes
			m[e] = c10UnknownF
		}
	}
	if !nilInit {
		m[k] = val
	}
	s.storeAt[k] = s.clock
}

func (s *c10State) setEntry(m map[string]fval, path []string, key string, val fval) {
	m[pkey(path)+"{"+key+"}"] = val
}

func (s *c10State) get(path ...string) (fval, bool) {
	v, ok := s.p[pkey(path)]
	return v, ok
}

// entry: 0 unset, 1 set (value returned), 2 unknown
func (s *c10State) entry(key string, path ...string) (fval, bool) {
	if v, ok := s.p[pkey(path)+"{"+key+"}"]; ok {
		return v, true
	}
	if s.dyn[pkey(path)] {
		return c10UnknownF, true
	}
	return fval{}, false
}

func (s *c10State) aliased(path []string) bool {
	for i := 1; i <= len(path); i++ {
		if s.pOwn[pkey(path[:i])] {
			return false
		}
	}
	return true
}

// c10Sim walks the constructor and, recursively, the loop-free repository helpers that receive a
// pointer into the pod under construction.
type c10Sim struct {
	c   *c10Ctx
	F   *frames
	top *frame
}

func (m *c10Sim) use(s *c10State) {
	m.F.rets = func(call *ssa.Call, fr *frame) ([]fval, bool) {
		v, ok := s.rets[c10RetKey{call, fr}]
		return v, ok
	}
}

// root of an address/value: (is template, is pod, path)
func (m *c10Sim) where(s *c10State, v ssa.Value, fr *frame) (isT, isP bool, path []string) {
	m.use(s)
	r, p := m.F.loc(fval{v: v, fr: fr})
	if r.fr != m.top && r.fr != nil {
		// a value of an inlined helper frame that is not rooted at a parameter
		return false, false, p
	}
	return r.v == s.T, r.v == ssa.Value(s.P), p
}

func (m *c10Sim) run(fn *ssa.Function, fr *frame, st *c10State, depth int) []*c10State {
	paths, _, ok := funcPaths(fn, 2000)
	m.c.r.paths += len(paths)
	if !ok {
		st.undec = "path cap exceeded in " + shortFunc(fn)
		return []*c10State{st}
	}
	var out []*c10State
	for _, p := range paths {
		s0 := st.clone()
		for _, f := range p.Facts {
			s0.facts = append(s0.facts, c10FFact{f, fr})
		}
		states := []*c10State{s0}
		for _, b := range p.Blocks {
			for _, in := range b.Instrs {
				var nx []*c10State
				for _, s := range states {
					s.clock++
					nx = append(nx, m.step(s, in, fr, p, depth)...)
				}
				states = nx
				if len(states) > 4000 {
					states[0].undec = "too many combined paths through the constructor and its helpers"
					return states[:1]
				}
			}
		}
		ret := returnOf(p.Blocks[len(p.Blocks)-1])
		for _, s := range states {
			s.lastRet = nil
			for _, res := range ret.Results {
				s.lastRet = append(s.lastRet, fval{v: p.Resolve(res), fr: fr})
			}
		}
		out = append(out, states...)
	}
	return out
}

func (m *c10Sim) step(s *c10State, in ssa.Instruction, fr *frame, p *Path, depth int) []*c10State {
	prog := m.c.r.Prog
	one := []*c10State{s}
	switch x := in.(type) {
	case *ssa.UnOp:
		if x.Op == token.MUL {
			s.loadAt[c10LoadKey{x, fr}] = s.clock
		}
	case *ssa.Store:
		isT, isP, path := m.where(s, x.Addr, fr)
		if len(path) == 0 || (!isT && !isP) {
			return one
		}
		val := fval{v: p.Resolve(x.Val), fr: fr}
		switch {
		case isP:
			// whole-struct copy from the template?
			if len(path) == 1 {
				if u, ok := val.v.(*ssa.UnOp); ok && u.Op == token.MUL {
					if srcT, _, sp := m.where(s, u.X, fr); srcT && len(sp) == 1 && sp[0] == path[0] {
						pre := path[0]
						for e := range s.p {
							if e == pre || strings.HasPrefix(e, pre+".") || strings.HasPrefix(e, pre+"{") {
								delete(s.p, e)
							}
						}
						for e, v := range s.t {
							if e == pre || strings.HasPrefix(e, pre+".") || strings.HasPrefix(e, pre+"{") {
								s.p[e] = v
							}
						}
						s.copied[pre] = true
						return one
					}
				}
			}
			s.setField(s.p, path, val, false)
			if s.copied[path[0]] {
				s.pOwn[pkey(path)] = true
			}
		case isT:
			s.setField(s.t, path, val, false)
			shared := false
			for _, f := range path {
				if f == "[]" {
					shared = true
				}
			}
			if shared && s.copied[path[0]] && s.aliased(path) {
				s.setField(s.p, path, val, false)
			}
		}
	case *ssa.MapUpdate:
		isT, isP, path := m.where(s, x.Map, fr)
		if (!isT && !isP) || len(path) == 0 {
			return one
		}
		if t, ok := s.loadAt[c10LoadKey{x.Map, fr}]; ok && t < s.storeAt[pkey(path)] {
			return one // the map was loaded before its field was reassigned: the update goes to the old map
		}
		toP := isP || (s.copied[path[0]] && s.aliased(path))
		if key, ok := constString(x.Key); ok {
			val := fval{v: p.Resolve(x.Value), fr: fr}
			if isT || !s.copied[path[0]] || s.aliased(path) {
				s.setEntry(s.t, path, key, val)
			}
			if toP {
				s.setEntry(s.p, path, key, val)
			}
			return one
		}
		s.dyn[pkey(path)] = true
		for _, mm := range []map[string]fval{s.t, s.p} {
			for e := range mm {
				if strings.HasPrefix(e, pkey(path)+"{") {
					mm[e] = c10UnknownF
				}
			}
		}
	case ssa.CallInstruction:
		cc := x.Common()
		name := calleeName(cc)
		if (name == "builtin:delete" || name == "builtin:clear") && len(cc.Args) >= 1 {
			isT, isP, path := m.where(s, cc.Args[0], fr)
			if isT || isP {
				key, isC := "", false
				if len(cc.Args) == 2 {
					key, isC = constString(cc.Args[1])
				}
				for _, mm := range []map[string]fval{s.t, s.p} {
					if isC {
						s.setEntry(mm, path, key, c10UnknownF)
						continue
					}
					s.dyn[pkey(path)] = true
					for e := range mm {
						if strings.HasPrefix(e, pkey(path)+"{") {
							mm[e] = c10UnknownF
						}
					}
				}
			}
			return one
		}
		if knownReader(name) {
			return one
		}
		type targ struct {
			ai       int
			isT, isP bool
			path     []string
		}
		var targs []targ
		for ai, a := range cc.Args {
			if _, isPtr := a.Type().Underlying().(*types.Pointer); !isPtr {
				if _, isIface := a.Type().Underlying().(*types.Interface); !isIface {
					continue
				}
			}
			isT, isP, path := m.where(s, a, fr)
			if isT || isP {
				targs = append(targs, targ{ai, isT, isP, path})
			}
		}
		if len(targs) == 0 {
			return one
		}
		if strings.HasSuffix(name, "controllerutil.SetControllerReference") && len(cc.Args) >= 3 {
			for _, ta := range targs {
				if ta.ai == 1 && ta.isP && len(ta.path) == 0 {
					m.use(s)
					owner := m.F.resolve(fval{v: unwrap(cc.Args[0]), fr: fr})
					sch := m.F.resolve(fval{v: cc.Args[2], fr: fr})
					if owner.v == ssa.Value(m.c.rs) && sch.v == ssa.Value(m.c.scheme) {
						s.ownerRef = 1
					} else {
						s.ownerRef = 2
					}
					s.setField(s.p, []string{"ObjectMeta", "OwnerReferences"}, c10UnknownF, false)
				}
			}
			return one
		}
		m.use(s)
		cal, fr2 := m.F.callFrame(x, fr)
		if cal == nil || !prog.IsRuleSite(cal) || cc.IsInvoke() {
			s.undec = "the object under construction is passed to " + name
			return one
		}
		call, isCall := x.(*ssa.Call)
		if isCall && !hasLoop(cal) && depth < 3 {
			// inline the helper: one successor state per path of the helper
			subs := m.run(cal, fr2, s, depth+1)
			for _, sub := range subs {
				sub.rets[c10RetKey{call, fr}] = sub.lastRet
			}
			return subs
		}
		for _, ta := range targs {
			which, other := s.t, s.p
			if ta.isP {
				which, other = s.p, nil
			}
			for _, w := range paramWrites(prog, cal, ta.ai, 0) {
				full := append(append([]string{}, ta.path...), w.path...)
				apply := func(mm map[string]fval) {
					if mm == nil {
						return
					}
					switch {
					case w.all:
						if len(full) == 0 {
							for e := range mm {
								mm[e] = c10UnknownF
							}
							s.undec = shortFunc(cal) + " passes the object to an unknown callee"
						} else {
							s.setField(mm, full, c10UnknownF, false)
						}
					case w.isMap && w.dynKey:
						s.dyn[pkey(full)] = true
						for e := range mm {
							if strings.HasPrefix(e, pkey(full)+"{") {
								mm[e] = c10UnknownF
							}
						}
					case w.isMap:
						s.setEntry(mm, full, w.mapKey, c10UnknownF)
					default:
						s.setField(mm, full, c10UnknownF, w.nilInit)
					}
				}
				apply(which)
				if other != nil && len(full) > 0 && s.copied[full[0]] && s.aliased(full) {
					shared := w.isMap
					for _, f := range full {
						if f == "[]" {
							shared = true
						}
					}
					if shared {
						apply(other)
					}
				}
			}
		}
	}
	return one
}

// ---- frame-aware matchers

func (m *c10Sim) isTopObj(r fval, obj ssa.Value) bool {
	return r.v == obj && (r.fr == m.top || r.fr == nil)
}

// fieldOf: x is (a load of) obj.<path> (ObjectMeta elements ignored).
func (m *c10Sim) fieldOf(s *c10State, x fval, obj ssa.Value, want ...string) bool {
	m.use(s)
	x = m.F.resolve(x)
	if _, isPtr := x.v.Type().Underlying().(*types.Pointer); isPtr {
		return false // an address, not the value
	}
	r, p := m.F.loc(x)
	return m.isTopObj(r, obj) && samePath(stripMeta(p), want)
}

func (m *c10Sim) getterOf(s *c10State, x fval, obj ssa.Value, suffix string) bool {
	m.use(s)
	x = m.F.resolve(x)
	call, ok := unwrap(x.v).(*ssa.Call)
	if !ok || !strings.HasSuffix(calleeName(&call.Call), suffix) {
		return false
	}
	var recv ssa.Value
	if call.Call.IsInvoke() {
		recv = call.Call.Value
	} else if len(call.Call.Args) == 1 {
		recv = call.Call.Args[0]
	}
	if recv == nil {
		return false
	}
	r, p := m.F.loc(fval{v: recv, fr: x.fr})
	return m.isTopObj(r, obj) && len(stripMeta(p)) == 0
}

func (m *c10Sim) nameOf(s *c10State, x fval, obj ssa.Value) bool {
	return m.fieldOf(s, x, obj, "Name") || m.getterOf(s, x, obj, ".GetName")
}

func (m *c10Sim) namespaceOf(s *c10State, x fval, obj ssa.Value) bool {
	return m.fieldOf(s, x, obj, "Namespace") || m.getterOf(s, x, obj, ".GetNamespace")
}

func (m *c10Sim) annotationsOf(s *c10State, x fval, obj ssa.Value) bool {
	return m.fieldOf(s, x, obj, "Annotations") || m.getterOf(s, x, obj, ".GetAnnotations")
}

// edsName: x is replicaset.Labels[<extendeddaemonset name key>] (also when a helper returned it).
func (m *c10Sim) edsName(s *c10State, x fval) bool {
	m.use(s)
	m.F.enterCalls = true
	x = m.F.resolve(x)
	m.F.enterCalls = false
	v := x.v
	if ex, ok := v.(*ssa.Extract); ok && ex.Index == 0 {
		v = ex.Tuple
	}
	l, ok := v.(*ssa.Lookup)
	if !ok {
		return false
	}
	if k, isC := constString(l.Index); !isC || k != m.c.edsKey {
		return false
	}
	return m.fieldOf(s, fval{v: l.X, fr: x.fr}, m.c.rs, "Labels") || m.getterOf(s, fval{v: l.X, fr: x.fr}, m.c.rs, ".GetLabels")
}

func c10IsStdTolerations(v ssa.Value) bool {
	u, isL := v.(*ssa.UnOp)
	if !isL || u.Op != token.MUL {
		return false
	}
	g, isG := u.X.(*ssa.Global)
	return isG && g.Pkg.Pkg.Path() == pkgPodUtils && g.Name() == "StandardDaemonSetTolerations"
}

func c10FactsString(s *c10State) string {
	var out []string
	seen := map[string]bool{}
	for _, f := range s.facts {
		k := strings.ReplaceAll(f.f.Key, repoMod+"/", "")
		if len(k) > 48 {
			k = k[:48] + "…"
		}
		if !f.f.Pol {
			k = "¬" + k
		}
		if !seen[k] {
			seen[k] = true
			out = append(out, k)
		}
	}
	sort.Strings(out)
	return strings.Join(out, " ∧ ")
}

// findObjects locates the returned pod literals and, for each, the template copy it is filled from.
func (c *c10Ctx) findObjects() (pods map[*ssa.Alloc]ssa.Value, why string) {
	pods = map[*ssa.Alloc]ssa.Value{}
	for _, b := range c.ctor.Blocks {
		ret := returnOf(b)
		if ret == nil {
			continue
		}
		for _, o := range origins(ret.Results[0]) {
			a, ok := o.(*ssa.Alloc)
			if !ok || !isPtrToNamed(a.Type(), pkgCoreV1, "Pod") {
				return nil, "the constructor returns something other than a locally built Pod"
			}
			pods[a] = nil
		}
	}
	if len(pods) == 0 {
		return nil, "no returned Pod"
	}
	for P := range pods {
		var T ssa.Value
		for _, f := range []string{"ObjectMeta", "Spec"} {
			n := 0
			for _, rr := range refs(P) {
				fa, ok := rr.(*ssa.FieldAddr)
				if !ok || fieldName(fa) != f {
					continue
				}
				for _, r2 := range refs(fa) {
					st, ok := r2.(*ssa.Store)
					if !ok || st.Addr != ssa.Value(fa) {
						continue
					}
					n++
					u, ok := st.Val.(*ssa.UnOp)
					if !ok || u.Op != token.MUL {
						return nil, "Pod." + f + " is not copied from a template"
					}
					src, ok := u.X.(*ssa.FieldAddr)
					if !ok || fieldName(src) != f || (T != nil && T != src.X) {
						return nil, "Pod." + f + " is not copied from the same template object's " + f
					}
					T = src.X
				}
			}
			if n != 1 {
				return nil, fmt.Sprintf("Pod.%s is assigned %d times as a whole", f, n)
			}
		}
		pods[P] = T
	}
	return pods, ""
}

func (c *c10Ctx) constructor() {
	r := c.r
	fn := c.ctor
	sf := shortFunc(fn)
	pos := r.Prog.Pos(fn.Pos())
	items := []string{"template source", "namespace", "label replica-set name", "label extendeddaemonset name", "annotation template hash", "tolerations", "node pin", "node hash annotation", "owner reference"}
	allUndecided := func(why string) {
		for _, it := range items {
			r.Undecided("C10.R1", it, pos, sf, why)
		}
	}
	if hasLoop(fn) {
		allUndecided("the constructor contains a loop; the last-writer simulation handles straight-line and branching code only")
		return
	}
	pods, why := c.findObjects()
	if pods == nil {
		allUndecided(why)
		return
	}
	// template source
	okSrc, whySrc := true, ""
	for _, T := range pods {
		good := false
		if call, ok := T.(*ssa.Call); ok {
			if cal := staticCallee(&call.Call); cal != nil && cal.Name() == "DeepCopy" && len(call.Call.Args) == 1 {
				root, p := accessPath(call.Call.Args[0])
				good = root == ssa.Value(c.rs) && samePath(p, []string{"Spec", "Template"})
			}
		}
		if !good {
			okSrc, whySrc = false, "template object is "+T.String()
		}
	}
	r.Check("C10.R1", "template source", pos, sf, "the pod is filled from a DeepCopy of replicaset.Spec.Template (the constructor mutates the copy)", okSrc, whySrc)

	hashFn := r.Prog.Func(pkgComparison, "GenerateHashFromEDSResourceNodeAnnotation")
	type res struct {
		ok      bool
		why     string
		nonTriv bool
	}
	results := map[string]*res{}
	for _, it := range items[1:] {
		results[it] = &res{ok: true}
	}
	fail := func(it string, s *c10State, why string) {
		if results[it].ok {
			results[it].ok = false
			results[it].why = why + " on path [" + c10FactsString(s) + "]"
		}
	}
	describe := func(v fval, set bool) string {
		switch {
		case !set:
			return "never stored"
		case v.v == c10Unknown:
			return "overwritten by an unknown or callee write"
		}
		return v.v.String()
	}
	F := newFrames(r.Prog)
	sim := &c10Sim{c: c, F: F, top: F.top(fn)}
	// the simulation starts once per returned pod literal (a path that returns another literal is dropped below)
	var finals []*c10State
	for P, T := range pods {
		st := &c10State{c: c, T: T, P: P, t: map[string]fval{}, p: map[string]fval{}, dyn: map[string]bool{}, copied: map[string]bool{}, pOwn: map[string]bool{},
			storeAt: map[string]int{}, loadAt: map[c10LoadKey]int{}, rets: map[c10RetKey][]fval{}}
		for _, s := range sim.run(fn, sim.top, st, 0) {
			if len(s.lastRet) > 0 && s.lastRet[0].v == ssa.Value(P) {
				finals = append(finals, s)
			} else if a, isA := s.lastRet[0].v.(*ssa.Alloc); !isA || pods[a] == nil {
				for _, it := range items[1:] {
					fail(it, s, "undecided: the value returned on this path is not one of the locally built pods")
				}
			}
		}
	}
	isNilOf := func(s *c10State, f c10FFact, obj ssa.Value) bool {
		x, y, ok := eqOperands(f.f.V)
		if !ok {
			return false
		}
		var other ssa.Value
		if isNilConst(y) {
			other = x
		} else if isNilConst(x) {
			other = y
		}
		if other == nil {
			return false
		}
		sim.use(s)
		return sim.isTopObj(F.resolve(fval{v: other, fr: f.fr}), obj)
	}
	for _, s := range finals {
		if s.undec != "" {
			for _, it := range items[1:] {
				fail(it, s, "undecided: "+s.undec)
			}
			continue
		}
		if !s.copied["ObjectMeta"] || !s.copied["Spec"] {
			for _, it := range items[1:] {
				fail(it, s, "the pod's ObjectMeta/Spec are not copied from the template")
			}
			continue
		}
		nodeNil, schemeSet := false, false
		for _, f := range s.facts {
			if f.f.Pol && isNilOf(s, f, c.node) {
				nodeNil = true
			}
			if !f.f.Pol && isNilOf(s, f, c.scheme) {
				schemeSet = true
			}
		}
		if v, set := s.get("ObjectMeta", "Namespace"); !set || !sim.namespaceOf(s, v, c.rs) {
			fail("namespace", s, "pod namespace is "+describe(v, set))
		}
		if v, set := s.entry(c.ersKey, "ObjectMeta", "Labels"); !set || !sim.nameOf(s, v, c.rs) {
			fail("label replica-set name", s, "label "+c.ersKey+" is "+describe(v, set))
		}
		if v, set := s.entry(c.edsKey, "ObjectMeta", "Labels"); !set || !sim.edsName(s, v) {
			fail("label extendeddaemonset name", s, "label "+c.edsKey+" is "+describe(v, set))
		}
		if v, set := s.entry(c.md5Key, "ObjectMeta", "Annotations"); !set || !sim.fieldOf(s, v, c.rs, "Spec", "TemplateGeneration") {
			fail("annotation template hash", s, "annotation "+c.md5Key+" is "+describe(v, set))
		}
		tolOK := false
		tv, tset := s.get("Spec", "Tolerations")
		if tset {
			if ap, ok := isBuiltinCallV(tv.v, "append"); ok && len(ap.Call.Args) == 2 && (c10IsStdTolerations(ap.Call.Args[1]) || c10IsStdTolerations(ap.Call.Args[0])) {
				tolOK = true
			} else if c10IsStdTolerations(tv.v) {
				tolOK = true
			}
		}
		if !tolOK {
			fail("tolerations", s, "Spec.Tolerations is "+describe(tv, tset))
		}
		if !nodeNil {
			results["node pin"].nonTriv = true
			nn, nset := s.get("Spec", "NodeName")
			af, aset := s.get("Spec", "Affinity")
			pinOK := nset && sim.nameOf(s, nn, c.node)
			if !pinOK && aset {
				if call, ok := af.v.(*ssa.Call); ok && calleeName(&call.Call) == pkgAffinity+".ReplaceNodeNameNodeAffinity" && len(call.Call.Args) == 2 && sim.nameOf(s, fval{v: call.Call.Args[1], fr: af.fr}, c.node) {
					pinOK = true
				}
			}
			if !pinOK {
				fail("node pin", s, "Spec.NodeName is "+describe(nn, nset)+" and Spec.Affinity is "+describe(af, aset))
			}
			// node hash
			results["node hash annotation"].nonTriv = true
			var hc fval
			empty := false
			verdicts := map[bool]bool{}
			isHashCall := func(v ssa.Value, fr *frame) (fval, bool) {
				sim.use(s)
				x := F.resolve(fval{v: v, fr: fr})
				call, isCall := x.v.(*ssa.Call)
				if isCall && hashFn != nil && staticCallee(&call.Call) == hashFn {
					return x, true
				}
				return fval{}, false
			}
			for _, ff := range s.facts {
				f := ff.f
				bo, isB := f.V.(*ssa.BinOp)
				if !isB {
					continue
				}
				for _, pr := range [][2]ssa.Value{{bo.X, bo.Y}, {bo.Y, bo.X}} {
					if x, ok := isHashCall(pr[0], ff.fr); ok {
						if str, isC := constString(pr[1]); isC && str == "" && (bo.Op == token.EQL || bo.Op == token.NEQ) {
							hc, empty = x, f.Pol
							verdicts[f.Pol] = true
						}
					}
					if ln, isLen := isBuiltinCall(pr[0], "len"); isLen {
						x, ok := isHashCall(ln.Call.Args[0], ff.fr)
						z, isZ := constInt(pr[1])
						if ok && isZ && z == 0 {
							switch {
							case strings.HasPrefix(f.Key, "(c:0<"):
								hc, empty = x, !f.Pol
								verdicts[!f.Pol] = true
							case strings.Contains(f.Key, "=="):
								hc, empty = x, f.Pol
								verdicts[f.Pol] = true
							}
						}
					}
				}
			}
			hv, hset := s.entry(c.md5NodeKey, "ObjectMeta", "Annotations")
			switch {
			case verdicts[true] && verdicts[false]:
				// contradictory emptiness facts (hash == "" and len(hash) > 0): infeasible path
			case hc.v == nil:
				fail("node hash annotation", s, "the node-annotation hash is not computed and tested for emptiness")
			case empty:
				if hset {
					fail("node hash annotation", s, "annotation "+c.md5NodeKey+" is written although the hash is empty ("+describe(hv, hset)+")")
				}
			default:
				call := hc.v.(*ssa.Call)
				argsOK := len(call.Call.Args) == 3 && sim.namespaceOf(s, fval{v: call.Call.Args[0], fr: hc.fr}, c.rs) && sim.edsName(s, fval{v: call.Call.Args[1], fr: hc.fr}) && sim.annotationsOf(s, fval{v: call.Call.Args[2], fr: hc.fr}, c.node)
				same := false
				if hset {
					sim.use(s)
					hvr := F.resolve(hv)
					same = hvr.v == hc.v && hvr.fr == hc.fr
				}
				if !same || !argsOK {
					fail("node hash annotation", s, fmt.Sprintf("annotation %s is %s; hash arguments (replicaset.Namespace, eds-name label, node annotations) ok=%v", c.md5NodeKey, describe(hv, hset), argsOK))
				}
			}
		}
		if schemeSet {
			results["owner reference"].nonTriv = true
			if s.ownerRef != 1 {
				fail("owner reference", s, "SetControllerReference(replicaset, pod, scheme) is not called on the returned pod")
			}
		}
	}
	if len(finals) == 0 {
		for _, it := range items[1:] {
			if results[it].ok {
				results[it].ok, results[it].why = false, "no path of the constructor returns a locally built pod"
			}
		}
	}
	needs := map[string]string{
		"namespace":                    "pod.Namespace ← replicaset.Namespace at every return",
		"label replica-set name":       "label " + c.ersKey + " ← replicaset.Name at every return",
		"label extendeddaemonset name": "label " + c.edsKey + " ← replicaset.Labels[same key] at every return",
		"annotation template hash":     "annotation " + c.md5Key + " ← replicaset.Spec.TemplateGeneration at every return",
		"tolerations":                  "Spec.Tolerations ← append(·, StandardDaemonSetTolerations...) at every return",
		"node pin":                     "with node != nil: Spec.NodeName ← node.Name or Spec.Affinity ← ReplaceNodeNameNodeAffinity(·, node.Name)",
		"node hash annotation":         "with node != nil: annotation " + c.md5NodeKey + " ← GenerateHashFromEDSResourceNodeAnnotation(replicaset.Namespace, eds name, node.Annotations) exactly when non-empty",
		"owner reference":              "with scheme != nil: SetControllerReference(replicaset, pod, scheme)",
	}
	for _, it := range items[1:] {
		rs := results[it]
		switch it {
		case "node pin", "node hash annotation", "owner reference":
			if !rs.nonTriv && rs.ok {
				rs.ok, rs.why = false, "no path of the constructor exercises this item (the guarding parameter is never tested non-nil)"
			}
		}
		r.Check("C10.R1", it, pos, sf, needs[it], rs.ok, rs.why)
	}
}

func isBuiltinCallV(v ssa.Value, name string) (*ssa.Call, bool) {
	if v == nil {
		return nil, false
	}
	return isBuiltinCall(v, name)
}

// ---------------------------------------------------------------------------------------------
// R2: affinity

func c10Affinity(r *Run) {
	fn := r.Prog.Func(pkgAffinity, "ReplaceNodeNameNodeAffinity")
	rd := r.Prog.Func(pkgAffinity, "GetNodeNameFromAffinity")
	if fn == nil || rd == nil {
		r.Fatal("anchors %s.ReplaceNodeNameNodeAffinity / GetNodeNameFromAffinity not found", pkgAffinity)
		return
	}
	sf := shortFunc(fn)
	pos := r.Prog.Pos(fn.Pos())
	keyConst, _ := r.Prog.constStr(pkgAffinity, "NodeFieldSelectorKeyNodeName")
	if keyConst == "" {
		keyConst = "metadata.name"
	}
	if len(fn.Params) != 2 {
		r.Undecided("C10.R2", "signature", pos, sf, "unexpected signature")
		return
	}
	aff, nodename := fn.Params[0], fn.Params[1]

	// the requirement value: a load of a literal {Key: key, Operator: In, Values: [nodename]} — a local one,
	// or the literal a repository helper returns when called with nodename
	F := newFrames(r.Prog)
	F.enterCalls = true
	topFr := F.top(fn)
	isReqAlloc := func(a *ssa.Alloc, fr *frame) bool {
		if typeName(a.Type()) != pkgCoreV1+".NodeSelectorRequirement" {
			return false
		}
		one := func(f string) ssa.Value {
			vs := fieldStores(a, f)
			if len(vs) != 1 {
				return nil
			}
			return vs[0]
		}
		k, op, vals := one("Key"), one("Operator"), one("Values")
		if k == nil || op == nil || vals == nil {
			return false
		}
		if s, ok := constString(F.resolve(fval{v: k, fr: fr}).v); !ok || s != keyConst {
			return false
		}
		if s, ok := constString(F.resolve(fval{v: op, fr: fr}).v); !ok || s != "In" {
			return false
		}
		sl, ok := vals.(*ssa.Slice)
		if !ok {
			return false
		}
		arr, ok := sl.X.(*ssa.Alloc)
		if !ok {
			return false
		}
		el, ok := orderedArrayElems(arr)
		if !ok || len(el) != 1 {
			return false
		}
		if e := F.resolve(fval{v: el[0], fr: fr}); e.v != ssa.Value(nodename) || (e.fr != topFr && e.fr != nil) {
			return false
		}
		// no other writes: the literal is only stored to once per field and loaded
		_, ro := readOnlyLiteral(a)
		return ro
	}
	isReq := func(v ssa.Value) bool {
		x := F.resolve(fval{v: v, fr: topFr})
		u, ok := x.v.(*ssa.UnOp)
		if !ok || u.Op != token.MUL {
			return false
		}
		a, ok := u.X.(*ssa.Alloc)
		return ok && isReqAlloc(a, x.fr)
	}
	nReq := 0
	for _, b := range fn.Blocks {
		for _, in := range b.Instrs {
			if v, ok := in.(ssa.Value); ok && typeName(v.Type()) == pkgCoreV1+".NodeSelectorRequirement" && isReq(v) {
				nReq++
			}
		}
	}
	r.Check("C10.R2", "node-name requirement", pos, sf, "a requirement {Key: "+keyConst+", Operator: In, Values: [nodename]} is built (here or by a helper called with nodename)", nReq > 0, fmt.Sprintf("%d such values", nReq))

	// the affinity being completed: the parameter, a fresh Affinity that replaces a nil parameter, or their merge
	var isAff func(v ssa.Value) bool
	isAff = func(v ssa.Value) bool {
		switch x := v.(type) {
		case *ssa.Parameter:
			return x == aff
		case *ssa.Alloc:
			return typeName(x.Type()) == pkgCoreV1+".Affinity"
		case *ssa.Phi:
			if !isPtrToNamed(x.Type(), pkgCoreV1, "Affinity") {
				return false
			}
			for _, o := range origins(x) {
				if _, isPhi := o.(*ssa.Phi); isPhi || !isAff(o) {
					return false
				}
			}
			return true
		}
		return false
	}

	// slice literal containing only the requirement
	isReqList := func(v ssa.Value) bool {
		arr := sliceLit(v)
		if arr == nil {
			return false
		}
		el, ok := litElems(arr)
		return ok && len(el) == 1 && el[0].val != nil && isReq(el[0].val)
	}
	// fresh selector: NodeSelector{NodeSelectorTerms: [ {MatchFields: [req]} ]}
	isFreshSel := func(v ssa.Value) bool {
		a, ok := v.(*ssa.Alloc)
		if !ok || typeName(a.Type()) != pkgCoreV1+".NodeSelector" {
			return false
		}
		ts := fieldStores(a, "NodeSelectorTerms")
		if len(ts) != 1 {
			return false
		}
		arr := sliceLit(ts[0])
		if arr == nil {
			return false
		}
		el, ok := litElems(arr)
		if !ok || len(el) != 1 {
			return false
		}
		term := el[0].structBase()
		if term == nil {
			return false
		}
		mf := fieldStores(term, "MatchFields")
		me := fieldStores(term, "MatchExpressions")
		return len(mf) == 1 && len(me) == 0 && isReqList(mf[0])
	}
	isFreshNA := func(v ssa.Value) bool {
		a, ok := v.(*ssa.Alloc)
		if !ok || typeName(a.Type()) != pkgCoreV1+".NodeAffinity" {
			return false
		}
		vs := fieldStores(a, "RequiredDuringSchedulingIgnoredDuringExecution")
		return len(vs) == 1 && isFreshSel(vs[0])
	}

	// the rebuilt list: a loop-header phi of NodeSelectorTerm slices
	var rebuilt *ssa.Phi
	k := newKeyer(fn)
	// pin stores
	type pin struct {
		st   *ssa.Store
		kind string
	}
	var pins []pin
	for _, b := range fn.Blocks {
		for _, in := range b.Instrs {
			st, ok := in.(*ssa.Store)
			if !ok {
				continue
			}
			root, p := accessPath(st.Addr)
			if !isAff(root) {
				continue
			}
			switch {
			case samePath(p, []string{"NodeAffinity"}) && isFreshNA(st.Val):
				pins = append(pins, pin{st, "fresh NodeAffinity"})
			case samePath(p, []string{"NodeAffinity", "RequiredDuringSchedulingIgnoredDuringExecution"}) && isFreshSel(st.Val):
				pins = append(pins, pin{st, "fresh selector"})
			case samePath(p, []string{"NodeAffinity", "RequiredDuringSchedulingIgnoredDuringExecution", "NodeSelectorTerms"}):
				if ph, isPhi := st.Val.(*ssa.Phi); isPhi {
					rebuilt = ph
					pins = append(pins, pin{st, "rebuilt term list"})
				}
			}
		}
	}
	paths, _, okP := funcPaths(fn, 5000)
	r.paths += len(paths)
	if !okP {
		r.Undecided("C10.R2", "returns", pos, sf, "path cap exceeded")
		return
	}
	for i, p := range paths {
		ret := returnOf(p.Blocks[len(p.Blocks)-1])
		res := p.Resolve(ret.Results[0])
		construct := fmt.Sprintf("return %d pins the node", i+1)
		need := "the returned affinity's required node selector is the fresh single-term selector or the rebuilt term list"
		if a, ok := res.(*ssa.Alloc); ok {
			if nas := fieldStores(a, "NodeAffinity"); len(nas) == 1 && isFreshNA(nas[0]) {
				r.Check("C10.R2", construct, r.Prog.Pos(instrPos(ret)), sf, need, true, "fresh Affinity literal")
				continue
			}
		}
		if !isAff(res) {
			r.Undecided("C10.R2", construct, r.Prog.Pos(instrPos(ret)), sf, "returns neither the affinity parameter nor a fresh Affinity")
			continue
		}
		// walk the path: a pin store must be the last store through the parameter
		found := ""
		for _, b := range p.Blocks {
			for _, in := range b.Instrs {
				st, ok := in.(*ssa.Store)
				if !ok {
					continue
				}
				root, _ := accessPath(st.Addr)
				if !isAff(root) {
					continue
				}
				// a store through another affinity object than the one returned on this path does not count
				if rr := p.Resolve(root); rr != res && root != ret.Results[0] {
					continue
				}
				found = ""
				for _, pn := range pins {
					if pn.st == st {
						found = pn.kind
					}
				}
			}
		}
		r.Check("C10.R2", construct, r.Prog.Pos(instrPos(ret)), sf, need, found != "", "path ["+shortFacts(p)+"] last store through the parameter installs: "+found)
	}

	// the rebuilt list
	const cLoop = "rebuilt term list covers every term"
	const cTerm = "every rebuilt term carries the requirement"
	if rebuilt == nil {
		o := r.Check("C10.R2", cLoop, pos, sf, "no rebuilt list in this implementation", true, "only fresh selectors are installed")
		o.Trivial = true
		o2 := r.Check("C10.R2", cTerm, pos, sf, "no rebuilt list in this implementation", true, "")
		o2.Trivial = true
	} else {
		c10RebuiltList(r, fn, k, rebuilt, isAff, isReq, isReqList, cLoop, cTerm, keyConst)
	}

	// reader
	okKey, whyKey, n := c10ReaderKey(r, rd, 0, keyConst, 0)
	if okKey && n == 0 {
		okKey, whyKey = false, "the reader never returns a node name"
	}
	r.Check("C10.R2", "reader key", r.Prog.Pos(rd.Pos()), shortFunc(rd), "GetNodeNameFromAffinity returns Values[0] only of a requirement whose Key is the constant the writer uses ("+keyConst+")", okKey, whyKey)
}

// c10ReaderKey: every value other than "" that fn returns as result idx is Values[0] of a requirement
// under the fact requirement.Key == keyConst — read in fn itself, or returned (with the same guarantee)
// by a repository helper. n counts the returns that read a requirement.
func c10ReaderKey(r *Run, fn *ssa.Function, idx int, keyConst string, depth int) (okKey bool, whyKey string, n int) {
	if depth > 3 || len(fn.Blocks) == 0 {
		return false, "the value comes from " + shortFunc(fn) + ", which is not analysed", 0
	}
	rpaths, _, okR := funcPaths(fn, 5000)
	r.paths += len(rpaths)
	if !okR {
		return false, "undecided: path cap exceeded in " + shortFunc(fn), 0
	}
	okKey = true
	for _, p := range rpaths {
		ret := returnOf(p.Blocks[len(p.Blocks)-1])
		if ret == nil || idx >= len(ret.Results) {
			continue
		}
		res := p.Resolve(ret.Results[idx])
		if s, isC := constString(res); isC && s == "" {
			continue
		}
		// the result of a repository helper: the helper gives the guarantee
		var call *ssa.Call
		ri := 0
		if ex, isE := res.(*ssa.Extract); isE {
			call, _ = ex.Tuple.(*ssa.Call)
			ri = ex.Index
		} else if c, isC := res.(*ssa.Call); isC {
			call = c
		}
		if call != nil {
			if cal := staticCallee(&call.Call); cal != nil && r.Prog.IsRuleSite(cal) {
				ok2, why2, n2 := c10ReaderKey(r, cal, ri, keyConst, depth+1)
				n += n2
				if !ok2 {
					okKey, whyKey = false, why2
				}
				continue
			}
		}
		n++
		// value = X.Values[0] under X.Key == key
		var elem ssa.Value
		if u, ok := res.(*ssa.UnOp); ok && u.Op == token.MUL {
			if ia, ok := u.X.(*ssa.IndexAddr); ok {
				if z, isC := constInt(ia.Index); isC && z == 0 {
					root, pp := accessPath(ia.X)
					if len(pp) > 0 && pp[len(pp)-1] == "Values" {
						elem = root
					}
				}
			}
		}
		if elem == nil {
			okKey, whyKey = false, shortFunc(fn)+" returns "+res.String()+", not Values[0] of a requirement"
			continue
		}
		if !p.Has(true, func(v ssa.Value, _ string) bool {
			return isEqCompare(v, func(x ssa.Value) bool {
				root, pp := accessPath(unwrap(x))
				return root == elem && samePath(pp, []string{"Key"})
			}, isConstStringVal(keyConst))
		}) {
			okKey, whyKey = false, "a node name is returned without the fact requirement.Key == "+keyConst+": ["+shortFacts(p)+"]"
		}
	}
	return okKey, whyKey, n
}

// readOnlyLiteral: a local literal whose fields are each stored once and which is otherwise only loaded.
func readOnlyLiteral(a *ssa.Alloc) (int, bool) {
	n := 0
	for _, rr := range refs(a) {
		switch x := rr.(type) {
		case *ssa.FieldAddr:
			stores := 0
			for _, r2 := range refs(x) {
				switch y := r2.(type) {
				case *ssa.Store:
					if y.Addr != ssa.Value(x) {
						return 0, false
					}
					stores++
				case *ssa.UnOp, *ssa.DebugRef:
				default:
					return 0, false
				}
			}
			if stores > 1 {
				return 0, false
			}
			n += stores
		case *ssa.UnOp:
			if x.Op != token.MUL {
				return 0, false
			}
		case *ssa.DebugRef:
		default:
			return 0, false
		}
	}
	return n, true
}

func c10RebuiltList(r *Run, fn *ssa.Function, k *keyer, L *ssa.Phi, isAff func(ssa.Value) bool, isReq, isReqList func(ssa.Value) bool, cLoop, cTerm, keyConst string) {
	sf := shortFunc(fn)
	H := L.Block()
	pos := r.Prog.Pos(L.Pos())
	loop := loopBlocks(H)
	nLoop := "the rebuilt list starts empty and receives exactly one rebuilt term for every original term (full index loop over the original terms, an append on every back edge, no early exit)"
	nTerm := "at every append the appended term's MatchFields has just been set to [requirement], had the requirement appended, or had an element replaced by it"
	var sites []*ssa.Call
	seenSite := map[*ssa.Call]bool{}
	okInit := true
	for i, e := range L.Edges {
		if H.Dominates(H.Preds[i]) { // back edge
			ap, ok := isBuiltinCall(e, "append")
			if !ok || ap.Call.Args[0] != ssa.Value(L) || len(ap.Call.Args) != 2 {
				r.Check("C10.R2", cLoop, pos, sf, nLoop, false, "a back edge of the loop does not append to the list (a term is skipped)")
				r.Undecided("C10.R2", cTerm, pos, sf, "loop shape not recognised")
				return
			}
			if !seenSite[ap] {
				seenSite[ap] = true
				sites = append(sites, ap)
			}
			continue
		}
		empty := false
		switch x := e.(type) {
		case *ssa.Slice:
			if a, ok := x.X.(*ssa.Alloc); ok {
				if at, isArr := a.Type().Underlying().(*types.Pointer).Elem().Underlying().(*types.Array); isArr && at.Len() == 0 {
					empty = true
				}
			}
		case *ssa.MakeSlice:
			if n, ok := constInt(x.Len); ok && n == 0 {
				empty = true
			}
		case *ssa.Const:
			empty = x.IsNil()
		}
		if !empty {
			okInit = false
		}
	}
	if len(sites) == 0 || !okInit {
		r.Check("C10.R2", cLoop, pos, sf, nLoop, false, fmt.Sprintf("%d append sites on the back edges; starts empty=%v", len(sites), okInit))
		r.Undecided("C10.R2", cTerm, pos, sf, "loop shape not recognised")
		return
	}
	sort.Slice(sites, func(i, j int) bool { return sites[i].Block().Index < sites[j].Block().Index })

	okLoop, whyLoop := true, ""
	okTerm, whyTerm := true, ""
	okKeep, whyKeep := true, ""
	for b := range loop {
		if b == H {
			continue
		}
		for _, s := range b.Succs {
			if !loop[s] {
				okLoop, whyLoop = false, "the loop can be left early"
			}
		}
	}
	for _, ap := range sites {
		A := ap.Block()
		// appended element: *newTerm loaded in the append block
		var newTerm ssa.Value
		var load *ssa.UnOp
		if arr := sliceLit(ap.Call.Args[1]); arr != nil {
			if el, ok := litElems(arr); ok && len(el) == 1 && el[0].val != nil {
				if u, ok := el[0].val.(*ssa.UnOp); ok && u.Op == token.MUL && u.Block() == A {
					newTerm, load = u.X, u
				}
			}
		}
		if newTerm == nil {
			okLoop, whyLoop = false, "an appended element is not a single term value loaded in the append block"
			okTerm, whyTerm = false, "undecided: no appended term"
			continue
		}
		src := newTerm
		if call, ok := src.(*ssa.Call); ok {
			if cal := staticCallee(&call.Call); cal != nil && cal.Name() == "DeepCopy" && len(call.Call.Args) == 1 {
				src = call.Call.Args[0]
			}
		}
		S, idx, okE := c13Elem(k, src)
		if !okE {
			okLoop, whyLoop = false, "a rebuilt term is not derived from an element of the original term list"
		} else {
			root, pp := accessPath(S)
			hdr, why := indexLoopOver(k, idx, S)
			switch {
			case !isAff(root) || !samePath(pp, []string{"NodeAffinity", "RequiredDuringSchedulingIgnoredDuringExecution", "NodeSelectorTerms"}):
				okLoop, whyLoop = false, "the loop does not range over affinity.NodeAffinity.Required….NodeSelectorTerms"
			case hdr != H:
				okLoop, whyLoop = false, "index loop: "+why
			}
		}

		pin := &c10Pin{prog: r.Prog, fn: fn, term: newTerm, isReq: isReq, key: keyConst}
		if ok, why := pin.pinnedAt(A, load, 0); !ok {
			okTerm, whyTerm = false, fmt.Sprintf("the append at %s: %s", r.Prog.Pos(ap.Pos()), why)
		}
		if ok, why, _ := pin.keyMatchesReplaced(); !ok {
			okKeep, whyKeep = false, why
		}
	}
	r.Check("C10.R2", cLoop, pos, sf, nLoop, okLoop, whyLoop)
	r.Check("C10.R2", cTerm, pos, sf, nTerm, okTerm, whyTerm)
	r.Check("C10.R2", "no other node-name requirement survives", pos, sf,
		"wherever the writer (or a helper it hands the term to) finds an existing requirement with the node-name key in the rebuilt term's MatchFields, it replaces that element by the requirement, whatever its operator (the reader returns the first requirement with that key)", okKeep, whyKeep)
}

// ---------------------------------------------------------------------------------------------
// R3: creation sites

// c10Trace follows a value backwards across closures (free variables bound to cells), local cells
// and parameters (to every static call site among reach) and returns the leaves.
func c10Trace(v ssa.Value, reach map[*ssa.Function]bool, depth int, seen map[ssa.Value]bool) []ssa.Value {
	if depth > 8 || seen[v] {
		return nil
	}
	seen[v] = true
	var out []ssa.Value
	for _, o := range origins(v) {
		switch x := o.(type) {
		case *ssa.UnOp:
			if fv, ok := x.X.(*ssa.FreeVar); ok && x.Op == token.MUL {
				fn := fv.Parent()
				idx := -1
				for i, f := range fn.FreeVars {
					if f == fv {
						idx = i
					}
				}
				found := false
				if par := fn.Parent(); par != nil && idx >= 0 {
					for _, b := range par.Blocks {
						for _, in := range b.Instrs {
							if mc, ok := in.(*ssa.MakeClosure); ok && mc.Fn == ssa.Value(fn) {
								if a, ok := mc.Bindings[idx].(*ssa.Alloc); ok {
									for _, st := range cellStores(a) {
										found = true
										out = append(out, c10Trace(st.Val, reach, depth+1, seen)...)
									}
								}
							}
						}
					}
				}
				if !found {
					out = append(out, o)
				}
				continue
			}
			out = append(out, o)
		case *ssa.FreeVar:
			out = append(out, o)
		case *ssa.Parameter:
			sites := callSitesOf(x.Parent(), reach)
			if len(sites) == 0 {
				out = append(out, o)
				continue
			}
			for _, s := range sites {
				out = append(out, c10Trace(s.Common().Args[paramIndex(x)], reach, depth+1, seen)...)
			}
		default:
			out = append(out, o)
		}
	}
	return out
}

func (c *c10Ctx) createSites() {
	r := c.r
	entries := reconcileEntries(r)
	var roots []*ssa.Function
	var names []string
	for n := range entries {
		names = append(names, n)
	}
	sort.Strings(names)
	for _, n := range names {
		roots = append(roots, entries[n])
	}
	reach := r.Prog.reachableFuncs(roots...)
	n := 0
	for _, e := range effectsOf(reach) {
		if e.Verb != "Create" || e.Kind != pkgCoreV1+".Pod" {
			continue
		}
		n++
		pos := r.Prog.Pos(e.Call.Pos())
		sf := shortFunc(e.Fn)
		// keys: closures are numbered, use the enclosing named function
		top := e.Fn
		for top.Parent() != nil {
			top = top.Parent()
		}
		kf := shortFunc(top)
		var call *ssa.Call
		okObj := true
		for _, o := range origins(unwrap(e.Obj)) {
			ex, isE := o.(*ssa.Extract)
			if !isE || ex.Index != 0 {
				okObj = false
				continue
			}
			cl, isC := ex.Tuple.(*ssa.Call)
			if !isC || staticCallee(&cl.Call) != c.ctor || (call != nil && call != cl) {
				okObj = false
				continue
			}
			call = cl
		}
		r.Check("C10.R3", "created pod comes from the constructor", pos, kf, "the object handed to Create(*Pod) is result #0 of one call of "+shortFunc(c.ctor), okObj && call != nil, "in "+sf)
		if !okObj || call == nil {
			r.Undecided("C10.R3", "constructor arguments of one candidate", pos, kf, "the created pod is not the constructor's result")
			r.Undecided("C10.R3", "constructor scheme", pos, kf, "the created pod is not the constructor's result")
			continue
		}
		args := call.Call.Args
		nodeArg, setArg, schemeArg := args[paramIndex(c.node)], args[paramIndex(c.setng)], args[paramIndex(c.scheme)]
		nr, np := accessPath(nodeArg)
		sr, sp := accessPath(setArg)
		candType := nr.Type()
		if _, isIA := nr.(*ssa.IndexAddr); isIA { // element of the candidate slice: **NodeItem
			if pt, ok := candType.Underlying().(*types.Pointer); ok {
				candType = pt.Elem()
			}
		}
		okCand := nr == sr && samePath(np, []string{"Node"}) && samePath(sp, []string{"ExtendedDaemonsetSetting"}) && isPtrToNamed(candType, pkgStrategy, "NodeItem")
		r.Check("C10.R3", "constructor arguments of one candidate", pos, kf, "node and setting arguments are candidate.Node and candidate.ExtendedDaemonsetSetting of the same creation candidate", okCand,
			fmt.Sprintf("node=%s setting=%s", pathString(nodeArg), pathString(setArg)))
		leaves := c10Trace(schemeArg, reach, 0, map[ssa.Value]bool{})
		okScheme := len(leaves) > 0
		var ds []string
		for _, l := range leaves {
			root, pp := accessPath(l)
			_, isPar := root.(*ssa.Parameter)
			good := isPar && len(pp) == 1 && pp[0] == "scheme" && strings.HasSuffix(typeName(root.Type()), ".Reconciler")
			if !good {
				okScheme = false
			}
			ds = append(ds, l.String())
		}
		r.Check("C10.R3", "constructor scheme", pos, kf, "the scheme argument traces back to a reconciler's scheme field on every call chain (so the owner reference is set)", okScheme, strings.Join(ds, "; "))
	}
	if n == 0 {
		r.Check("C10.R3", "create sites", "-", "-", "a Create(*Pod) reachable from a reconciler", false, "none found")
	}
}

// ---------------------------------------------------------------------------------------------
// R4: hash-key chain

// c10HashChainPod checks the template-hash part of the chain (also reported under C13.R2).
func c10HashChainPod(r *Run, rule string, withStamp bool) {
	c := c10Anchor(r)
	if c == nil {
		return
	}
	ctor := c.ctor
	// constructor write
	n := 0
	okW, whyW := true, ""
	// in the constructor or in a helper it calls (R1 decides that the write reaches the returned pod with
	// the constructor's own replica set on every path)
	for _, f := range sortedFuncs(r.Prog.reachableFuncs(ctor)) {
		for _, b := range f.Blocks {
			for _, in := range b.Instrs {
				mu, ok := in.(*ssa.MapUpdate)
				if !ok {
					continue
				}
				if s, isC := constString(mu.Key); !isC || s != c.md5Key {
					continue
				}
				n++
				if !loadOfPath(func(x ssa.Value) bool {
					_, isPar := x.(*ssa.Parameter)
					return isPar && isPtrToNamed(x.Type(), pkgAPI, "ExtendedDaemonSetReplicaSet")
				}, "Spec", "TemplateGeneration")(mu.Value) {
					okW, whyW = false, "the template-hash annotation is written from "+mu.Value.String()
				}
			}
		}
	}
	if n == 0 {
		okW, whyW = false, "the constructor never writes annotation "+c.md5Key
	}
	if withStamp { // under C10 the same fact is the R1 item "annotation template hash"
		r.Check(rule, "pod stamp source", r.Prog.Pos(ctor.Pos()), shortFunc(ctor), "pods are stamped with replicaset.Spec.TemplateGeneration under the template-hash key", okW, whyW)
	}

	top := c10Comparator(r)
	if top == nil {
		return
	}
	c10ChainReader(r, rule, "template hash", top, c.md5Key, func(fn *ssa.Function, v ssa.Value) bool {
		root, p := accessPath(unwrap(v))
		_, isPar := root.(*ssa.Parameter)
		return isPar && len(p) >= 2 && p[len(p)-2] == "Spec" && p[len(p)-1] == "TemplateGeneration"
	}, "Replicaset.Spec.TemplateGeneration")
}

// c10PodAnnotations: v is the annotation map of a pod. The handle is what stands for the pod in v's
// function: the root of pod.Annotations / pod.GetAnnotations(), or — when the map arrives as a parameter
// and at EVERY call site within reach the argument is a pod's annotation map — that parameter.
func c10PodAnnotations(v ssa.Value, reach map[*ssa.Function]bool, depth int) (ssa.Value, bool) {
	if v == nil || depth > 4 {
		return nil, false
	}
	v = unwrap(v)
	var root ssa.Value
	if annotationsOf(func(x ssa.Value) bool { root = x; return isPtrToNamed(x.Type(), pkgCoreV1, "Pod") })(v) {
		return root, true
	}
	par, isPar := v.(*ssa.Parameter)
	if !isPar {
		return nil, false
	}
	if _, isMap := par.Type().Underlying().(*types.Map); !isMap {
		return nil, false
	}
	sites := callSitesOf(par.Parent(), reach)
	if len(sites) == 0 {
		return nil, false
	}
	for _, s := range sites {
		if _, ok := c10PodAnnotations(s.Common().Args[paramIndex(par)], reach, depth+1); !ok {
			return nil, false
		}
	}
	return par, true
}

// c10ChainReader: inside the functions reachable from top, the annotation `key` of the pod is read
// by a function G that returns true only when annotation == X (or, with allowEmpty, when both are
// absent/empty); X at G's call in top's reach satisfies isWant; top returns true only if G did.
func c10ChainReader(r *Run, rule, label string, top *ssa.Function, key string, isWant func(fn *ssa.Function, v ssa.Value) bool, wantDesc string) {
	reach := r.Prog.reachableFuncs(top)
	var readers []*ssa.Function
	for _, fn := range sortedFuncs(reach) {
		for _, b := range fn.Blocks {
			for _, in := range b.Instrs {
				if l, ok := in.(*ssa.Lookup); ok {
					if s, isC := constString(l.Index); isC && s == key {
						if _, isPA := c10PodAnnotations(l.X, reach, 0); isPA {
							if len(readers) == 0 || readers[len(readers)-1] != fn {
								readers = append(readers, fn)
							}
						}
					}
				}
			}
		}
	}
	tpos := r.Prog.Pos(top.Pos())
	if len(readers) != 1 {
		r.Check(rule, label+" reader", tpos, shortFunc(top), "exactly one function of the comparison reads the pod annotation "+key, false, fmt.Sprintf("%d functions read it", len(readers)))
		r.Undecided(rule, label+" expected value", tpos, shortFunc(top), "no single reader of annotation "+key)
		r.Undecided(rule, label+" verdict", tpos, shortFunc(top), "no single reader of annotation "+key)
		return
	}
	G := readers[0]
	// G's parameters: the pod and the expected value
	// the handle of the pod inside G: its pod parameter, or the parameter that carries the pod's annotation map
	var podP *ssa.Parameter
	okH := true
	for _, b := range G.Blocks {
		for _, in := range b.Instrs {
			if l, ok := in.(*ssa.Lookup); ok {
				if s, isC := constString(l.Index); isC && s == key {
					h, isPA := c10PodAnnotations(l.X, reach, 0)
					hp, isPar := h.(*ssa.Parameter)
					if !isPA {
						continue
					}
					if !isPar || (podP != nil && podP != hp) {
						okH = false
						continue
					}
					podP = hp
				}
			}
		}
	}
	if podP == nil || !okH {
		r.Undecided(rule, label+" reader", r.Prog.Pos(G.Pos()), shortFunc(G), "the reader does not read the annotation of one parameter (the pod or its annotation map)")
		return
	}
	gsf := shortFunc(G)
	ofPod := func(x ssa.Value) bool {
		h, isPA := c10PodAnnotations(x, reach, 0)
		return isPA && h == ssa.Value(podP)
	}
	isAnn := func(v ssa.Value) bool {
		if e, isE := v.(*ssa.Extract); isE && e.Index == 0 {
			v = e.Tuple
		}
		l, isL := v.(*ssa.Lookup)
		if !isL {
			return false
		}
		s, isC := constString(l.Index)
		return isC && s == key && ofPod(l.X)
	}
	isAnnOK := func(v ssa.Value) bool {
		e, isE := v.(*ssa.Extract)
		if !isE || e.Index != 1 {
			return false
		}
		l, isL := e.Tuple.(*ssa.Lookup)
		if !isL {
			return false
		}
		s, isC := constString(l.Index)
		return isC && s == key && ofPod(l.X)
	}
	// expected value: whatever the annotation is compared with on true paths; it must be the same value everywhere
	paths, _, ok := funcPaths(G, 5000)
	r.paths += len(paths)
	if !ok {
		r.Undecided(rule, label+" reader", r.Prog.Pos(G.Pos()), gsf, "path cap exceeded")
		return
	}
	var expected ssa.Value
	okTbl, whyTbl, nTrue := true, "", 0
	for _, p := range paths {
		ret := returnOf(p.Blocks[len(p.Blocks)-1])
		res := p.Resolve(ret.Results[0])
		b, isC := constBool(res)
		if isC && !b {
			continue
		}
		nTrue++
		var other ssa.Value
		var conds []Fact
		for _, f := range p.Facts {
			conds = append(conds, f)
		}
		if !isC {
			if bo, isB := res.(*ssa.BinOp); isB && bo.Op == token.EQL {
				conds = append(conds, Fact{V: res, Pol: true})
			} else {
				okTbl, whyTbl = false, "result is neither a constant nor the comparison: "+res.String()
				continue
			}
		}
		absent := false
		for _, f := range conds {
			if !f.Pol {
				if isAnnOK(f.V) {
					absent = true
				}
				continue
			}
			a, bb, isEq := eqOperands(f.V)
			if !isEq {
				continue
			}
			if isAnn(a) {
				other = bb
			} else if isAnn(bb) {
				other = a
			}
		}
		if other == nil && absent {
			// annotation absent: allowed only together with "expected value is empty"
			for _, f := range conds {
				if a, bb, isEq := eqOperands(f.V); isEq && f.Pol {
					if s, isS := constString(bb); isS && s == "" {
						other = a
					} else if s, isS := constString(a); isS && s == "" {
						other = bb
					}
				}
			}
			if other == nil {
				okTbl, whyTbl = false, "true although the annotation is absent: ["+shortFacts(p)+"]"
				continue
			}
		}
		if other == nil {
			okTbl, whyTbl = false, "true without comparing the annotation: ["+shortFacts(p)+"]"
			continue
		}
		if expected != nil && expected != other {
			okTbl, whyTbl = false, "the annotation is compared with different values on different paths"
		}
		expected = other
	}
	if nTrue == 0 {
		okTbl, whyTbl = false, "the reader never returns true"
	}
	r.Check(rule, label+" reader", r.Prog.Pos(G.Pos()), gsf, "true only when the pod annotation "+key+" equals the expected value (or both are absent/empty)", okTbl, whyTbl)
	if expected == nil {
		return
	}
	// the expected value is, or derives from, what isWant accepts: inside G, or as G's parameter at its call sites
	okSrc, whySrc := false, ""
	if par, isPar := expected.(*ssa.Parameter); isPar {
		sites := callSitesOf(G, reach)
		okSrc = len(sites) > 0
		for _, s := range sites {
			a := s.Common().Args[paramIndex(par)]
			if !isWant(s.Parent(), a) {
				okSrc, whySrc = false, "at "+r.Prog.Pos(s.Pos())+" the expected value is "+pathString(a)
			}
			// pod argument is top-level pod parameter of the caller
			pa := unwrap(s.Common().Args[paramIndex(podP)])
			if !isPtrToNamed(pa.Type(), pkgCoreV1, "Pod") {
				pa, _ = c10PodAnnotations(pa, reach, 0)
			}
			if _, isP := pa.(*ssa.Parameter); !isP {
				okSrc, whySrc = false, "the compared pod is not the caller's pod parameter"
			}
		}
	} else {
		okSrc = isWant(G, expected)
		whySrc = "expected value is " + expected.String()
	}
	r.Check(rule, label+" expected value", r.Prog.Pos(G.Pos()), gsf, "the annotation is compared with "+wantDesc, okSrc, whySrc)

	// top returns true only if G returned true
	if G == top {
		return
	}
	tpaths, _, okT := funcPaths(top, 5000)
	r.paths += len(tpaths)
	if !okT {
		r.Undecided(rule, label+" verdict", tpos, shortFunc(top), "path cap exceeded")
		return
	}
	okV, whyV := true, ""
	for _, p := range tpaths {
		ret := returnOf(p.Blocks[len(p.Blocks)-1])
		res := p.Resolve(ret.Results[0])
		if b, isC := constBool(res); isC && !b {
			continue
		}
		isG := func(v ssa.Value, _ string) bool {
			call, ok := v.(*ssa.Call)
			return ok && staticCallee(&call.Call) == G
		}
		if call, ok := res.(*ssa.Call); ok && staticCallee(&call.Call) == G {
			continue
		}
		if !p.Has(true, isG) {
			okV, whyV = false, "a path returns true without "+gsf+" having returned true: ["+shortFacts(p)+"]"
		}
	}
	r.Check(rule, label+" verdict", tpos, shortFunc(top), "the pod comparison returns true only when the "+label+" check returned true", okV, whyV)
}

func (c *c10Ctx) nodeHashChain() {
	r := c.r
	top := c10Comparator(r)
	if top == nil {
		return
	}
	hashFn := r.Prog.Func(pkgComparison, "GenerateHashFromEDSResourceNodeAnnotation")
	if hashFn == nil {
		r.Fatal("anchor %s.GenerateHashFromEDSResourceNodeAnnotation not found", pkgComparison)
		return
	}
	c10ChainReader(r, "C10.R4", "node hash", top, c.md5NodeKey, func(fn *ssa.Function, v ssa.Value) bool {
		call, ok := v.(*ssa.Call)
		if !ok || staticCallee(&call.Call) != hashFn || len(call.Call.Args) != 3 {
			return false
		}
		// (replicaset.Namespace, ·, node annotations)
		nsOK := namespaceOf(func(x ssa.Value) bool { return isPtrToNamed(x.Type(), pkgAPI, "ExtendedDaemonSetReplicaSet") })(call.Call.Args[0])
		if ow := metaFieldOwner(call.Call.Args[0], "Namespace"); ow != nil && isPtrToNamed(ow.Type(), pkgAPI, "ExtendedDaemonSetReplicaSet") {
			nsOK = true // the replica set reached through a field (params.Replicaset.Namespace)
		}
		annOK := annotationsOf(func(x ssa.Value) bool {
			root, p := accessPath(x)
			return isPtrToNamed(x.Type(), pkgCoreV1, "Node") || (isPtrToNamed(root.Type(), pkgStrategy, "NodeItem") && len(p) > 0 && p[len(p)-1] == "Node")
		})(call.Call.Args[2])
		if !annOK {
			// GetAnnotations(&node.Node.ObjectMeta)
			if gc, isC := unwrap(call.Call.Args[2]).(*ssa.Call); isC && strings.HasSuffix(calleeName(&gc.Call), ".GetAnnotations") && len(gc.Call.Args) == 1 {
				root, p := accessPath(gc.Call.Args[0])
				annOK = isPtrToNamed(root.Type(), pkgStrategy, "NodeItem") && len(p) >= 1 && p[0] == "Node"
			}
		}
		return nsOK && annOK
	}, "GenerateHashFromEDSResourceNodeAnnotation(replicaset.Namespace, ·, candidate node's annotations)")
}

// ---------------------------------------------------------------------------------------------
// R5: source agreement

type c10Writer struct {
	call    ssa.CallInstruction
	sources map[string]bool // "setting", "node"
	desc    string
}

func (c *c10Ctx) sources() {
	r := c.r
	ctor := c.ctor
	pos := r.Prog.Pos(ctor.Pos())
	sf := shortFunc(ctor)
	pods, why := c.findObjects()
	if pods == nil {
		r.Undecided("C10.R5", "constructor resource writers", pos, sf, why)
		return
	}
	isT := func(v ssa.Value) bool {
		for _, T := range pods {
			if v == T {
				return true
			}
		}
		return false
	}
	resPath := []string{"Spec", "Containers", "[]", "Resources"}
	var writers []c10Writer
	for _, ci := range callsIn(ctor) {
		cc := ci.Common()
		cal := staticCallee(cc)
		if cal == nil || !r.Prog.IsRuleSite(cal) {
			continue
		}
		for ai, a := range cc.Args {
			if !isT(a) {
				continue
			}
			w := c10Writer{call: ci, sources: map[string]bool{}, desc: shortFunc(cal)}
			found := false
			c.collectSources(cal, ai, cc, resPath, &w, &found, 0)
			if found {
				writers = append(writers, w)
			}
		}
	}
	// inline stores in the constructor itself are not handled
	for _, b := range ctor.Blocks {
		for _, in := range b.Instrs {
			if st, ok := in.(*ssa.Store); ok {
				root, p := deepPath(st.Addr)
				if isT(root) && hasPrefixPath(p, resPath[:3]) && len(p) >= 4 && p[3] == "Resources" {
					r.Undecided("C10.R5", "constructor resource writers", r.Prog.Pos(instrPos(st)), sf, "container resources are stored inline in the constructor")
					return
				}
			}
		}
	}
	// order by dominance
	sort.SliceStable(writers, func(i, j int) bool {
		bi, bj := writers[i].call.Block(), writers[j].call.Block()
		if bi == bj {
			for _, in := range bi.Instrs {
				if in == writers[i].call.(ssa.Instruction) {
					return true
				}
				if in == writers[j].call.(ssa.Instruction) {
					return false
				}
			}
		}
		return bi.Dominates(bj)
	})
	okOrder := len(writers) > 0
	var ds []string
	setIdx := -1
	for i, w := range writers {
		if i > 0 && !(writers[i-1].call.Block().Dominates(w.call.Block())) {
			okOrder = false
		}
		var ss []string
		for s := range w.sources {
			ss = append(ss, s)
		}
		sort.Strings(ss)
		if len(ss) == 0 {
			okOrder = false
		}
		ds = append(ds, w.desc+"{"+strings.Join(ss, ",")+"}")
		if w.sources["setting"] {
			setIdx = i
		}
	}
	r.Check("C10.R5", "constructor resource writers", pos, sf, "the writers of Containers[i].Resources are totally ordered by dominance and each has an identified source (setting / node)", okOrder && setIdx >= 0,
		"precedence low→high: "+strings.Join(ds, " < "))
	if !okOrder || setIdx < 0 {
		return
	}
	higher := map[string]bool{}
	for _, w := range writers[setIdx+1:] {
		for s := range w.sources {
			if s != "setting" {
				higher[s] = true
			}
		}
	}
	c.comparatorConsults(higher)
}

// collectSources finds stores to <param>.Spec.Containers[].Resources in fn (and callees receiving the
// parameter) and classifies what the stored value and its guarding facts depend on.
func (c *c10Ctx) collectSources(fn *ssa.Function, idx int, site *ssa.CallCommon, resPath []string, w *c10Writer, found *bool, depth int) {
	if depth > 2 || idx >= len(fn.Params) {
		return
	}
	par := fn.Params[idx]
	ff := computeFacts(fn)
	classify := func(v ssa.Value) {
		for i, p := range fn.Params {
			var kind string
			switch {
			case isPtrToNamed(p.Type(), pkgAPI, "ExtendedDaemonsetSetting"):
				kind = "setting"
			case isPtrToNamed(p.Type(), pkgCoreV1, "Node"):
				kind = "node"
			default:
				continue
			}
			_ = i
			if dependsOn(v, isParam(p)) {
				w.sources[kind] = true
			}
		}
	}
	for _, b := range fn.Blocks {
		for _, in := range b.Instrs {
			switch x := in.(type) {
			case *ssa.Store:
				root, p := deepPath(x.Addr)
				if root != ssa.Value(par) || !hasPrefixPath(p, resPath) {
					continue
				}
				*found = true
				classify(x.Val)
				for _, f := range ff.At(b) {
					classify(f.V)
				}
			case ssa.CallInstruction:
				cc := x.Common()
				cal := staticCallee(cc)
				if cal == nil || !c.r.Prog.IsRuleSite(cal) {
					continue
				}
				for ai, a := range cc.Args {
					if a == ssa.Value(par) {
						c.collectSources(cal, ai, cc, resPath, w, found, depth+1)
					}
				}
			}
		}
	}
}

// c10NodeRef designates the node object as a field path from a root value (e.g. candidate.Node).
type c10NodeRef struct {
	root ssa.Value
	path []string
}

func (n c10NodeRef) is(v ssa.Value) bool {
	root, p := accessPath(unwrap(v))
	return root == n.root && samePath(p, n.path)
}

// c10Consults: v depends on a lookup in the annotations of the node with a key depending on a value
// accepted by isName — directly, or through a repository call that receives the node (or an object
// holding it) and the name and whose branch conditions or results depend on such a lookup.
func c10Consults(prog *Prog, v ssa.Value, node c10NodeRef, isName func(ssa.Value) bool, depth int) bool {
	return dependsOnV(v, func(x ssa.Value) bool {
		switch y := x.(type) {
		case *ssa.Lookup:
			if annotationsOf(node.is)(y.X) && dependsOnV(y.Index, isName) {
				return true
			}
		case *ssa.Call:
			cal := staticCallee(&y.Call)
			if cal == nil || !prog.IsRuleSite(cal) || depth >= 3 {
				return false
			}
			var sub *c10NodeRef
			mi := -1
			for i, a := range y.Call.Args {
				root, p := accessPath(unwrap(a))
				if root == node.root && hasPrefixPath(node.path, p) {
					if _, isPtr := a.Type().Underlying().(*types.Pointer); isPtr && i < len(cal.Params) {
						sub = &c10NodeRef{root: cal.Params[i], path: node.path[len(p):]}
					}
				}
				if b, isB := a.Type().Underlying().(*types.Basic); isB && b.Info()&types.IsString != 0 && dependsOnV(a, isName) {
					mi = i
				}
			}
			if sub == nil || mi < 0 || mi >= len(cal.Params) {
				return false
			}
			pm := isParam(cal.Params[mi])
			for _, b := range cal.Blocks {
				if len(b.Instrs) == 0 {
					continue
				}
				switch last := b.Instrs[len(b.Instrs)-1].(type) {
				case *ssa.If:
					if c10Consults(prog, last.Cond, *sub, pm, depth+1) {
						return true
					}
				case *ssa.Return:
					for _, res := range last.Results {
						if c10Consults(prog, res, *sub, pm, depth+1) {
							return true
						}
					}
				}
			}
		}
		return false
	})
}

func (c *c10Ctx) comparatorConsults(higher map[string]bool) {
	r := c.r
	top := c10Comparator(r)
	if top == nil {
		return
	}
	reach := r.Prog.reachableFuncs(top)
	isSettingData := func(v ssa.Value) bool { return c10SettingChain(v, 0) }
	var hs []string
	for s := range higher {
		hs = append(hs, s)
	}
	sort.Strings(hs)
	n := 0
	for _, fn := range sortedFuncs(reach) {
		var ff *FuncFacts
		var nodeItem *ssa.Parameter
		for _, p := range fn.Params {
			if isPtrToNamed(p.Type(), pkgStrategy, "NodeItem") {
				nodeItem = p
			}
		}
		idx := 0
		for _, b := range fn.Blocks {
			for _, in := range b.Instrs {
				var val ssa.Value
				var target ssa.Value
				switch x := in.(type) {
				case *ssa.MapUpdate:
					val, target = x.Value, x.Map
				case *ssa.Store:
					val, target = x.Val, x.Addr
				case *ssa.Call:
					// a repository helper that writes what it is given: the call is the overlay write
					cal := staticCallee(&x.Call)
					if cal == nil || !r.Prog.IsRuleSite(cal) {
						continue
					}
					for ai, a := range x.Call.Args {
						if dependsOnV(a, isSettingData) && c10WritesFromParam(r.Prog, cal, ai, 0) {
							val = a
						}
					}
					if val == nil {
						continue
					}
				default:
					continue
				}
				if !dependsOnV(val, isSettingData) {
					continue
				}
				// stores into local variable cells (copies such as range variables) are not overlays
				if _, isCell := target.(*ssa.Alloc); isCell {
					continue
				}
				if ff == nil {
					ff = computeFacts(fn)
				}
				idx++
				n++
				pos := r.Prog.Pos(instrPos(in))
				construct := fmt.Sprintf("setting overlay write %d", idx)
				for _, h := range hs {
					if h != "node" || nodeItem == nil {
						r.Undecided("C10.R5", construct+" consults "+h, pos, shortFunc(fn), "no rule for source "+h+" (or the comparison function has no creation-candidate parameter)")
						continue
					}
					nodeRef := c10NodeRef{root: nodeItem, path: []string{"Node"}}
					isName := func(v ssa.Value) bool {
						fa, ok := v.(*ssa.FieldAddr)
						if !ok {
							if u, isL := v.(*ssa.UnOp); isL && u.Op == token.MUL {
								fa, ok = u.X.(*ssa.FieldAddr)
							}
						}
						return ok && fieldName(fa) == "Name" && typeName(fa.X.Type()) == pkgCoreV1+".Container"
					}
					// every path that reaches the write carries a fact that consults the annotation (a must-fact at
					// the block is the common case; `if err == nil && found { continue }` needs the per-path view)
					okC := false
					var conds []string
					for _, f := range ff.At(b) {
						if c10Consults(r.Prog, f.V, nodeRef, isName, 0) {
							okC = true
							conds = append(conds, f.Key)
						}
					}
					if !okC {
						wpaths, okP := enumPaths(fn, ff.K, fn.Blocks[0], func(x *ssa.BasicBlock) bool { return x == b }, func(x *ssa.BasicBlock) bool { return x == b }, 5000)
						r.paths += len(wpaths)
						if okP && len(wpaths) > 0 {
							okC = true
							seenCond := map[string]bool{}
							for _, wp := range wpaths {
								found := false
								for _, f := range wp.Facts {
									if c10Consults(r.Prog, f.V, nodeRef, isName, 0) {
										found = true
										if !seenCond[f.Key] {
											seenCond[f.Key] = true
											conds = append(conds, f.Key)
										}
									}
								}
								if !found {
									okC = false
								}
							}
							sort.Strings(conds)
						}
					}
					detail := "no guarding fact depends on a lookup of the node's annotations for the container: a pod created from {annotation, setting} on one container is judged outdated by the setting check on every sync"
					if okC {
						detail = "guarded by a fact on " + strings.ReplaceAll(strings.Join(conds, "; "), repoMod+"/", "")
						if len(detail) > 160 {
							detail = detail[:160] + "…"
						}
					}
					if okC {
						c.overlays = append(c.overlays, c10Overlay{fn: fn, in: in, ff: ff})
					} else {
						c.overlayBad = true
					}
					r.Check("C10.R5", construct+" consults "+h, pos, shortFunc(fn),
						"the setting is overlaid for a container only under a fact that consults the node's resource annotation for that container (the constructor gives that source precedence over the setting)", okC, detail)
				}
			}
		}
	}
	if n == 0 {
		r.Check("C10.R5", "setting overlay writes", r.Prog.Pos(top.Pos()), shortFunc(top), "the comparison overlays setting data onto a copy of the pod spec (the only idiom the rule decides)", false, "no write deriving from ExtendedDaemonsetSetting data found in the comparison")
	}
}

// c10SettingChain reports whether the address/value chain of v passes through a value whose type is
// one of the ExtendedDaemonsetSetting types (the setting object, its spec, a container spec), also
// through local copies and range variables.
func c10SettingChain(v ssa.Value, d int) bool {
	for i := 0; i < 64 && v != nil && d < 8; i++ {
		tn := typeName(v.Type())
		if strings.HasPrefix(tn, pkgAPI+".ExtendedDaemonsetSetting") {
			return true
		}
		switch x := v.(type) {
		case *ssa.UnOp:
			if x.Op != token.MUL {
				return false
			}
			v = x.X
		case *ssa.FieldAddr:
			v = x.X
		case *ssa.Field:
			v = x.X
		case *ssa.IndexAddr:
			v = x.X
		case *ssa.Index:
			v = x.X
		case *ssa.ChangeType:
			v = x.X
		case *ssa.Convert:
			v = x.X
		case *ssa.MakeInterface:
			v = x.X
		case *ssa.Alloc:
			for _, st := range cellStores(x) {
				if c10SettingChain(st.Val, d+1) {
					return true
				}
			}
			return false
		case *ssa.Extract:
			nx, ok := x.Tuple.(*ssa.Next)
			if !ok {
				return false
			}
			rg, ok := nx.Iter.(*ssa.Range)
			if !ok {
				return false
			}
			v = rg.X
		default:
			return false
		}
	}
	return false
}

// ---------------------------------------------------------------------------------------------
// R5b: agreement on WHEN the node annotation overrides

// c10Atom is a fact on one result of the shared lookup function.
type c10Atom struct {
	idx   int
	isErr bool
	want  bool // bool result: required value; error result: required "is nil"
}

func (a c10Atom) String() string {
	if a.isErr {
		if a.want {
			return fmt.Sprintf("#%d==nil", a.idx)
		}
		return fmt.Sprintf("#%d!=nil", a.idx)
	}
	if a.want {
		return fmt.Sprintf("#%d", a.idx)
	}
	return fmt.Sprintf("!#%d", a.idx)
}

// c10BaseResult resolves a value to "result #i of a call of function F", looking through repository
// wrappers that simply forward a result of an inner call. ok=false if v is not a call result.
func c10BaseResult(prog *Prog, v ssa.Value, depth int) (F *ssa.Function, idx int, ok bool) {
	var call *ssa.Call
	i := 0
	switch x := v.(type) {
	case *ssa.Extract:
		call, _ = x.Tuple.(*ssa.Call)
		i = x.Index
	case *ssa.Call:
		call = x
	}
	if call == nil {
		return nil, 0, false
	}
	G := staticCallee(&call.Call)
	if G == nil || !prog.IsRuleSite(G) {
		return nil, 0, false
	}
	if depth < 3 {
		var innerF *ssa.Function
		innerIdx := -1
		forwards := true
		nRet := 0
		for _, b := range G.Blocks {
			ret := returnOf(b)
			if ret == nil {
				continue
			}
			nRet++
			if i >= len(ret.Results) {
				forwards = false
				break
			}
			for _, o := range origins(ret.Results[i]) {
				f2, i2, ok2 := c10BaseResult(prog, o, depth+1)
				if !ok2 || (innerF != nil && (innerF != f2 || innerIdx != i2)) {
					forwards = false
					break
				}
				innerF, innerIdx = f2, i2
			}
		}
		if forwards && innerF != nil && nRet > 0 {
			return innerF, innerIdx, true
		}
	}
	return G, i, true
}

// c10GuardDNF reads the condition under which block b is reached as a disjunction (one disjunct per
// acyclic entry→b path) of conjunctions of facts about results of one lookup function; facts about
// anything else are ignored. mixed=true if results of different lookup functions appear.
func c10GuardDNF(prog *Prog, fn *ssa.Function, b *ssa.BasicBlock, takesNode func(*ssa.Function) bool) (F *ssa.Function, dnf [][]c10Atom, mixed, ok bool) {
	k := newKeyer(fn)
	paths, okP := enumPaths(fn, k, fn.Blocks[0], func(x *ssa.BasicBlock) bool { return x == b }, func(x *ssa.BasicBlock) bool { return x == b }, 5000)
	if !okP || len(paths) == 0 {
		return nil, nil, false, false
	}
	seen := map[string]bool{}
	for _, p := range paths {
		var atoms []c10Atom
		add := func(f2 *ssa.Function, a c10Atom) {
			if !takesNode(f2) {
				return
			}
			if F != nil && F != f2 {
				mixed = true
				return
			}
			F = f2
			atoms = append(atoms, a)
		}
		for _, f := range p.Facts {
			if x, y, isEq := eqOperands(f.V); isEq {
				var other ssa.Value
				if isNilConst(y) {
					other = x
				} else if isNilConst(x) {
					other = y
				}
				if other != nil {
					if f2, i, okb := c10BaseResult(prog, other, 0); okb {
						add(f2, c10Atom{idx: i, isErr: true, want: f.Pol})
					}
				}
				continue
			}
			if f2, i, okb := c10BaseResult(prog, f.V, 0); okb {
				if bt, isB := f.V.Type().Underlying().(*types.Basic); isB && bt.Info()&types.IsBoolean != 0 {
					add(f2, c10Atom{idx: i, want: f.Pol})
				}
			}
		}
		sort.Slice(atoms, func(i, j int) bool { return atoms[i].String() < atoms[j].String() })
		key := fmt.Sprint(atoms)
		if !seen[key] {
			seen[key] = true
			dnf = append(dnf, atoms)
		}
	}
	sort.Slice(dnf, func(i, j int) bool { return fmt.Sprint(dnf[i]) < fmt.Sprint(dnf[j]) })
	return F, dnf, mixed, true
}

func (c *c10Ctx) overrideAgreement() {
	r := c.r
	pos := r.Prog.Pos(c.ctor.Pos())
	sf := shortFunc(c.ctor)
	const cAgree = "override condition agreement"
	const cTable = "lookup result table"
	if c.overlayBad || len(c.overlays) == 0 {
		// R5 already reports that the comparison does not consult the annotation at all
		o := r.Check("C10.R5b", cAgree, pos, sf, "decided only when the comparison consults the node annotation (R5)", true, "skipped: see C10.R5")
		o.Trivial = true
		o2 := r.Check("C10.R5b", cTable, pos, sf, "decided only when the comparison consults the node annotation (R5)", true, "skipped: see C10.R5")
		o2.Trivial = true
		return
	}
	takesNode := func(f *ssa.Function) bool {
		for _, p := range f.Params {
			if isPtrToNamed(p.Type(), pkgCoreV1, "Node") || isPtrToNamed(p.Type(), pkgStrategy, "NodeItem") {
				return true
			}
		}
		return false
	}
	// constructor side: stores to …Containers[].Resources whose value or guards depend on a node parameter
	resPath := []string{"Spec", "Containers", "[]", "Resources"}
	type side struct {
		F     *ssa.Function
		dnf   [][]c10Atom
		where string
	}
	var applies []side
	undec := ""
	for _, fn := range sortedFuncs(r.Prog.reachableFuncs(c.ctor)) {
		var node *ssa.Parameter
		for _, p := range fn.Params {
			if isPtrToNamed(p.Type(), pkgCoreV1, "Node") {
				node = p
			}
		}
		if node == nil {
			continue
		}
		var ff *FuncFacts
		for _, b := range fn.Blocks {
			for _, in := range b.Instrs {
				st, ok := in.(*ssa.Store)
				if !ok {
					continue
				}
				root, p := deepPath(st.Addr)
				if _, isPar := root.(*ssa.Parameter); !isPar || !hasPrefixPath(p, resPath) {
					continue
				}
				if ff == nil {
					ff = computeFacts(fn)
				}
				dep := dependsOnV(st.Val, isParam(node))
				for _, f := range ff.At(b) {
					if dependsOnV(f.V, isParam(node)) {
						dep = true
					}
				}
				if !dep {
					continue
				}
				F, dnf, mixed, okD := c10GuardDNF(r.Prog, fn, b, takesNode)
				// collect-then-act: the stored value may have been produced earlier (an element of a slice of
				// records filled under the lookup's facts); the condition of the store is then the conjunction
				// of its own guard and of the guard under which the record was collected
				if pF, pdnf, pmixed, pok := c10ProducerGuards(r.Prog, fn, st.Val, takesNode); pok && pF != nil {
					switch {
					case F == nil:
						F, dnf = pF, pdnf
					case F == pF:
						var prod [][]c10Atom
						for _, x := range dnf {
							for _, y := range pdnf {
								prod = append(prod, append(append([]c10Atom{}, x...), y...))
							}
						}
						dnf = prod
					default:
						mixed = true
					}
					mixed = mixed || pmixed
					okD = true
				}
				if mixed || F == nil || !okD {
					undec = "the constructor's condition for applying the annotation (" + r.Prog.Pos(instrPos(st)) + ") is not expressed by facts on the results of one lookup function"
					continue
				}
				applies = append(applies, side{F, dnf, r.Prog.Pos(instrPos(st))})
			}
		}
	}
	var overlays []side
	for _, o := range c.overlays {
		F, dnf, mixed, okD := c10GuardDNF(r.Prog, o.fn, o.in.Block(), takesNode)
		if mixed || F == nil || !okD {
			undec = "the comparison's condition for applying the setting check (" + r.Prog.Pos(instrPos(o.in)) + ") is not expressed by facts on the results of one lookup function"
			continue
		}
		overlays = append(overlays, side{F, dnf, r.Prog.Pos(instrPos(o.in))})
	}
	if undec == "" && (len(applies) == 0 || len(overlays) == 0) {
		undec = "no store of annotation resources found in the constructor"
	}
	var F *ssa.Function
	for _, s := range append(append([]side{}, applies...), overlays...) {
		if F != nil && F != s.F {
			undec = "constructor and comparison decide on the results of different lookup functions (" + shortFunc(F) + " / " + shortFunc(s.F) + "): their agreement is not decidable by the rule"
		}
		F = s.F
	}
	if undec != "" {
		r.Undecided("C10.R5b", cAgree, pos, sf, undec)
		r.Undecided("C10.R5b", cTable, pos, sf, undec)
		return
	}
	// return table of F
	paths, _, okP := funcPaths(F, 5000)
	r.paths += len(paths)
	fsf := shortFunc(F)
	if !okP {
		r.Undecided("C10.R5b", cAgree, pos, sf, "path cap exceeded in "+fsf)
		r.Undecided("C10.R5b", cTable, r.Prog.Pos(F.Pos()), fsf, "path cap exceeded")
		return
	}
	used := map[int]bool{}
	for _, s := range append(append([]side{}, applies...), overlays...) {
		for _, conj := range s.dnf {
			for _, a := range conj {
				used[a.idx] = true
			}
		}
	}
	var idxs []int
	for i := range used {
		idxs = append(idxs, i)
	}
	sort.Ints(idxs)
	// abstract value of result i on path p: 1 true/nil, 0 false/non-nil, -1 unknown
	abstract := func(p *Path, ret *ssa.Return, i int, isErr bool) int {
		if i >= len(ret.Results) {
			return -1
		}
		res := p.Resolve(ret.Results[i])
		if isErr {
			if isNilConst(res) {
				return 1
			}
			switch x := res.(type) {
			case *ssa.MakeInterface:
				return 0
			case *ssa.Call:
				switch calleeName(&x.Call) {
				case "fmt.Errorf", "errors.New":
					return 0
				}
			}
			if p.Has(true, func(v ssa.Value, _ string) bool { return isNilCompareOf(v, func(y ssa.Value) bool { return y == res }) }) {
				return 1
			}
			if p.Has(false, func(v ssa.Value, _ string) bool { return isNilCompareOf(v, func(y ssa.Value) bool { return y == res }) }) {
				return 0
			}
			return -1
		}
		if b, isC := constBool(res); isC {
			if b {
				return 1
			}
			return 0
		}
		if p.Has(true, func(v ssa.Value, _ string) bool { return v == res }) {
			return 1
		}
		if p.Has(false, func(v ssa.Value, _ string) bool { return v == res }) {
			return 0
		}
		return -1
	}
	isErrIdx := map[int]bool{}
	for _, s := range append(append([]side{}, applies...), overlays...) {
		for _, conj := range s.dnf {
			for _, a := range conj {
				if a.isErr {
					isErrIdx[a.idx] = true
				}
			}
		}
	}
	holds := func(dnf [][]c10Atom, t map[int]int) bool {
		for _, conj := range dnf {
			all := true
			for _, a := range conj {
				if (t[a.idx] == 1) != a.want {
					all = false
				}
			}
			if all {
				return true
			}
		}
		return false
	}
	render := func(t map[int]int) string {
		var out []string
		for _, i := range idxs {
			v := "false"
			if isErrIdx[i] {
				v = "non-nil"
				if t[i] == 1 {
					v = "nil"
				}
			} else if t[i] == 1 {
				v = "true"
			}
			out = append(out, fmt.Sprintf("#%d=%s", i, v))
		}
		return strings.Join(out, " ")
	}
	okAll, why := true, ""
	nTuples := 0
	seenTuple := map[string]bool{}
	for _, p := range paths {
		ret := returnOf(p.Blocks[len(p.Blocks)-1])
		base := map[int]int{}
		var unknown []int
		for _, i := range idxs {
			base[i] = abstract(p, ret, i, isErrIdx[i])
			if base[i] < 0 {
				unknown = append(unknown, i)
			}
		}
		for m := 0; m < 1<<len(unknown); m++ {
			t := map[int]int{}
			for k, v := range base {
				t[k] = v
			}
			for bi, i := range unknown {
				t[i] = (m >> bi) & 1
			}
			key := render(t)
			if seenTuple[key] {
				continue
			}
			seenTuple[key] = true
			nTuples++
			for _, ap := range applies {
				for _, ov := range overlays {
					a, o := holds(ap.dnf, t), holds(ov.dnf, t)
					if a == o && okAll {
						okAll = false
						if a {
							why = fmt.Sprintf("when %s returns (%s) at %s the constructor applies the annotation (%s) AND the comparison still overlays the setting (%s): the pod is judged outdated on every sync", fsf, key, r.Prog.Pos(instrPos(ret)), ap.where, ov.where)
						} else {
							why = fmt.Sprintf("when %s returns (%s) at %s the constructor does NOT apply the annotation (%s: needs %v) and the comparison does NOT check the setting either (%s: needs %v): the pod keeps the setting's values unchecked, a later change of the setting is never noticed", fsf, key, r.Prog.Pos(instrPos(ret)), ap.where, ap.dnf, ov.where, ov.dnf)
						}
					}
				}
			}
		}
	}
	var ds []string
	for _, ap := range applies {
		ds = append(ds, fmt.Sprintf("constructor applies under %v", ap.dnf))
	}
	for _, ov := range overlays {
		ds = append(ds, fmt.Sprintf("comparison overlays under %v", ov.dnf))
	}
	r.Check("C10.R5b", cTable, r.Prog.Pos(F.Pos()), fsf, "the lookup's return paths yield a finite table of result combinations", nTuples > 0, fmt.Sprintf("%d combinations of results %v over %d paths", nTuples, idxs, len(paths)))
	if okAll {
		why = strings.Join(ds, "; ")
	}
	r.Check("C10.R5b", cAgree, pos, sf,
		"for every result combination the shared lookup can return, exactly one holds: the constructor stores the annotation's resources, or the comparison applies the setting check to the container", okAll, why)
}

// ---------------------------------------------------------------------------------------------
// R6: hash determinism

func c10HashDeterminism(r *Run) {
	for _, name := range []string{"GenerateMD5PodTemplateSpec", "GenerateHashFromEDSResourceNodeAnnotation"} {
		fn := r.Prog.Func(pkgComparison, name)
		if fn == nil {
			r.Fatal("anchor %s.%s not found", pkgComparison, name)
			continue
		}
		c10Determinism(r, fn)
	}
}

func c10IsDigest(v ssa.Value) bool {
	os := origins(v)
	if len(os) == 0 {
		return false
	}
	for _, o := range os {
		call, ok := o.(*ssa.Call)
		if !ok {
			return false
		}
		n := calleeName(&call.Call)
		if !strings.HasPrefix(n, "crypto/") || !strings.Contains(n, ".New") {
			return false
		}
	}
	return true
}

// c10DetSummary is what a function contributes to hash determinism when called from a hash function.
type c10DetSummary struct {
	feedsParam map[int]bool // parameters whose data reaches a digest inside the function (or its callees)
	retOrdered map[int]bool // results that are slices filled in map-iteration order and not sorted before the return
	feedBad    string       // a digest feed inside a range-over-map loop
	sortBad    string       // map-ordered data reaching a digest unsorted
	nFeeds     int
}

type c10Det struct {
	r    *Run
	memo map[*ssa.Function]*c10DetSummary
}

func c10IsSortCall(cc *ssa.CallCommon) bool {
	n := calleeName(cc)
	for _, p := range []string{"sort.Strings", "sort.Slice", "sort.SliceStable", "sort.Sort", "sort.Stable", "slices.Sort"} {
		if strings.HasPrefix(n, p) {
			return true
		}
	}
	return false
}

func (d *c10Det) summary(fn *ssa.Function, depth int) *c10DetSummary {
	if s, ok := d.memo[fn]; ok {
		return s
	}
	sum := &c10DetSummary{feedsParam: map[int]bool{}, retOrdered: map[int]bool{}}
	d.memo[fn] = sum
	r := d.r
	mapHeader := map[*ssa.BasicBlock]bool{}
	for _, b := range fn.Blocks {
		for _, in := range b.Instrs {
			if nx, ok := in.(*ssa.Next); ok {
				if rg, ok := nx.Iter.(*ssa.Range); ok {
					if _, isMap := rg.X.Type().Underlying().(*types.Map); isMap {
						mapHeader[b] = true
					}
				}
			}
		}
	}
	mapLoopOf := func(b *ssa.BasicBlock) *ssa.BasicBlock {
		for h := range enclosingLoopHeaders(fn, b) {
			if mapHeader[h] {
				return h
			}
		}
		return nil
	}
	inMapLoop := func(b *ssa.BasicBlock) bool { return mapLoopOf(b) != nil }
	sub := func(ci ssa.CallInstruction) *c10DetSummary {
		cal := staticCallee(ci.Common())
		if cal == nil || !r.Prog.IsRuleSite(cal) || depth >= 3 || cal == fn {
			return nil
		}
		return d.summary(cal, depth+1)
	}
	type feed struct {
		call ssa.CallInstruction
		data []ssa.Value
	}
	var feeds []feed
	for _, ci := range callsIn(fn) {
		cc := ci.Common()
		name := calleeName(cc)
		if !cc.IsInvoke() && strings.HasPrefix(name, "crypto/") && strings.Contains(name, ".Sum") {
			feeds = append(feeds, feed{ci, cc.Args})
			continue
		}
		if cc.IsInvoke() && c10IsDigest(cc.Value) {
			switch cc.Method.Name() {
			case "Sum", "Size", "BlockSize", "Reset":
				continue
			}
			feeds = append(feeds, feed{ci, cc.Args})
			continue
		}
		var data []ssa.Value
		isFeed := false
		for _, a := range cc.Args {
			if c10IsDigest(a) {
				isFeed = true
			} else {
				data = append(data, a)
			}
		}
		if isFeed {
			feeds = append(feeds, feed{ci, data})
			continue
		}
		if cs := sub(ci); cs != nil {
			if cs.feedBad != "" && sum.feedBad == "" {
				sum.feedBad = cs.feedBad
			}
			if cs.sortBad != "" && sum.sortBad == "" {
				sum.sortBad = cs.sortBad
			}
			var fd []ssa.Value
			for i := range cs.feedsParam {
				if i < len(cc.Args) {
					fd = append(fd, cc.Args[i])
				}
			}
			if len(fd) > 0 {
				feeds = append(feeds, feed{ci, fd})
			}
		}
	}
	sum.nFeeds = len(feeds)
	var sortCalls []ssa.CallInstruction
	for _, ci := range callsIn(fn) {
		if c10IsSortCall(ci.Common()) {
			sortCalls = append(sortCalls, ci)
		}
	}
	// accumulation points, in map-iteration order, in the backward closure of a value
	type acc struct {
		in   ssa.Instruction // an append inside a map loop, or a call whose result is map-ordered
		val  ssa.Value
		loop *ssa.BasicBlock // map loop header for local appends (nil for calls)
	}
	carried := func(v ssa.Value, h *ssa.BasicBlock) bool {
		loop := loopBlocks(h)
		return dependsOnV(v, func(x ssa.Value) bool {
			if ph, ok := x.(*ssa.Phi); ok && ph.Block() == h {
				return true
			}
			if u, ok := x.(*ssa.UnOp); ok && u.Op == token.MUL {
				if a, ok := u.X.(*ssa.Alloc); ok {
					for _, st := range cellStores(a) {
						if loop[st.Block()] {
							return true
						}
					}
				}
			}
			return false
		})
	}
	collect := func(data []ssa.Value, at string) (accs []acc, bad string) {
		allocs := map[*ssa.Alloc]bool{}
		for _, dv := range data {
			dependsOnV(dv, func(x ssa.Value) bool {
				switch y := x.(type) {
				case *ssa.Alloc:
					allocs[y] = true
				case *ssa.Call:
					if _, isAp := isBuiltinCall(y, "append"); isAp {
						if h := mapLoopOf(y.Block()); h != nil {
							accs = append(accs, acc{in: y, val: y, loop: h})
						}
						return false
					}
					if cs := sub(y); cs != nil && cs.retOrdered[0] {
						accs = append(accs, acc{in: y, val: y})
					}
				case *ssa.Extract:
					if call, ok := y.Tuple.(*ssa.Call); ok {
						if cs := sub(call); cs != nil && cs.retOrdered[y.Index] {
							accs = append(accs, acc{in: call, val: y})
						}
					}
				case *ssa.BinOp:
					if bt, isB := y.Type().Underlying().(*types.Basic); isB && bt.Info()&types.IsString != 0 && y.Op == token.ADD {
						if h := mapLoopOf(y.Block()); h != nil && carried(y, h) {
							bad = "a string accumulated across the iterations of a range over a map (" + r.Prog.Pos(y.Pos()) + ") reaches the digest at " + at
						}
					}
				}
				return false
			})
		}
		for _, ci := range callsIn(fn) {
			if !inMapLoop(ci.Block()) {
				continue
			}
			n := calleeName(ci.Common())
			if !strings.Contains(n, ".Write") && !strings.Contains(n, "Fprint") {
				continue
			}
			for _, a := range ci.Common().Args {
				root, _ := deepPath(a)
				if al, ok := root.(*ssa.Alloc); ok && allocs[al] {
					bad = "a buffer written inside a range over a map (" + r.Prog.Pos(ci.Pos()) + ") reaches the digest at " + at
				}
			}
		}
		return accs, bad
	}
	sortedBefore := func(a acc, use *ssa.BasicBlock) bool {
		for _, sc := range sortCalls {
			sb := sc.Block()
			if inMapLoop(sb) || !sb.Dominates(use) {
				continue
			}
			if a.loop != nil {
				if !a.loop.Dominates(sb) || loopBlocks(a.loop)[sb] {
					continue
				}
			} else if !a.in.Block().Dominates(sb) {
				continue
			}
			for _, arg := range sc.Common().Args {
				if dependsOnV(arg, func(x ssa.Value) bool { return x == a.val }) {
					return true
				}
			}
		}
		return false
	}
	for _, f := range feeds {
		fb := f.call.Block()
		fpos := r.Prog.Pos(f.call.Pos())
		if inMapLoop(fb) {
			if sum.feedBad == "" {
				sum.feedBad = "the digest is fed at " + fpos + " (" + shortFunc(fn) + ") inside a range over a map: the hash depends on Go's map iteration order, so an unchanged object hashes differently from one call to the next"
			}
			continue
		}
		accs, bad := collect(f.data, fpos)
		if bad != "" && sum.sortBad == "" {
			sum.sortBad = bad
		}
		for _, a := range accs {
			if !sortedBefore(a, fb) && sum.sortBad == "" {
				sum.sortBad = "the slice filled inside a range over a map (" + r.Prog.Pos(a.in.Pos()) + ") reaches the digest at " + fpos + " without a sort call in between that dominates the feed: the hash depends on map iteration order"
			}
		}
		for i, p := range fn.Params {
			for _, dv := range f.data {
				if dependsOnV(dv, isParam(p)) {
					sum.feedsParam[i] = true
				}
			}
		}
	}
	// results in map-iteration order
	for _, b := range fn.Blocks {
		ret := returnOf(b)
		if ret == nil {
			continue
		}
		for i, res := range ret.Results {
			if _, isSlice := res.Type().Underlying().(*types.Slice); !isSlice {
				continue
			}
			accs, _ := collect([]ssa.Value{res}, "")
			for _, a := range accs {
				if !sortedBefore(a, b) {
					sum.retOrdered[i] = true
				}
			}
		}
	}
	return sum
}

func c10Determinism(r *Run, fn *ssa.Function) {
	sf := shortFunc(fn)
	pos := r.Prog.Pos(fn.Pos())
	const cFeed = "digest fed outside map iteration"
	const cSort = "map-collected data sorted before the digest"
	d := &c10Det{r: r, memo: map[*ssa.Function]*c10DetSummary{}}
	sum := d.summary(fn, 0)
	if sum.nFeeds == 0 {
		r.Undecided("C10.R6", cFeed, pos, sf, "no crypto digest is fed in this function or in the repository functions it calls")
		r.Undecided("C10.R6", cSort, pos, sf, "no crypto digest is fed in this function or in the repository functions it calls")
		return
	}
	r.Check("C10.R6", cFeed, pos, sf, "no Write / io.Copy / Fprint* / crypto Sum call feeding the digest (here or in a called repository function) lies inside a range-over-map loop", sum.feedBad == "", sum.feedBad)
	r.Check("C10.R6", cSort, pos, sf, "data accumulated while ranging over a map reaches the digest only through a slice that a sort call, dominating the feed, has ordered (json.Marshal output is ordered by encoding/json)", sum.sortBad == "", sum.sortBad)
}

// c10Pin decides whether, at a program point, the MatchFields of one node-selector term (a pointer
// value of fn) are known to contain the node-name requirement: they were just set to [requirement],
// had it appended, had an element replaced by it under a flag that is set only there, or a
// repository helper that does one of these on every return path was called on the term.
type c10Pin struct {
	prog  *Prog
	fn    *ssa.Function
	term  ssa.Value
	isReq func(ssa.Value) bool
	key   string // the field-selector key the reader looks for ("" if unknown)
}

func (c *c10Pin) isMF(addr ssa.Value) bool {
	fa, ok := addr.(*ssa.FieldAddr)
	return ok && fieldName(fa) == "MatchFields" && fa.X == c.term
}

func (c *c10Pin) isReqList(v ssa.Value) bool {
	arr := sliceLit(v)
	if arr == nil {
		return false
	}
	el, ok := litElems(arr)
	return ok && len(el) == 1 && el[0].val != nil && c.isReq(el[0].val)
}

func (c *c10Pin) isSetVal(v ssa.Value) bool {
	if c.isReqList(v) {
		return true
	}
	if ap2, ok := isBuiltinCall(v, "append"); ok && len(ap2.Call.Args) == 2 {
		base, isL := ap2.Call.Args[0].(*ssa.UnOp)
		return isL && base.Op == token.MUL && c.isMF(base.X) && c.isReqList(ap2.Call.Args[1])
	}
	return false
}

// lastEvent returns the last instruction of block b before `before` (nil: whole block) that
// determines the term's MatchFields: a store to the field, or a call of a repository helper on the
// term. set=true if after it the requirement is known to be present.
func (c *c10Pin) lastEvent(b *ssa.BasicBlock, before ssa.Instruction, depth int) (found, set bool, why string) {
	for _, in := range b.Instrs {
		if in == before {
			break
		}
		switch x := in.(type) {
		case *ssa.Store:
			if c.isMF(x.Addr) {
				found, set = true, c.isSetVal(x.Val)
				if !set {
					why = "MatchFields is reassigned without the requirement"
				}
			}
		case *ssa.Call:
			cal := staticCallee(&x.Call)
			if cal == nil || !c.prog.IsRuleSite(cal) {
				continue
			}
			ti, ri := -1, -1
			for i, a := range x.Call.Args {
				if a == c.term {
					ti = i
				} else if c.isReq(a) {
					ri = i
				}
			}
			if ti < 0 {
				continue
			}
			found = true
			set, why = false, shortFunc(cal)+" is called on the term without the requirement"
			if ri >= 0 && depth < 2 {
				set, why = c10HelperPins(c.prog, cal, ti, ri, depth+1, c.key)
				if !set {
					why = shortFunc(cal) + ": " + why
				}
			}
		}
	}
	return found, set, why
}

func (c *c10Pin) replaceStoreIn(b *ssa.BasicBlock) bool {
	for _, in := range b.Instrs {
		st, ok := in.(*ssa.Store)
		if !ok {
			continue
		}
		if ia, ok := st.Addr.(*ssa.IndexAddr); ok {
			if u, ok := ia.X.(*ssa.UnOp); ok && u.Op == token.MUL && c.isMF(u.X) && c.isReq(st.Val) {
				return true
			}
		}
	}
	return false
}

// replacedByLoop: the edge q→A is taken only when len(S) > 0 for a slice value S, and q is where a
// full index loop over S ends whose every iteration replaces an element of the term's MatchFields by
// the requirement (the loop has no other exit and does not reassign MatchFields): with len(S) > 0 the
// loop ran, so an element was replaced.
func (c *c10Pin) replacedByLoop(q, A *ssa.BasicBlock) bool {
	iff, ok := q.Instrs[len(q.Instrs)-1].(*ssa.If)
	if !ok || len(q.Succs) != 2 || q.Succs[0] == q.Succs[1] {
		return false
	}
	taken := q.Succs[0] == A
	cond := iff.Cond
	if u, ok := cond.(*ssa.UnOp); ok && u.Op == token.NOT {
		cond, taken = u.X, !taken
	}
	bo, ok := cond.(*ssa.BinOp)
	if !ok {
		return false
	}
	lenOf := func(v ssa.Value) ssa.Value {
		if call, ok := isBuiltinCall(v, "len"); ok && len(call.Call.Args) == 1 {
			return call.Call.Args[0]
		}
		return nil
	}
	isZero := func(v ssa.Value) bool { z, isC := constInt(v); return isC && z == 0 }
	var S ssa.Value
	switch {
	case bo.Op == token.EQL && !taken, bo.Op == token.NEQ && taken:
		if isZero(bo.Y) {
			S = lenOf(bo.X)
		} else if isZero(bo.X) {
			S = lenOf(bo.Y)
		}
	case bo.Op == token.GTR && taken, bo.Op == token.LEQ && !taken: // len(S) > 0
		if isZero(bo.Y) {
			S = lenOf(bo.X)
		}
	case bo.Op == token.LSS && taken, bo.Op == token.GEQ && !taken: // 0 < len(S)
		if isZero(bo.X) {
			S = lenOf(bo.Y)
		}
	}
	if S == nil {
		return false
	}
	if _, isSlice := S.Type().Underlying().(*types.Slice); !isSlice {
		return false
	}
	if len(q.Preds) != 1 {
		return false
	}
	H := q.Preds[0]
	k := newKeyer(c.fn)
	for _, rr := range refs(S) {
		ia, ok := rr.(*ssa.IndexAddr)
		if !ok || ia.X != S {
			continue
		}
		if h, _ := indexLoopOver(k, ia.Index, S); h == nil || h != H {
			continue
		}
		loop := loopBlocks(H)
		if loop[q] {
			continue
		}
		var from *ssa.BasicBlock
		okLoop := true
		for _, s := range H.Succs {
			if loop[s] {
				from = s
			} else if s != q {
				okLoop = false
			}
		}
		for b := range loop {
			if b == H {
				continue
			}
			for _, s := range b.Succs {
				if !loop[s] {
					okLoop = false // another way out of the loop
				}
			}
			for _, in := range b.Instrs {
				if st, isSt := in.(*ssa.Store); isSt && c.isMF(st.Addr) {
					okLoop = false
				}
				if call, isCall := in.(*ssa.Call); isCall {
					for _, a := range call.Call.Args {
						if a == c.term {
							okLoop = false
						}
					}
				}
			}
		}
		if !okLoop || from == nil {
			continue
		}
		for b := range loop {
			if b != H && c.replaceStoreIn(b) && onEveryIteration(c.fn, from, H, b) {
				return true
			}
		}
	}
	return false
}

// keyMatchesReplaced: the reader returns the value of the FIRST requirement of a term whose Key is the
// node-name key, whatever its operator. So wherever this function finds, while scanning the term's
// MatchFields, an element with that Key, it must replace that very element by the requirement: on
// every path of the scanning loop's iteration that carries the fact element.Key == key, the
// requirement is stored at the element's index. n counts the key tests found.
func (c *c10Pin) keyMatchesReplaced() (ok bool, why string, n int) {
	if c.key == "" {
		return true, "", 0
	}
	k := newKeyer(c.fn)
	type test struct {
		idx ssa.Value
		H   *ssa.BasicBlock
	}
	var tests []test
	elemOf := func(x ssa.Value) (ssa.Value, ssa.Value, bool) {
		root, pp := accessPath(unwrap(x))
		if !samePath(pp, []string{"Key"}) {
			return nil, nil, false
		}
		S, idx, okE := c13Elem(k, root)
		if !okE {
			return nil, nil, false
		}
		u, isL := S.(*ssa.UnOp)
		if !isL || u.Op != token.MUL || !c.isMF(u.X) {
			return nil, nil, false
		}
		return S, idx, true
	}
	seen := map[string]bool{}
	for _, b := range c.fn.Blocks {
		for _, in := range b.Instrs {
			bo, isB := in.(*ssa.BinOp)
			if !isB {
				continue
			}
			x, y, isEq := eqOperands(bo)
			if !isEq {
				continue
			}
			for _, pr := range [][2]ssa.Value{{x, y}, {y, x}} {
				if !isConstStringVal(c.key)(pr[1]) {
					continue
				}
				S, idx, okE := elemOf(pr[0])
				if !okE {
					continue
				}
				n++
				H, whyL := indexLoopOver(k, idx, S)
				if H == nil {
					return false, "a MatchFields element is tested for the node-name key outside a full index loop: " + whyL, n
				}
				if key := k.key(idx); !seen[key] {
					seen[key] = true
					tests = append(tests, test{idx, H})
				}
			}
		}
	}
	for _, t := range tests {
		loop := loopBlocks(t.H)
		var from *ssa.BasicBlock
		for _, s := range t.H.Succs {
			if loop[s] {
				from = s
			}
		}
		if from == nil {
			return false, "undecided: scanning loop without a body", n
		}
		isH := func(x *ssa.BasicBlock) bool { return x == t.H }
		leaves := func(x *ssa.BasicBlock) bool { return x == t.H || !loop[x] }
		paths, okP := enumPaths(c.fn, k, from, leaves, leaves, 2000)
		if !okP {
			return false, "undecided: path cap exceeded in the scanning loop", n
		}
		_ = isH
		idxKey := k.key(t.idx)
		for _, p := range paths {
			if !p.Has(true, func(v ssa.Value, _ string) bool {
				return isEqCompare(v, func(x ssa.Value) bool {
					_, idx, okE := elemOf(x)
					return okE && k.key(idx) == idxKey
				}, isConstStringVal(c.key))
			}) {
				continue
			}
			replaced := false
			for _, b := range p.Blocks {
				for _, in := range b.Instrs {
					st, isSt := in.(*ssa.Store)
					if !isSt {
						continue
					}
					if ia, isIA := st.Addr.(*ssa.IndexAddr); isIA && k.key(ia.Index) == idxKey {
						if u, isL := ia.X.(*ssa.UnOp); isL && u.Op == token.MUL && c.isMF(u.X) && c.isReq(st.Val) {
							replaced = true
						}
					}
				}
			}
			if !replaced {
				return false, "an existing requirement on " + c.key + " is left in place on the path [" + shortFacts(p) + "]: the reader returns the value of the first requirement with that key, whatever its operator", n
			}
		}
	}
	return true, "", n
}

func (c *c10Pin) pinnedAt(A *ssa.BasicBlock, before ssa.Instruction, depth int) (bool, string) {
	fn := c.fn
	// element stores into term.MatchFields anywhere must store the requirement
	for _, b := range fn.Blocks {
		for _, in := range b.Instrs {
			st, ok := in.(*ssa.Store)
			if !ok {
				continue
			}
			if ia, ok := st.Addr.(*ssa.IndexAddr); ok {
				if u, ok := ia.X.(*ssa.UnOp); ok && u.Op == token.MUL && c.isMF(u.X) && !c.isReq(st.Val) {
					return false, "an element of the rebuilt term's MatchFields is overwritten with something other than the requirement"
				}
			}
		}
	}
	if found, set, why := c.lastEvent(A, before, depth); found {
		return set, why
	}
	if len(A.Preds) == 0 {
		return false, "the requirement is never set on the term"
	}
	for _, q := range A.Preds {
		if found, set, why := c.lastEvent(q, nil, depth); found {
			if !set {
				return false, fmt.Sprintf("block %d: %s", q.Index, why)
			}
			continue
		}
		// edge taken under a found-flag that is set only where an element is replaced by the requirement?
		okEdge := false
		flagWhy := ""
		if iff, ok := q.Instrs[len(q.Instrs)-1].(*ssa.If); ok && len(q.Succs) == 2 && q.Succs[0] != q.Succs[1] {
			cond := iff.Cond
			pol := q.Succs[0] == A
			if u, ok := cond.(*ssa.UnOp); ok && u.Op == token.NOT {
				cond, pol = u.X, !pol
			}
			if ph, ok := cond.(*ssa.Phi); ok && pol {
				okFlag := true
				nTrue := 0
				carried := enclosingLoopHeaders(fn, A)
				seen := map[*ssa.Phi]bool{}
				var walk func(ph *ssa.Phi)
				walk = func(ph *ssa.Phi) {
					if seen[ph] {
						return
					}
					seen[ph] = true
					if carried[ph.Block()] {
						// the flag lives across iterations of a loop that encloses this point: its value at the
						// top of an iteration is unknown (true may stem from an earlier term)
						okFlag = false
						flagWhy = "the flag guarding the append is carried across iterations of the term loop (set for an earlier term, it skips the requirement for a later one)"
						return
					}
					for i, e := range ph.Edges {
						if bv, isC := constBool(e); isC {
							if bv {
								nTrue++
								if !c.replaceStoreIn(ph.Block().Preds[i]) {
									okFlag = false
								}
							}
							continue
						}
						if inner, isPhi := e.(*ssa.Phi); isPhi {
							walk(inner)
							continue
						}
						okFlag = false
					}
				}
				walk(ph)
				okEdge = okFlag && nTrue > 0
			}
		}
		if !okEdge && c.replacedByLoop(q, A) {
			okEdge = true
		}
		if !okEdge {
			if flagWhy != "" {
				return false, flagWhy
			}
			return false, fmt.Sprintf("reached from block %d without the requirement having been set, appended or (under a flag set only where it is) replaced", q.Index)
		}
	}
	return true, ""
}

// c10HelperPins: on every return path of the helper the MatchFields of its term parameter contain
// its requirement parameter.
func c10HelperPins(prog *Prog, fn *ssa.Function, ti, ri int, depth int, key string) (bool, string) {
	if ti >= len(fn.Params) || ri >= len(fn.Params) {
		return false, "unexpected signature"
	}
	term, req := fn.Params[ti], fn.Params[ri]
	isReq := func(v ssa.Value) bool {
		if v == ssa.Value(req) {
			return true
		}
		if u, ok := v.(*ssa.UnOp); ok && u.Op == token.MUL {
			if a, ok := u.X.(*ssa.Alloc); ok {
				if st, ro := readOnlyCopy(a); ro && st.Val == ssa.Value(req) {
					return true
				}
			}
		}
		return false
	}
	pin := &c10Pin{prog: prog, fn: fn, term: term, isReq: isReq, key: key}
	if ok, why, _ := pin.keyMatchesReplaced(); !ok {
		return false, why
	}
	n := 0
	for _, b := range fn.Blocks {
		ret := returnOf(b)
		if ret == nil {
			continue
		}
		n++
		if ok, why := pin.pinnedAt(b, ret, depth); !ok {
			return false, fmt.Sprintf("return at block %d: %s", b.Index, why)
		}
	}
	return n > 0, "no return"
}

// c10WritesFromParam: the function stores data derived from parameter idx into memory (a store or
// map update whose target is not one of its own variable cells), itself or through a repository callee.
func c10WritesFromParam(prog *Prog, fn *ssa.Function, idx int, depth int) bool {
	if idx >= len(fn.Params) || len(fn.Blocks) == 0 {
		return false
	}
	par := isParam(fn.Params[idx])
	for _, b := range fn.Blocks {
		for _, in := range b.Instrs {
			switch x := in.(type) {
			case *ssa.MapUpdate:
				if dependsOnV(x.Value, par) {
					return true
				}
			case *ssa.Store:
				if _, isCell := x.Addr.(*ssa.Alloc); !isCell && dependsOnV(x.Val, par) {
					return true
				}
			case *ssa.Call:
				cal := staticCallee(&x.Call)
				if cal == nil || !prog.IsRuleSite(cal) || depth >= 2 {
					continue
				}
				for ai, a := range x.Call.Args {
					if dependsOnV(a, par) && c10WritesFromParam(prog, cal, ai, depth+1) {
						return true
					}
				}
			}
		}
	}
	return false
}

// c10ProducerGuards: when val is (a field of) an element of a slice that is filled by appends — in fn
// or in the repository function that returns the slice — it returns the condition under which the
// elements are appended, as facts on the results of one lookup function (see c10GuardDNF).
func c10ProducerGuards(prog *Prog, fn *ssa.Function, val ssa.Value, takesNode func(*ssa.Function) bool) (F *ssa.Function, dnf [][]c10Atom, mixed, ok bool) {
	// element of which slice?
	var S ssa.Value
	root, _ := deepPath(val)
	switch x := root.(type) {
	case *ssa.Alloc: // range variable copy of S[i]
		if st, ro := readOnlyCopy(x); ro {
			if u, isL := st.Val.(*ssa.UnOp); isL && u.Op == token.MUL {
				if ia, isIA := u.X.(*ssa.IndexAddr); isIA {
					S = ia.X
				}
			}
		}
	}
	if S == nil {
		// direct S[i].f: deepPath walked through the element; find the innermost IndexAddr
		v := val
		for i := 0; i < 16 && v != nil; i++ {
			switch y := v.(type) {
			case *ssa.UnOp:
				v = y.X
			case *ssa.FieldAddr:
				v = y.X
			case *ssa.Field:
				v = y.X
			case *ssa.IndexAddr:
				S, v = y.X, nil
			default:
				v = nil
			}
		}
	}
	if S == nil {
		return nil, nil, false, false
	}
	type site struct {
		fn *ssa.Function
		b  *ssa.BasicBlock
	}
	var sites []site
	for _, o := range origins(S) {
		var rep ssa.Value
		in := fn
		switch y := o.(type) {
		case *ssa.Extract, *ssa.Call:
			var call *ssa.Call
			idx := 0
			if ex, isE := y.(*ssa.Extract); isE {
				call, _ = ex.Tuple.(*ssa.Call)
				idx = ex.Index
			} else {
				call = y.(*ssa.Call)
			}
			if call == nil {
				return nil, nil, false, false
			}
			if _, isAp := isBuiltinCall(call, "append"); isAp {
				// origins() looks through appends; a remaining append is a local accumulation step
				sites = append(sites, site{fn, call.Block()})
				continue
			}
			G := staticCallee(&call.Call)
			if G == nil || !prog.IsRuleSite(G) {
				return nil, nil, false, false
			}
			rv := singleReturn(G, idx)
			if rv == nil {
				return nil, nil, false, false
			}
			rep, in = c20RepOf(rv), G
			if rep == nil {
				return nil, nil, false, false
			}
		default:
			continue // initial empty values, element literals
		}
		_, steps, blocks := c20Accum(rep)
		if len(steps) == 0 {
			return nil, nil, false, false
		}
		for _, b := range blocks {
			sites = append(sites, site{in, b})
		}
	}
	if len(sites) == 0 {
		return nil, nil, false, false
	}
	for _, st := range sites {
		f2, d2, m2, ok2 := c10GuardDNF(prog, st.fn, st.b, takesNode)
		if !ok2 {
			return nil, nil, false, false
		}
		if f2 != nil {
			if F != nil && F != f2 {
				mixed = true
			}
			F = f2
		}
		mixed = mixed || m2
		dnf = append(dnf, d2...)
	}
	return F, dnf, mixed, true
}

// ---------------------------------------------------------------------------------------------
// R7: every container is resolved

// containerLoops: in the functions the constructor calls, a loop that walks a []corev1.Container and
// applies / looks up / collects a per-container override may be left before its end only on paths
// that have done that work for the current container (a search loop that stops after the match).
// Leaving it on another path (an error, a missing entry) abandons the containers that follow.
func (c *c10Ctx) containerLoops() {
	r := c.r
	isContainers := func(v ssa.Value) bool {
		sl, ok := v.Type().Underlying().(*types.Slice)
		return ok && typeName(sl.Elem()) == pkgCoreV1+".Container"
	}
	resPath := []string{"Spec", "Containers", "[]", "Resources"}
	n := 0
	for _, fn := range sortedFuncs(r.Prog.reachableFuncs(c.ctor)) {
		if !hasLoop(fn) {
			continue
		}
		k := newKeyer(fn)
		seenH := map[*ssa.BasicBlock]bool{}
		for _, b := range fn.Blocks {
			for _, in := range b.Instrs {
				ia, ok := in.(*ssa.IndexAddr)
				if !ok || !isContainers(ia.X) {
					continue
				}
				H, _ := indexLoopOver(k, ia.Index, ia.X)
				if H == nil || seenH[H] {
					continue
				}
				seenH[H] = true
				loop := loopBlocks(H)
				// the work done per container: stores of container resources, appends of non-error records
				isEvent := func(x ssa.Instruction) bool {
					switch y := x.(type) {
					case *ssa.Store:
						_, p := deepPath(y.Addr)
						return len(p) >= 2 && p[len(p)-1] == "Resources" && p[len(p)-2] == "[]" || hasPrefixPath(p, resPath)
					case *ssa.Call:
						if _, isAp := isBuiltinCall(y, "append"); isAp {
							if sl, isSl := y.Type().Underlying().(*types.Slice); isSl {
								return !types.Identical(sl.Elem(), types.Universe.Lookup("error").Type())
							}
						}
					}
					return false
				}
				relevant := false
				events := map[*ssa.BasicBlock]bool{}
				for lb := range loop {
					for _, li := range lb.Instrs {
						if isEvent(li) {
							events[lb] = true
							relevant = true
						}
						if call, isCall := li.(*ssa.Call); isCall {
							if cal := staticCallee(&call.Call); cal != nil && r.Prog.IsRuleSite(cal) {
								for _, a := range call.Call.Args {
									if isPtrToNamed(a.Type(), pkgCoreV1, "Node") {
										relevant = true
									}
								}
							}
						}
					}
				}
				// a search loop does its work in the block it breaks to: count that block's events too
				exitEvent := map[*ssa.BasicBlock]bool{}
				for lb := range loop {
					for _, t := range lb.Succs {
						if loop[t] || lb == H {
							continue
						}
						for _, li := range t.Instrs {
							if isEvent(li) {
								exitEvent[t] = true
								relevant = true
							}
						}
					}
				}
				if !relevant {
					continue
				}
				n++
				body := H.Succs[0]
				if !loop[body] {
					body = H.Succs[1]
				}
				okL, whyL := true, ""
				for lb := range loop {
					if lb == H {
						continue
					}
					for _, t := range lb.Succs {
						if loop[t] {
							continue
						}
						// every path body → lb passes an event block
						paths, okP := enumPaths(fn, k, body, func(x *ssa.BasicBlock) bool { return x == lb }, func(x *ssa.BasicBlock) bool { return x == H || x == lb || !loop[x] }, 2000)
						if !okP {
							okL, whyL = false, "undecided: path cap exceeded"
							continue
						}
						for _, p := range paths {
							done := exitEvent[t]
							for _, pb := range p.Blocks {
								if events[pb] {
									done = true
								}
							}
							if !done {
								okL = false
								whyL = fmt.Sprintf("the loop is left at %s on a path [%s] that has not applied the current container's override: the containers after it keep the setting/template resources although the node annotates them", r.Prog.Pos(instrPos(lb.Instrs[len(lb.Instrs)-1])), shortFacts(p))
							}
						}
					}
				}
				r.Check("C10.R7", fmt.Sprintf("container loop %d", len(seenH)), r.Prog.Pos(ia.Pos()), shortFunc(fn),
					"the loop over the template's containers is left early only after the current container's override was applied or collected", okL, whyL)
			}
		}
	}
	if n == 0 {
		r.Check("C10.R7", "container loops", r.Prog.Pos(c.ctor.Pos()), shortFunc(c.ctor), "the constructor's helpers resolve the resources container by container", false, "no loop over the template's containers found")
	}
}

// ---------------------------------------------------------------------------------------------
// R8: roles of the annotation-key components

// c10Role describes what a string stands for: "namespace" (of a replica set or of a pod created
// from it), "label:<key>" (of a replica set; a pod's label counts as the replica set's when R1 shows
// it is copied), "edsname", "container", or "other:<what>". Values are followed through parameters
// (every call site), struct fields filled by composite literals, and helper results.
func (c *c10Ctx) roleOf(v ssa.Value, depth int, seen map[ssa.Value]bool) map[string]bool {
	out := map[string]bool{}
	add := func(m map[string]bool) {
		for k := range m {
			out[k] = true
		}
	}
	if depth > 6 || seen[v] {
		return out
	}
	seen[v] = true
	r := c.r
	kindOf := func(x ssa.Value) string {
		t := x.Type()
		switch {
		case isPtrToNamed(t, pkgAPI, "ExtendedDaemonSetReplicaSet"):
			return "rs"
		case isPtrToNamed(t, pkgCoreV1, "Pod"):
			return "pod"
		case isPtrToNamed(t, pkgAPI, "ExtendedDaemonSet"):
			return "eds"
		}
		if strings.HasSuffix(typeName(t), pkgCoreV1+".Container") || typeName(t) == pkgCoreV1+".Container" {
			return "container"
		}
		return "other:" + typeName(t)
	}
	v = unwrap(v)
	for _, o := range origins(v) {
		switch x := o.(type) {
		case *ssa.Parameter:
			sites := r.Prog.callSitesAll(x.Parent())
			if len(sites) == 0 {
				out["other:parameter "+x.Name()+" of "+shortFunc(x.Parent())] = true
			}
			for _, s := range sites {
				if i := paramIndex(x); i < len(s.Common().Args) {
					add(c.roleOf(s.Common().Args[i], depth+1, seen))
				}
			}
		case *ssa.Lookup, *ssa.Extract:
			var l *ssa.Lookup
			if ex, isE := x.(*ssa.Extract); isE {
				l, _ = ex.Tuple.(*ssa.Lookup)
				if l == nil || ex.Index != 0 {
					if call, isCall := ex.Tuple.(*ssa.Call); isCall {
						if cal := staticCallee(&call.Call); cal != nil && r.Prog.IsRuleSite(cal) {
							if rv := singleReturn(cal, ex.Index); rv != nil {
								add(c.roleOf(rv, depth+1, seen))
								continue
							}
						}
					}
					out["other:"+o.String()] = true
					continue
				}
			} else {
				l = x.(*ssa.Lookup)
			}
			key, isC := constString(l.Index)
			root, p := accessPath(l.X)
			if gc, isCall := unwrap(l.X).(*ssa.Call); isCall && strings.HasSuffix(calleeName(&gc.Call), ".GetLabels") && len(gc.Call.Args) == 1 {
				root, p = accessPath(gc.Call.Args[0])
				p = append(p, "Labels")
			}
			if !isC || len(p) == 0 || p[len(p)-1] != "Labels" {
				out["other:"+o.String()] = true
				continue
			}
			switch kindOf(root) {
			case "rs":
				out["label:"+key] = true
			case "pod":
				if key == c.edsKey { // R1: the pod's label is the replica set's
					out["label:"+key] = true
				} else {
					out["podlabel:"+key] = true
				}
			default:
				out["other:label "+key+" of "+kindOf(root)] = true
			}
		case *ssa.Call:
			n := calleeName(&x.Call)
			if (strings.HasSuffix(n, ".GetNamespace") || strings.HasSuffix(n, ".GetName")) && len(x.Call.Args) == 1 {
				root, _ := accessPath(x.Call.Args[0])
				what := "name"
				if strings.HasSuffix(n, ".GetNamespace") {
					what = "namespace"
				}
				out[c10FieldRole(kindOf(root), what)] = true
				continue
			}
			if cal := staticCallee(&x.Call); cal != nil && r.Prog.IsRuleSite(cal) {
				if rv := singleReturn(cal, 0); rv != nil {
					add(c.roleOf(rv, depth+1, seen))
					continue
				}
			}
			out["other:"+n] = true
		case *ssa.UnOp:
			root, p := accessPathThroughCopies(x)
			sp := stripMeta(p)
			switch {
			case len(sp) == 1 && (sp[0] == "Name" || sp[0] == "Namespace"):
				out[c10FieldRole(kindOf(root), strings.ToLower(sp[0]))] = true
			case len(sp) > 1 && (sp[len(sp)-1] == "Name" || sp[len(sp)-1] == "Namespace") && metaFieldOwner(x, sp[len(sp)-1]) != nil:
				// the object is itself reached through fields (params.Replicaset.Namespace): its kind is its type
				out[c10FieldRole(kindOf(metaFieldOwner(x, sp[len(sp)-1])), strings.ToLower(sp[len(sp)-1]))] = true
			case len(sp) >= 1:
				// a field of a configuration struct: what is stored into that field anywhere in the repository
				fa, _ := x.X.(*ssa.FieldAddr)
				if fa == nil {
					out["other:"+o.String()] = true
					continue
				}
				owner, fname := typeName(fa.X.Type()), fieldName(fa)
				found := false
				for _, f := range r.Prog.RepoFuncs() {
					for _, b := range f.Blocks {
						for _, in := range b.Instrs {
							st, isSt := in.(*ssa.Store)
							if !isSt {
								continue
							}
							if fa2, isFA := st.Addr.(*ssa.FieldAddr); isFA && fieldName(fa2) == fname && typeName(fa2.X.Type()) == owner {
								found = true
								add(c.roleOf(st.Val, depth+1, seen))
							}
						}
					}
				}
				if !found {
					out["other:field "+fname+" of "+owner] = true
				}
			default:
				out["other:"+o.String()] = true
			}
		case *ssa.Const:
			out["const"] = true
		default:
			out["other:"+o.String()] = true
		}
	}
	return out
}

func c10FieldRole(kind, what string) string {
	switch {
	case what == "namespace" && (kind == "rs" || kind == "pod"):
		return "namespace"
	case what == "name" && kind == "eds":
		return "edsname"
	case what == "name" && kind == "container":
		return "container"
	}
	return "other:" + what + " of " + kind
}

func (c *c10Ctx) keyRoles() {
	r := c.r
	format, ok := r.Prog.constStr(pkgAPI, "ExtendedDaemonSetRessourceNodeAnnotationKey")
	if !ok {
		r.Fatal("anchor constant %s.ExtendedDaemonSetRessourceNodeAnnotationKey not found", pkgAPI)
		return
	}
	// the replica set's extendeddaemonset-name label is the ExtendedDaemonSet's name (replica-set constructor)
	edsLabelIsName := false
	for _, fn := range r.Prog.RepoFuncs() {
		for _, b := range fn.Blocks {
			for _, in := range b.Instrs {
				mu, isMU := in.(*ssa.MapUpdate)
				if !isMU {
					continue
				}
				if k, isC := constString(mu.Key); !isC || k != c.edsKey {
					continue
				}
				if _, isMM := mu.Map.(*ssa.MakeMap); !isMM {
					continue
				}
				if nameOf(func(x ssa.Value) bool { return isPtrToNamed(x.Type(), pkgAPI, "ExtendedDaemonSet") })(mu.Value) {
					// the map becomes the Labels of a replica set literal
					for _, rr := range refs(mu.Map) {
						if st, isSt := rr.(*ssa.Store); isSt && st.Val == mu.Map {
							root, p := accessPath(st.Addr)
							if len(p) > 0 && p[len(p)-1] == "Labels" && isPtrToNamed(root.Type(), pkgAPI, "ExtendedDaemonSetReplicaSet") {
								edsLabelIsName = true
							}
						}
					}
					// … or is returned by a helper whose result becomes the Labels of a replica set literal
					returned := len(fn.Blocks) > 0
					nret := 0
					for _, rb := range fn.Blocks {
						if ret := returnOf(rb); ret != nil {
							nret++
							if len(ret.Results) != 1 || unwrap(ret.Results[0]) != ssa.Value(mu.Map) {
								returned = false
							}
						}
					}
					if returned && nret > 0 {
						all := map[*ssa.Function]bool{}
						for _, f := range r.Prog.RepoFuncs() {
							all[f] = true
						}
						for _, cs := range callSitesOf(fn, all) {
							cv, isV := cs.(ssa.Value)
							if !isV {
								continue
							}
							for _, rr := range refs(cv) {
								if st, isSt := rr.(*ssa.Store); isSt && st.Val == cv {
									root, p := accessPath(st.Addr)
									if len(p) > 0 && p[len(p)-1] == "Labels" && isPtrToNamed(root.Type(), pkgAPI, "ExtendedDaemonSetReplicaSet") {
										edsLabelIsName = true
									}
								}
							}
						}
					}
				}
			}
		}
	}
	canon := func(role string) string {
		if role == "edsname" && edsLabelIsName {
			return "label:" + c.edsKey
		}
		return role
	}
	type use struct {
		roles map[string]bool
		where string
	}
	byPos := map[int][]use{}
	nFormat := 0
	for _, fn := range r.Prog.RepoFuncs() {
		for _, ci := range callsIn(fn) {
			call, isCall := ci.(*ssa.Call)
			if !isCall || calleeName(&call.Call) != "fmt.Sprintf" || len(call.Call.Args) != 2 {
				continue
			}
			if f, isC := constString(call.Call.Args[0]); !isC || f != format {
				continue
			}
			nFormat++
			arr := sliceLit(call.Call.Args[1])
			if arr == nil {
				r.Undecided("C10.R8", "key format arguments", r.Prog.Pos(call.Pos()), shortFunc(fn), "the arguments of the key format are not a literal list")
				continue
			}
			els, okE := litElems(arr)
			if !okE {
				r.Undecided("C10.R8", "key format arguments", r.Prog.Pos(call.Pos()), shortFunc(fn), "the arguments of the key format are not a literal list")
				continue
			}
			for i, e := range els {
				if e.val == nil {
					continue
				}
				roles := c.roleOf(e.val, 0, map[ssa.Value]bool{})
				cr := map[string]bool{}
				for k := range roles {
					cr[canon(k)] = true
				}
				byPos[i] = append(byPos[i], use{cr, shortFunc(fn)})
			}
		}
	}
	if nFormat < 2 {
		r.Check("C10.R8", "key format uses", r.Prog.Pos(c.ctor.Pos()), shortFunc(c.ctor), "the resources-annotation key is formatted by the lookup and by the hash function", false, fmt.Sprintf("%d uses of the key format found", nFormat))
		return
	}
	var poss []int
	for i := range byPos {
		poss = append(poss, i)
	}
	sort.Ints(poss)
	names := []string{"namespace component", "ExtendedDaemonSet-name component", "container component"}
	for _, i := range poss {
		all := map[string]bool{}
		var ds []string
		for _, u := range byPos[i] {
			var ks []string
			for k := range u.roles {
				if k != "const" {
					all[k] = true
				}
				ks = append(ks, k)
			}
			sort.Strings(ks)
			ds = append(ds, u.where+": {"+strings.Join(ks, ", ")+"}")
		}
		label := fmt.Sprintf("component %d", i)
		if i < len(names) {
			label = names[i]
		}
		okR := len(all) <= 1
		for k := range all {
			if strings.HasPrefix(k, "other:") || strings.HasPrefix(k, "podlabel:") {
				okR = false
			}
		}
		sort.Strings(ds)
		detail := strings.Join(ds, "; ")
		if len(detail) > 600 {
			detail = detail[:600] + "…"
		}
		r.Check("C10.R8", "key "+label, r.Prog.Pos(c.ctor.Pos()), shortFunc(c.ctor),
			"over all call chains, this component of the node resources-annotation key is always the same thing (so the comparison looks up and hashes the annotations the constructor applied)", okR, detail)
	}
}

// ---------------------------------------------------------------------------------------------
// R9: the comparison does not discard pod data

// comparisonKeepsPodData: the comparison overlays the setting onto a copy of the pod spec and compares
// the copy with the pod. Installing a fresh (empty) map or slice in the copy where one already exists
// drops the pod's own entries, so a pod that was just created from the same inputs is judged outdated
// (and deleted and recreated forever). Hence: in the functions of the comparison, a store of a fresh
// map/slice into memory (not into a local variable) must be guarded by the must-fact that the very
// location is nil.
func (c *c10Ctx) comparisonKeepsPodData() {
	r := c.r
	top := c10Comparator(r)
	if top == nil {
		return
	}
	n := 0
	for _, fn := range sortedFuncs(r.Prog.reachableFuncs(top)) {
		var ff *FuncFacts
		idx := 0
		for _, b := range fn.Blocks {
			for _, in := range b.Instrs {
				st, ok := in.(*ssa.Store)
				if !ok {
					continue
				}
				switch st.Val.(type) {
				case *ssa.MakeMap, *ssa.MakeSlice:
				default:
					continue
				}
				if _, isCell := st.Addr.(*ssa.Alloc); isCell {
					continue // a local variable
				}
				if ff == nil {
					ff = computeFacts(fn)
				}
				idx++
				n++
				key := ff.K.key(st.Addr)
				guarded := ff.Holds(b, true, func(v ssa.Value, _ string) bool {
					return isNilCompareOf(v, func(y ssa.Value) bool {
						u, isL := y.(*ssa.UnOp)
						return isL && u.Op == token.MUL && ff.K.key(u.X) == key
					})
				})
				r.Check("C10.R9", fmt.Sprintf("fresh container store %d", idx), r.Prog.Pos(instrPos(st)), shortFunc(fn),
					"a fresh map/slice is installed only where the location is known to be nil", guarded,
					"the store replaces "+pathString(st.Addr)+" without the fact that it is nil: the entries the pod already has there are dropped from the compared copy, the pod never equals its own overlay and is deleted and recreated on every sync")
			}
		}
	}
	if n == 0 {
		o := r.Check("C10.R9", "fresh container stores", r.Prog.Pos(top.Pos()), shortFunc(top), "no fresh map/slice is installed by the comparison", true, "")
		o.Trivial = true
	}
}

// c10Comparator returns the "is this pod up to date" predicate, found by what it does (see
// Prog.podComparators): the top-most bool function of the strategy package that takes a pod and looks
// the template-hash annotation up. nil (with a fatal report) unless there is exactly one.
func c10Comparator(r *Run) *ssa.Function {
	fns := sortedFuncs(r.Prog.podComparators())
	if len(fns) != 1 {
		var names []string
		for _, f := range fns {
			names = append(names, shortFunc(f))
		}
		r.Fatal("the pod/replica-set comparison is not uniquely identified (%d candidates: %s)", len(fns), strings.Join(names, ", "))
		return nil
	}
	return fns[0]
}
