package main

// C12 — an ExtendedDaemonSet only ever touches its own objects.

import (
	"fmt"
	"go/token"
	"go/types"
	"sort"
	"strings"

	"golang.org/x/tools/go/ssa"
)

func init() {
	register("C12", "Decides who-may-write and list-scope structure: (R1) the set of API write effects reachable from each of the four Reconcile entry points is within a fixed table; (R2) every List of a namespaced kind reachable from a reconciler carries, on every path that builds its options, a namespace restriction deriving from an object's namespace, and replica-set/pod lists also a label restriction binding the ExtendedDaemonSet-name or replica-set-name label key to an object's name (or, for the migration list, an owner-reference filter, R3); (R4) constructors of created objects and Get keys take the namespace from an object/request, never a constant; (R6) the parent of a replica set is looked up only from an owner reference of kind ExtendedDaemonSet; (R7) the owner-linking labels are written after any copy of user labels into the same map.", runC12)
}

var reconcilerPkgs = map[string]string{"EDS": pkgEDS, "ERS": pkgERS, "Setting": pkgSetting, "PodTemplate": pkgPodTpl}

func reconcileEntries(r *Run) map[string]*ssa.Function {
	out := map[string]*ssa.Function{}
	for name, pkg := range reconcilerPkgs {
		fn := r.Prog.Method(pkg, "Reconciler", "Reconcile")
		if fn == nil {
			r.Fatal("anchor (%s.Reconciler).Reconcile not found", pkg)
			continue
		}
		out[name] = fn
	}
	return out
}

var c12Allowed = map[string]map[string]bool{
	"EDS":         {"Update(ExtendedDaemonSet)": true, "Status.Update(ExtendedDaemonSet)": true, "Create(ExtendedDaemonSetReplicaSet)": true, "Delete(ExtendedDaemonSetReplicaSet)": true},
	"ERS":         {"Create(Pod)": true, "Delete(Pod)": true, "Patch(Pod)": true, "Status.Update(ExtendedDaemonSetReplicaSet)": true},
	"Setting":     {"Status.Update(ExtendedDaemonsetSetting)": true},
	"PodTemplate": {"Create(PodTemplate)": true, "Update(PodTemplate)": true},
}

// kinds whose List must be namespace-scoped; value true = also needs an owner label restriction.
var c12Namespaced = map[string]bool{
	repoMod + "/api/v1alpha1.ExtendedDaemonSetReplicaSetList": true,
	pkgCoreV1 + ".PodList":                                 true,
	repoMod + "/api/v1alpha1.ExtendedDaemonsetSettingList": false,
	repoMod + "/api/v1alpha1.ExtendedDaemonSetList":        false,
	pkgCoreV1 + ".PodTemplateList":                         false,
	"k8s.io/api/apps/v1.DaemonSetList":                     false,
}
var c12ClusterScoped = map[string]bool{pkgCoreV1 + ".NodeList": true}

type listOption struct {
	kind    string               // namespace | labels | selector-object | other
	ns      ssa.Value            // namespace payload
	entries map[string]ssa.Value // label key -> value
	desc    string
}

// mapLiteralEntries returns the constant-keyed entries written into a map literal.
func mapLiteralEntries(v ssa.Value) map[string]ssa.Value {
	v = unwrap(v)
	mm, ok := v.(*ssa.MakeMap)
	if !ok {
		return nil
	}
	out := map[string]ssa.Value{}
	for _, r := range refs(mm) {
		if mu, ok := r.(*ssa.MapUpdate); ok && mu.Map == ssa.Value(mm) {
			if k, ok := constString(mu.Key); ok {
				out[k] = mu.Value
			} else {
				out["<dynamic>"] = mu.Value
			}
		}
	}
	return out
}

// fieldStores returns the values stored into field `name` of the struct a points to.
func fieldStores(a ssa.Value, name string) []ssa.Value {
	var out []ssa.Value
	for _, r := range refs(a) {
		if fa, ok := r.(*ssa.FieldAddr); ok && fieldName(fa) == name {
			for _, r2 := range refs(fa) {
				if st, ok := r2.(*ssa.Store); ok && st.Addr == ssa.Value(fa) {
					out = append(out, st.Val)
				}
			}
		}
	}
	return out
}

func classifyListOption(v ssa.Value) listOption {
	mi, ok := v.(*ssa.MakeInterface)
	if !ok {
		return listOption{kind: "other", desc: v.String()}
	}
	tn := typeName(mi.X.Type())
	x := mi.X
	// value-typed struct options are loaded from a local alloc
	structBase := func() ssa.Value {
		if u, ok := x.(*ssa.UnOp); ok && u.Op == token.MUL {
			return u.X
		}
		return x
	}
	switch tn {
	case pkgClient + ".InNamespace":
		return listOption{kind: "namespace", ns: unwrap(x), desc: "InNamespace"}
	case pkgClient + ".MatchingLabels":
		return listOption{kind: "labels", entries: mapLiteralEntries(x), desc: "MatchingLabels"}
	case pkgClient + ".MatchingLabelsSelector":
		sels := fieldStores(structBase(), "Selector")
		o := listOption{kind: "selector-object", desc: "MatchingLabelsSelector"}
		for _, s := range sels {
			if c, ok := unwrap(s).(*ssa.Call); ok && strings.HasSuffix(calleeName(&c.Call), "labels.Set).AsSelectorPreValidated") || ok && strings.HasSuffix(calleeName(&c.Call), "labels.Set).AsSelector") {
				o.kind = "labels"
				o.entries = mapLiteralEntries(c.Call.Args[0])
			} else if c, ok := unwrap(s).(*ssa.Call); ok && strings.HasSuffix(calleeName(&c.Call), "labels.SelectorFromSet") {
				o.kind = "labels"
				o.entries = mapLiteralEntries(c.Call.Args[0])
			}
		}
		return o
	case pkgClient + ".ListOptions":
		o := listOption{kind: "other", desc: "ListOptions"}
		for _, s := range fieldStores(structBase(), "Namespace") {
			o.kind = "namespace"
			o.ns = s
		}
		return o
	}
	return listOption{kind: "other", desc: tn}
}

func namespaceLike(v ssa.Value) bool {
	v = unwrap(v)
	if c, ok := v.(*ssa.Call); ok {
		return strings.HasSuffix(calleeName(&c.Call), ".GetNamespace")
	}
	_, p := accessPath(v)
	return len(p) > 0 && p[len(p)-1] == "Namespace"
}

func nameLike(v ssa.Value) bool {
	v = unwrap(v)
	if c, ok := v.(*ssa.Call); ok {
		return strings.HasSuffix(calleeName(&c.Call), ".GetName")
	}
	_, p := accessPath(v)
	return len(p) > 0 && p[len(p)-1] == "Name"
}

func runC12(r *Run) {
	r.RuleDoc("C12.R1", "API write effects reachable from each Reconcile are within the allowed table")
	r.RuleDoc("C12.R2", "every List of a namespaced kind is namespace-scoped (and owner-label-scoped for replica sets and pods) on every path")
	r.RuleDoc("C12.R3", "pods of the migrated DaemonSet are kept only under an owner reference Kind==DaemonSet ∧ Name==annotation value")
	r.RuleDoc("C12.R4", "constructed objects and Get keys take their namespace from an object or the request")
	r.RuleDoc("C12.R6", "the parent ExtendedDaemonSet is looked up only from an owner reference of kind ExtendedDaemonSet")
	r.Floor("C12.R1", 8)
	r.Floor("C12.R2", 6)
	r.Floor("C12.R3", 1)
	r.Floor("C12.R4", 5)
	r.Floor("C12.R6", 1)
	r.RuleDoc("C12.R8", "a created pod carries the parent's namespace, both owner-linking labels and the controller reference on every path of the constructor (last writer at every return)")
	r.Floor("C12.R8", 4)
	r.ImportFromIf(runC10, map[string]string{"C10.R1": "C12.R8"}, nil, func(o *Obligation) bool {
		// the part of the constructor's last-writer table that links the pod to its owner
		return strings.HasSuffix(o.Key, "|namespace") || strings.Contains(o.Key, "|label ") || strings.HasSuffix(o.Key, "|owner reference")
	})
	r.NotCovered("run-time behaviour of populations of objects; provenance of every object handed to Delete/Patch/Update (partly covered by R2: they come from scoped lists); interleavings of reconciles")

	entries := reconcileEntries(r)
	var names []string
	for n := range entries {
		names = append(names, n)
	}
	sort.Strings(names)
	edsKey, _ := r.Prog.constStr(pkgAPI, "ExtendedDaemonSetNameLabelKey")
	ersKey, _ := r.Prog.constStr(pkgAPI, "ExtendedDaemonSetReplicaSetNameLabelKey")
	oldDSKey, _ := r.Prog.constStr(pkgAPI, "ExtendedDaemonSetOldDaemonsetAnnotationKey")

	seenList := map[ssa.Instruction]bool{}
	seenCreate := map[*ssa.Function]bool{}
	for _, name := range names {
		entry := entries[name]
		reach := r.Prog.reachableFuncs(entry)
		effs := effectsOf(reach)
		writes := map[string]*Effect{}
		for _, e := range effs {
			if isWriteVerb(e.Verb) {
				s := e.String()
				if _, ok := writes[s]; !ok {
					writes[s] = e
				}
			}
		}
		var ws []string
		for s := range writes {
			ws = append(ws, s)
		}
		sort.Strings(ws)
		for _, s := range ws {
			e := writes[s]
			r.Check("C12.R1", name+" "+s, r.Prog.Pos(e.Call.Pos()), shortFunc(e.Fn),
				"write effect must be one of the documented effects of the "+name+" reconciler", c12Allowed[name][s],
				fmt.Sprintf("%s reachable from %s", s, shortFunc(entry)))
		}
		// every occurrence of a non-allowed write is reported at its own site too
		for _, e := range effs {
			if isWriteVerb(e.Verb) && !c12Allowed[name][e.String()] && writes[e.String()] != e {
				r.Check("C12.R1", name+" "+e.String(), r.Prog.Pos(e.Call.Pos()), shortFunc(e.Fn), "write effect must be one of the documented effects of the "+name+" reconciler", false, "additional site")
			}
		}

		for _, e := range effs {
			switch e.Verb {
			case "List":
				if seenList[e.Call] {
					continue
				}
				seenList[e.Call] = true
				c12ListScope(r, e, edsKey, ersKey, oldDSKey)
			case "Get":
				c12GetKey(r, e)
			case "Create":
				c12Constructor(r, e, reach, seenCreate)
			}
		}
		if name == "ERS" {
			c12OwnerLookup(r, effs, reach)
		}
	}
	c12ReservedLabelPrecedence(r)
}

func c12ListScope(r *Run, e *Effect, edsKey, ersKey, oldDSKey string) {
	fn := e.Fn
	pos := r.Prog.Pos(e.Call.Pos())
	construct := "List(" + shortKind(e.Kind) + ")"
	if c12ClusterScoped[e.Kind] {
		o := r.Check("C12.R2", construct, pos, shortFunc(fn), "cluster-scoped kind needs no namespace", true, "")
		o.Trivial = true
		return
	}
	needLabel, known := c12Namespaced[e.Kind]
	if !known {
		r.Undecided("C12.R2", construct, pos, shortFunc(fn), "kind "+e.Kind+" is not in the namespaced/cluster-scoped table")
		return
	}
	args := e.Call.Common().Args
	opts := args[len(args)-1]
	alts, ok := sliceAlternatives(opts)
	if !ok {
		r.Undecided("C12.R2", construct, pos, shortFunc(fn), "list options are not built from literals/append in this function")
		return
	}
	ownerFiltered := false
	if needLabel && e.Kind == pkgCoreV1+".PodList" {
		ownerFiltered = c12OwnerRefFilter(r, e, oldDSKey, false)
	}
	for i, alt := range alts {
		hasNS, hasLabel := false, false
		var descs []string
		nsDetail := ""
		for _, el := range alt {
			o := classifyListOption(el)
			descs = append(descs, o.desc)
			switch o.kind {
			case "namespace":
				if _, isConst := constString(o.ns); isConst {
					nsDetail = "namespace is a constant"
				} else if r.Prog.dependsOnIP(o.ns, namespaceLike) {
					hasNS = true
				} else {
					nsDetail = "namespace does not derive from an object's namespace"
				}
			case "labels":
				for k, v := range o.entries {
					if (k == edsKey || k == ersKey) && r.Prog.dependsOnIP(v, nameLike) {
						hasLabel = true
					}
				}
			}
		}
		need := "namespace restriction deriving from the owner's namespace"
		okAll := hasNS
		if needLabel {
			need += " and a label restriction on the ExtendedDaemonSet/replica-set name label (or the DaemonSet owner-reference filter)"
			okAll = okAll && (hasLabel || ownerFiltered)
		}
		detail := fmt.Sprintf("options on alternative %d: [%s] namespace=%v label=%v ownerRefFilter=%v %s", i, strings.Join(descs, ", "), hasNS, hasLabel, ownerFiltered, nsDetail)
		r.Check("C12.R2", fmt.Sprintf("%s options alt%d", construct, i), pos, shortFunc(fn), need, okAll, detail)
	}
	if needLabel && e.Kind == pkgCoreV1+".PodList" {
		// record the owner-reference filter as its own obligation where it is relied upon
		lab := false
		for _, alt := range alts {
			for _, el := range alt {
				if o := classifyListOption(el); o.kind == "labels" {
					for k := range o.entries {
						if k == edsKey || k == ersKey {
							lab = true
						}
					}
				}
			}
		}
		if !lab {
			c12OwnerRefFilter(r, e, oldDSKey, true)
		}
	}
}

// appendCallsOf collects the builtin append calls in the backward closure of v.
func appendCallsOf(v ssa.Value) []*ssa.Call {
	var out []*ssa.Call
	seen := map[ssa.Value]bool{}
	var rec func(v ssa.Value)
	rec = func(v ssa.Value) {
		if v == nil || seen[v] {
			return
		}
		seen[v] = true
		switch x := v.(type) {
		case *ssa.Phi:
			for _, e := range x.Edges {
				rec(e)
			}
		case *ssa.Call:
			if b, ok := x.Call.Value.(*ssa.Builtin); ok && b.Name() == "append" {
				out = append(out, x)
				rec(x.Call.Args[0])
			}
		case *ssa.Slice:
			rec(x.X)
		case *ssa.UnOp:
			if a, ok := x.X.(*ssa.Alloc); ok && x.Op == token.MUL {
				for _, rr := range refs(a) {
					if st, ok := rr.(*ssa.Store); ok && st.Addr == ssa.Value(a) {
						rec(st.Val)
					}
				}
			}
		}
	}
	rec(v)
	return out
}

// c12OwnerRefFilter checks that the listed pods are replaced by a filtered slice whose elements
// are appended only under (ref.Kind=="DaemonSet" ∧ ref.Name==<old-daemonset annotation value>).
func c12OwnerRefFilter(r *Run, e *Effect, oldDSKey string, record bool) bool {
	fn := e.Fn
	ff := computeFacts(fn)
	listObj := unwrap(e.Obj)
	stores := 0
	okAll := true
	why := ""
	guardedAppend := func(ap *ssa.Call) bool {
		guarded := false
		for _, f := range ff.At(ap.Block()) {
			if !f.Pol {
				continue
			}
			sets, okFlag := r.Prog.trueAlternatives(fn, f.V, ap.Block(), 0)
			if !okFlag || len(sets) == 0 {
				continue
			}
			all := true
			for _, s := range sets {
				kindOK := s.any(true, func(v ssa.Value, _ string) bool {
					return isEqCompare(v, loadOfPath(nil, "Kind"), isConstStringVal("DaemonSet"))
				})
				nameOK := s.any(true, func(v ssa.Value, _ string) bool {
					return isEqCompare(v, loadOfPath(nil, "Name"), func(x ssa.Value) bool {
						return r.Prog.dependsOnIP(x, func(y ssa.Value) bool {
							ex, isE := y.(*ssa.Extract)
							if !isE {
								return false
							}
							l, isL := ex.Tuple.(*ssa.Lookup)
							if !isL {
								return false
							}
							s, okc := constString(l.Index)
							// the declaration is read from the ExtendedDaemonSet (the live object), not
							// from a copy of its annotations kept on another object
							return okc && s == oldDSKey && annotationsOwnedBy(l.X, "ExtendedDaemonSet")
						})
					})
				})
				if !kindOK || !nameOK {
					all = false
				}
			}
			if all {
				guarded = true
			}
		}
		return guarded
	}
	for _, b := range fn.Blocks {
		for _, in := range b.Instrs {
			st, ok := in.(*ssa.Store)
			if !ok {
				continue
			}
			fa, ok := st.Addr.(*ssa.FieldAddr)
			if !ok || fieldName(fa) != "Items" || unwrap(fa.X) != listObj {
				continue
			}
			stores++
			apps := appendCallsOf(st.Val)
			if len(apps) == 0 {
				okAll = false
				why = "Items replaced by a value that is not built by append"
			}
			for _, ap := range apps {
				if !guardedAppend(ap) {
					okAll = false
					why = "an element is appended to the kept pods without the owner-reference test (Kind==\"DaemonSet\" ∧ Name==old-daemonset annotation)"
				}
			}
		}
	}
	if stores == 0 {
		// second shape: the listed object stays local and its items leave the function only by
		// being appended, one by one, to another list under the owner-reference test
		okAll, why = c12ItemsLeaveOnlyFiltered(fn, listObj, guardedAppend)
	}
	if record {
		r.Check("C12.R3", "owner-reference filter of listed pods", r.Prog.Pos(e.Call.Pos()), shortFunc(fn),
			"pods listed without an owner-name label are kept only under ref.Kind==\"DaemonSet\" ∧ ref.Name==annotation value", okAll, why)
	}
	return okAll
}

func c12GetKey(r *Run, e *Effect) {
	c12GetKeyValue(r, e, e.Call.Common().Args[1], 0)
}

// c12GetKeyValue checks one value that can be the key of the Get; a key received as a parameter
// is checked at every call site of the function.
func c12GetKeyValue(r *Run, e *Effect, key ssa.Value, depth int) {
	fn := e.Fn
	pos := r.Prog.Pos(e.Call.Pos())
	construct := "Get(" + shortKind(e.Kind) + ") key"
	if pr, isP := key.(*ssa.Parameter); isP && depth < 3 {
		args := r.Prog.stepOut(pr)
		if len(args) > 0 {
			for _, a := range args {
				c12GetKeyValue(r, e, a, depth+1)
			}
			return
		}
	}
	// request.NamespacedName
	if hasPathSuffix(key, "NamespacedName") {
		root, _ := accessPath(key)
		_, isParam := root.(*ssa.Parameter)
		if a, isA := root.(*ssa.Alloc); isA { // address-taken parameter copy
			for _, rr := range refs(a) {
				if st, isSt := rr.(*ssa.Store); isSt && st.Addr == ssa.Value(a) {
					_, isParam = st.Val.(*ssa.Parameter)
				}
			}
		}
		o := r.Check("C12.R4", construct, pos, shortFunc(fn), "key is the request's namespaced name", isParam, pathString(key))
		o.Trivial = true
		return
	}
	// composite NamespacedName / ObjectKey literal: load of a local alloc
	if u, ok := key.(*ssa.UnOp); ok && u.Op == token.MUL {
		ns := fieldStores(u.X, "Namespace")
		ok2 := len(ns) > 0
		detail := ""
		for _, v := range ns {
			if _, isC := constString(v); isC || !dependsOn(v, namespaceLike) {
				ok2 = false
				detail = "namespace of the key is " + v.String()
			}
		}
		if len(ns) == 0 {
			detail = "key has no namespace"
		}
		r.Check("C12.R4", construct, pos, shortFunc(fn), "key namespace derives from an object's namespace", ok2, detail)
		return
	}
	r.Undecided("C12.R4", construct, pos, shortFunc(fn), "key is built in a way the rule does not recognise: "+key.String())
}

// c12Constructor: the object handed to Create is built by a function in which every store to a
// Namespace field takes the namespace of a parameter object.
func c12Constructor(r *Run, e *Effect, reach map[*ssa.Function]bool, seen map[*ssa.Function]bool) {
	var ctors []*ssa.Function
	for _, o := range origins(e.Obj) {
		switch x := o.(type) {
		case *ssa.Alloc:
			ctors = append(ctors, e.Fn)
		case *ssa.Extract:
			if c, ok := x.Tuple.(*ssa.Call); ok {
				if cal := staticCallee(&c.Call); cal != nil && r.Prog.IsRuleSite(cal) {
					ctors = append(ctors, cal)
				}
			}
		case *ssa.Call:
			if cal := staticCallee(&x.Call); cal != nil && r.Prog.IsRuleSite(cal) {
				ctors = append(ctors, cal)
			}
		}
	}
	pos := r.Prog.Pos(e.Call.Pos())
	if len(ctors) == 0 {
		r.Undecided("C12.R4", "Create("+shortKind(e.Kind)+") constructor", pos, shortFunc(e.Fn), "created object does not come from a local allocation or a repository constructor")
		return
	}
	for _, ctor := range ctors {
		if seen[ctor] {
			continue
		}
		seen[ctor] = true
		n := 0
		ok := true
		detail := ""
		for _, cf := range r.Prog.calleesWithin(ctor, 2) {
			for _, b := range cf.Blocks {
				for _, in := range b.Instrs {
					st, isSt := in.(*ssa.Store)
					if !isSt {
						continue
					}
					fa, isFA := st.Addr.(*ssa.FieldAddr)
					if !isFA || fieldName(fa) != "Namespace" {
						continue
					}
					n++
					if _, isC := constString(st.Val); isC || !r.Prog.dependsOnIP(st.Val, namespaceLike) {
						ok = false
						detail = "Namespace stored from " + st.Val.String() + " in " + shortFunc(cf)
					}
				}
			}
		}
		if n == 0 {
			ok = false
			detail = "constructor stores no Namespace"
		}
		r.Check("C12.R4", "constructor namespace for "+shortKind(e.Kind), r.Prog.Pos(ctor.Pos()), shortFunc(ctor),
			"object built for Create takes Namespace from a parameter object (the owner)", ok, detail)
	}
}

// c12OwnerLookup: the Get of the parent ExtendedDaemonSet uses a name that comes from a function
// returning an owner reference's Name only under ref.Kind=="ExtendedDaemonSet".
func c12OwnerLookup(r *Run, effs []*Effect, reach map[*ssa.Function]bool) {
	for _, e := range effs {
		if e.Verb != "Get" || shortKind(e.Kind) != "ExtendedDaemonSet" {
			continue
		}
		key := e.Call.Common().Args[1]
		u, ok := key.(*ssa.UnOp)
		if !ok {
			continue
		}
		for _, nv := range fieldStores(u.X, "Name") {
			var lookup *ssa.Function
			for _, o := range origins(nv) {
				if ex, isE := o.(*ssa.Extract); isE {
					if c, isC := ex.Tuple.(*ssa.Call); isC {
						lookup = staticCallee(&c.Call)
					}
				}
			}
			pos := r.Prog.Pos(e.Call.Pos())
			if lookup == nil || !r.Prog.IsRuleSite(lookup) {
				r.Undecided("C12.R6", "parent lookup", pos, shortFunc(e.Fn), "name of the parent key does not come from an owner-reference lookup function")
				continue
			}
			paths, _, okp := funcPaths(lookup, 5000)
			r.paths += len(paths)
			if !okp {
				r.Undecided("C12.R6", "parent lookup", pos, shortFunc(lookup), "path cap exceeded")
				continue
			}
			good := true
			why := ""
			nNonConst := 0
			for _, p := range paths {
				ret := returnOf(p.Blocks[len(p.Blocks)-1])
				res := p.Resolve(ret.Results[0])
				if _, isC := constString(res); isC {
					continue
				}
				nNonConst++
				isRefName := hasPathSuffix(res, "Name")
				kindOK := p.Has(true, func(v ssa.Value, _ string) bool {
					return isEqCompare(v, loadOfPath(nil, "Kind"), isConstStringVal("ExtendedDaemonSet"))
				})
				if !kindOK {
					// `i := slices.IndexFunc(refs, pred); return refs[i].Name`: the element at the found
					// index satisfies pred, so pred's true-alternatives are facts about it
					kindOK = foundElementSatisfies(r.Prog, lookup, res, func(fs factSet) bool {
						return fs.any(true, func(v ssa.Value, _ string) bool {
							return isEqCompare(v, loadOfPath(nil, "Kind"), isConstStringVal("ExtendedDaemonSet"))
						})
					})
				}
				if !isRefName || !kindOK {
					good = false
					why = "returns " + pathString(res) + " on path [" + shortFacts(p) + "]"
				}
			}
			if nNonConst == 0 {
				good = false
				why = "no path returns an owner reference name"
			}
			r.Check("C12.R6", "parent lookup", r.Prog.Pos(lookup.Pos()), shortFunc(lookup),
				"owner name is returned only from a reference with Kind==\"ExtendedDaemonSet\"", good, why)
		}
	}
}

// c12ItemsLeaveOnlyFiltered: the list object does not escape fn (it is only handed to List and read
// through its Items field), and every append whose appended element comes from its Items is
// accepted by guarded; at least one such append exists.
func c12ItemsLeaveOnlyFiltered(fn *ssa.Function, listObj ssa.Value, guarded func(*ssa.Call) bool) (bool, string) {
	fromItems := func(v ssa.Value) bool {
		return dependsOn(v, func(x ssa.Value) bool {
			u, ok := x.(*ssa.UnOp)
			if !ok || u.Op != token.MUL {
				return false
			}
			fa, ok := u.X.(*ssa.FieldAddr)
			return ok && fieldName(fa) == "Items" && unwrap(fa.X) == listObj
		})
	}
	// escape of the list object
	if a, ok := listObj.(*ssa.Alloc); ok {
		for _, rr := range refs(a) {
			switch x := rr.(type) {
			case *ssa.FieldAddr, *ssa.DebugRef:
			case *ssa.MakeInterface, *ssa.ChangeInterface:
				for _, r2 := range refs(x.(ssa.Value)) {
					if _, isCall := r2.(ssa.CallInstruction); !isCall {
						return false, "the listed pods escape unfiltered"
					}
				}
			case *ssa.Store:
				if x.Val == ssa.Value(a) {
					return false, "the listed pods escape unfiltered (stored)"
				}
			case *ssa.Return:
				return false, "the listed pods are returned unfiltered"
			case ssa.CallInstruction:
				return false, "the listed pods are handed unfiltered to " + calleeName(x.Common())
			}
		}
	} else {
		return false, "listed pods are not filtered by owner reference"
	}
	n := 0
	for _, c := range callsIn(fn) {
		call, ok := c.(*ssa.Call)
		if !ok {
			continue
		}
		if bi, ok := call.Call.Value.(*ssa.Builtin); !ok || bi.Name() != "append" {
			continue
		}
		elems, spread := appendedElems(call)
		if spread != nil && fromItems(spread) {
			return false, "the listed pods are appended wholesale"
		}
		for _, el := range elems {
			if fromItems(el) {
				n++
				if !guarded(call) {
					return false, "a listed pod is appended to the kept pods without the owner-reference test (Kind==\"DaemonSet\" ∧ Name==old-daemonset annotation)"
				}
			}
		}
	}
	// the items may also leave through a return / store of a sub-slice
	for _, b := range fn.Blocks {
		for _, in := range b.Instrs {
			switch x := in.(type) {
			case *ssa.Return:
				for _, rv := range x.Results {
					if _, isSlice := rv.Type().Underlying().(*types.Slice); isSlice && fromItems(rv) && len(appendCallsOf(rv)) == 0 {
						return false, "the listed items are returned unfiltered"
					}
				}
			}
		}
	}
	if n == 0 {
		return false, "listed pods are not filtered by owner reference"
	}
	return true, ""
}

// foundElementSatisfies: v reads a field of s[i] where i is the result of slices.IndexFunc(s, pred)
// (or a helper with that contract is not assumed): every true-alternative of pred satisfies want.
func foundElementSatisfies(p *Prog, fn *ssa.Function, v ssa.Value, want func(factSet) bool) bool {
	u, ok := v.(*ssa.UnOp)
	if !ok || u.Op != token.MUL {
		return false
	}
	var ia *ssa.IndexAddr
	addr := u.X
	for i := 0; i < 4 && ia == nil; i++ {
		switch x := addr.(type) {
		case *ssa.FieldAddr:
			addr = x.X
		case *ssa.IndexAddr:
			ia = x
		default:
			return false
		}
	}
	if ia == nil {
		return false
	}
	call, ok := unwrap(ia.Index).(*ssa.Call)
	if !ok || !strings.HasPrefix(calleeName(&call.Call), "slices.IndexFunc") || len(call.Call.Args) != 2 {
		return false
	}
	k := newKeyer(fn)
	if k.key(call.Call.Args[0]) != k.key(ia.X) {
		return false
	}
	var pred *ssa.Function
	switch f := call.Call.Args[1].(type) {
	case *ssa.MakeClosure:
		pred, _ = f.Fn.(*ssa.Function)
	case *ssa.Function:
		pred = f
	}
	if pred == nil || len(pred.Blocks) == 0 {
		return false
	}
	alts := p.funcTrueAlternatives(pred, 0)
	if len(alts) == 0 {
		return false
	}
	for _, a := range alts {
		if !want(a) {
			return false
		}
	}
	return true
}

// annotationsOwnedBy: the map value m is the annotations of an object whose type is the named API
// type (GetAnnotations() on it, or its ObjectMeta.Annotations field), looking through local cells
// and phis.
func annotationsOwnedBy(m ssa.Value, typ string) bool {
	seen := map[ssa.Value]bool{}
	var rec func(v ssa.Value, d int) bool
	isTyp := func(t types.Type) bool {
		return isPtrToNamed(t, pkgAPI, typ) || typeName(t) == pkgAPI+"."+typ
	}
	rec = func(v ssa.Value, d int) bool {
		if v == nil || seen[v] || d > 8 {
			return false
		}
		seen[v] = true
		switch x := v.(type) {
		case *ssa.Call:
			if x.Call.IsInvoke() {
				return x.Call.Method.Name() == "GetAnnotations" && isTyp(x.Call.Value.Type())
			}
			if cal := staticCallee(&x.Call); cal != nil && cal.Name() == "GetAnnotations" && len(x.Call.Args) > 0 {
				recv := x.Call.Args[0]
				if isTyp(recv.Type()) {
					return true
				}
				root, _ := accessPath(recv)
				return root != nil && isTyp(root.Type())
			}
		case *ssa.UnOp:
			if x.Op != token.MUL {
				return false
			}
			if fa, ok := x.X.(*ssa.FieldAddr); ok && fieldName(fa) == "Annotations" {
				root, _ := accessPath(x)
				return root != nil && isTyp(root.Type())
			}
			if a, ok := x.X.(*ssa.Alloc); ok {
				okAll, n := true, 0
				for _, rr := range refs(a) {
					if st, ok := rr.(*ssa.Store); ok && st.Addr == ssa.Value(a) {
						n++
						if !rec(st.Val, d+1) {
							okAll = false
						}
					}
				}
				return okAll && n > 0
			}
		case *ssa.Phi:
			for _, e := range x.Edges {
				if !rec(e, d+1) {
					return false
				}
			}
			return len(x.Edges) > 0
		case *ssa.Field:
			if fieldName(x) == "Annotations" {
				root, _ := accessPath(x)
				return root != nil && isTyp(root.Type())
			}
		}
		return false
	}
	return rec(m, 0)
}
