package main

// C11 — the controller keeps no decision state outside the API objects.

import (
	"fmt"
	"go/types"
	"sort"
	"strings"

	"golang.org/x/tools/go/ssa"
)

func init() {
	register("C11", "Decides the first sentence of the property (no decision state outside the API objects) structurally: "+
		"(R1) in the code reachable from the four Reconcile methods (static calls, closures, go/defer bodies) no package-level variable and no memory reachable from a reconciler object is written — "+
		"directly, through a repository callee that writes through the pointer it is given, or by handing it to a type outside a fixed table "+
		"(API client, Scheme, logger, event recorder, Prometheus vectors, the apimachinery equality table: none of them holds reconcile decisions; the failed-pod back-off is the one named exception, whose loss the property itself declares harmless); "+
		"(R2) fields of the four Reconciler structs are assigned only on a freshly allocated reconciler (the constructor), anywhere in the repository; "+
		"(R3) in each Reconcile a Get keyed by the request (issued directly or by a helper that always performs it) dominates every API write, and every object handed to an API write is rooted in memory allocated, read or copied during the same invocation (never a package variable or a reconciler field); "+
		"and three structural necessary conditions of the fault clause: (R4) the pod Create (GenerateName, hence not idempotent) is issued once per creation candidate and never re-issued in the same invocation, so a lost answer cannot yield a second pod; "+
		"(R5) no error of an API read is swallowed: when a Get/List — or a repository function that forwards such an error — fails, the caller returns an error depending on it, collects it into the sync's error list, or the failure is an IsNotFound (two named exceptions in the status-only settings reconciler), so nothing is planned on a partial view; "+
		"(R6) the two-step rollback write (status, then spec) is recomputed from scratch on the next reconcile, and the failed mark it depends on is reset only in the active role; "+
		"(R7) no API write is guarded by a persisted condition of the reconciled replica set that the same invocation resets (such a write would never be retried after one failed attempt). "+
		"Safety at every intermediate fault point and convergence after faults are histories and are NOT decided. (R9, imported C04.R10) labelling the canary pods is level-triggered: the label pass is reached on every non-error return of the canary strategy, so a rejected or lost label Patch is retried by the next reconcile whatever the persisted counters say.", runC11)
}

var c11Stateless = []struct{ prefix, reason string }{
	{"sigs.k8s.io/controller-runtime/pkg/client.", "API client: the API objects are where the state lives"},
	{"*k8s.io/apimachinery/pkg/runtime.Scheme", "type registry, no reconcile state"},
	{"github.com/go-logr/logr.Logger", "logging only"},
	{"k8s.io/client-go/tools/record.EventRecorder", "events only"},
	{"*github.com/prometheus/client_golang/prometheus.", "metrics: observability only, rebuilt from status on the next reconcile"},
	{"k8s.io/apimachinery/third_party/forked/golang/reflect.Equalities", "read-only comparison table of apimachinery"},
}

func runC11(r *Run) {
	r.RuleDoc("C11.R1", "reconcile-reachable code writes no package variable and no reconciler-owned memory, and uses reconciler fields only through stateless handles (named exception: the failed-pod back-off)")
	r.RuleDoc("C11.R2", "Reconciler fields are assigned only on a freshly allocated reconciler")
	r.RuleDoc("C11.R3", "in each Reconcile a Get keyed by the request dominates every API write; objects handed to API writes are rooted in the same invocation")
	r.Floor("C11.R1", 10)
	r.Floor("C11.R2", 20)
	r.Floor("C11.R3", 12)
	r.NotCovered("that no safety property is violated at an intermediate point of a faulted run and that failure-free continuation converges to the same final state (histories and fault points); " +
		"state kept inside objects outside the repository (client cache, work queue); calls through interfaces or function values are followed only where the callee is statically known; " +
		"values stored into fields of invocation-local objects are not traced back further (R1 guarantees there is no cross-invocation memory they could come from)")

	entries := reconcileEntries(r)
	var names []string
	for n := range entries {
		names = append(names, n)
	}
	sort.Strings(names)
	var roots []*ssa.Function
	for _, n := range names {
		roots = append(roots, entries[n])
	}
	if len(roots) == 0 {
		return
	}
	ws := newWriteSummary(r.Prog)
	reach := dReachable(r.Prog, roots...)

	// R1
	type grp struct {
		first dStateWrite
		n     int
	}
	groups := map[string]*grp{}
	var order []string
	for _, w := range dStateWrites(r.Prog, reach, ws) {
		if w.Kind == "write" {
			r.Check("C11.R1", "write "+w.What, r.Prog.Pos(instrPos(w.Instr)), shortFunc(w.Fn),
				"no state that outlives one reconcile is written outside the API objects", false, w.What+": "+w.How)
			continue
		}
		k := w.What + " as " + w.Type
		if groups[k] == nil {
			groups[k] = &grp{first: w}
			order = append(order, k)
		}
		groups[k].n++
	}
	sort.Strings(order)
	for _, k := range order {
		g := groups[k]
		w := g.first
		pos := r.Prog.Pos(instrPos(w.Instr))
		switch {
		case strings.Contains(w.Type, "k8s.io/client-go/util/flowcontrol.Backoff") || strings.HasPrefix(w.Type, "k8s.io/utils/clock."):
			ok := strings.HasSuffix(w.What, ".failedPodsBackOff")
			r.Check("C11.R1", k, pos, shortFunc(w.Fn), "controller-local mutable state is limited to the failed-pod back-off (named exception: losing it only delays or hastens the deletion of Failed pods)", ok,
				fmt.Sprintf("%d use(s), e.g. %s", g.n, w.How))
		default:
			okT, reason := false, "type "+w.Type+" is not in the table of stateless handles: it may carry decision state across reconciles"
			for _, t := range c11Stateless {
				if strings.HasPrefix(w.Type, t.prefix) {
					okT, reason = true, t.reason
				}
			}
			o := r.Check("C11.R1", k, pos, shortFunc(w.Fn), "reconciler fields and package variables are handed only to stateless handles", okT, fmt.Sprintf("%s (%d use(s))", reason, g.n))
			o.Trivial = okT
		}
	}
	o := r.Check("C11.R1", "write-set", "-", "-", "the write-set of package variables and reconciler-owned memory in reconcile-reachable code is empty", true,
		fmt.Sprintf("%d functions reachable from the four Reconcile methods scanned; every write found is reported as its own obligation", len(reach)))
	o.Trivial = false

	c11FieldStores(r)
	for _, n := range names {
		c11FirstEffect(r, n, entries[n])
		c11WrittenObjects(r, n, entries[n])
	}
	c11Extra(r)
}

// c11FieldStores implements R2.
func c11FieldStores(r *Run) {
	recTypes := dReconcilerTypes(r.Prog)
	for _, fn := range r.Prog.RepoFuncs() {
		for _, b := range fn.Blocks {
			for _, in := range b.Instrs {
				st, ok := in.(*ssa.Store)
				if !ok {
					continue
				}
				for _, c := range dChains(st.Addr, false) {
					// find the reconciler object on the chain: the value whose pointee type is a Reconciler
					var recName, field string
					for j, via := range c.Via {
						if n := dNamedOf(via.Type()); n != nil {
							if name, isRec := recTypes[n]; isRec {
								if _, isPtr := via.Type().(*types.Pointer); isPtr || j == len(c.Via)-1 {
									recName = name
									// the field selected directly on it
									if j > 0 {
										if fa, ok := c.Via[j-1].(*ssa.FieldAddr); ok {
											field = fieldName(fa)
										}
									}
								}
							}
						}
					}
					if recName == "" {
						continue
					}
					// only direct fields of the struct (not memory behind a pointer field: that is R1)
					if c.Loads > 0 {
						continue
					}
					_, fresh := c.Root.(*ssa.Alloc)
					what := recName + " reconciler." + field
					if field == "" {
						what = recName + " reconciler (whole struct)"
					}
					r.Check("C11.R2", "store "+what, r.Prog.Pos(instrPos(st)), shortFunc(fn),
						"reconciler fields are assigned only while a new reconciler is being constructed", fresh,
						"assigned on "+c.Root.Name()+" ("+fmt.Sprintf("%T", c.Root)+")")
				}
			}
		}
	}
}

// c11Effectful lists, in block order, the instructions of fn that perform an API effect: client
// verb calls and static calls of repository functions that (transitively) contain one.
func c11Effectful(r *Run, fn *ssa.Function, memo map[*ssa.Function]bool) []ssa.CallInstruction {
	var out []ssa.CallInstruction
	for _, ci := range callsIn(fn) {
		if clientEffect(fn, ci) != nil {
			out = append(out, ci)
			continue
		}
		callee := staticCallee(ci.Common())
		if callee == nil || !r.Prog.IsRepoFunc(callee) {
			continue
		}
		has, seen := memo[callee]
		if !seen {
			has = len(effectsOf(dReachable(r.Prog, callee))) > 0
			memo[callee] = has
		}
		if has {
			out = append(out, ci)
		}
	}
	return out
}

func c11RootedAt(v ssa.Value, root ssa.Value) bool { return c11RootedAtD(v, root, 0) }

func c11RootedAtD(v ssa.Value, root ssa.Value, depth int) bool {
	if depth > 4 {
		return false
	}
	for _, c := range dChains(v, true) {
		if c.Root == root {
			return true
		}
		a, ok := c.Root.(*ssa.Alloc)
		if !ok {
			continue
		}
		// address-taken copy of the parameter (a struct parameter whose fields are selected)
		nw, allRoot := 0, true
		for _, rf := range refs(a) {
			if st, ok := rf.(*ssa.Store); ok && st.Addr == ssa.Value(a) {
				nw++
				if !c11RootedAtD(st.Val, root, depth+1) {
					allRoot = false
				}
			}
		}
		if nw > 0 && allRoot {
			return true
		}
		// composite literal built only from the root's fields (types.NamespacedName{Name: request.Name, …})
		n, all := 0, true
		for _, rf := range refs(a) {
			fa, ok := rf.(*ssa.FieldAddr)
			if !ok {
				continue
			}
			for _, r2 := range refs(fa) {
				if st, ok := r2.(*ssa.Store); ok && st.Addr == ssa.Value(fa) {
					n++
					if !c11RootedAtD(st.Val, root, depth+1) {
						all = false
					}
				}
			}
		}
		if nw == 0 && n > 0 && all {
			return true
		}
	}
	return false
}

// c11FirstEffect implements R3(a): a Get keyed by the request dominates every API write of the reconcile.
func c11FirstEffect(r *Run, name string, rec *ssa.Function) {
	memo := map[*ssa.Function]bool{}
	sf := shortFunc(rec)
	if len(rec.Params) < 3 {
		r.Check("C11.R3", name+" fresh read", r.Prog.Pos(rec.Pos()), sf, "the reconcile receives a request", false, "unexpected signature")
		return
	}
	request := rec.Params[len(rec.Params)-1]
	g, why := c11RequestGet(r, rec, request, memo, 0)
	pos := r.Prog.Pos(rec.Pos())
	if g != nil {
		pos = r.Prog.Pos(g.Pos())
	}
	r.Check("C11.R3", name+" fresh read", pos, sf,
		"a Get keyed by the request dominates every API write of the reconcile (the reconciled object is re-read on every invocation, never remembered)", g != nil, why)
}

// c11HasWrite reports whether the call instruction performs (transitively) an API write.
func c11HasWrite(r *Run, fn *ssa.Function, ci ssa.CallInstruction) bool {
	if e := clientEffect(fn, ci); e != nil {
		return isWriteVerb(e.Verb)
	}
	callee := staticCallee(ci.Common())
	if callee == nil {
		return false
	}
	for _, e := range effectsOf(dReachable(r.Prog, callee)) {
		if isWriteVerb(e.Verb) {
			return true
		}
	}
	return false
}

// c11RequestGet finds in fn an effectful instruction that is (or starts with) a Get keyed by req and
// that dominates every API write in fn.
func c11RequestGet(r *Run, fn *ssa.Function, req ssa.Value, memo map[*ssa.Function]bool, depth int) (ssa.CallInstruction, string) {
	effs := c11Effectful(r, fn, memo)
	why := "no Get keyed by the request found in " + shortFunc(fn)
	for _, c := range effs {
		isGet := false
		desc := ""
		if e := clientEffect(fn, c); e != nil {
			if e.Verb == "Get" && c11RootedAt(c.Common().Args[1], req) {
				isGet = true
				desc = e.String() + " keyed by " + pathString(c.Common().Args[1])
			}
		} else if callee := staticCallee(c.Common()); callee != nil && depth < 2 {
			for i, a := range c.Common().Args {
				if i < len(callee.Params) && c11RootedAt(a, req) {
					if g, w := c11RequestGet(r, callee, callee.Params[i], memo, depth+1); g != nil {
						// the callee's Get must run on every path through the callee
						all := true
						for _, rt := range dNormalReturns(callee) {
							if !dDominatesInstr(g, rt) {
								all = false
							}
						}
						if all {
							isGet = true
							desc = shortFunc(callee) + ": " + w
						}
					}
				}
			}
		}
		if !isGet {
			continue
		}
		dom := true
		for _, o := range effs {
			if o != c && c11HasWrite(r, fn, o) && !dDominatesInstr(c, o) {
				dom = false
				why = desc + " does not dominate the API write at " + r.Prog.Pos(o.Pos())
			}
		}
		if dom {
			return c, desc + " dominates every API write"
		}
	}
	return nil, why
}

// c11WrittenObjects implements R3(b): provenance of every object handed to an API write.
func c11WrittenObjects(r *Run, name string, rec *ssa.Function) {
	reach := dReachable(r.Prog, rec)
	recTypes := dReconcilerTypes(r.Prog)
	for _, e := range effectsOf(reach) {
		if !isWriteVerb(e.Verb) {
			continue
		}
		var bad []string
		seen := map[string]bool{}
		var visit func(v ssa.Value, fn *ssa.Function, depth int)
		visit = func(v ssa.Value, fn *ssa.Function, depth int) {
			k := fmt.Sprintf("%p/%p", v, fn)
			if seen[k] {
				return
			}
			seen[k] = true
			if depth > 6 {
				bad = append(bad, "provenance deeper than 6 calls")
				return
			}
			for _, c := range dChains(v, true) {
				if what, shared := dSharedRoot(r.Prog, recTypes, c); shared {
					bad = append(bad, "object is rooted at "+what)
					continue
				}
				switch x := c.Root.(type) {
				case *ssa.Parameter:
					sites := callSitesOf(fn, reach)
					idx := paramIndex(x)
					if fn == rec {
						continue // ctx / request
					}
					if len(sites) == 0 && fn.Parent() == nil {
						// reached only through an interface or function value (e.g. sort.Interface): not an API object source
						continue
					}
					for _, s := range sites {
						if idx < len(s.Common().Args) {
							visit(s.Common().Args[idx], s.Parent(), depth+1)
						}
					}
				case *ssa.FreeVar:
					par := fn.Parent()
					if par == nil {
						continue
					}
					for _, b := range par.Blocks {
						for _, in := range b.Instrs {
							if mc, ok := in.(*ssa.MakeClosure); ok && mc.Fn == ssa.Value(fn) {
								for i, fv := range fn.FreeVars {
									if fv == x && i < len(mc.Bindings) {
										visit(mc.Bindings[i], par, depth+1)
									}
								}
							}
						}
					}
				case *ssa.Call, *ssa.Extract:
					var call *ssa.Call
					idx := 0
					if ex, ok := x.(*ssa.Extract); ok {
						call, _ = ex.Tuple.(*ssa.Call)
						idx = ex.Index
					} else {
						call = x.(*ssa.Call)
					}
					if call == nil {
						continue
					}
					callee := staticCallee(&call.Call)
					if callee == nil || !r.Prog.IsRepoFunc(callee) || len(callee.Blocks) == 0 {
						continue // DeepCopy and other library results: fresh for this invocation
					}
					for _, rt := range dNormalReturns(callee) {
						if idx < len(rt.Results) {
							visit(rt.Results[idx], callee, depth+1)
						}
					}
				}
			}
		}
		visit(e.Obj, e.Fn, 0)
		sort.Strings(bad)
		r.Check("C11.R3", name+" "+e.String()+" object", r.Prog.Pos(e.Call.Pos()), shortFunc(e.Fn),
			"an object handed to an API write is allocated, read or copied during the same reconcile invocation", len(bad) == 0, strings.Join(bad, "; "))
	}
}
