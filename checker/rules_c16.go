package main

// C16 — defaulting is a fixed point; no accepted spec crashes the controller.

import (
	"fmt"
	"go/token"
	"go/types"
	"os"
	"regexp"
	"sort"
	"strings"

	"golang.org/x/tools/go/ssa"
)

func init() {
	register("C16", "Decides, without running code: "+
		"(R1) fixed point of defaulting — every way IsDefaultedExtendedDaemonSet (and the recognisers it calls) can answer false is read off its paths as a conjunction of facts about spec fields, and an abstract interpretation of DefaultExtendedDaemonSetSpec "+
		"(and the defaulters it calls, including intstr.ValueOrDefault from its SSA) over exactly those fields shows that no state after defaulting satisfies the conjunction; the default validation mode is assumed to be one of the declared constants, which is checked at the call in main; "+
		"DefaultExtendedDaemonSet returns the copy whose Spec it handed to the spec defaulter and the reconciler writes that copy; "+
		"(R2) no user value is changed — every store to memory reached from a defaulter's parameter is guarded by `field == nil/\"\"` on the same field, or stores f(field, …) where f returns its argument whenever it is non-nil, the one exception being Template.Name = \"\"; "+
		"(R3) every dereference of an optional pointer field of the ExtendedDaemonSet spec types (direct, through a nil-able local copy, or by a callee that dereferences its parameter unguarded) in ValidateExtendedDaemonSetSpec and in the code reachable from the ExtendedDaemonSet and replica-set Reconcile methods "+
		"is justified by a nil guard on the same path in the same function, or — followed up through parameters, struct fields of call results and DeepCopy — by the IsDefaulted gate on the same object together with one of the recogniser's false-paths that names the field; "+
		"(R4) every integer division or remainder in that code has a non-zero constant divisor or a dominating positivity/non-zero fact on the divisor (one named exception with its structural premises checked); "+
		"(R5) every function returning *strategy.Result reachable from the replica-set Reconcile returns, on every path, a non-nil Result whose NewStatus has been assigned a non-nil value, the role dispatcher's nil fall-through is infeasible because the role field only ever holds the dispatched constants, and Parameters.NewStatus is built from a non-nil value; "+
		"(R6) ValidateExtendedDaemonSetSpec (with the validators it runs, directly or from a table) returns nil only on paths that refute each of the four documented rejection conditions, and each sentinel error is returned under its condition; "+
		"(R7) the rejections are enforced on every reconcile: each API write reachable from the ExtendedDaemonSet Reconcile is — in its own function or, followed up through every call site, in a caller — dominated by the fact ValidateExtendedDaemonSetSpec(spec of the object) == nil, "+
		"or by the non-nil result of a helper that returns the object only under that fact, the one exception being writes under !IsDefaultedExtendedDaemonSet (the defaulting update, which precedes validation by design); "+
		"(R8) no nil dereference across a call or past its own guard, in the code reachable from the four Reconcile methods: where a caller dereferences the pointer result of a repository function that also returns an error or a bool, every return path of that function compatible with what the caller established about those sibling results (err == nil, flag false, …) yields a non-nil pointer; "+
		"and a block that is the direct target of the non-nil edge of a test `p != nil` and dereferences p has p != nil as a must-fact (the guard cannot be bypassed through a disjunction).", runC16)
}

func runC16(r *Run) {
	r.RuleDoc("C16.R1", "no false-path of the defaulting recogniser is satisfiable after DefaultExtendedDaemonSetSpec (fixed point), and the defaulted copy is what is written")
	r.RuleDoc("C16.R2", "defaulters store to spec fields only under a nil/empty guard on the same field (Template.Name=\"\" excepted)")
	r.RuleDoc("C16.R3", "optional spec pointer fields are dereferenced only under a nil guard or behind the IsDefaulted gate that requires them")
	r.RuleDoc("C16.R4", "integer divisors are non-zero constants or carry a dominating positivity fact")
	r.RuleDoc("C16.R5", "strategy results are non-nil with NewStatus assigned on every return path; the role dispatch is exhaustive")
	r.RuleDoc("C16.R8", "a pointer result whose validity a sibling error/bool result conveys is non-nil on every return path compatible with what the dereferencing caller checked; a direct nil guard cannot be bypassed")
	r.Floor("C16.R8", 6)
	r.RuleDoc("C16.R7", "every API write of the ExtendedDaemonSet reconcile (the defaulting update aside) happens only after ValidateExtendedDaemonSetSpec accepted the reconciled object's spec")
	r.Floor("C16.R7", 4)
	r.RuleDoc("C16.R6", "validation returns nil only when each documented rejection condition is refuted; each sentinel error has its condition")
	r.Floor("C16.R1", 17)
	r.Floor("C16.R2", 16)
	r.Floor("C16.R3", 30)
	r.Floor("C16.R4", 2)
	r.Floor("C16.R5", 6)
	r.Floor("C16.R6", 8)
	r.NotCovered("optional pointers handed back by helper functions or stored into non-local memory before being dereferenced (only direct uses, nil-able local copies and callees receiving the pointer are followed); panics inside dependencies; index-out-of-range and nil-map writes; nil dereferences of pointers that are not optional spec fields (status fields, pods, nodes, conditions — e.g. the `lastPodDeletionCondition` log argument of the replica-set Reconcile, which the generic nilness pass reports on an infeasible path and which is deliberately not armed); " +
		"the plumbing of the default validation mode between main and the reconciler options; aliasing of spec memory through pointers that are not parameter-rooted (reported as undecided where met); fuzzing of the serialized spec")

	c16RetNonNilMemo = map[string]int{}
	c16ParamDerefMemo = map[string]int{}
	c16ValidationTable(r)
	c16ValidationGate(r)
	c16ResultContract(r)
	c16Division(r)
	c16DefiniteInit(r)
	c16GuardedStores(r)
	reasons := c16Agreement(r)
	c16Deref(r, reasons)
	c16Imports(r)
}

func c16Debug() bool { return os.Getenv("D_DEBUG") != "" }

// ---------------------------------------------------------------------------------------------
// shared: literals over field paths

// c16Lit is the atom "the field at Path (relative to a root object) == nil" (Kind "nil") or
// "== Str" (Kind "str"), asserted with truth value Pol.
type c16Lit struct {
	Path []string
	Kind string
	Str  string
	Pol  bool
}

func (l c16Lit) String() string {
	p := strings.Join(l.Path, ".")
	op := "=="
	if !l.Pol {
		op = "!="
	}
	if l.Kind == "nil" {
		return p + op + "nil"
	}
	return fmt.Sprintf("%s%s%q", p, op, l.Str)
}

func c16PathEq(a, b []string) bool {
	if len(a) != len(b) {
		return false
	}
	for i := range a {
		if a[i] != b[i] {
			return false
		}
	}
	return true
}

func c16HasPrefix(p, prefix []string) bool {
	return len(p) >= len(prefix) && c16PathEq(p[:len(prefix)], prefix)
}

// c16LitOf turns a normalised fact into a literal about a field path rooted at a value accepted
// by isRoot. ok=false if the fact is not of that form.
func c16LitOf(f Fact, isRoot func(ssa.Value) bool) (c16Lit, bool) {
	bo, ok := f.V.(*ssa.BinOp)
	if ok && (bo.Op == token.EQL || bo.Op == token.NEQ) {
		x, y := bo.X, bo.Y
		if isNilConst(x) || func() bool { _, isC := constString(x); return isC }() {
			x, y = y, x
		}
		root, path := accessPath(x)
		if !isRoot(root) {
			return c16Lit{}, false
		}
		if isNilConst(y) {
			return c16Lit{Path: path, Kind: "nil", Pol: f.Pol}, true
		}
		if s, isC := constString(y); isC {
			return c16Lit{Path: path, Kind: "str", Str: s, Pol: f.Pol}, true
		}
	}
	return c16Lit{}, false
}

// ---------------------------------------------------------------------------------------------
// R6 validation table

// c16VFact is a path fact of the validation code expressed over field paths of the validated spec:
// kind "nil" (A == nil), "bool" (the boolean at A), "less" (A < B), "streq" (A == Str), each known
// with truth value Pol; kind "callnil" says that the error result of Call is nil.
type c16VFact struct {
	Kind string
	A, B []string
	Str  string
	Pol  bool
	Call *ssa.Call
}

func (f c16VFact) String() string {
	neg := ""
	if !f.Pol {
		neg = "¬"
	}
	switch f.Kind {
	case "nil":
		return neg + "(" + strings.Join(f.A, ".") + "==nil)"
	case "bool":
		return neg + strings.Join(f.A, ".")
	case "less":
		return neg + "(" + strings.Join(f.A, ".") + "<" + strings.Join(f.B, ".") + ")"
	case "streq":
		return fmt.Sprintf("%s(%s==%q)", neg, strings.Join(f.A, "."), f.Str)
	}
	return neg + "call"
}

// c16Outcome is one way a validation function ends: what it returns and the facts of the path,
// with the facts of the validators it called (directly, or one after the other from a table) merged in.
type c16Outcome struct {
	Ret   string // "nil", "sentinel:<name>", "other"
	Facts []c16VFact
}

func (o c16Outcome) String() string {
	var fs []string
	for _, f := range o.Facts {
		if f.Kind != "callnil" {
			fs = append(fs, f.String())
		}
	}
	sort.Strings(fs)
	return strings.Join(fs, " ∧ ")
}

type c16Validation struct {
	r    *Run
	memo map[string][]c16Outcome
	und  []string
}

func c16ErrCall(v ssa.Value) *ssa.Call {
	v = unwrap(v)
	if ex, ok := v.(*ssa.Extract); ok {
		v = ex.Tuple
	}
	c, ok := v.(*ssa.Call)
	if !ok || dBuiltin(&c.Call) != "" {
		return nil
	}
	return c
}

// vfacts translates the facts of a path (plus extra facts) into spec-relative facts.
func (cv *c16Validation) vfacts(p *Path, facts []Fact, prefixOf func(ssa.Value) ([]string, bool)) []c16VFact {
	var out []c16VFact
	pathOf := func(v ssa.Value) ([]string, bool) {
		root, path := accessPath(v)
		pre, ok := prefixOf(root)
		if !ok {
			return nil, false
		}
		return append(append([]string{}, pre...), path...), true
	}
	var work []Fact
	work = append(work, facts...)
	for i := 0; i < len(work) && i < 200; i++ {
		f := work[i]
		if f.V == nil {
			continue
		}
		if _, isPhi := f.V.(*ssa.Phi); isPhi && p != nil {
			if v := p.Resolve(f.V); v != f.V {
				if _, isC := constBool(v); !isC {
					work = append(work, p.k.normCond(v, f.Pol)...)
				}
			}
			continue
		}
		switch x := f.V.(type) {
		case *ssa.BinOp:
			switch x.Op {
			case token.EQL, token.NEQ:
				a, c := x.X, x.Y
				if _, isC := a.(*ssa.Const); isC {
					a, c = c, a
				}
				if isNilConst(c) {
					if call := c16ErrCall(a); call != nil && c17IsErrType(a.Type()) {
						out = append(out, c16VFact{Kind: "callnil", Pol: f.Pol, Call: call})
					} else if pa, ok := pathOf(a); ok {
						out = append(out, c16VFact{Kind: "nil", A: pa, Pol: f.Pol})
					}
				} else if sv, isS := constString(c); isS {
					if pa, ok := pathOf(a); ok {
						out = append(out, c16VFact{Kind: "streq", A: pa, Str: sv, Pol: f.Pol})
					}
				}
			case token.LSS, token.GTR, token.LEQ, token.GEQ:
				lo, hi := x.X, x.Y
				if x.Op == token.GTR || x.Op == token.LEQ {
					lo, hi = x.Y, x.X
				}
				pl, ok1 := pathOf(lo)
				ph, ok2 := pathOf(hi)
				if ok1 && ok2 {
					out = append(out, c16VFact{Kind: "less", A: pl, B: ph, Pol: f.Pol})
				}
			}
		case *ssa.UnOp:
			if x.Op == token.MUL {
				if pa, ok := pathOf(x); ok {
					out = append(out, c16VFact{Kind: "bool", A: pa, Pol: f.Pol})
				}
			}
		}
	}
	return out
}

// outcomes enumerates the ways fn (a function whose result #errIdx is an error) can end.
func (cv *c16Validation) outcomes(fn *ssa.Function, errIdx int, prefix map[int][]string, depth int) []c16Outcome {
	key := fmt.Sprintf("%s|%d|%v", funcName(fn), errIdx, prefix)
	if o, ok := cv.memo[key]; ok {
		return o
	}
	cv.memo[key] = nil
	if len(fn.Blocks) == 0 || depth > 4 {
		cv.und = append(cv.und, "cannot analyse "+funcName(fn))
		return nil
	}
	prefixOf := func(root ssa.Value) ([]string, bool) {
		if p, ok := root.(*ssa.Parameter); ok && p.Parent() == fn {
			pre, ok := prefix[paramIndex(p)]
			return pre, ok
		}
		return nil, false
	}
	paths, k, ok := funcPaths(fn, 5000)
	cv.r.paths += len(paths)
	if !ok {
		cv.und = append(cv.und, "path cap exceeded in "+shortFunc(fn))
		return nil
	}
	calleePrefix := func(c *ssa.Call, callee *ssa.Function) map[int][]string {
		m := map[int][]string{}
		for i, a := range c.Call.Args {
			if i >= len(callee.Params) {
				break
			}
			root, path := accessPath(a)
			if pre, ok := prefixOf(root); ok {
				m[i] = append(append([]string{}, pre...), path...)
			}
		}
		return m
	}
	calleeErrIdx := func(callee *ssa.Function) int {
		res := callee.Signature.Results()
		for i := 0; i < res.Len(); i++ {
			if c17IsErrType(res.At(i).Type()) {
				return i
			}
		}
		return -1
	}
	var out []c16Outcome
	for _, p := range paths {
		ret := returnOf(p.Blocks[len(p.Blocks)-1])
		var facts []Fact
		for _, f := range p.Facts {
			facts = append(facts, f)
		}
		vf := cv.vfacts(p, facts, prefixOf)
		// loops left on this path: what every completed iteration established
		forAll := map[*ssa.Call]bool{}
		for i, hb := range p.Blocks {
			if i+1 >= len(p.Blocks) || len(hb.Succs) != 2 || p.Blocks[i+1] != hb.Succs[1] || !dReaches(hb, hb) {
				continue
			}
			isRange := false
			for _, in := range hb.Instrs {
				if phi, ok := in.(*ssa.Phi); ok && phi.Comment == "rangeindex" {
					isRange = true
				}
			}
			if !isRange {
				continue
			}
			body, okb := enumPaths(fn, k, hb, func(b *ssa.BasicBlock) bool {
				if b == hb {
					return false
				}
				for _, s := range b.Succs {
					if s == hb {
						return true
					}
				}
				return false
			}, nil, 200)
			var iter []*Path
			for _, bp := range body {
				// the path must be able to take the back edge
				last := bp.Blocks[len(bp.Blocks)-1]
				if dInLoop(hb, last) {
					iter = append(iter, bp)
				}
			}
			if !okb || len(iter) != 1 {
				continue
			}
			bp := iter[0]
			last := bp.Blocks[len(bp.Blocks)-1]
			var bf []Fact
			for _, f := range bp.Facts {
				bf = append(bf, f)
			}
			bf = append(bf, k.edgeFacts(last, hb)...)
			for _, f := range cv.vfacts(bp, bf, prefixOf) {
				if f.Kind == "callnil" && f.Pol {
					forAll[f.Call] = true
					vf = append(vf, f)
				}
			}
		}
		// classify the returned value
		res := unwrap(p.Resolve(ret.Results[errIdx]))
		base := c16Outcome{}
		var retCall *ssa.Call
		switch x := res.(type) {
		case *ssa.Const:
			if x.IsNil() {
				base.Ret = "nil"
			} else {
				base.Ret = "other"
			}
		case *ssa.UnOp:
			if g, ok := x.X.(*ssa.Global); ok && x.Op == token.MUL {
				base.Ret = "sentinel:" + g.Name()
			} else {
				base.Ret = "other"
			}
		default:
			if c := c16ErrCall(res); c != nil {
				retCall = c
			} else {
				base.Ret = "other"
			}
		}
		// expand the facts about validators called on this path
		alts := []c16Outcome{base}
		mergeAlts := func(options []c16Outcome, setRet bool) {
			var next []c16Outcome
			for _, a := range alts {
				for _, o := range options {
					n := c16Outcome{Ret: a.Ret, Facts: append(append([]c16VFact{}, a.Facts...), o.Facts...)}
					if setRet {
						n.Ret = o.Ret
					}
					next = append(next, n)
					if len(next) > 4000 {
						cv.und = append(cv.und, "too many combinations of validator outcomes in "+shortFunc(fn))
						alts = next
						return
					}
				}
			}
			alts = next
		}
		var own []c16VFact
		for _, f := range vf {
			if f.Kind != "callnil" {
				own = append(own, f)
				continue
			}
			callees, okc := dDynCallees(cv.r.Prog, f.Call)
			if !okc {
				continue
			}
			_, isStatic := f.Call.Call.Value.(*ssa.Function)
			if f.Pol {
				// the call returned nil: one validator for a static call, every validator of the table for a completed loop
				if !isStatic && !forAll[f.Call] {
					continue
				}
				for _, callee := range callees {
					ei := calleeErrIdx(callee)
					if ei < 0 || !cv.r.Prog.IsRepoFunc(callee) {
						continue
					}
					var nils []c16Outcome
					for _, o := range cv.outcomes(callee, ei, calleePrefix(f.Call, callee), depth+1) {
						if o.Ret == "nil" {
							nils = append(nils, o)
						}
					}
					if len(nils) > 0 {
						mergeAlts(nils, false)
					}
				}
			}
		}
		if retCall != nil {
			callees, okc := dDynCallees(cv.r.Prog, retCall)
			var opts []c16Outcome
			if okc {
				knownNonNil := false
				for _, f := range vf {
					if f.Kind == "callnil" && f.Call == retCall && !f.Pol {
						knownNonNil = true
					}
				}
				for _, callee := range callees {
					ei := calleeErrIdx(callee)
					if ei < 0 || !cv.r.Prog.IsRepoFunc(callee) {
						opts = append(opts, c16Outcome{Ret: "other"})
						continue
					}
					for _, o := range cv.outcomes(callee, ei, calleePrefix(retCall, callee), depth+1) {
						if o.Ret == "nil" && knownNonNil {
							continue
						}
						opts = append(opts, o)
					}
				}
			}
			if len(opts) == 0 {
				opts = []c16Outcome{{Ret: "other"}}
			}
			mergeAlts(opts, true)
		}
		for _, a := range alts {
			a.Facts = append(a.Facts, own...)
			out = append(out, a)
		}
	}
	cv.memo[key] = out
	return out
}

func c16Suffix(p []string, suffix ...string) bool {
	return len(p) >= len(suffix) && c16PathEq(p[len(p)-len(suffix):], suffix)
}

func c16ValidationTable(r *Run) {
	fn := r.Prog.Func(pkgAPI, "ValidateExtendedDaemonSetSpec")
	if fn == nil {
		r.Fatal("anchor %s.ValidateExtendedDaemonSetSpec not found", pkgAPI)
		return
	}
	sf := shortFunc(fn)
	if len(fn.Params) != 1 || fn.Signature.Results().Len() != 1 {
		r.Undecided("C16.R6", "validation table", r.Prog.Pos(fn.Pos()), sf, "unexpected signature")
		return
	}
	cv := &c16Validation{r: r, memo: map[string][]c16Outcome{}}
	outs := cv.outcomes(fn, 0, map[int][]string{0: {}}, 0)
	for _, u := range cv.und {
		r.Undecided("C16.R6", "validation table", r.Prog.Pos(fn.Pos()), sf, u)
	}
	manual, _ := r.Prog.constStr(pkgAPI, "ExtendedDaemonSetSpecStrategyCanaryValidationModeManual")
	// an atom of a rejection condition: truth(f) says whether fact f settles the atom, and how
	type atom struct {
		name  string
		guard bool // a presence test: can refute the condition, but is not part of the documented condition itself
		truth func(f c16VFact) (val, ok bool)
	}
	notNil := func(name string, guard bool, suffix ...string) atom {
		return atom{name, guard, func(f c16VFact) (bool, bool) {
			if f.Kind == "nil" && c16Suffix(f.A, suffix...) {
				return !f.Pol, true
			}
			return false, false
		}}
	}
	isTrue := func(name string, suffix ...string) atom {
		return atom{name, false, func(f c16VFact) (bool, bool) {
			if f.Kind == "bool" && c16Suffix(f.A, suffix...) {
				return f.Pol, true
			}
			return false, false
		}}
	}
	// strict: lo < hi ; otherwise lo <= hi
	cmp := func(name string, strict bool, lo, hi []string) atom {
		return atom{name, false, func(f c16VFact) (bool, bool) {
			if f.Kind != "less" {
				return false, false
			}
			same := c16Suffix(f.A, lo...) && c16Suffix(f.B, hi...)
			rev := c16Suffix(f.A, hi...) && c16Suffix(f.B, lo...)
			switch {
			case strict && same: // lo<hi known
				return f.Pol, true
			case strict && rev && f.Pol: // hi<lo ⇒ ¬(lo<hi)
				return false, true
			case !strict && rev: // lo<=hi ⇔ ¬(hi<lo)
				return !f.Pol, true
			case !strict && same && f.Pol: // lo<hi ⇒ lo<=hi
				return true, true
			}
			return false, false
		}}
	}
	modeManual := atom{"mode==manual", false, func(f c16VFact) (bool, bool) {
		if f.Kind != "streq" || !c16Suffix(f.A, "Canary", "ValidationMode") {
			return false, false
		}
		if f.Str == manual {
			return f.Pol, true
		}
		if f.Pol {
			return false, true // equal to another constant
		}
		return false, false
	}}
	canarySet := notNil("canary!=nil", true, "Strategy", "Canary")
	afEnabled := isTrue("autoFail.enabled", "AutoFail", "Enabled")
	apEnabled := isTrue("autoPause.enabled", "AutoPause", "Enabled")
	rows := []struct {
		name, sentinel string
		atoms          []atom
	}{
		{"autoFail.maxRestarts below autoPause.maxRestarts", "ErrInvalidAutoFailRestarts", []atom{canarySet, afEnabled, apEnabled,
			cmp("autoFail.maxRestarts<autoPause.maxRestarts", true, []string{"AutoFail", "MaxRestarts"}, []string{"AutoPause", "MaxRestarts"})}},
		{"canaryTimeout not above duration", "ErrInvalidCanaryTimeout", []atom{canarySet, afEnabled,
			notNil("canaryTimeout!=nil", true, "AutoFail", "CanaryTimeout"), notNil("duration!=nil", true, "Canary", "Duration"),
			cmp("canaryTimeout<=duration", false, []string{"AutoFail", "CanaryTimeout", "Duration"}, []string{"Canary", "Duration", "Duration"})}},
		{"duration in manual mode", "ErrDurationWithManualValidationMode", []atom{canarySet, modeManual, notNil("duration!=nil", false, "Canary", "Duration")}},
		{"noRestartsDuration in manual mode", "ErrNoRestartsDurationWithManualValidationMode", []atom{canarySet, modeManual, notNil("noRestartsDuration!=nil", false, "Canary", "NoRestartsDuration")}},
	}
	settles := func(o c16Outcome, a atom, want bool) bool {
		for _, f := range o.Facts {
			if v, ok := a.truth(f); ok && v == want {
				return true
			}
		}
		return false
	}
	for _, row := range rows {
		// (a) every way of returning nil refutes the condition
		bad := ""
		nNil := 0
		for _, o := range outs {
			if o.Ret != "nil" {
				continue
			}
			nNil++
			refuted := false
			for _, a := range row.atoms {
				if settles(o, a, false) {
					refuted = true
				}
			}
			if !refuted {
				bad = "validation accepts when [" + o.String() + "], which does not exclude: " + row.name
			}
		}
		r.Check("C16.R6", "accepts only without: "+row.name, r.Prog.Pos(fn.Pos()), sf,
			"every path returning nil (through the validators it runs) carries a fact contradicting the rejection condition", bad == "" && nNil > 0, bad)
		// (b) the sentinel is returned under its condition
		found, wrong := false, ""
		for _, o := range outs {
			if o.Ret != "sentinel:"+row.sentinel {
				continue
			}
			all := true
			for _, a := range row.atoms {
				if !a.guard && !settles(o, a, true) {
					all = false
					wrong = "returned when [" + o.String() + "] without " + a.name
				}
			}
			if all {
				found = true
			}
		}
		detail := wrong
		if !found && wrong == "" {
			detail = "no path returns " + row.sentinel
		}
		r.Check("C16.R6", "sentinel "+row.sentinel, r.Prog.Pos(fn.Pos()), sf, "the sentinel error is returned exactly under its documented condition", found && wrong == "", detail)
	}
}

// ---------------------------------------------------------------------------------------------
// R4 division

func c16ReconcileReach(r *Run) map[*ssa.Function]bool {
	eds := r.Prog.Method(pkgEDS, "Reconciler", "Reconcile")
	ers := r.Prog.Method(pkgERS, "Reconciler", "Reconcile")
	if eds == nil || ers == nil {
		r.Fatal("anchor Reconcile of %s / %s not found", pkgEDS, pkgERS)
		return nil
	}
	return dReachable(r.Prog, eds, ers)
}

func c16IsInt(t types.Type) bool {
	b, ok := t.Underlying().(*types.Basic)
	return ok && b.Info()&types.IsInteger != 0
}

func c16Division(r *Run) {
	reach := c16ReconcileReach(r)
	for _, fn := range sortedFuncs(reach) {
		if !r.Prog.IsRuleSite(fn) {
			continue
		}
		var ff *FuncFacts
		n := 0
		for _, b := range fn.Blocks {
			for _, in := range b.Instrs {
				bo, ok := in.(*ssa.BinOp)
				if !ok || (bo.Op != token.QUO && bo.Op != token.REM) || !c16IsInt(bo.Type()) {
					continue
				}
				n++
				pos := r.Prog.Pos(bo.Pos())
				sf := shortFunc(fn)
				construct := fmt.Sprintf("%s #%d divisor", bo.Op, n)
				if c, isC := constInt(bo.Y); isC {
					o := r.Check("C16.R4", construct, pos, sf, "non-zero divisor", c != 0, fmt.Sprintf("constant divisor %d", c))
					o.Trivial = true
					continue
				}
				if ff == nil {
					ff = computeFacts(fn)
				}
				dk := ff.K.key(bo.Y)
				construct = fmt.Sprintf("%s by %s", bo.Op, c16StableKey(dk))
				okFact := false
				detail := "no dominating fact `divisor > 0` / `divisor != 0`"
				for _, f := range ff.At(b) {
					switch {
					case f.Key == "(c:0<"+dk+")" && f.Pol: // 0 < d
						okFact = true
					case f.Key == "("+dk+"<c:1)" && !f.Pol: // !(d < 1)
						okFact = true
					case (f.Key == "("+dk+"==c:0)" || f.Key == "(c:0=="+dk+")") && !f.Pol:
						okFact = true
					}
					if okFact {
						detail = "dominating fact " + fkey(f)
						break
					}
				}
				// the divisor must not be reassigned between the guard and the division
				if okFact && c16StoredIn(fn, bo.Y) {
					okFact = false
					detail = "the divisor's memory is written in this function: the guard may be stale"
				}
				if !okFact {
					if okEx, why := c16LenOfFilledMap(r, fn, ff, bo); okEx {
						r.Check("C16.R4", construct, pos, sf, "non-zero divisor (named exception: size of a map filled for every element of the slice being iterated)", true, why)
						continue
					} else if why != "" {
						detail += "; not the named exception: " + why
					}
				}
				r.Check("C16.R4", construct, pos, sf, "a dominating fact shows the divisor is positive or non-zero", okFact, detail)
			}
		}
	}
}

// c16StoredIn reports whether fn stores to the address a loaded value was read from.
var c16RegName = regexp.MustCompile(`(:t[0-9]+|@[0-9]+|@b[0-9]+)`)

// c16StableKey strips SSA register names, positions and the module prefix from a value key so that
// it can be part of an obligation key.
func c16StableKey(k string) string {
	return c16RegName.ReplaceAllString(strings.ReplaceAll(k, repoMod+"/", ""), "")
}

func c16StoredIn(fn *ssa.Function, v ssa.Value) bool { return c16StoredAfter(fn, v, nil) }

// c16StoredAfter: as c16StoredIn, counting only the stores in blocks reachable from (or equal to) `from`.
func c16StoredAfter(fn *ssa.Function, v ssa.Value, from *ssa.BasicBlock) bool {
	u, ok := unwrap(v).(*ssa.UnOp)
	if !ok || u.Op != token.MUL {
		return false
	}
	root, path := accessPath(u.X)
	for _, b := range fn.Blocks {
		for _, in := range b.Instrs {
			if st, ok := in.(*ssa.Store); ok {
				if from != nil && b != from && !dReaches(from, b) {
					continue
				}
				r2, p2 := accessPath(st.Addr)
				if r2 == root && c16HasPrefix(path, p2) {
					return true
				}
			}
		}
	}
	return false
}

// c16LenOfFilledMap recognises the one divisor that is not guarded by a comparison: len(m) of a
// function-local map, used inside a range loop over a slice S under a condition C, where an
// earlier range loop over the same S, entered under the same C, inserts a key into m on every
// iteration that does not find it. Then m is non-empty whenever the division executes.
func c16LenOfFilledMap(r *Run, fn *ssa.Function, ff *FuncFacts, div *ssa.BinOp) (bool, string) {
	call, ok := div.Y.(*ssa.Call)
	if !ok || dBuiltin(&call.Call) != "len" {
		return false, ""
	}
	chains := dChains(call.Call.Args[0], true)
	if len(chains) != 1 || chains[0].Loads != 0 || len(chains[0].Path) != 0 {
		return false, "divisor is len of something that is not a function-local map"
	}
	switch root := chains[0].Root.(type) {
	case *ssa.MakeMap:
		return c16FilledMapAt(r, fn, ff, div.Block(), root)
	case *ssa.Parameter:
		// a helper working on its caller's map: the premises are checked at every call site
		if _, isMap := root.Type().Underlying().(*types.Map); !isMap || !c16MapParamBenign(r, fn, paramIndex(root), 0) {
			return false, "divisor is len of a map parameter that the function may shrink or leak"
		}
		sites := dCallSitesIn(r.Prog, fn, c16ReconcileReach(r))
		if len(sites) == 0 {
			return false, "no call site of " + shortFunc(fn)
		}
		why := ""
		for _, cs := range sites {
			ac := dChains(cs.Common().Args[paramIndex(root)], true)
			if len(ac) != 1 || ac[0].Loads != 0 || len(ac[0].Path) != 0 {
				return false, "the map handed to " + shortFunc(fn) + " is not a function-local map of the caller"
			}
			mm, isMM := ac[0].Root.(*ssa.MakeMap)
			if !isMM {
				return false, "the map handed to " + shortFunc(fn) + " is not a function-local map of the caller"
			}
			caller := cs.Parent()
			ok, w := c16FilledMapAt(r, caller, r.Prog.factsOf(caller), cs.Block(), mm)
			if !ok {
				return false, w
			}
			why = w + " (map handed to " + shortFunc(fn) + ")"
		}
		return true, why
	}
	return false, "divisor is len of something that is not a function-local map"
}

// c16MapParamBenign: fn uses its map parameter #k only for lookups, updates, len, and as argument of
// repository functions that do the same (it neither deletes from it nor lets it escape).
func c16MapParamBenign(r *Run, fn *ssa.Function, k, depth int) bool {
	if fn == nil || len(fn.Blocks) == 0 || k >= len(fn.Params) || depth > 3 {
		return false
	}
	return c16MapUsesBenign(r, fn.Params[k], depth)
}

func c16MapUsesBenign(r *Run, m ssa.Value, depth int) bool {
	for _, rf := range refs(m) {
		switch x := rf.(type) {
		case *ssa.MapUpdate, *ssa.Lookup, *ssa.DebugRef:
		case *ssa.ChangeType:
			if !c16MapUsesBenign(r, x, depth) {
				return false
			}
		case *ssa.Call:
			if dBuiltin(&x.Call) == "len" {
				continue
			}
			callee := staticCallee(&x.Call)
			if callee == nil || !r.Prog.IsRepoFunc(callee) {
				return false
			}
			for j, a := range x.Call.Args {
				if a == m && !c16MapParamBenign(r, callee, j, depth+1) {
					return false
				}
			}
		default:
			return false
		}
	}
	return true
}

// c16EnsuresKey: after fn returns, key parameter #kj is present in map parameter #km on every path
// (the path found it by lookup, or inserted it).
func c16EnsuresKey(r *Run, fn *ssa.Function, km, kj int) bool {
	if fn == nil || len(fn.Blocks) == 0 || km >= len(fn.Params) || kj >= len(fn.Params) {
		return false
	}
	pm, pk := fn.Params[km], fn.Params[kj]
	paths, _, ok := funcPaths(fn, 500)
	r.paths += len(paths)
	if !ok || len(paths) == 0 {
		return false
	}
	for _, p := range paths {
		found := p.Has(true, func(v ssa.Value, _ string) bool {
			ex, ok := v.(*ssa.Extract)
			if !ok || ex.Index != 1 {
				return false
			}
			lk, ok := ex.Tuple.(*ssa.Lookup)
			return ok && lk.CommaOk && unwrap(lk.X) == ssa.Value(pm) && unwrap(lk.Index) == ssa.Value(pk)
		})
		for _, b := range p.Blocks {
			for _, in := range b.Instrs {
				if mu, ok := in.(*ssa.MapUpdate); ok && unwrap(mu.Map) == ssa.Value(pm) && unwrap(mu.Key) == ssa.Value(pk) {
					found = true
				}
			}
		}
		if !found {
			return false
		}
	}
	return true
}

// c16FilledMapAt: the function-local map mm is non-empty whenever control is at block use of fn.
func c16FilledMapAt(r *Run, fn *ssa.Function, ff *FuncFacts, use *ssa.BasicBlock, mm *ssa.MakeMap) (bool, string) {
	// the map must not escape or shrink
	if !c16MapUsesBenign(r, mm, 0) {
		return false, "the map is used by something other than lookup, update, len and helpers doing only that"
	}
	// loop over S containing the use
	sliceLoad := map[*ssa.BasicBlock]ssa.Value{}
	loopSlice := func(b *ssa.BasicBlock) (string, *ssa.BasicBlock) {
		// innermost rangeindex loop whose body contains b: header has phi #rangeindex and the bound len(S)
		for h := b; h != nil; h = h.Idom() {
			for _, in := range h.Instrs {
				phi, ok := in.(*ssa.Phi)
				if !ok || phi.Comment != "rangeindex" {
					continue
				}
				if b == h || !dInLoop(h, b) {
					continue
				}
				iff, ok := h.Instrs[len(h.Instrs)-1].(*ssa.If)
				if !ok {
					continue
				}
				cmp, ok := iff.Cond.(*ssa.BinOp)
				if !ok || cmp.Op != token.LSS {
					continue
				}
				ln, ok := cmp.Y.(*ssa.Call)
				if !ok || dBuiltin(&ln.Call) != "len" {
					continue
				}
				sliceLoad[h] = ln.Call.Args[0]
				return ff.K.key(ln.Call.Args[0]), h
			}
		}
		return "", nil
	}
	sKey, h2 := loopSlice(use)
	if h2 == nil {
		return false, "the division is not inside a range loop over a slice"
	}
	useConds := map[string]bool{}
	for _, f := range ff.At(use) {
		if strings.Contains(f.Key, "builtin:len(") {
			useConds[fkey(f)] = true
		}
	}
	isM := func(v ssa.Value) bool {
		for _, c := range dChains(v, true) {
			if c.Root == ssa.Value(mm) {
				return true
			}
		}
		return false
	}
	for _, b := range fn.Blocks {
		for _, in := range b.Instrs {
			// an insertion event: a map update guarded only by "key not found", or a helper that leaves its key in the map
			var event ssa.Instruction
			switch x := in.(type) {
			case *ssa.MapUpdate:
				if isM(x.Map) {
					event = x
				}
			case *ssa.Call:
				if callee := staticCallee(&x.Call); callee != nil && r.Prog.IsRepoFunc(callee) {
					for km, a := range x.Call.Args {
						if !isM(a) {
							continue
						}
						for kj := range x.Call.Args {
							if kj != km && c16EnsuresKey(r, callee, km, kj) {
								event = x
							}
						}
					}
				}
			}
			if event == nil {
				continue
			}
			s1, h1 := loopSlice(b)
			if h1 == nil || h1 == h2 || s1 != sKey || dReaches(h2, h1) {
				continue
			}
			// same enabling condition C, tested by a block B1 that dominates the second loop; on B1's
			// C-edge every path to the second loop runs through the first loop
			shared := false
			for _, f := range ff.At(h1) {
				if !strings.Contains(f.Key, "builtin:len(") || !useConds[fkey(f)] {
					continue
				}
				for b1 := h1.Idom(); b1 != nil; b1 = b1.Idom() {
					iff, ok := b1.Instrs[len(b1.Instrs)-1].(*ssa.If)
					if !ok || !b1.Dominates(h2) {
						continue
					}
					for si, succ := range b1.Succs {
						match := false
						for _, ef := range ff.K.normCond(iff.Cond, si == 0) {
							if fkey(ef) == fkey(f) {
								match = true
							}
						}
						if !match || !(succ == h1 || dReaches(succ, h1)) {
							continue
						}
						// can h2 be reached from succ without passing h1?
						seen := map[*ssa.BasicBlock]bool{h1: true}
						work := []*ssa.BasicBlock{succ}
						bypass := false
						for len(work) > 0 {
							x := work[len(work)-1]
							work = work[:len(work)-1]
							if seen[x] {
								continue
							}
							seen[x] = true
							if x == h2 {
								bypass = true
							}
							work = append(work, x.Succs...)
						}
						if !bypass {
							shared = true
						}
					}
				}
			}
			if !shared {
				continue
			}
			// every first iteration of the first loop leaves a key in the map
			guardOK := false
			switch x := event.(type) {
			case *ssa.MapUpdate:
				for _, f := range ff.At(b) {
					if ex, ok := f.V.(*ssa.Extract); ok && ex.Index == 1 && !f.Pol {
						// the lookup is the first thing an iteration does, and the insertion is guarded by it alone
						if lk, ok := ex.Tuple.(*ssa.Lookup); ok && lk.CommaOk && ff.K.key(lk.Index) == ff.K.key(x.Key) && lk.Block() == h1.Succs[0] &&
							len(b.Preds) == 1 && b.Preds[0] == lk.Block() {
							guardOK = true
						}
					}
				}
			case *ssa.Call:
				// the helper is called unconditionally at the start of every iteration
				guardOK = b == h1.Succs[0]
			}
			if c16StoredAfter(fn, sliceLoad[h1], h1) || c16StoredAfter(fn, sliceLoad[h2], h1) {
				guardOK = false
			}
			if !guardOK {
				continue
			}
			return true, fmt.Sprintf("len of the local map filled at %s for every element of %s under the same condition", r.Prog.Pos(instrPos(event)), c16StableKey(sKey))
		}
	}
	return false, "no earlier loop over the same slice fills the map under the same condition"
}

// ---------------------------------------------------------------------------------------------
// R5 definite initialisation of strategy results

func c16IsResultPtr(t types.Type) bool { return isPtrToNamed(t, pkgStrategy, "Result") }

// c16NonNil reports whether v is certainly non-nil: an allocation/address, or the result of a
// function whose every return is non-nil (given non-nil receivers for generated DeepCopy).
func c16NonNil(r *Run, v ssa.Value, depth int) (bool, string) {
	switch x := unwrap(v).(type) {
	case *ssa.Alloc, *ssa.FieldAddr, *ssa.IndexAddr, *ssa.MakeMap, *ssa.MakeSlice, *ssa.MakeChan, *ssa.MakeClosure, *ssa.Function, *ssa.Global:
		return true, "allocation/address"
	case *ssa.Const:
		if x.IsNil() {
			return false, "nil constant"
		}
		return true, "constant"
	case *ssa.Phi:
		for _, e := range x.Edges {
			if ok, why := c16NonNil(r, e, depth+1); !ok {
				return false, why
			}
		}
		return true, "all alternatives non-nil"
	case *ssa.Call:
		callee := staticCallee(&x.Call)
		if callee == nil || depth > 3 {
			return false, "result of " + calleeName(&x.Call)
		}
		ok, why := c16ReturnsNonNil(r, callee, 0, depth+1)
		if !ok {
			return false, why
		}
		return true, "result of " + shortFunc(callee)
	case *ssa.Extract:
		if c, ok := x.Tuple.(*ssa.Call); ok {
			callee := staticCallee(&c.Call)
			if callee != nil && depth <= 3 {
				if ok, _ := c16ReturnsNonNil(r, callee, x.Index, depth+1); ok {
					return true, "result of " + shortFunc(callee)
				}
			}
		}
	}
	return false, "value " + v.Name() + " is not provably non-nil"
}

var c16RetNonNilMemo = map[string]int{}

// c16ReturnsNonNil: on every path, result #idx of fn is an allocation, a non-nil summary result, or
// a parameter/receiver that the path has compared unequal to nil. For a method whose only nil
// return is under `receiver == nil` (generated DeepCopy) the answer is "non-nil if the receiver is",
// reported as ok with the receiver condition left to the caller (receivers here are addresses).
func c16ReturnsNonNil(r *Run, fn *ssa.Function, idx, depth int) (bool, string) {
	key := fmt.Sprintf("%s#%d", funcName(fn), idx)
	if v, ok := c16RetNonNilMemo[key]; ok {
		return v == 1, "result of " + shortFunc(fn)
	}
	c16RetNonNilMemo[key] = 2
	if len(fn.Blocks) == 0 {
		return false, "no body for " + funcName(fn)
	}
	paths, _, ok := funcPaths(fn, 2000)
	r.paths += len(paths)
	if !ok {
		return false, "path cap exceeded in " + funcName(fn)
	}
	for _, p := range paths {
		ret := returnOf(p.Blocks[len(p.Blocks)-1])
		if idx >= len(ret.Results) {
			return false, "no such result"
		}
		res := unwrap(p.Resolve(ret.Results[idx]))
		if par, isP := res.(*ssa.Parameter); isP {
			if p.Has(false, func(v ssa.Value, _ string) bool { return isNilCompareOf(v, isParam(par)) }) {
				continue
			}
			return false, shortFunc(fn) + " may return its nil argument"
		}
		if c, isC := res.(*ssa.Const); isC && c.IsNil() {
			// nil only for a nil receiver?
			if len(fn.Params) > 0 && p.Has(true, func(v ssa.Value, _ string) bool { return isNilCompareOf(v, isParam(fn.Params[0])) }) && fn.Signature.Recv() != nil {
				continue
			}
			return false, shortFunc(fn) + " returns nil on the path [" + shortFacts(p) + "]"
		}
		if ok, why := c16NonNil(r, res, depth+1); !ok {
			return false, why
		}
	}
	c16RetNonNilMemo[key] = 1
	return true, "every return of " + shortFunc(fn) + " is non-nil"
}

func c16DefiniteInit(r *Run) {
	ers := r.Prog.Method(pkgERS, "Reconciler", "Reconcile")
	if ers == nil {
		r.Fatal("anchor (%s.Reconciler).Reconcile not found", pkgERS)
		return
	}
	reach := dReachable(r.Prog, ers)
	good := map[*ssa.Function]bool{}
	var producers []*ssa.Function
	for _, fn := range sortedFuncs(reach) {
		res := fn.Signature.Results()
		if res.Len() > 0 && c16IsResultPtr(res.At(0).Type()) && r.Prog.IsRuleSite(fn) {
			producers = append(producers, fn)
		}
	}
	// iterate so that producers returning other producers' results are resolved
	type verdict struct {
		ok     bool
		detail string
	}
	verdicts := map[*ssa.Function]verdict{}
	// a producer that merely forwards another producer's result is not blamed for the latter's defect
	pending := map[*ssa.Function]bool{}
	for round := 0; round < 5; round++ {
		if round == 4 {
			for _, fn := range producers {
				if !good[fn] {
					pending[fn] = true
				}
			}
		}
		for _, fn := range producers {
			ok, detail := c16ProducerOK(r, fn, good, pending)
			verdicts[fn] = verdict{ok, detail}
			if ok {
				good[fn] = true
			}
		}
	}
	for _, fn := range producers {
		v := verdicts[fn]
		r.Check("C16.R5", "result of "+shortFunc(fn), r.Prog.Pos(fn.Pos()), shortFunc(fn),
			"every return yields a non-nil *Result whose NewStatus has been assigned a non-nil value (the reconciler dereferences both unconditionally)", v.ok, v.detail)
	}
	// Parameters.NewStatus is built non-nil
	n := 0
	for _, fn := range sortedFuncs(reach) {
		for _, b := range fn.Blocks {
			for _, in := range b.Instrs {
				st, ok := in.(*ssa.Store)
				if !ok {
					continue
				}
				fa, ok := st.Addr.(*ssa.FieldAddr)
				if !ok || fieldName(fa) != "NewStatus" || !isPtrToNamed(fa.X.Type(), pkgStrategy, "Parameters") {
					continue
				}
				n++
				ok2, why := c16NonNil(r, st.Val, 0)
				if c, isCall := unwrap(st.Val).(*ssa.Call); isCall && ok2 && len(c.Call.Args) > 0 {
					// DeepCopy of a receiver: the receiver must be an address
					if ok3, why3 := c16NonNil(r, c.Call.Args[0], 0); !ok3 {
						ok2, why = false, "DeepCopy receiver: "+why3
					}
				}
				r.Check("C16.R5", "Parameters.NewStatus", r.Prog.Pos(st.Pos()), shortFunc(fn), "the status handed to the strategies is a copy of a non-nil status", ok2, why)
			}
		}
	}
	if n == 0 {
		r.Check("C16.R5", "Parameters.NewStatus", "-", "-", "strategy.Parameters.NewStatus is assigned where the parameters are built", false, "no store found")
	}
}

// c16ProducerOK checks one function returning *strategy.Result.
func c16ProducerOK(r *Run, fn *ssa.Function, good, pending map[*ssa.Function]bool) (bool, string) {
	// forward must-analysis: set of Result allocations whose NewStatus has been assigned
	type set map[*ssa.Alloc]bool
	in := map[*ssa.BasicBlock]set{}
	reached := map[*ssa.BasicBlock]bool{fn.Blocks[0]: true}
	in[fn.Blocks[0]] = set{}
	assigns := func(ins ssa.Instruction) (*ssa.Alloc, bool, string) {
		st, ok := ins.(*ssa.Store)
		if !ok {
			return nil, false, ""
		}
		fa, ok := st.Addr.(*ssa.FieldAddr)
		if !ok || fieldName(fa) != "NewStatus" {
			return nil, false, ""
		}
		a, ok := fa.X.(*ssa.Alloc)
		if !ok || !c16IsResultPtr(a.Type()) {
			return nil, false, ""
		}
		okv, why := c16NonNil(r, st.Val, 0)
		return a, okv, why
	}
	why := ""
	for changed, iter := true, 0; changed && iter < 200; iter++ {
		changed = false
		for _, b := range fn.Blocks {
			if !reached[b] {
				continue
			}
			cur := set{}
			for k := range in[b] {
				cur[k] = true
			}
			for _, ins := range b.Instrs {
				if a, okv, w := assigns(ins); a != nil {
					if okv {
						cur[a] = true
					} else {
						delete(cur, a)
						why = "NewStatus is assigned a possibly nil value: " + w
					}
				}
			}
			for _, s := range b.Succs {
				if !reached[s] {
					reached[s] = true
					cp := set{}
					for k := range cur {
						cp[k] = true
					}
					in[s] = cp
					changed = true
					continue
				}
				for k := range in[s] {
					if !cur[k] {
						delete(in[s], k)
						changed = true
					}
				}
			}
		}
	}
	assignedAt := func(ret *ssa.Return, a *ssa.Alloc) bool {
		cur := set{}
		for k := range in[ret.Block()] {
			cur[k] = true
		}
		for _, ins := range ret.Block().Instrs {
			if ins == ssa.Instruction(ret) {
				break
			}
			if x, okv, _ := assigns(ins); x != nil {
				if okv {
					cur[x] = true
				} else {
					delete(cur, x)
				}
			}
		}
		return cur[a]
	}
	var dispatchNil []*ssa.Return
	for _, rt := range dNormalReturns(fn) {
		if !reached[rt.Block()] {
			continue
		}
		// a call through a constant table of functions / a function parameter: every possible callee is a checked producer
		dynGood := func(c *ssa.Call) (bool, string) {
			if staticCallee(&c.Call) != nil {
				return false, ""
			}
			fs, ok := dDynCallees(r.Prog, c)
			if !ok {
				return false, ""
			}
			for _, f := range fs {
				if !(good[f] || pending[f]) {
					return false, "returns the result of a table of functions containing " + shortFunc(f) + ", which is not shown to initialise NewStatus"
				}
			}
			return true, ""
		}
		var check func(v ssa.Value, depth int) (bool, string)
		check = func(v ssa.Value, depth int) (bool, string) {
			switch x := unwrap(v).(type) {
			case *ssa.Alloc:
				if assignedAt(rt, x) {
					return true, ""
				}
				if why != "" {
					return false, why
				}
				return false, fmt.Sprintf("the Result returned at %s has no NewStatus assigned on some path", r.Prog.Pos(instrPos(rt)))
			case *ssa.Phi:
				for _, e := range x.Edges {
					if c, isC := e.(*ssa.Const); isC && c.IsNil() {
						dispatchNil = append(dispatchNil, rt)
						continue
					}
					if ok, w := check(e, depth+1); !ok {
						return false, w
					}
				}
				return true, ""
			case *ssa.Call:
				if callee := staticCallee(&x.Call); callee != nil && (good[callee] || pending[callee]) {
					return true, ""
				}
				if okd, w := dynGood(x); okd {
					return true, ""
				} else if w != "" {
					return false, w
				}
				return false, "returns the result of " + calleeName(&x.Call) + ", which is not shown to initialise NewStatus"
			case *ssa.Extract:
				if c, ok := x.Tuple.(*ssa.Call); ok && x.Index == 0 {
					if callee := staticCallee(&c.Call); callee != nil && (good[callee] || pending[callee]) {
						return true, ""
					}
					if okd, w := dynGood(c); okd {
						return true, ""
					} else if w != "" {
						return false, w
					}
					return false, "returns the result of " + calleeName(&c.Call) + ", which is not shown to initialise NewStatus"
				}
			case *ssa.Const:
				if x.IsNil() {
					// allowed only if every path returning nil is infeasible (exhaustive role dispatch), checked below
					dispatchNil = append(dispatchNil, rt)
					return true, ""
				}
			}
			return false, "returned value " + v.Name() + " is not a local Result allocation or the result of a checked strategy function"
		}
		if ok, w := check(rt.Results[0], 0); !ok {
			return false, w
		}
	}
	if len(dispatchNil) > 0 {
		return c16DispatchExhaustive(r, fn)
	}
	return true, "NewStatus assigned from a non-nil value before every return"
}

// c16DispatchExhaustive: a function returning phi(nil, results of strategy calls) is fine if the
// nil alternative is infeasible: every path keeping nil compares one field F of a repository struct
// unequal to constants c1..cn, and every store to F anywhere in the repository writes one of c1..cn.
func c16DispatchExhaustive(r *Run, fn *ssa.Function) (bool, string) {
	paths, _, ok := funcPaths(fn, 5000)
	r.paths += len(paths)
	if !ok {
		return false, "path cap exceeded"
	}
	for _, p := range paths {
		ret := returnOf(p.Blocks[len(p.Blocks)-1])
		res := unwrap(p.Resolve(ret.Results[0]))
		c, isC := res.(*ssa.Const)
		if !isC || !c.IsNil() {
			continue
		}
		// constants excluded on this path, all on one field
		excluded := map[string]bool{}
		var field []string
		var owner *types.Named
		for _, f := range p.Facts {
			// `_, found := table[role]` with found == false: the role is none of the table's keys
			if ex, isEx := f.V.(*ssa.Extract); isEx && ex.Index == 1 && !f.Pol {
				if lk, isLk := ex.Tuple.(*ssa.Lookup); isLk && lk.CommaOk {
					if ld, isLd := unwrap(lk.X).(*ssa.UnOp); isLd && ld.Op == token.MUL {
						if g, isG := ld.X.(*ssa.Global); isG {
							if keys, okk := dTableKeys(r.Prog, g); okk {
								if u, isLoad := unwrap(lk.Index).(*ssa.UnOp); isLoad {
									if fa, isFA := u.X.(*ssa.FieldAddr); isFA {
										if n := dNamedOf(fa.X.Type()); n != nil && (owner == nil || (owner == n && field[0] == fieldName(fa))) {
											owner, field = n, []string{fieldName(fa)}
											for _, kx := range keys {
												excluded[kx] = true
											}
										}
									}
								}
							}
						}
					}
				}
				continue
			}
			bo, ok := f.V.(*ssa.BinOp)
			if !ok || f.Pol || (bo.Op != token.EQL && bo.Op != token.NEQ) {
				continue
			}
			x, y := bo.X, bo.Y
			if _, isC := constString(x); isC {
				x, y = y, x
			}
			s, isC := constString(y)
			if !isC {
				continue
			}
			u, isLoad := unwrap(x).(*ssa.UnOp)
			if !isLoad {
				continue
			}
			fa, isFA := u.X.(*ssa.FieldAddr)
			if !isFA {
				continue
			}
			n := dNamedOf(fa.X.Type())
			if n == nil {
				continue
			}
			if owner != nil && (owner != n || field[0] != fieldName(fa)) {
				continue
			}
			owner, field = n, []string{fieldName(fa)}
			excluded[s] = true
		}
		if owner == nil {
			return false, "the dispatcher can fall through with a nil Result on the path [" + shortFacts(p) + "]"
		}
		// value set of owner.field
		nStores := 0
		for _, g := range r.Prog.RepoFuncs() {
			for _, b := range g.Blocks {
				for _, in := range b.Instrs {
					switch x := in.(type) {
					case *ssa.Store:
						fa, ok := x.Addr.(*ssa.FieldAddr)
						if !ok || dNamedOf(fa.X.Type()) != owner || fieldName(fa) != field[0] {
							continue
						}
						nStores++
						vals, okv := c16ConstSet(r, x.Val, 0)
						if !okv {
							return false, fmt.Sprintf("%s.%s is assigned a value that is not a known set of constants at %s", owner.Obj().Name(), field[0], r.Prog.Pos(x.Pos()))
						}
						for _, v := range vals {
							if !excluded[v] {
								return false, fmt.Sprintf("%s.%s can hold %q (assigned at %s), which the dispatcher does not handle: it would return a nil Result", owner.Obj().Name(), field[0], v, r.Prog.Pos(x.Pos()))
							}
						}
					case *ssa.FieldAddr:
						if dNamedOf(x.X.Type()) == owner && fieldName(x) == field[0] {
							for _, rf := range refs(x) {
								switch y := rf.(type) {
								case *ssa.Store:
									if y.Addr != ssa.Value(x) {
										return false, "address of the role field escapes"
									}
								case *ssa.UnOp, *ssa.DebugRef:
								default:
									return false, "address of the role field escapes at " + r.Prog.Pos(instrPos(rf))
								}
							}
						}
					}
				}
			}
		}
		if nStores == 0 {
			return false, "the role field is never assigned: its zero value is not dispatched"
		}
	}
	return true, "the nil fall-through of the dispatcher is infeasible: the role field only holds dispatched constants"
}

// c16ConstSet returns the set of string constants v can be (through conversions, phis and calls
// of repository functions all of whose returns are such sets).
func c16ConstSet(r *Run, v ssa.Value, depth int) ([]string, bool) {
	if depth > 4 {
		return nil, false
	}
	switch x := unwrap(v).(type) {
	case *ssa.Const:
		if s, ok := constString(x); ok {
			return []string{s}, true
		}
	case *ssa.Phi:
		var out []string
		for _, e := range x.Edges {
			vs, ok := c16ConstSet(r, e, depth+1)
			if !ok {
				return nil, false
			}
			out = append(out, vs...)
		}
		return out, true
	case *ssa.Call:
		callee := staticCallee(&x.Call)
		if callee == nil || len(callee.Blocks) == 0 || !r.Prog.IsRepoFunc(callee) {
			return nil, false
		}
		var out []string
		for _, rt := range dNormalReturns(callee) {
			vs, ok := c16ConstSet(r, rt.Results[0], depth+1)
			if !ok {
				return nil, false
			}
			out = append(out, vs...)
		}
		return out, len(out) > 0
	}
	return nil, false
}

// ---------------------------------------------------------------------------------------------
// R2 guarded stores in the defaulters

func c16Defaulters(r *Run) (*ssa.Function, map[*ssa.Function]bool) {
	fn := r.Prog.Func(pkgAPI, "DefaultExtendedDaemonSetSpec")
	if fn == nil {
		r.Fatal("anchor %s.DefaultExtendedDaemonSetSpec not found", pkgAPI)
		return nil, nil
	}
	return fn, dReachable(r.Prog, fn)
}

// c16IdentityOrDefault: fn returns its parameter #i whenever it is non-nil (every return is the
// parameter itself, or happens under the fact parameter == nil).
func c16IdentityOrDefault(r *Run, fn *ssa.Function, i int) bool {
	if fn == nil || len(fn.Blocks) == 0 || i >= len(fn.Params) {
		return false
	}
	paths, _, ok := funcPaths(fn, 500)
	r.paths += len(paths)
	if !ok || len(paths) == 0 {
		return false
	}
	p0 := fn.Params[i]
	for _, p := range paths {
		ret := returnOf(p.Blocks[len(p.Blocks)-1])
		if len(ret.Results) != 1 {
			return false
		}
		res := unwrap(p.Resolve(ret.Results[0]))
		// see through helpers that hand their argument back
		for d := 0; d < 4; d++ {
			c, isCall := res.(*ssa.Call)
			if !isCall {
				break
			}
			k := c16ReturnsParam(staticCallee(&c.Call), 0)
			if k < 0 || k >= len(c.Call.Args) {
				break
			}
			res = unwrap(p.Resolve(c.Call.Args[k]))
		}
		if res == ssa.Value(p0) {
			continue
		}
		if p.Has(true, func(v ssa.Value, _ string) bool { return isNilCompareOf(v, isParam(p0)) }) {
			continue
		}
		return false
	}
	return true
}

// c16ReturnsParam: every return of fn hands back the same parameter (directly, or through a callee
// that does so); returns its index, -1 otherwise.
func c16ReturnsParam(fn *ssa.Function, depth int) int {
	if fn == nil || len(fn.Blocks) == 0 || depth > 3 || fn.Signature.Results().Len() != 1 {
		return -1
	}
	idx := -1
	for _, rt := range dNormalReturns(fn) {
		k := c16AliasOfParam(fn, rt.Results[0], depth)
		if k < 0 || (idx >= 0 && idx != k) {
			return -1
		}
		idx = k
	}
	return idx
}

// c16AliasOfParam: v is parameter #k of fn, or a phi of it and fresh allocations ("the argument, or
// a new object if it was nil"), or the result of a callee that hands such a value back.
func c16AliasOfParam(fn *ssa.Function, v ssa.Value, depth int) int {
	switch x := unwrap(v).(type) {
	case *ssa.Parameter:
		if x.Parent() == fn {
			return paramIndex(x)
		}
	case *ssa.Phi:
		idx := -1
		for _, e := range x.Edges {
			if _, isA := e.(*ssa.Alloc); isA {
				continue
			}
			p, ok := e.(*ssa.Parameter)
			if !ok || p.Parent() != fn || (idx >= 0 && idx != paramIndex(p)) {
				return -1
			}
			idx = paramIndex(p)
		}
		return idx
	case *ssa.Call:
		if depth > 3 {
			return -1
		}
		k := c16ReturnsParam(staticCallee(&x.Call), depth+1)
		if k >= 0 && k < len(x.Call.Args) {
			return c16AliasOfParam(fn, x.Call.Args[k], depth+1)
		}
	}
	return -1
}

func c16GuardedStores(r *Run) {
	_, fns := c16Defaulters(r)
	for _, fn := range sortedFuncs(fns) {
		if !r.Prog.IsRuleSite(fn) {
			continue
		}
		ff := computeFacts(fn)
		for _, b := range fn.Blocks {
			for _, in := range b.Instrs {
				st, ok := in.(*ssa.Store)
				if !ok {
					continue
				}
				root, path := accessPath(st.Addr)
				if _, isP := root.(*ssa.Parameter); !isP || len(path) == 0 {
					continue
				}
				construct := "store " + strings.Join(path, ".")
				pos := r.Prog.Pos(st.Pos())
				sf := shortFunc(fn)
				sameField := func(v ssa.Value) bool {
					r2, p2 := accessPath(unwrap(v))
					if _, isLoad := unwrap(v).(*ssa.UnOp); !isLoad {
						return false
					}
					return r2 == root && c16PathEq(p2, path)
				}
				parentField := func(v ssa.Value) bool {
					r2, p2 := accessPath(unwrap(v))
					if _, isLoad := unwrap(v).(*ssa.UnOp); !isLoad {
						return false
					}
					return r2 == root && len(p2) > 0 && len(p2) < len(path) && c16HasPrefix(path, p2)
				}
				guarded := ff.Holds(b, true, func(v ssa.Value, _ string) bool {
					if isNilCompareOf(v, sameField) || isNilCompareOf(v, parentField) {
						return true // the field, or the struct holding it, was left nil by the user
					}
					return isEqCompare(v, sameField, isConstStringVal(""))
				})
				if guarded {
					r.Check("C16.R2", construct, pos, sf, "a defaulter writes a field only when the user left it nil/empty", true, "guarded by `field == nil/\"\"` on the same field")
					continue
				}
				if c, isCall := unwrap(st.Val).(*ssa.Call); isCall && len(c.Call.Args) > 0 && sameField(c.Call.Args[0]) && c16IdentityOrDefault(r, staticCallee(&c.Call), 0) {
					r.Check("C16.R2", construct, pos, sf, "a defaulter writes a field only when the user left it nil/empty", true, "stores "+calleeName(&c.Call)+"(field, default), which returns the field itself whenever it is non-nil")
					continue
				}
				if s, isC := constString(st.Val); isC && s == "" && len(path) >= 3 && c16PathEq(path[len(path)-3:], []string{"Template", "ObjectMeta", "Name"}) {
					r.Check("C16.R2", construct, pos, sf, "the only value a defaulter may overwrite is the pod template's name, with the empty string", true, "Template.Name = \"\"")
					continue
				}
				r.Check("C16.R2", construct, pos, sf, "a defaulter writes a field only when the user left it nil/empty", false,
					"unguarded store: a value set by the user would be overwritten (and defaulting twice could differ)")
			}
		}
	}
}

// ---------------------------------------------------------------------------------------------
// R1 agreement of the recogniser and the defaulter

// c16Reason is one way the recogniser answers false: a conjunction of literals over field paths
// relative to the recognised object.
type c16Reason struct {
	Lits  []c16Lit
	Notes []string
	Fn    *ssa.Function
	Pos   token.Pos
}

func (rs c16Reason) String() string {
	var out []string
	for _, l := range rs.Lits {
		out = append(out, l.String())
	}
	sort.Strings(out)
	return strings.Join(out, " ∧ ")
}

// c16Reasons reads the false-paths of a boolean recogniser with one pointer parameter.
func c16Reasons(r *Run, fn *ssa.Function, depth int) ([]c16Reason, []string) {
	return c16RecPaths(r, fn, false, depth)
}

// c16RecPaths reads the paths on which a boolean recogniser with one pointer parameter answers
// `want`, each as the conjunction of the literals known on the path (sub-recognisers that gave the
// same answer are expanded in place). For want=false the literals are pruned to the deciding ones
// (a weaker conjunction only makes the fixed-point check stricter); for want=true every literal is
// kept and uninterpreted conditions are simply left out (a weaker alternative only makes a
// consumer that relies on the recogniser's "true" more demanding).
func c16RecPaths(r *Run, fn *ssa.Function, want bool, depth int) ([]c16Reason, []string) {
	var undecided []string
	if fn == nil || len(fn.Blocks) == 0 || len(fn.Params) != 1 || depth > 4 {
		return nil, []string{"recogniser " + funcName(fn) + " has no body, more than one parameter, or is nested too deep"}
	}
	paths, _, ok := funcPaths(fn, 5000)
	r.paths += len(paths)
	if !ok {
		return nil, []string{"path cap exceeded in " + shortFunc(fn)}
	}
	isRoot := isParam(fn.Params[0])
	var out []c16Reason
	seen := map[string]bool{}
	subMemo := map[*ssa.Function][]c16Reason{}
	sub := func(callee *ssa.Function) []c16Reason {
		if rs, ok := subMemo[callee]; ok {
			return rs
		}
		rs, und := c16RecPaths(r, callee, want, depth+1)
		undecided = append(undecided, und...)
		subMemo[callee] = rs
		return rs
	}
	isRecogniserCall := func(v ssa.Value) (*ssa.Call, *ssa.Function, []string, bool) {
		c, ok := v.(*ssa.Call)
		if !ok {
			return nil, nil, nil, false
		}
		callee := staticCallee(&c.Call)
		if callee == nil || !r.Prog.IsRepoFunc(callee) || len(c.Call.Args) != 1 {
			return nil, nil, nil, false
		}
		if b, ok := callee.Signature.Results().At(0).Type().Underlying().(*types.Basic); !ok || b.Kind() != types.Bool {
			return nil, nil, nil, false
		}
		root, path := accessPath(c.Call.Args[0])
		if !isRoot(root) {
			return nil, nil, nil, false
		}
		return c, callee, path, true
	}
	for _, p := range paths {
		ret := returnOf(p.Blocks[len(p.Blocks)-1])
		res := p.Resolve(ret.Results[0])
		var extraFalse ssa.Value
		var facts []Fact
		for _, f := range p.Facts {
			facts = append(facts, f)
		}
		if b, isC := constBool(res); isC {
			if b != want {
				continue
			}
		} else if _, _, _, isRec := isRecogniserCall(res); isRec {
			extraFalse = res
		} else if _, isCmp := res.(*ssa.BinOp); isCmp {
			// `return x != nil`: the answer is `want` exactly when the comparison is
			facts = append(facts, p.k.normCond(res, want)...)
		} else {
			undecided = append(undecided, fmt.Sprintf("%s returns a non-constant value at %s", shortFunc(fn), r.Prog.Pos(instrPos(ret))))
			continue
		}
		// boolean locals built from short-circuit expressions: resolve them along the path
		for i, f := range facts {
			if _, isPhi := f.V.(*ssa.Phi); isPhi {
				if v := p.Resolve(f.V); v != f.V {
					if b, isC := constBool(v); isC {
						if b != f.Pol {
							facts[i] = Fact{Key: "contradiction", Pol: true, V: v}
						} else {
							facts[i] = Fact{}
						}
						continue
					}
					nf := p.k.normCond(v, f.Pol)
					if len(nf) > 0 {
						facts[i] = nf[0]
						facts = append(facts, nf[1:]...)
					}
				}
			}
		}
		base := c16Reason{Fn: fn, Pos: instrPos(ret)}
		var expand [][]c16Reason
		var prefixes [][]string
		addCallFalse := func(v ssa.Value) {
			_, callee, prefix, _ := isRecogniserCall(v)
			expand = append(expand, sub(callee))
			prefixes = append(prefixes, prefix)
		}
		if extraFalse != nil {
			addCallFalse(extraFalse)
		}
		infeasible := false
		for _, f := range facts {
			if f.V == nil {
				continue
			}
			if f.Key == "contradiction" {
				infeasible = true
				continue
			}
			if l, ok := c16LitOf(f, isRoot); ok {
				base.Lits = append(base.Lits, l)
				continue
			}
			if _, _, _, isRec := isRecogniserCall(f.V); isRec {
				if f.Pol == want {
					addCallFalse(f.V)
				}
				continue // a sub-recogniser that gave the other answer only narrows the path: dropping it is conservative
			}
			if !want {
				base.Notes = append(base.Notes, "uninterpreted condition "+f.Key)
			}
		}
		// contradictory literals: the path cannot be taken
		for i, a := range base.Lits {
			for _, b := range base.Lits[i+1:] {
				if a.Kind == b.Kind && a.Str == b.Str && a.Pol != b.Pol && c16PathEq(a.Path, b.Path) {
					infeasible = true
				}
			}
		}
		if infeasible {
			continue
		}
		cur := []c16Reason{base}
		for i, subs := range expand {
			var next []c16Reason
			for _, c := range cur {
				for _, s := range subs {
					n := c16Reason{Fn: s.Fn, Pos: s.Pos, Notes: append(append([]string{}, c.Notes...), s.Notes...)}
					n.Lits = append(n.Lits, c.Lits...)
					for _, l := range s.Lits {
						l2 := l
						l2.Path = append(append([]string{}, prefixes[i]...), l.Path...)
						n.Lits = append(n.Lits, l2)
					}
					next = append(next, n)
				}
			}
			cur = next
		}
		for _, c := range cur {
			if !want {
				c.Lits = c16Prune(c.Lits)
			}
			if k := c.String(); !seen[k] {
				seen[k] = true
				out = append(out, c)
			}
		}
	}
	return out, undecided
}

// c16Prune keeps the literals that decide a false answer: `== nil`, string comparisons, and
// `!= nil` only on prefixes of other kept paths. Dropping literals only weakens the reason, which
// makes the fixed-point check stricter.
func c16Prune(ls []c16Lit) []c16Lit {
	var keep []c16Lit
	for _, l := range ls {
		if l.Kind == "str" || l.Pol {
			keep = append(keep, l)
		}
	}
	var out []c16Lit
	seen := map[string]bool{}
	add := func(l c16Lit) {
		if !seen[l.String()] {
			seen[l.String()] = true
			out = append(out, l)
		}
	}
	for _, l := range ls {
		if l.Kind == "nil" && !l.Pol {
			for _, k := range keep {
				if len(k.Path) > len(l.Path) && c16HasPrefix(k.Path, l.Path) {
					add(l)
				}
			}
		}
	}
	for _, l := range keep {
		add(l)
	}
	return out
}

// ---- abstract interpretation of the defaulters over a handful of tracked fields

type c16Key struct {
	Param int
	Path  []string
}

func (k c16Key) String() string { return fmt.Sprintf("%d:%s", k.Param, strings.Join(k.Path, ".")) }

type c16AI struct {
	r       *Run
	memo    map[string]map[string]bool
	problem []string
}

const c16Sep = "\x1f"

// c16TypeAt walks a type along field names (through pointers).
func c16TypeAt(t types.Type, path []string) types.Type {
	for _, f := range path {
		if p, ok := t.Underlying().(*types.Pointer); ok {
			t = p.Elem()
		}
		st, ok := t.Underlying().(*types.Struct)
		if !ok {
			return nil
		}
		found := false
		for i := 0; i < st.NumFields(); i++ {
			if st.Field(i).Name() == f {
				t = st.Field(i).Type()
				found = true
				break
			}
		}
		if !found {
			return nil
		}
	}
	return t
}

// c16Domain lists the abstract values of a field of type t.
func c16Domain(t types.Type) []string {
	if t == nil {
		return []string{"?"}
	}
	switch u := t.Underlying().(type) {
	case *types.Pointer, *types.Map, *types.Slice, *types.Interface, *types.Chan, *types.Signature:
		return []string{"nil", "nonnil"}
	case *types.Basic:
		if u.Kind() == types.String {
			out := []string{"s:"}
			for _, c := range c16DeclaredConsts(t) {
				if c != "" {
					out = append(out, "s:"+c)
				}
			}
			return append(out, "#other")
		}
	}
	return []string{"?"}
}

// c16DeclaredConsts returns the values of the package-level constants declared with named type t.
func c16DeclaredConsts(t types.Type) []string {
	n, ok := t.(*types.Named)
	if !ok || n.Obj().Pkg() == nil {
		return nil
	}
	var out []string
	sc := n.Obj().Pkg().Scope()
	for _, name := range sc.Names() {
		if c, ok := sc.Lookup(name).(*types.Const); ok && types.Identical(c.Type(), t) {
			if s, ok := constString(ssa.NewConst(c.Val(), c.Type())); ok {
				out = append(out, s)
			}
		}
	}
	sort.Strings(out)
	return out
}

func c16ParamIdx(fn *ssa.Function, v ssa.Value) int {
	for i, p := range fn.Params {
		if ssa.Value(p) == v {
			return i
		}
	}
	return -1
}

// post runs fn from the given set of tuples (one abstract value per key) and returns the tuples
// possible at its returns.
func (ai *c16AI) post(fn *ssa.Function, keys []c16Key, in map[string]bool, depth int) map[string]bool {
	out := map[string]bool{}
	for t := range in {
		mk := funcName(fn) + "|" + fmt.Sprint(keys) + "|" + t
		if res, ok := ai.memo[mk]; ok {
			for k := range res {
				out[k] = true
			}
			continue
		}
		res := ai.run(fn, keys, map[string]bool{t: true}, depth)
		ai.memo[mk] = res
		for k := range res {
			out[k] = true
		}
	}
	return out
}

func (ai *c16AI) run(fn *ssa.Function, keys []c16Key, in map[string]bool, depth int) map[string]bool {
	if len(fn.Blocks) == 0 || depth > 6 {
		ai.problem = append(ai.problem, "cannot analyse "+funcName(fn))
		return ai.havocAll(fn, keys, in, nil)
	}
	domains := make([][]string, len(keys))
	for i, k := range keys {
		domains[i] = c16Domain(c16TypeAt(fn.Params[k.Param].Type(), k.Path))
	}
	keyIndex := func(pi int, path []string) int {
		for i, k := range keys {
			if k.Param == pi && c16PathEq(k.Path, path) {
				return i
			}
		}
		return -1
	}
	// local pointers that stand for a parameter "or a new object if it was nil"
	alias := map[ssa.Value]int{}
	for _, b := range fn.Blocks {
		for _, in := range b.Instrs {
			if phi, ok := in.(*ssa.Phi); ok {
				hasAlloc := false
				for _, e := range phi.Edges {
					if _, isA := e.(*ssa.Alloc); isA {
						hasAlloc = true
					}
				}
				if k := c16AliasOfParam(fn, phi, 0); k >= 0 && hasAlloc {
					alias[phi] = k
				}
			}
		}
	}
	pidx := func(root ssa.Value) int {
		if k, ok := alias[root]; ok {
			return k
		}
		return c16ParamIdx(fn, root)
	}
	state := map[*ssa.BasicBlock]map[string]bool{fn.Blocks[0]: {}}
	for t := range in {
		state[fn.Blocks[0]][t] = true
	}
	work := []*ssa.BasicBlock{fn.Blocks[0]}
	result := map[string]bool{}
	validIn := map[*ssa.BasicBlock]map[ssa.Value]int{fn.Blocks[0]: {}}
	steps := 0
	for len(work) > 0 && steps < 5000 {
		steps++
		b := work[0]
		work = work[1:]
		cur := map[string]bool{}
		for t := range state[b] {
			cur[t] = true
		}
		// loads of tracked keys whose value is still current (carried across blocks as a must-set)
		valid := map[ssa.Value]int{}
		for v, k := range validIn[b] {
			valid[v] = k
		}
		invalidate := func(ki int) {
			for v, k := range valid {
				if k == ki {
					delete(valid, v)
				}
			}
		}
		// abstract value of v in tuple t, as atoms of domain dom
		var abs func(v ssa.Value, t []string, dom []string, d int) []string
		abs = func(v ssa.Value, t []string, dom []string, d int) []string {
			isPtrDom := len(dom) == 2 && dom[0] == "nil"
			if d > 8 {
				return dom
			}
			if ki, ok := valid[v]; ok {
				return []string{t[ki]}
			}
			switch x := v.(type) {
			case *ssa.Const:
				if x.IsNil() {
					return []string{"nil"}
				}
				if s, ok := constString(x); ok && !isPtrDom {
					for _, a := range dom {
						if a == "s:"+s {
							return []string{a}
						}
					}
					return []string{"#other"}
				}
			case *ssa.Alloc, *ssa.FieldAddr, *ssa.IndexAddr, *ssa.MakeMap, *ssa.MakeSlice, *ssa.MakeChan, *ssa.MakeClosure, *ssa.Function, *ssa.MakeInterface:
				if isPtrDom {
					return []string{"nonnil"}
				}
			case *ssa.ChangeType:
				return abs(x.X, t, dom, d+1)
			case *ssa.Convert:
				return abs(x.X, t, dom, d+1)
			case *ssa.Phi:
				set := map[string]bool{}
				for _, e := range x.Edges {
					for _, a := range abs(e, t, dom, d+1) {
						set[a] = true
					}
				}
				var out []string
				for _, a := range dom {
					if set[a] {
						out = append(out, a)
					}
				}
				return out
			case *ssa.Parameter:
				// a parameter of a named string type with declared constants holds one of them (assumption checked at the call in main)
				if !isPtrDom {
					if cs := c16DeclaredConsts(x.Type()); len(cs) > 0 {
						var out []string
						for _, c := range cs {
							out = append(out, "s:"+c)
						}
						return out
					}
				}
			case *ssa.Call:
				if callee := staticCallee(&x.Call); callee != nil && isPtrDom {
					if ok, _ := c16ReturnsNonNil(ai.r, callee, 0, 0); ok {
						return []string{"nonnil"}
					}
				}
			case *ssa.UnOp:
				if x.Op == token.MUL {
					if a, ok := x.X.(*ssa.Alloc); ok && dIsVarCell(a) {
						set := map[string]bool{}
						for _, rf := range refs(a) {
							if st, ok := rf.(*ssa.Store); ok {
								for _, at := range abs(st.Val, t, dom, d+1) {
									set[at] = true
								}
							}
						}
						var out []string
						for _, at := range dom {
							if set[at] {
								out = append(out, at)
							}
						}
						if len(out) > 0 {
							return out
						}
					}
				}
			}
			return dom
		}
		apply := func(ki int, f func(t []string) []string) {
			next := map[string]bool{}
			for enc := range cur {
				t := strings.Split(enc, c16Sep)
				for _, a := range f(t) {
					t2 := append([]string{}, t...)
					t2[ki] = a
					next[strings.Join(t2, c16Sep)] = true
				}
			}
			cur = next
			invalidate(ki)
		}
		zero := func(dom []string) string { return dom[0] } // "nil" or "s:" or "?"
		for _, ins := range b.Instrs {
			switch x := ins.(type) {
			case *ssa.UnOp:
				if x.Op == token.MUL {
					root, path := accessPath(x.X)
					if pi := pidx(root); pi >= 0 {
						if ki := keyIndex(pi, path); ki >= 0 {
							valid[x] = ki
						}
					}
				}
			case *ssa.Store:
				root, path := accessPath(x.Addr)
				pi := pidx(root)
				// field = helper(field, …) where the helper hands back its argument, or a new object if it was nil,
				// after working on it: the helper's effect on the object applies to the field
				if pi >= 0 {
					if hc, isCall := unwrap(x.Val).(*ssa.Call); isCall {
						if h := staticCallee(&hc.Call); h != nil && len(h.Blocks) > 0 {
							if j := c16ReturnsParam(h, 0); j >= 0 && j < len(hc.Call.Args) {
								ar, ap := accessPath(hc.Call.Args[j])
								_, isLoad := hc.Call.Args[j].(*ssa.UnOp)
								if isLoad && pidx(ar) == pi && c16PathEq(ap, path) {
									var kis []int
									var ckeys []c16Key
									for ki, k := range keys {
										if k.Param == pi && c16HasPrefix(k.Path, path) {
											kis = append(kis, ki)
											ckeys = append(ckeys, c16Key{j, k.Path[len(path):]})
										}
									}
									if len(kis) > 0 {
										next := map[string]bool{}
										for enc := range cur {
											t := strings.Split(enc, c16Sep)
											sub := make([]string, len(kis))
											for i, ki := range kis {
												sub[i] = t[ki]
											}
											for o := range ai.post(h, ckeys, map[string]bool{strings.Join(sub, c16Sep): true}, depth+1) {
												ot := strings.Split(o, c16Sep)
												t2 := append([]string{}, t...)
												for i, ki := range kis {
													t2[ki] = ot[i]
												}
												next[strings.Join(t2, c16Sep)] = true
											}
										}
										cur = next
										for _, ki := range kis {
											invalidate(ki)
										}
									}
									continue
								}
							}
						}
					}
				}
				if pi < 0 {
					switch root.(type) {
					case *ssa.Alloc, *ssa.Global, *ssa.MakeMap:
						// private memory
					default:
						// a pointer of unknown origin may alias the tracked object
						if _, isParam := root.(*ssa.Parameter); !isParam {
							ai.problem = append(ai.problem, fmt.Sprintf("store through a pointer of unknown origin in %s at %s", shortFunc(fn), ai.r.Prog.Pos(x.Pos())))
							cur = ai.havocAll(fn, keys, cur, nil)
							valid = map[ssa.Value]int{}
						}
					}
					continue
				}
				for ki, k := range keys {
					if k.Param != pi {
						continue
					}
					val := x.Val
					switch {
					case c16PathEq(k.Path, path):
						dom := domains[ki]
						apply(ki, func(t []string) []string { return abs(val, t, dom, 0) })
					case len(path) < len(k.Path) && c16HasPrefix(k.Path, path):
						dom := domains[ki]
						rest := k.Path[len(path):]
						if a, ok := unwrap(val).(*ssa.Alloc); ok {
							sv := c16AllocFieldStore(a, rest)
							apply(ki, func(t []string) []string {
								if sv == nil {
									return []string{zero(dom)}
								}
								return abs(sv, t, dom, 0)
							})
						} else {
							apply(ki, func(t []string) []string { return dom })
						}
					}
				}
			case ssa.CallInstruction:
				c := x.Common()
				if dBuiltin(c) != "" {
					continue
				}
				callee := staticCallee(c)
				type mapping struct {
					ki   int
					ckey c16Key
				}
				var maps []mapping
				var havoc []int
				for j, a := range c.Args {
					if _, isPtr := a.Type().Underlying().(*types.Pointer); !isPtr {
						continue
					}
					root, path := accessPath(a)
					pi := pidx(root)
					if pi < 0 {
						// a local copy `x := obj.F; if x == nil { x = &T{}; obj.F = x }`: the phi stands for the current value of obj.F
						if r2, p2, ok := c16PhiAlias(fn, a); ok {
							root, path = r2, p2
							pi = pidx(root)
						}
						if pi < 0 {
							continue
						}
					}
					_, isLoad := a.(*ssa.UnOp)
					if _, isPhi := a.(*ssa.Phi); isPhi {
						isLoad = true
					}
					for ki, k := range keys {
						if k.Param != pi || !c16HasPrefix(k.Path, path) {
							continue
						}
						if len(k.Path) == len(path) {
							if !isLoad {
								havoc = append(havoc, ki) // the field's own address is handed over
							}
							continue
						}
						maps = append(maps, mapping{ki, c16Key{j, k.Path[len(path):]}})
					}
				}
				for _, ki := range havoc {
					dom := domains[ki]
					apply(ki, func(t []string) []string { return dom })
				}
				if len(maps) == 0 {
					continue
				}
				if callee == nil || len(callee.Blocks) == 0 {
					ai.problem = append(ai.problem, "tracked memory is handed to "+calleeName(c)+", which cannot be analysed")
					for _, m := range maps {
						dom := domains[m.ki]
						apply(m.ki, func(t []string) []string { return dom })
					}
					continue
				}
				ckeys := make([]c16Key, len(maps))
				for i, m := range maps {
					ckeys[i] = m.ckey
				}
				next := map[string]bool{}
				for enc := range cur {
					t := strings.Split(enc, c16Sep)
					sub := make([]string, len(maps))
					for i, m := range maps {
						sub[i] = t[m.ki]
					}
					outs := ai.post(callee, ckeys, map[string]bool{strings.Join(sub, c16Sep): true}, depth+1)
					for o := range outs {
						ot := strings.Split(o, c16Sep)
						t2 := append([]string{}, t...)
						for i, m := range maps {
							t2[m.ki] = ot[i]
						}
						next[strings.Join(t2, c16Sep)] = true
					}
				}
				cur = next
				for _, m := range maps {
					invalidate(m.ki)
				}
			}
		}
		// successors
		var eval func(v ssa.Value, t []string) int
		eval = func(v ssa.Value, t []string) int {
			switch x := v.(type) {
			case *ssa.UnOp:
				if x.Op == token.NOT {
					if e := eval(x.X, t); e >= 0 {
						return 1 - e
					}
				}
			case *ssa.BinOp:
				if x.Op != token.EQL && x.Op != token.NEQ {
					return -1
				}
				a, c := x.X, x.Y
				if _, isC := a.(*ssa.Const); isC {
					a, c = c, a
				}
				cc, isC := c.(*ssa.Const)
				if !isC {
					return -1
				}
				ki, ok := valid[unwrap(a)]
				if !ok {
					ki, ok = valid[a]
				}
				if !ok {
					// the parameter itself (or its "or new" alias), when its nil-ness is tracked
					if k := pidx(unwrap(a)); k >= 0 {
						if _, isLoad := unwrap(a).(*ssa.UnOp); !isLoad {
							if kk := keyIndex(k, nil); kk >= 0 {
								ki, ok = kk, true
							}
						}
					}
				}
				if !ok {
					return -1
				}
				atom := t[ki]
				eq := -1
				if cc.IsNil() {
					switch atom {
					case "nil":
						eq = 1
					case "nonnil":
						eq = 0
					}
				} else if s, isS := constString(cc); isS {
					switch {
					case atom == "s:"+s:
						eq = 1
					case strings.HasPrefix(atom, "s:"):
						eq = 0
					case atom == "#other":
						inDom := false
						for _, d := range domains[ki] {
							if d == "s:"+s {
								inDom = true
							}
						}
						if inDom {
							eq = 0
						}
					}
				}
				if eq < 0 {
					return -1
				}
				if x.Op == token.NEQ {
					return 1 - eq
				}
				return eq
			}
			return -1
		}
		last := b.Instrs[len(b.Instrs)-1]
		push := func(s *ssa.BasicBlock, ts map[string]bool) {
			// entering a block where an alias phi takes a fresh allocation on this edge: from here on the
			// tracked keys of that parameter describe the new object
			for _, in := range s.Instrs {
				phi, ok := in.(*ssa.Phi)
				if !ok {
					break
				}
				pi, isAlias := alias[phi]
				if !isAlias {
					continue
				}
				for ei, pb := range s.Preds {
					al, isA := phi.Edges[ei].(*ssa.Alloc)
					if pb != b || !isA {
						continue
					}
					nts := map[string]bool{}
					for enc := range ts {
						t := strings.Split(enc, c16Sep)
						for ki, k := range keys {
							if k.Param != pi {
								continue
							}
							if len(k.Path) == 0 {
								t[ki] = "nonnil"
								continue
							}
							dom := domains[ki]
							if sv := c16AllocFieldStore(al, k.Path); sv != nil {
								if as := abs(sv, t, dom, 0); len(as) == 1 {
									t[ki] = as[0]
									continue
								}
							}
							t[ki] = dom[0]
						}
						nts[strings.Join(t, c16Sep)] = true
					}
					ts = nts
				}
			}
			if state[s] == nil {
				state[s] = map[string]bool{}
			}
			grew := false
			if vin, seen := validIn[s]; !seen {
				cp := map[ssa.Value]int{}
				for v, k := range valid {
					cp[v] = k
				}
				validIn[s] = cp
				grew = len(ts) > 0
			} else {
				for v, k := range vin {
					if k2, ok := valid[v]; !ok || k2 != k {
						delete(vin, v)
						grew = true
					}
				}
			}
			for t := range ts {
				if !state[s][t] {
					state[s][t] = true
					grew = true
				}
			}
			if grew {
				work = append(work, s)
			}
		}
		switch x := last.(type) {
		case *ssa.If:
			tset, fset := map[string]bool{}, map[string]bool{}
			for enc := range cur {
				e := eval(x.Cond, strings.Split(enc, c16Sep))
				if e != 0 {
					tset[enc] = true
				}
				if e != 1 {
					fset[enc] = true
				}
			}
			push(b.Succs[0], tset)
			push(b.Succs[1], fset)
		case *ssa.Return:
			for t := range cur {
				result[t] = true
			}
		default:
			for _, s := range b.Succs {
				push(s, cur)
			}
		}
	}
	if steps >= 5000 {
		ai.problem = append(ai.problem, "abstract interpretation of "+funcName(fn)+" did not converge")
		return ai.havocAll(fn, keys, in, nil)
	}
	return result
}

func (ai *c16AI) havocAll(fn *ssa.Function, keys []c16Key, in map[string]bool, _ []int) map[string]bool {
	out := map[string]bool{}
	tuples := []string{""}
	for i, k := range keys {
		dom := c16Domain(c16TypeAt(fn.Params[k.Param].Type(), k.Path))
		var next []string
		for _, t := range tuples {
			for _, a := range dom {
				if i == 0 {
					next = append(next, a)
				} else {
					next = append(next, t+c16Sep+a)
				}
			}
		}
		tuples = next
	}
	for _, t := range tuples {
		out[t] = true
	}
	return out
}

// c16PhiAlias recognises a phi that always equals the current value of one parameter-rooted field
// path P: each alternative is a load of P or a fresh allocation that the function stores into P,
// P is assigned nothing else, and no prefix of P is assigned.
func c16PhiAlias(fn *ssa.Function, v ssa.Value) (ssa.Value, []string, bool) {
	phi, ok := v.(*ssa.Phi)
	if !ok {
		return nil, nil, false
	}
	var root ssa.Value
	var path []string
	allocs := map[ssa.Value]bool{}
	for _, e := range phi.Edges {
		switch x := e.(type) {
		case *ssa.UnOp:
			r2, p2 := accessPath(x)
			if _, isP := r2.(*ssa.Parameter); !isP || x.Op != token.MUL || len(p2) == 0 {
				return nil, nil, false
			}
			if root != nil && (r2 != root || !c16PathEq(p2, path)) {
				return nil, nil, false
			}
			root, path = r2, p2
		case *ssa.Alloc:
			allocs[x] = true
		default:
			return nil, nil, false
		}
	}
	if root == nil {
		return nil, nil, false
	}
	stored := map[ssa.Value]bool{}
	for _, b := range fn.Blocks {
		for _, in := range b.Instrs {
			st, ok := in.(*ssa.Store)
			if !ok {
				continue
			}
			r2, p2 := accessPath(st.Addr)
			if r2 != root || len(p2) == 0 {
				continue
			}
			if c16PathEq(p2, path) {
				if !allocs[st.Val] && st.Val != ssa.Value(phi) {
					return nil, nil, false
				}
				stored[st.Val] = true
			} else if c16HasPrefix(path, p2) {
				return nil, nil, false
			}
		}
	}
	for a := range allocs {
		if !stored[a] && !stored[phi] {
			return nil, nil, false
		}
	}
	return root, path, true
}

// c16AllocFieldStore returns the value stored into field path `rest` of a freshly allocated
// struct (composite literal), nil if the field keeps its zero value.
func c16AllocFieldStore(a *ssa.Alloc, rest []string) ssa.Value {
	var cur ssa.Value = a
	for i, f := range rest {
		var next ssa.Value
		for _, rf := range refs(cur) {
			if fa, ok := rf.(*ssa.FieldAddr); ok && fieldName(fa) == f {
				if i == len(rest)-1 {
					for _, r2 := range refs(fa) {
						if st, ok := r2.(*ssa.Store); ok && st.Addr == ssa.Value(fa) {
							return st.Val
						}
					}
				}
				next = fa
			}
		}
		if next == nil {
			return nil
		}
		cur = next
	}
	return nil
}

func c16Agreement(r *Run) []c16Reason {
	rec := r.Prog.Func(pkgAPI, "IsDefaultedExtendedDaemonSet")
	def, _ := c16Defaulters(r)
	if rec == nil || def == nil {
		r.Fatal("anchor %s.IsDefaultedExtendedDaemonSet / DefaultExtendedDaemonSetSpec not found", pkgAPI)
		return nil
	}
	reasons, undecided := c16Reasons(r, rec, 0)
	for _, u := range undecided {
		r.Undecided("C16.R1", "recogniser shape", r.Prog.Pos(rec.Pos()), shortFunc(rec), u)
	}
	// the spec defaulter works on the recognised object's Spec
	specOK := len(def.Params) >= 1 && len(rec.Params) == 1
	if specOK {
		st := c16TypeAt(rec.Params[0].Type(), []string{"Spec"})
		pt, isPtr := def.Params[0].Type().(*types.Pointer)
		specOK = st != nil && isPtr && types.Identical(pt.Elem(), st)
	}
	if !specOK {
		r.Undecided("C16.R1", "defaulter signature", r.Prog.Pos(def.Pos()), shortFunc(def), "DefaultExtendedDaemonSetSpec does not take a pointer to the Spec of the recognised type")
		return reasons
	}
	ai := &c16AI{r: r, memo: map[string]map[string]bool{}}
	for _, rs := range c16Minimal(reasons) {
		construct := "not-defaulted when " + rs.String()
		pos := r.Prog.Pos(rs.Pos)
		sf := shortFunc(rs.Fn)
		if len(rs.Notes) > 0 {
			r.Undecided("C16.R1", construct, pos, sf, "the recogniser's false-path depends on "+strings.Join(rs.Notes, ", ")+", which cannot be related to the defaulter")
			continue
		}
		var keys []c16Key
		idx := map[string]int{}
		okPaths := true
		for _, l := range rs.Lits {
			if len(l.Path) == 0 || l.Path[0] != "Spec" {
				okPaths = false
				continue
			}
			k := c16Key{0, l.Path[1:]}
			if _, ok := idx[k.String()]; !ok {
				idx[k.String()] = len(keys)
				keys = append(keys, k)
			}
		}
		if !okPaths || len(keys) == 0 || len(keys) > 8 {
			r.Undecided("C16.R1", construct, pos, sf, "the false-path is not a condition on at most 8 fields below .Spec")
			continue
		}
		ai.problem = nil
		all := ai.havocAll(def, keys, nil, nil)
		post := ai.post(def, keys, all, 0)
		r.paths += len(post)
		witness := ""
		for enc := range post {
			t := strings.Split(enc, c16Sep)
			sat := true
			for _, l := range rs.Lits {
				a := t[idx[c16Key{0, l.Path[1:]}.String()]]
				var holds, known bool
				switch l.Kind {
				case "nil":
					known = a == "nil" || a == "nonnil"
					holds = (a == "nil") == l.Pol
				case "str":
					known = a != "?"
					holds = (a == "s:"+l.Str) == l.Pol
				}
				if known && !holds {
					sat = false
				}
			}
			if sat {
				w := []string{}
				for i, k := range keys {
					w = append(w, strings.Join(k.Path, ".")+"="+strings.TrimPrefix(t[i], "s:"))
				}
				sort.Strings(w)
				if witness == "" || strings.Join(w, " ") < witness {
					witness = strings.Join(w, " ")
				}
			}
		}
		detail := fmt.Sprintf("%d abstract state(s) after DefaultExtendedDaemonSetSpec over %d field(s); none satisfies the false-path", len(post), len(keys))
		if witness != "" {
			detail = "after defaulting the spec can still be {" + witness + "}, for which the recogniser answers false: the object is defaulted again on every reconcile"
		}
		if len(ai.problem) > 0 {
			detail += "; " + strings.Join(ai.problem, "; ")
		}
		r.Check("C16.R1", construct, pos, sf, "a defaulted spec is recognised as defaulted (this false-path is unsatisfiable after the defaulter)", witness == "" && len(post) > 0, detail)
	}
	c16Wiring(r, rec, def)
	return reasons
}

// c16Minimal drops the reasons that are implied by a weaker one (a superset of its literals): if
// the weaker conjunction is unsatisfiable after defaulting, so is the stronger.
func c16Minimal(rs []c16Reason) []c16Reason {
	has := func(r c16Reason, l c16Lit) bool {
		for _, x := range r.Lits {
			if x.String() == l.String() {
				return true
			}
		}
		return false
	}
	subset := func(a, b c16Reason) bool { // a ⊆ b
		for _, l := range a.Lits {
			if !has(b, l) {
				return false
			}
		}
		return true
	}
	// resolution: two reasons that differ only in one literal asserted with opposite truth values
	// together refute the rest
	key := func(l c16Lit) string { l.Pol = true; return l.String() }
	for round := 0; round < 4; round++ {
		var added []c16Reason
		seen := map[string]bool{}
		for _, r := range rs {
			seen[r.String()] = true
		}
		for i, a := range rs {
			for _, b := range rs[i+1:] {
				if len(a.Notes) > 0 || len(b.Notes) > 0 || len(a.Lits) != len(b.Lits) {
					continue
				}
				var diff *c16Lit
				ok := true
				for k := range a.Lits {
					la := a.Lits[k]
					if has(b, la) {
						continue
					}
					neg := la
					neg.Pol = !neg.Pol
					if has(b, neg) && diff == nil {
						diff = &a.Lits[k]
						continue
					}
					ok = false
				}
				if !ok || diff == nil {
					continue
				}
				c := c16Reason{Fn: a.Fn, Pos: a.Pos}
				for _, l := range a.Lits {
					if key(l) != key(*diff) {
						c.Lits = append(c.Lits, l)
					}
				}
				if len(c.Lits) > 0 && !seen[c.String()] {
					seen[c.String()] = true
					added = append(added, c)
				}
			}
		}
		if len(added) == 0 {
			break
		}
		rs = append(rs, added...)
	}
	var out []c16Reason
	for i, r := range rs {
		redundant := false
		for j, o := range rs {
			if i == j || len(o.Notes) > 0 || len(r.Notes) > 0 {
				continue
			}
			if subset(o, r) && (len(o.Lits) < len(r.Lits) || j < i) {
				redundant = true
			}
		}
		if !redundant {
			out = append(out, r)
		}
	}
	return out
}

// c16Wiring: DefaultExtendedDaemonSet returns the copy whose Spec it defaulted; the reconciler
// writes that copy when the recogniser says no; main passes a declared validation-mode constant.
func c16Wiring(r *Run, rec, def *ssa.Function) {
	outer := r.Prog.Func(pkgAPI, "DefaultExtendedDaemonSet")
	if outer == nil {
		r.Fatal("anchor %s.DefaultExtendedDaemonSet not found", pkgAPI)
		return
	}
	ok, why := false, "no call of DefaultExtendedDaemonSetSpec on the returned object's Spec dominates the return"
	for _, rt := range dNormalReturns(outer) {
		ok = false
		res := unwrap(rt.Results[0])
		for _, c := range callsIn(outer) {
			if staticCallee(c.Common()) != def {
				continue
			}
			root, path := accessPath(c.Common().Args[0])
			if root == res && len(path) == 1 && path[0] == "Spec" && dDominatesInstr(c, rt) {
				ok = true
				why = "returns the object whose Spec was handed to the spec defaulter"
			}
		}
		if !ok {
			break
		}
	}
	r.Check("C16.R1", "wrapper defaults what it returns", r.Prog.Pos(outer.Pos()), shortFunc(outer), "DefaultExtendedDaemonSet returns the object it defaulted", ok, why)

	eds := r.Prog.Method(pkgEDS, "Reconciler", "Reconcile")
	if eds == nil {
		return
	}
	found := false
	for _, e := range effectsOf(dReachable(r.Prog, eds)) {
		c := e.Call
		if e.Verb != "Update" || e.Status {
			continue
		}
		ff := r.Prog.factsOf(e.Fn)
		notDefaulted := ff.Holds(c.Block(), false, func(v ssa.Value, _ string) bool {
			cc, ok := v.(*ssa.Call)
			return ok && staticCallee(&cc.Call) == rec
		})
		if !notDefaulted {
			continue
		}
		found = true
		fromDefaulter := derivesOnlyFrom(e.Obj, func(v ssa.Value) bool {
			cc, ok := v.(*ssa.Call)
			return ok && staticCallee(&cc.Call) == outer
		})
		r.Check("C16.R1", "defaulted copy is written", r.Prog.Pos(c.Pos()), shortFunc(e.Fn), "when the recogniser answers false the reconciler writes the result of DefaultExtendedDaemonSet", fromDefaulter, "object written: "+e.Obj.String())
	}
	if !found {
		r.Check("C16.R1", "defaulted copy is written", r.Prog.Pos(eds.Pos()), shortFunc(eds), "an Update under !IsDefaultedExtendedDaemonSet exists", false, "none found")
	}
	// default validation mode: every value stored into a controller option of the validation-mode type
	// (outside the API package) goes back, through parameters, to declared non-empty constants
	n := 0
	allFns := r.Prog.RepoFuncs()
	inAll := map[*ssa.Function]bool{}
	for _, f := range allFns {
		inAll[f] = true
	}
	var up func(v ssa.Value, depth int) ([]string, bool)
	up = func(v ssa.Value, depth int) ([]string, bool) {
		if depth > 4 {
			return nil, false
		}
		switch x := unwrap(v).(type) {
		case *ssa.Parameter:
			sites := callSitesOf(x.Parent(), inAll)
			if len(sites) == 0 {
				return nil, false
			}
			var out []string
			for _, cs := range sites {
				vs, ok := up(cs.Common().Args[paramIndex(x)], depth+1)
				if !ok {
					return nil, false
				}
				out = append(out, vs...)
			}
			return out, true
		case *ssa.Phi:
			var out []string
			for _, e := range x.Edges {
				vs, ok := up(e, depth+1)
				if !ok {
					return nil, false
				}
				out = append(out, vs...)
			}
			return out, true
		}
		return c16ConstSet(r, v, 0)
	}
	for _, fn := range allFns {
		if fn.Pkg != nil && fn.Pkg.Pkg.Path() == pkgAPI {
			continue
		}
		for _, b := range fn.Blocks {
			for _, in := range b.Instrs {
				st, ok := in.(*ssa.Store)
				if !ok {
					continue
				}
				fa, ok := st.Addr.(*ssa.FieldAddr)
				if !ok {
					continue
				}
				decl := c16DeclaredConsts(st.Val.Type())
				if len(decl) == 0 || len(def.Params) < 2 || !types.Identical(st.Val.Type(), def.Params[1].Type()) {
					continue
				}
				if owner := dNamedOf(fa.X.Type()); owner == nil || owner.Obj().Pkg() == nil || owner.Obj().Pkg().Path() == pkgAPI {
					continue
				}
				n++
				vals, okv := up(st.Val, 0)
				good := okv && len(vals) > 0
				for _, v := range vals {
					in := false
					for _, d := range decl {
						if d == v && v != "" {
							in = true
						}
					}
					if !in {
						good = false
					}
				}
				r.Check("C16.R1", "default validation mode option", r.Prog.Pos(st.Pos()), shortFunc(fn),
					"the default validation mode configured into the controller is one of the declared, non-empty constants (premise of the fixed-point check)", good, fmt.Sprintf("values %q, declared %q", vals, decl))
			}
		}
	}
	if n == 0 {
		r.Check("C16.R1", "default validation mode option", "-", "-", "the store configuring the default validation mode is found", false, "no store of a validation-mode value into a controller option")
	}
}

// ---------------------------------------------------------------------------------------------
// R3 dereference discipline of optional spec fields

// c16OptionalFields returns the pointer-typed fields of the struct types reachable from
// ExtendedDaemonSetSpec through fields whose types are declared in the API package.
func c16OptionalFields(r *Run) map[*types.Var]string {
	out := map[*types.Var]string{}
	spec := r.Prog.Named(pkgAPI, "ExtendedDaemonSetSpec")
	if spec == nil {
		return out
	}
	seen := map[*types.Named]bool{}
	var walk func(n *types.Named)
	walk = func(n *types.Named) {
		if seen[n] {
			return
		}
		seen[n] = true
		st, ok := n.Underlying().(*types.Struct)
		if !ok {
			return
		}
		for i := 0; i < st.NumFields(); i++ {
			f := st.Field(i)
			t := f.Type()
			if p, isPtr := t.(*types.Pointer); isPtr {
				out[f] = n.Obj().Name() + "." + f.Name()
				t = p.Elem()
			}
			if fn, ok := t.(*types.Named); ok && fn.Obj().Pkg() != nil && fn.Obj().Pkg().Path() == pkgAPI {
				walk(fn)
			}
		}
	}
	walk(spec)
	return out
}

func c16FieldVar(fa *ssa.FieldAddr) *types.Var {
	st := derefStruct(fa.X.Type())
	if st == nil || fa.Field >= st.NumFields() {
		return nil
	}
	return st.Field(fa.Field)
}

// c16ParamDerefs: fn dereferences its pointer parameter #j (field selection, load, or handing it to
// a callee that does) at a point where `param != nil` is not established.
var c16ParamDerefMemo = map[string]int{}

func c16ParamDerefs(r *Run, fn *ssa.Function, j, depth int) bool {
	if fn == nil || len(fn.Blocks) == 0 || j >= len(fn.Params) || depth > 4 {
		return fn != nil && len(fn.Blocks) == 0 && false
	}
	key := fmt.Sprintf("%s#%d", funcName(fn), j)
	if v, ok := c16ParamDerefMemo[key]; ok {
		return v == 1
	}
	c16ParamDerefMemo[key] = 2
	p := fn.Params[j]
	var ff *FuncFacts
	guardedAt := func(b *ssa.BasicBlock) bool {
		if ff == nil {
			ff = computeFacts(fn)
		}
		return ff.Holds(b, false, func(v ssa.Value, _ string) bool { return isNilCompareOf(v, isParam(p)) })
	}
	res := false
	for _, rf := range refs(p) {
		switch x := rf.(type) {
		case *ssa.FieldAddr:
			if x.X == ssa.Value(p) && !guardedAt(x.Block()) {
				res = true
			}
		case *ssa.UnOp:
			if x.Op == token.MUL && !guardedAt(x.Block()) {
				res = true
			}
		case ssa.CallInstruction:
			c := x.Common()
			if callee := staticCallee(c); callee != nil {
				for k, a := range c.Args {
					if a == ssa.Value(p) && !guardedAt(x.Block()) && c16ParamDerefs(r, callee, k, depth+1) {
						res = true
					}
				}
			}
		}
	}
	if res {
		c16ParamDerefMemo[key] = 1
	}
	return res
}

type c16Use struct {
	instr ssa.Instruction
	val   ssa.Value // the value that must be non-nil at instr (the load itself, or a phi it flows into)
	how   string
}

// c16DerefUses lists where the pointer v (loaded from an optional field) is dereferenced.
func c16DerefUses(r *Run, v ssa.Value) []c16Use {
	var out []c16Use
	seen := map[ssa.Value]bool{}
	var rec func(x ssa.Value)
	rec = func(x ssa.Value) {
		if seen[x] {
			return
		}
		seen[x] = true
		for _, rf := range refs(x) {
			switch u := rf.(type) {
			case *ssa.FieldAddr:
				if u.X == x {
					out = append(out, c16Use{u, x, "field selection ." + fieldName(u)})
				}
			case *ssa.UnOp:
				if u.Op == token.MUL && u.X == x {
					out = append(out, c16Use{u, x, "load *p"})
				}
			case *ssa.Phi:
				rec(u)
			case *ssa.ChangeType:
				rec(u)
			case *ssa.Store:
				// kept in a local variable cell: follow its loads
				if a, ok := u.Addr.(*ssa.Alloc); ok && u.Val == x && dIsVarCell(a) {
					for _, r2 := range refs(a) {
						if ld, ok := r2.(*ssa.UnOp); ok && ld.Op == token.MUL {
							rec(ld)
						}
					}
				}
			case ssa.CallInstruction:
				c := u.Common()
				if callee := staticCallee(c); callee != nil {
					for k, a := range c.Args {
						if a == x && c16ParamDerefs(r, callee, k, 0) {
							out = append(out, c16Use{u, x, "passed to " + shortFunc(callee) + ", which dereferences it without a nil check"})
						}
					}
				}
			}
		}
	}
	rec(v)
	return out
}

type c16Resolver struct {
	r       *Run
	reasons []c16Reason // the paths on which the recogniser answers true (alternatives)
	rec     *ssa.Function
	sites   map[*ssa.Function]bool
	facts   map[*ssa.Function]*FuncFacts
	ws      *dWriteSummary
}

func (rv *c16Resolver) ff(fn *ssa.Function) *FuncFacts {
	if rv.facts[fn] == nil {
		rv.facts[fn] = computeFacts(fn)
	}
	return rv.facts[fn]
}

// litsAbout returns the must-facts at block b that speak about field paths rooted at root.
func (rv *c16Resolver) litsAbout(fn *ssa.Function, b *ssa.BasicBlock, root ssa.Value) []c16Lit {
	var out []c16Lit
	for _, f := range rv.ff(fn).At(b) {
		if l, ok := c16LitOf(f, func(v ssa.Value) bool { return v == root }); ok {
			out = append(out, l)
		}
	}
	return out
}

func c16HasLit(ls []c16Lit, path []string, kind, str string, pol bool) bool {
	for _, l := range ls {
		if l.Kind == kind && l.Pol == pol && l.Str == str && c16PathEq(l.Path, path) {
			return true
		}
	}
	return false
}

// resolve shows that the field at path below root is non-nil when control is at `site` in fn.
// est are literals about the same root already established further down.
func (rv *c16Resolver) resolve(fn *ssa.Function, site ssa.Instruction, root ssa.Value, path []string, est []c16Lit, depth int, trail string) (bool, string) {
	if depth > 10 {
		return false, "justification deeper than 10 steps" + trail
	}
	b := site.Block()
	here := append(append([]c16Lit{}, est...), rv.litsAbout(fn, b, root)...)
	// (1) non-nil on every path to the site: a nil guard on the same path, or an assignment of a non-nil value
	if c16HasLit(here, path, "nil", "", false) && !c16PathStoredIn(fn, root, path) {
		return true, "nil guard on " + strings.Join(path, ".") + " in " + shortFunc(fn) + trail
	}
	if rv.nonNilAt(fn, site, root, path) {
		return true, "guarded or assigned non-nil on every path in " + shortFunc(fn) + trail
	}
	// (2) the IsDefaulted gate on this very object
	gated := rv.ff(fn).Holds(b, true, func(v ssa.Value, _ string) bool {
		c, ok := v.(*ssa.Call)
		return ok && staticCallee(&c.Call) == rv.rec && len(c.Call.Args) == 1 && unwrap(c.Call.Args[0]) == root
	})
	if gated {
		if c16PathStoredIn(fn, root, path) {
			return false, "gated, but the field is written in " + shortFunc(fn) + trail
		}
		if ok, why := c16Derive(rv.reasons, here, path); ok {
			return true, "IsDefaultedExtendedDaemonSet gate in " + shortFunc(fn) + " (" + why + ")" + trail
		} else {
			return false, why + trail
		}
	}
	// (3) follow the root
	switch x := root.(type) {
	case *ssa.Parameter:
		idx := paramIndex(x)
		sites := dCallSitesIn(rv.r.Prog, fn, rv.sites)
		// the parameter is, at every call site, a DeepCopy of the object passed as another parameter: nil-ness
		// of field paths established on that sibling inside this function holds for the copy as well
		if sib := rv.copyOfSibling(fn, x, sites, path); sib != nil && !c16PathStoredIn(fn, root, path) {
			sibLits := rv.litsAbout(fn, b, sib)
			if c16HasLit(sibLits, path, "nil", "", false) && !c16PathStoredIn(fn, sib, path) {
				return true, "nil guard on " + strings.Join(path, ".") + " of " + sib.Name() + ", of which " + x.Name() + " is a copy, in " + shortFunc(fn) + trail
			}
			if rv.nonNilAt(fn, site, sib, path) {
				return true, "guarded or assigned non-nil on " + sib.Name() + ", of which " + x.Name() + " is a copy, in " + shortFunc(fn) + trail
			}
		}
		if len(sites) == 0 {
			return false, "no caller of " + shortFunc(fn) + " (within the reconcilers) establishes it" + trail
		}
		var whys []string
		for _, cs := range sites {
			args := cs.Common().Args
			if idx >= len(args) {
				return false, "call without the argument" + trail
			}
			r2, p2 := accessPath(args[idx])
			np := append(append([]string{}, p2...), path...)
			var ne []c16Lit
			for _, l := range here {
				l2 := l
				l2.Path = append(append([]string{}, p2...), l.Path...)
				ne = append(ne, l2)
			}
			ok, why := rv.resolve(cs.Parent(), cs, r2, np, ne, depth+1, " ← "+shortFunc(fn))
			if !ok {
				return false, why + trail
			}
			whys = append(whys, why)
		}
		sort.Strings(whys)
		return true, whys[0] + trail
	case *ssa.FreeVar:
		par := fn.Parent()
		if par != nil {
			for _, pb := range par.Blocks {
				for _, in := range pb.Instrs {
					if mc, ok := in.(*ssa.MakeClosure); ok && mc.Fn == ssa.Value(fn) {
						for i, fv := range fn.FreeVars {
							if fv == x && i < len(mc.Bindings) {
								// the captured variable's cell: its content is the object
								r2, p2 := accessPath(mc.Bindings[i])
								return rv.resolve(par, mc, r2, append(append([]string{}, p2...), path...), nil, depth+1, " ← closure"+trail)
							}
						}
					}
				}
			}
		}
	case *ssa.Call, *ssa.Extract:
		var call *ssa.Call
		idx := 0
		if ex, ok := x.(*ssa.Extract); ok {
			call, _ = ex.Tuple.(*ssa.Call)
			idx = ex.Index
		} else {
			call = x.(*ssa.Call)
		}
		if call == nil {
			break
		}
		callee := staticCallee(&call.Call)
		if callee == nil {
			break
		}
		// a repository helper handing back an object: the facts under which it returns it hold for the result
		if rv.r.Prog.IsRepoFunc(callee) && len(callee.Blocks) > 0 && depth < 8 {
			okAll, n, why := true, 0, ""
			for _, rt := range dNormalReturns(callee) {
				if idx >= len(rt.Results) {
					okAll = false
					break
				}
				res := rt.Results[idx]
				if c, isC := unwrap(res).(*ssa.Const); isC && c.IsNil() {
					continue // the caller cannot dereference this one without its own check
				}
				r2, p2 := accessPath(res)
				if r2 == root {
					okAll = false
					break
				}
				ok, w := rv.resolve(callee, rt, r2, append(append([]string{}, p2...), path...), nil, depth+1, " ← returned by "+shortFunc(callee)+trail)
				if !ok {
					okAll = false
					break
				}
				n++
				why = w
			}
			if okAll && n > 0 {
				return true, why
			}
		}
		// DeepCopy: nil-ness of field paths carries over from the receiver
		if callee.Name() == "DeepCopy" && callee.Signature.Recv() != nil && len(call.Call.Args) == 1 {
			if c16PathStoredIn(fn, root, path) {
				return false, "the copy's field is written in " + shortFunc(fn) + trail
			}
			r2, p2 := accessPath(call.Call.Args[0])
			return rv.resolve(fn, site, r2, append(append([]string{}, p2...), path...), nil, depth+1, " ← DeepCopy"+trail)
		}
		// a repository constructor: result.<field> = &param.<path>
		if rv.r.Prog.IsRepoFunc(callee) && len(path) > 0 {
			var target ssa.Value
			okAll := true
			for _, rt := range dNormalReturns(callee) {
				if idx >= len(rt.Results) {
					okAll = false
					continue
				}
				res := unwrap(rt.Results[idx])
				if c, isC := res.(*ssa.Const); isC && c.IsNil() {
					continue // error returns
				}
				a, isA := res.(*ssa.Alloc)
				if !isA {
					okAll = false
					continue
				}
				sv := c16AllocFieldStore(a, path[:1])
				if sv == nil || (target != nil && target != sv) {
					okAll = false
					continue
				}
				target = sv
			}
			if okAll && target != nil {
				r2, p2 := accessPath(target)
				if p, isP := r2.(*ssa.Parameter); isP && p.Parent() == callee {
					arg := call.Call.Args[paramIndex(p)]
					r3, p3 := accessPath(arg)
					np := append(append(append([]string{}, p3...), p2...), path[1:]...)
					return rv.resolve(fn, site, r3, np, nil, depth+1, " ← "+shortFunc(callee)+"()."+path[0]+trail)
				}
			}
		}
	case *ssa.Alloc:
		// the cell of a pointer variable that is assigned exactly once (a parameter captured by a closure, a local alias)
		if pt, ok := x.Type().(*types.Pointer); ok {
			if _, isPtr := pt.Elem().Underlying().(*types.Pointer); isPtr {
				if v0 := dCellValue(x); v0 != nil {
					r2, p2 := accessPath(v0)
					if r2 != root {
						return rv.resolve(fn, site, r2, append(append([]string{}, p2...), path...), nil, depth+1, trail)
					}
				}
			}
		}
		// a local struct whose field was assigned from another object
		if len(path) > 0 {
			if sv := c16AllocFieldStore(x, path[:1]); sv != nil {
				r2, p2 := accessPath(sv)
				if r2 != root {
					return rv.resolve(fn, site, r2, append(append([]string{}, p2...), path[1:]...), nil, depth+1, " ← local ."+path[0]+trail)
				}
			}
		}
	}
	return false, fmt.Sprintf("no nil guard, and the object (%T) cannot be traced to a gated ExtendedDaemonSet", root) + trail
}

// c16Derive: the recogniser answered true, so the facts of one of its true-paths hold. Every
// true-path that is compatible with what is known at the site (and with: the parents of the
// dereferenced field are non-nil) must itself establish goal != nil — by testing it, or by testing
// something below it, which the recogniser could not do without dereferencing it.
func c16Derive(trueAlts []c16Reason, known []c16Lit, goal []string) (bool, string) {
	if len(trueAlts) == 0 {
		return false, "the recogniser has no analysable path answering true"
	}
	isKnown := func(l c16Lit) bool {
		for _, k := range known {
			if k.Kind == l.Kind && k.Str == l.Str && k.Pol == l.Pol && c16PathEq(k.Path, l.Path) {
				return true
			}
			// a string known equal to another constant
			if l.Kind == "str" && !l.Pol && k.Kind == "str" && k.Pol && k.Str != l.Str && c16PathEq(k.Path, l.Path) {
				return true
			}
		}
		return l.Kind == "nil" && !l.Pol && len(l.Path) < len(goal) && c16HasPrefix(goal, l.Path)
	}
	nAlive := 0
	for _, alt := range trueAlts {
		// compatible with the known facts?
		dead := false
		for _, l := range alt.Lits {
			neg := l
			neg.Pol = !neg.Pol
			if isKnown(neg) {
				dead = true
			}
			if l.Kind == "str" && l.Pol {
				for _, k := range known {
					if k.Kind == "str" && k.Pol && k.Str != l.Str && c16PathEq(k.Path, l.Path) {
						dead = true
					}
				}
			}
		}
		if dead {
			continue
		}
		nAlive++
		established := false
		for _, l := range alt.Lits {
			if l.Kind == "nil" && !l.Pol && c16PathEq(l.Path, goal) {
				established = true
			}
			if len(l.Path) > len(goal) && c16HasPrefix(l.Path, goal) {
				established = true
			}
		}
		if !established {
			var miss []string
			for _, l := range alt.Lits {
				miss = append(miss, l.String())
			}
			sort.Strings(miss)
			if len(miss) > 6 {
				miss = append(miss[:6], "…")
			}
			return false, "the recogniser also answers true on the path [" + strings.Join(miss, " ∧ ") + "], which does not require " + strings.Join(goal, ".") + " to be set"
		}
	}
	if nAlive == 0 {
		return false, "no path of the recogniser answering true is compatible with the facts at the dereference"
	}
	return true, fmt.Sprintf("required on each of the %d compatible true-path(s) of the recogniser", nAlive)
}

// nonNilAt: forward must-analysis for one field path — is root.path non-nil whenever control
// reaches site? Non-nil is established by a store of a non-nil value or by the `!= nil` edge of a
// test of a fresh load of the path; it is lost by any other store to the path or a prefix, and by
// handing memory of the object to a callee that writes through it.
func (rv *c16Resolver) nonNilAt(fn *ssa.Function, site ssa.Instruction, root ssa.Value, path []string) bool {
	if len(fn.Blocks) == 0 {
		return false
	}
	ws := rv.ws
	// transfer over one block; returns the state after each instruction index and the set of loads still fresh at the end
	type bres struct {
		out   bool
		fresh map[ssa.Value]bool
	}
	at := map[ssa.Instruction]bool{}
	run := func(b *ssa.BasicBlock, in bool, record bool) bres {
		cur := in
		fresh := map[ssa.Value]bool{}
		for _, ins := range b.Instrs {
			if record {
				at[ins] = cur
			}
			switch x := ins.(type) {
			case *ssa.UnOp:
				if x.Op == token.MUL {
					r2, p2 := accessPath(x.X)
					if r2 == root && c16PathEq(p2, path) {
						fresh[x] = true
					}
				}
			case *ssa.Store:
				r2, p2 := accessPath(x.Addr)
				if r2 != root || len(p2) == 0 {
					continue
				}
				if c16PathEq(p2, path) {
					cur, _ = c16NonNil(rv.r, x.Val, 0)
					fresh = map[ssa.Value]bool{}
				} else if c16HasPrefix(path, p2) {
					cur = false
					fresh = map[ssa.Value]bool{}
				}
			case ssa.CallInstruction:
				c := x.Common()
				if dBuiltin(c) != "" {
					continue
				}
				callee := staticCallee(c)
				for j, a := range c.Args {
					if _, isPtr := a.Type().Underlying().(*types.Pointer); !isPtr {
						continue
					}
					r2, p2 := accessPath(a)
					if r2 != root || !c16HasPrefix(path, p2) {
						continue
					}
					_, isLoad := a.(*ssa.UnOp)
					if len(p2) == len(path) && isLoad {
						continue // the pointer value itself: the callee cannot change the field
					}
					if callee != nil && (!rv.r.Prog.IsRepoFunc(callee) || !ws.Writes(callee, j)) {
						continue
					}
					cur = false
					fresh = map[ssa.Value]bool{}
				}
			}
		}
		return bres{cur, fresh}
	}
	in := map[*ssa.BasicBlock]bool{}
	reached := map[*ssa.BasicBlock]bool{fn.Blocks[0]: true}
	in[fn.Blocks[0]] = false
	for changed, iter := true, 0; changed && iter < 100; iter++ {
		changed = false
		for _, b := range fn.Blocks {
			if !reached[b] {
				continue
			}
			res := run(b, in[b], false)
			for si, succ := range b.Succs {
				v := res.out
				if iff, ok := b.Instrs[len(b.Instrs)-1].(*ssa.If); ok && b.Succs[0] != b.Succs[1] {
					// `x != nil` edge of a fresh load
					cond := iff.Cond
					pol := si == 0
					for {
						if u, ok := cond.(*ssa.UnOp); ok && u.Op == token.NOT {
							cond, pol = u.X, !pol
							continue
						}
						break
					}
					if bo, ok := cond.(*ssa.BinOp); ok && (bo.Op == token.EQL || bo.Op == token.NEQ) {
						x, y := bo.X, bo.Y
						if isNilConst(x) {
							x, y = y, x
						}
						if isNilConst(y) && res.fresh[x] {
							isNe := (bo.Op == token.NEQ) == pol
							if isNe {
								v = true
							}
						}
					}
				}
				if !reached[succ] {
					reached[succ] = true
					in[succ] = v
					changed = true
				} else if in[succ] && !v {
					in[succ] = false
					changed = true
				}
			}
		}
	}
	if !reached[site.Block()] {
		return false
	}
	run(site.Block(), in[site.Block()], true)
	return at[site]
}

// copyOfSibling: at every call site of fn the argument for parameter x is the result of DeepCopy on
// the very value passed for another parameter (and the copy's path is not written in between).
// Returns that other parameter.
func (rv *c16Resolver) copyOfSibling(fn *ssa.Function, x *ssa.Parameter, sites []ssa.CallInstruction, path []string) *ssa.Parameter {
	if len(sites) == 0 {
		return nil
	}
	idx := paramIndex(x)
	var sib *ssa.Parameter
	for _, cs := range sites {
		args := cs.Common().Args
		if idx >= len(args) {
			return nil
		}
		var src ssa.Value
		for _, c := range dChains(args[idx], true) {
			if len(c.Path) != 0 {
				return nil
			}
			call, ok := c.Root.(*ssa.Call)
			if !ok {
				return nil
			}
			callee := staticCallee(&call.Call)
			if callee == nil || callee.Name() != "DeepCopy" || callee.Signature.Recv() == nil || len(call.Call.Args) != 1 {
				return nil
			}
			if src != nil && src != unwrap(call.Call.Args[0]) {
				return nil
			}
			src = unwrap(call.Call.Args[0])
			if c16PathStoredIn(cs.Parent(), call, path) {
				return nil
			}
		}
		if src == nil {
			return nil
		}
		found := false
		for j, a := range args {
			if j != idx && j < len(fn.Params) && unwrap(a) == src {
				if sib != nil && sib != fn.Params[j] {
					return nil
				}
				sib = fn.Params[j]
				found = true
			}
		}
		if !found {
			return nil
		}
	}
	return sib
}

// c16PathStoredIn reports whether fn stores to root.path or a prefix of it.
func c16PathStoredIn(fn *ssa.Function, root ssa.Value, path []string) bool {
	for _, b := range fn.Blocks {
		for _, in := range b.Instrs {
			if st, ok := in.(*ssa.Store); ok {
				r2, p2 := accessPath(st.Addr)
				if r2 == root && len(p2) > 0 && c16HasPrefix(path, p2) {
					return true
				}
			}
		}
	}
	return false
}

func c16Deref(r *Run, reasons []c16Reason) {
	universe := c16OptionalFields(r)
	rec := r.Prog.Func(pkgAPI, "IsDefaultedExtendedDaemonSet")
	val := r.Prog.Func(pkgAPI, "ValidateExtendedDaemonSetSpec")
	reach := c16ReconcileReach(r)
	if rec == nil || val == nil || reach == nil {
		r.Fatal("anchors for the dereference discipline not found")
		return
	}
	if len(universe) < 15 {
		r.Fatal("only %d optional pointer fields found below ExtendedDaemonSetSpec", len(universe))
	}
	sites := map[*ssa.Function]bool{val: true}
	for fn := range reach {
		sites[fn] = true
	}
	trueAlts, und := c16RecPaths(r, rec, true, 0)
	for _, u := range und {
		r.Undecided("C16.R3", "recogniser shape", r.Prog.Pos(rec.Pos()), shortFunc(rec), u)
	}
	rv := &c16Resolver{r: r, reasons: trueAlts, rec: rec, sites: sites, facts: map[*ssa.Function]*FuncFacts{}, ws: newWriteSummary(r.Prog)}
	for _, fn := range sortedFuncs(sites) {
		if !r.Prog.IsRuleSite(fn) {
			continue
		}
		// the recogniser and the defaulters establish the facts; their own accesses are nil-guarded by construction and checked by R1/R2
		type group struct {
			first ssa.Instruction
			ok    bool
			why   string
			n     int
			field string
		}
		groups := map[string]*group{}
		var order []string
		for _, b := range fn.Blocks {
			for _, in := range b.Instrs {
				ld, ok := in.(*ssa.UnOp)
				if !ok || ld.Op != token.MUL {
					continue
				}
				fa, ok := ld.X.(*ssa.FieldAddr)
				if !ok {
					continue
				}
				fname, optional := universe[c16FieldVar(fa)]
				if !optional {
					continue
				}
				root, path := accessPath(ld)
				for _, u := range c16DerefUses(r, ld) {
					k := strings.Join(path, ".")
					if u.val != ssa.Value(ld) {
						k += " (via local copy)"
					}
					g := groups[k]
					if g == nil {
						g = &group{first: u.instr, ok: true, field: fname}
						groups[k] = g
						order = append(order, k)
					}
					g.n++
					var ok2 bool
					var why string
					if u.val != ssa.Value(ld) {
						// a nil-able local copy (phi): only a guard on the copy itself counts
						kk := rv.ff(fn).K.key(u.val)
						ok2 = rv.ff(fn).At(u.instr.Block()).has("("+kk+"==nil)", false) || rv.ff(fn).At(u.instr.Block()).has("(nil=="+kk+")", false)
						why = "guard on the local copy"
						if !ok2 {
							ok2, why = rv.resolve(fn, u.instr, root, path, nil, 0, "")
							if ok2 {
								// the copy may also hold nil from another assignment
								if phi, isPhi := u.val.(*ssa.Phi); isPhi {
									for _, e := range phi.Edges {
										if c, isC := e.(*ssa.Const); isC && c.IsNil() {
											ok2, why = false, "the local copy can be nil (it is also assigned nil) and is dereferenced without a guard on the copy"
										}
									}
								}
							}
						}
					} else {
						ok2, why = rv.resolve(fn, u.instr, root, path, nil, 0, "")
					}
					if !ok2 && g.ok {
						g.ok, g.why, g.first = false, fmt.Sprintf("%s at %s: %s", u.how, r.Prog.Pos(instrPos(u.instr)), why), u.instr
					} else if ok2 && g.ok && g.why == "" {
						g.why = why
					}
				}
			}
		}
		for _, k := range order {
			g := groups[k]
			detail := g.why
			if g.ok {
				detail = fmt.Sprintf("%d dereference(s); e.g. %s", g.n, g.why)
			}
			r.Check("C16.R3", "deref "+k, r.Prog.Pos(instrPos(g.first)), shortFunc(fn),
				"optional field "+g.field+" is dereferenced only where a nil guard or the IsDefaulted gate makes it non-nil", g.ok, detail)
		}
	}
}

// ---------------------------------------------------------------------------------------------
// R7 validation dominates every action of the ExtendedDaemonSet reconcile

func c16ValidationGate(r *Run) {
	eds := r.Prog.Method(pkgEDS, "Reconciler", "Reconcile")
	val := r.Prog.Func(pkgAPI, "ValidateExtendedDaemonSetSpec")
	rec := r.Prog.Func(pkgAPI, "IsDefaultedExtendedDaemonSet")
	if eds == nil || val == nil || rec == nil {
		r.Fatal("anchors of the validation gate not found")
		return
	}
	reach := dReachable(r.Prog, eds)
	// the objects read from the API during this reconcile
	fetched := map[ssa.Value]bool{}
	for _, e := range effectsOf(reach) {
		if e.Verb == "Get" {
			for _, c := range dChains(e.Obj, true) {
				fetched[c.Root] = true
			}
		}
	}
	// a fetched object, possibly handed back by a repository helper or received as a parameter
	var isFetched func(root ssa.Value, depth int) bool
	isFetched = func(root ssa.Value, depth int) bool {
		if fetched[root] {
			return true
		}
		if depth > 3 {
			return false
		}
		var call *ssa.Call
		idx := 0
		switch y := root.(type) {
		case *ssa.Call:
			call = y
		case *ssa.Extract:
			call, _ = y.Tuple.(*ssa.Call)
			idx = y.Index
		case *ssa.Parameter:
			sites := dCallSitesIn(r.Prog, y.Parent(), reach)
			if len(sites) == 0 {
				return false
			}
			for _, cs := range sites {
				for _, ch := range dChains(cs.Common().Args[paramIndex(y)], true) {
					if !isFetched(ch.Root, depth+1) {
						return false
					}
				}
			}
			return true
		}
		if call == nil {
			return false
		}
		h := staticCallee(&call.Call)
		if h == nil || !r.Prog.IsRepoFunc(h) || len(h.Blocks) == 0 {
			return false
		}
		n := 0
		for _, rt := range dNormalReturns(h) {
			if idx >= len(rt.Results) {
				return false
			}
			if c, isC := unwrap(rt.Results[idx]).(*ssa.Const); isC && c.IsNil() {
				continue
			}
			for _, ch := range dChains(rt.Results[idx], true) {
				if !isFetched(ch.Root, depth+1) {
					return false
				}
			}
			n++
		}
		return n > 0
	}
	isValidated := func(v ssa.Value, _ string) bool {
		return isNilCompareOf(v, func(x ssa.Value) bool {
			c := c16ErrCall(x)
			if c == nil || staticCallee(&c.Call) != val || len(c.Call.Args) != 1 {
				return false
			}
			// what is validated is the spec of an object fetched in this reconcile
			for _, ch := range dChains(c.Call.Args[0], true) {
				if !isFetched(ch.Root, 0) {
					return false
				}
			}
			return true
		})
	}
	isDefaultedCall := func(v ssa.Value, _ string) bool {
		c, ok := v.(*ssa.Call)
		return ok && staticCallee(&c.Call) == rec
	}
	var justified func(fn *ssa.Function, site ssa.Instruction, depth int, seen map[*ssa.Function]bool) (bool, string)
	justified = func(fn *ssa.Function, site ssa.Instruction, depth int, seen map[*ssa.Function]bool) (bool, string) {
		ff := r.Prog.factsOf(fn)
		b := site.Block()
		if ff.Holds(b, true, isValidated) {
			return true, "validated in " + shortFunc(fn)
		}
		if ff.Holds(b, false, isDefaultedCall) {
			return true, "under !IsDefaultedExtendedDaemonSet in " + shortFunc(fn) + " (defaulting precedes validation)"
		}
		// the non-nil result of a helper that hands the object back only after validating it
		for _, f := range ff.At(b) {
			if f.Pol {
				continue
			}
			bo, ok := f.V.(*ssa.BinOp)
			if !ok || (bo.Op != token.EQL && bo.Op != token.NEQ) {
				continue
			}
			x := bo.X
			if isNilConst(x) {
				x = bo.Y
			} else if !isNilConst(bo.Y) {
				continue
			}
			var call *ssa.Call
			idx := 0
			switch y := unwrap(x).(type) {
			case *ssa.Call:
				call = y
			case *ssa.Extract:
				call, _ = y.Tuple.(*ssa.Call)
				idx = y.Index
			}
			if call == nil {
				continue
			}
			h := staticCallee(&call.Call)
			if h == nil || !r.Prog.IsRepoFunc(h) || len(h.Blocks) == 0 {
				continue
			}
			hf := r.Prog.factsOf(h)
			all, n := true, 0
			for _, rt := range dNormalReturns(h) {
				if idx >= len(rt.Results) {
					all = false
					continue
				}
				if c, isC := unwrap(rt.Results[idx]).(*ssa.Const); isC && c.IsNil() {
					continue
				}
				n++
				if !hf.Holds(rt.Block(), true, isValidated) {
					all = false
				}
			}
			if all && n > 0 {
				return true, "after the non-nil result of " + shortFunc(h) + ", which returns the object only once validated"
			}
		}
		if fn == eds {
			return false, "no dominating fact ValidateExtendedDaemonSetSpec(...) == nil in " + shortFunc(fn)
		}
		if depth > 6 || seen[fn] {
			return false, "call chain too deep"
		}
		seen[fn] = true
		defer delete(seen, fn)
		sites := dCallSitesIn(r.Prog, fn, reach)
		if fn.Parent() != nil {
			// a closure: where it is created
			for _, mc := range r.Prog.closureSites(fn) {
				if ok, why := justified(mc.Parent(), mc, depth+1, seen); !ok {
					return false, why + " ← closure " + shortFunc(fn)
				}
			}
			if len(sites) == 0 {
				return len(r.Prog.closureSites(fn)) > 0, "closure created under validation"
			}
		}
		if len(sites) == 0 {
			return false, "no call site of " + shortFunc(fn) + " within the reconcile"
		}
		why := ""
		for _, cs := range sites {
			ok, w := justified(cs.Parent(), cs, depth+1, seen)
			if !ok {
				return false, w + " ← " + shortFunc(fn)
			}
			why = w
		}
		return true, why + " ← " + shortFunc(fn)
	}
	n := 0
	for _, e := range effectsOf(reach) {
		if !isWriteVerb(e.Verb) {
			continue
		}
		n++
		ok, why := justified(e.Fn, e.Call, 0, map[*ssa.Function]bool{})
		r.Check("C16.R7", e.String()+" after validation", r.Prog.Pos(e.Call.Pos()), shortFunc(e.Fn),
			"an API write of the ExtendedDaemonSet reconcile happens only after ValidateExtendedDaemonSetSpec accepted the spec (so an invalid strategy is rejected on every reconcile, not acted upon)", ok, why)
	}
	if n == 0 {
		r.Check("C16.R7", "writes", r.Prog.Pos(eds.Pos()), shortFunc(eds), "the reconcile performs API writes", false, "none found")
	}
}

// ---------------------------------------------------------------------------------------------
// R8 pointer results and their sibling results; direct nil guards

func c16AllReconcileReach(r *Run) map[*ssa.Function]bool {
	var roots []*ssa.Function
	for _, fn := range reconcileEntries(r) {
		roots = append(roots, fn)
	}
	return dReachable(r.Prog, roots...)
}

func c16IsPlainPtr(t types.Type) bool {
	_, ok := t.Underlying().(*types.Pointer)
	return ok
}

// c16SiblingKnown describes what a caller established about result #idx of a call.
type c16SiblingKnown struct {
	idx   int
	isErr bool
	val   bool // error: is nil ; bool: is true
}

func c16ResultContract(r *Run) {
	reach := c16AllReconcileReach(r)
	type gkey struct {
		caller, callee *ssa.Function
		idx            int
	}
	type group struct {
		ok    bool
		why   string
		n     int
		first ssa.Instruction
	}
	groups := map[gkey]*group{}
	var order []gkey
	for _, fn := range sortedFuncs(reach) {
		if !r.Prog.IsRuleSite(fn) {
			continue
		}
		ff := r.Prog.factsOf(fn)
		for _, ci := range callsIn(fn) {
			call, ok := ci.(*ssa.Call)
			if !ok {
				continue
			}
			callee := staticCallee(&call.Call)
			if callee == nil || !r.Prog.IsRepoFunc(callee) || len(callee.Blocks) == 0 {
				continue
			}
			res := callee.Signature.Results()
			if res.Len() < 2 {
				continue
			}
			hasSibling := false
			for j := 0; j < res.Len(); j++ {
				if c17IsErrType(res.At(j).Type()) {
					hasSibling = true
				}
				if b, ok := res.At(j).Type().Underlying().(*types.Basic); ok && b.Kind() == types.Bool {
					hasSibling = true
				}
			}
			if !hasSibling {
				continue
			}
			extracts := map[int]*ssa.Extract{}
			for _, rf := range refs(call) {
				if ex, ok := rf.(*ssa.Extract); ok {
					extracts[ex.Index] = ex
				}
			}
			for i := 0; i < res.Len(); i++ {
				if !c16IsPlainPtr(res.At(i).Type()) || extracts[i] == nil {
					continue
				}
				v := extracts[i]
				for _, u := range c16DerefUses(r, v) {
					b := u.instr.Block()
					kk := ff.K.key(u.val)
					if ff.At(b).has("("+kk+"==nil)", false) || ff.At(b).has("(nil=="+kk+")", false) {
						continue // the caller checked the pointer itself
					}
					// what the caller knows about the sibling results here
					var known []c16SiblingKnown
					for j, ex := range extracts {
						if j == i {
							continue
						}
						for _, f := range ff.At(b) {
							if c17IsErrType(ex.Type()) && isNilCompareOf(f.V, func(x ssa.Value) bool { return unwrap(x) == ssa.Value(ex) }) {
								known = append(known, c16SiblingKnown{j, true, f.Pol})
							}
							if f.V == ssa.Value(ex) {
								known = append(known, c16SiblingKnown{j, false, f.Pol})
							}
						}
					}
					gk := gkey{fn, callee, i}
					g := groups[gk]
					if g == nil {
						g = &group{ok: true, first: u.instr}
						groups[gk] = g
						order = append(order, gk)
					}
					g.n++
					ok2, why := c16CalleeYieldsNonNil(r, callee, i, known)
					if !ok2 && g.ok {
						g.ok, g.first = false, u.instr
						g.why = fmt.Sprintf("%s at %s: %s", u.how, r.Prog.Pos(instrPos(u.instr)), why)
					} else if ok2 && g.why == "" {
						g.why = why
					}
				}
			}
		}
	}
	for _, gk := range order {
		g := groups[gk]
		detail := g.why
		if g.ok {
			detail = fmt.Sprintf("%d dereference(s); %s", g.n, g.why)
		}
		r.Check("C16.R8", fmt.Sprintf("result #%d of %s", gk.idx, shortFunc(gk.callee)), r.Prog.Pos(instrPos(g.first)), shortFunc(gk.caller),
			"the pointer a repository function returns is non-nil on every return path compatible with the sibling results the caller checked before dereferencing it", g.ok, detail)
	}
	c16DirectGuards(r, reach)
}

// c16CalleeYieldsNonNil: on every return path of fn compatible with the known sibling results,
// result #i is non-nil.
func c16CalleeYieldsNonNil(r *Run, fn *ssa.Function, i int, known []c16SiblingKnown) (bool, string) {
	return c16CalleeYieldsNonNilD(r, fn, i, known, 0)
}

func c16CalleeYieldsNonNilD(r *Run, fn *ssa.Function, i int, known []c16SiblingKnown, depth int) (bool, string) {
	paths, _, ok := funcPaths(fn, 5000)
	r.paths += len(paths)
	if !ok {
		return false, "path cap exceeded in " + shortFunc(fn)
	}
	n := 0
	for _, p := range paths {
		ret := returnOf(p.Blocks[len(p.Blocks)-1])
		if i >= len(ret.Results) {
			return false, "unexpected result count"
		}
		compatible := true
		for _, kn := range known {
			rv := unwrap(p.Resolve(ret.Results[kn.idx]))
			if kn.isErr {
				// is the returned error nil on this path?
				isNil, decided := false, false
				if c, isC := rv.(*ssa.Const); isC {
					isNil, decided = c.IsNil(), true
				} else if p.Has(true, func(v ssa.Value, _ string) bool {
					return isNilCompareOf(v, func(x ssa.Value) bool { return unwrap(x) == rv })
				}) {
					isNil, decided = true, true
				} else if p.Has(false, func(v ssa.Value, _ string) bool {
					return isNilCompareOf(v, func(x ssa.Value) bool { return unwrap(x) == rv })
				}) {
					isNil, decided = false, true
				} else if okn, _ := c16NonNil(r, rv, 0); okn {
					isNil, decided = false, true
				} else if c, isCall := rv.(*ssa.Call); isCall {
					// error constructors of the standard library never return nil
					switch calleeName(&c.Call) {
					case "errors.New", "fmt.Errorf":
						isNil, decided = false, true
					}
				}
				if decided && isNil != kn.val {
					compatible = false
				}
			} else {
				if b, isC := constBool(rv); isC && b != kn.val {
					compatible = false
				} else if !isC {
					if p.Has(!kn.val, func(v ssa.Value, _ string) bool { return v == rv }) {
						compatible = false
					}
				}
			}
		}
		if !compatible {
			continue
		}
		n++
		res := unwrap(p.Resolve(ret.Results[i]))
		if okn, _ := c16NonNil(r, res, 0); okn {
			continue
		}
		if p.Has(false, func(v ssa.Value, _ string) bool {
			return isNilCompareOf(v, func(x ssa.Value) bool { return unwrap(x) == res })
		}) {
			continue
		}
		// the pointer is itself the result of a repository function whose sibling results this path checked
		if ex, isEx := res.(*ssa.Extract); isEx && depth < 3 {
			if c2, isCall := ex.Tuple.(*ssa.Call); isCall {
				if callee2 := staticCallee(&c2.Call); callee2 != nil && r.Prog.IsRepoFunc(callee2) && len(callee2.Blocks) > 0 {
					var known2 []c16SiblingKnown
					for _, rf := range refs(c2) {
						ex2, ok := rf.(*ssa.Extract)
						if !ok || ex2.Index == ex.Index {
							continue
						}
						for _, f := range p.Facts {
							if c17IsErrType(ex2.Type()) && isNilCompareOf(f.V, func(x ssa.Value) bool { return unwrap(x) == ssa.Value(ex2) }) {
								known2 = append(known2, c16SiblingKnown{ex2.Index, true, f.Pol})
							}
							if f.V == ssa.Value(ex2) {
								known2 = append(known2, c16SiblingKnown{ex2.Index, false, f.Pol})
							}
						}
					}
					if ok2, _ := c16CalleeYieldsNonNilD(r, callee2, ex.Index, known2, depth+1); ok2 {
						continue
					}
				}
			}
		}
		// the result of a call through a constant table of functions: every possible callee yields non-nil
		if depth < 3 {
			var dc *ssa.Call
			didx := 0
			switch y := res.(type) {
			case *ssa.Call:
				dc = y
			case *ssa.Extract:
				dc, _ = y.Tuple.(*ssa.Call)
				didx = y.Index
			}
			if dc != nil && staticCallee(&dc.Call) == nil {
				if fs, okd := dDynCallees(r.Prog, dc); okd {
					all := true
					for _, f2 := range fs {
						if !r.Prog.IsRepoFunc(f2) || len(f2.Blocks) == 0 {
							all = false
							break
						}
						if ok2, _ := c16CalleeYieldsNonNilD(r, f2, didx, nil, depth+1); !ok2 {
							all = false
						}
					}
					if all && len(fs) > 0 {
						continue
					}
				}
			}
		}
		// a nil fall-through that the exhaustive role dispatch makes infeasible (R5)
		if c, isC := res.(*ssa.Const); isC && c.IsNil() {
			if okd, _ := c16DispatchExhaustive(r, fn); okd {
				continue
			}
		}
		var ks []string
		for _, kn := range known {
			if kn.isErr {
				ks = append(ks, fmt.Sprintf("error result #%d nil=%v", kn.idx, kn.val))
			} else {
				ks = append(ks, fmt.Sprintf("bool result #%d = %v", kn.idx, kn.val))
			}
		}
		sort.Strings(ks)
		under := "without checking the sibling results"
		if len(ks) > 0 {
			under = "having established " + strings.Join(ks, ", ")
		}
		return false, fmt.Sprintf("%s can return a nil pointer at %s on the path [%s], and the caller dereferences it %s", shortFunc(fn), r.Prog.Pos(instrPos(ret)), shortFacts(p), under)
	}
	return true, fmt.Sprintf("non-nil on the %d compatible return path(s) of %s", n, shortFunc(fn))
}

// c16DirectGuards: the block reached by the non-nil edge of `p != nil` that dereferences p must
// have p != nil as a must-fact (it has, unless another edge enters the block).
func c16DirectGuards(r *Run, reach map[*ssa.Function]bool) {
	for _, fn := range sortedFuncs(reach) {
		if !r.Prog.IsRuleSite(fn) {
			continue
		}
		var ff *FuncFacts
		n := 0
		for _, b := range fn.Blocks {
			if len(b.Instrs) == 0 || len(b.Succs) != 2 {
				continue
			}
			iff, ok := b.Instrs[len(b.Instrs)-1].(*ssa.If)
			if !ok {
				continue
			}
			cond, pol := iff.Cond, true
			for {
				if u, ok := cond.(*ssa.UnOp); ok && u.Op == token.NOT {
					cond, pol = u.X, !pol
					continue
				}
				break
			}
			bo, ok := cond.(*ssa.BinOp)
			if !ok || (bo.Op != token.EQL && bo.Op != token.NEQ) {
				continue
			}
			v := bo.X
			if isNilConst(v) {
				v = bo.Y
			} else if !isNilConst(bo.Y) {
				continue
			}
			if !c16IsPlainPtr(v.Type()) {
				continue
			}
			// successor taken when v != nil
			nonNilOnTrue := (bo.Op == token.NEQ) == pol
			t := b.Succs[1]
			if nonNilOnTrue {
				t = b.Succs[0]
			}
			if len(t.Preds) < 2 {
				continue // only this edge enters: the fact holds by construction
			}
			if ff == nil {
				ff = r.Prog.factsOf(fn)
			}
			kv := ff.K.key(v)
			// the very value that was tested, or another load of the same memory that nothing in the function writes
			stable := !c16StoredIn(fn, v)
			same := func(x ssa.Value) bool {
				return x == v || (stable && ff.K.key(x) == kv)
			}
			var deref ssa.Instruction
			how := ""
			for _, in := range t.Instrs {
				switch x := in.(type) {
				case *ssa.FieldAddr:
					if same(x.X) {
						deref, how = x, "field selection ."+fieldName(x)
					}
				case *ssa.UnOp:
					if x.Op == token.MUL && same(x.X) {
						deref, how = x, "load"
					}
				case ssa.CallInstruction:
					if callee := staticCallee(x.Common()); callee != nil {
						for k, a := range x.Common().Args {
							if same(a) && c16IsPlainPtr(a.Type()) && c16ParamDerefs(r, callee, k, 0) {
								deref, how = x, "passed to "+shortFunc(callee)+", which dereferences it"
							}
						}
					}
				}
				if deref != nil {
					break
				}
			}
			if deref == nil {
				continue
			}
			n++
			guarded := ff.At(t).has("("+kv+"==nil)", false) || ff.At(t).has("(nil=="+kv+")", false)
			r.Check("C16.R8", fmt.Sprintf("guarded dereference #%d of %s", n, c16StableKey(kv)), r.Prog.Pos(instrPos(deref)), shortFunc(fn),
				"a dereference placed directly behind a nil test of the same pointer is reached only when the pointer is non-nil", guarded,
				how+": the block is also entered by an edge on which the pointer was not tested (the guard is part of a disjunction or was negated)")
		}
	}
}
