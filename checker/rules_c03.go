package main

// C03 — rolling update respects maxUnavailable.

import (
	"fmt"
	"go/token"
	"go/types"
	"sort"
	"strings"

	"golang.org/x/tools/go/ssa"
)

func init() {
	register("C03", "Decides the structure that makes the per-sync deletion bound hold for every layout and map order: (R5) the rolling-update planner stores Result.PodsToDelete only as a prefix candidates[:k] with k <= the budget returned by the limits function, the replica-set Reconcile hands exactly that list and the planner's per-node map to the deleter, which issues one Delete(*Pod) per element for map[element], and the only other Delete(*Pod) reachable from that Reconcile takes elements of Parameters.PodToCleanUp; (R1) on every return of the limits function the budget is >= 0 and <= max(0, MaxUnavailablePod); (R2) the budget is one-sidedly dominated by max(0, NbOldUnavailablePods, MaxUnavailablePod - (NbNodes - min(NbUnresponsiveNodes, MaxUnschedulablePod) - NbAvailablesPod - NbOldAvailablesPod) + NbOldUnavailablePods) as a linear form over the fields of limits.Parameters (a more conservative budget passes, a more generous one is reported); (R3) each of those fields is filled from the matching source: per node of the ranged map at most one of available / old-available / unresponsive is counted, the available counters only under IsPodAvailable(pod), the unresponsive counter only under HasPodSchedulerIssue(pod), NbNodes = len of the ranged map with no removal after it, MaxUnavailablePod / MaxUnschedulablePod = GetValueFromIntOrPercent(RollingUpdate.MaxUnavailable / MaxPodSchedulerFailure, that len, round up); (R4) when the budget credits NbOldUnavailablePods, the candidate list is a concatenation whose leading lists receive only nodes appended under not-IsPodAvailable(pod) and every increment of NbOldUnavailablePods is matched by such an append (unavailable pods come first in the prefix cut); (R6) IsPodAvailable is true only when IsPodReady is.", runC03)
}

const (
	fnIsPodAvailable       = pkgPodUtils + ".IsPodAvailable"
	fnIsPodReady           = pkgPodUtils + ".IsPodReady"
	fnHasPodSchedulerIssue = pkgPodUtils + ".HasPodSchedulerIssue"
	fnGetValueFromIntOrPct = pkgIntstr + ".GetValueFromIntOrPercent"
)

// cutSite describes `result.<Field> = candidates[:k]` in a planner, with k bounded by result #idx of
// a call to the limits function.
type cutSite struct {
	planner *ssa.Function
	ff      *FuncFacts
	bp      *bprover
	store   *ssa.Store
	cand    ssa.Value    // the slice that is cut
	budget  *ssa.Extract // result of the limits call bounding the cut
	call    *ssa.Call    // the limits call
	limits  *ssa.Function
	idx     int // result index of the budget
}

// plannerCut finds the stores to Result.<field> in the planner and checks that each is a prefix cut
// bounded by a result of one call to a repository function (the limits function).
func plannerCut(r *Run, rule string, planner *ssa.Function, field string) *cutSite {
	ff := computeFacts(planner)
	bp := &bprover{ff: ff, descend: r.Prog.IsRuleSite}
	var site *cutSite
	stores := fieldStoresIn(planner, pkgStrategy, "Result", field)
	if len(stores) == 0 {
		r.Check(rule, "store Result."+field, r.Prog.Pos(planner.Pos()), shortFunc(planner), "the planner stores Result."+field, false, "no store found")
		return nil
	}
	// candidate budgets: integer results of calls to repository functions
	var budgets []*ssa.Extract
	for _, b := range planner.Blocks {
		for _, in := range b.Instrs {
			if e, ok := in.(*ssa.Extract); ok && isIntegerType(e.Type()) {
				if c, ok := e.Tuple.(*ssa.Call); ok {
					if cal := staticCallee(&c.Call); cal != nil && r.Prog.IsRuleSite(cal) {
						budgets = append(budgets, e)
					}
				}
			}
		}
	}
	for _, st := range stores {
		pos := r.Prog.Pos(instrPos(st))
		construct := "store Result." + field
		need := "Result." + field + " is candidates[:k] with k <= the budget returned by the limits function"
		if isEmptySlice(st.Val) {
			o := r.Check(rule, construct+" (empty)", pos, shortFunc(planner), need, true, "stores an empty list")
			o.Trivial = true
			continue
		}
		sl, ok := st.Val.(*ssa.Slice)
		if !ok || sl.High == nil {
			r.Check(rule, construct, pos, shortFunc(planner), need, false, "the stored list is not cut by the budget: "+st.Val.String())
			continue
		}
		if sl.Low != nil {
			if c, isC := constInt(sl.Low); !isC || c != 0 {
				r.Check(rule, construct, pos, shortFunc(planner), need, false, "the cut does not start at index 0")
				continue
			}
		}
		var found *ssa.Extract
		for _, e := range budgets {
			e := e
			if bp.le(sl.High, bp.root(), ff.At(st.Block()), func(x ssa.Value, _ *bframe) bool { return x == ssa.Value(e) }, false, 0) {
				found = e
				break
			}
		}
		if found == nil {
			r.Check(rule, construct, pos, shortFunc(planner), need, false, "the cut length "+sl.High.Name()+" is not shown to be <= a result of the limits function")
			continue
		}
		call := found.Tuple.(*ssa.Call)
		r.Check(rule, construct, pos, shortFunc(planner), need, true,
			fmt.Sprintf("cut length <= result #%d of %s", found.Index, shortFunc(staticCallee(&call.Call))))
		if site == nil {
			site = &cutSite{planner: planner, ff: ff, bp: bp, store: st, cand: sl.X, budget: found, call: call, limits: staticCallee(&call.Call), idx: found.Index}
		} else if site.call != call || site.idx != found.Index {
			r.Check(rule, construct+" (second budget)", pos, shortFunc(planner), "all cuts of Result."+field+" use the same budget", false, "different limits results bound different stores")
		}
	}
	return site
}

// limitsLeaf names the inputs of the limits function: fields of its struct parameter, also when they
// are read inside a helper (method or function) that receives the whole parameter struct.
func limitsLeaf(bp *bprover) func(ssa.Value, *bframe) (string, bool) {
	return func(v ssa.Value, fr *bframe) (string, bool) {
		_, f, ok := bp.structLeaf(v, fr)
		if !ok {
			return "", false
		}
		return f, true
	}
}

func returnsOf(fn *ssa.Function) []*ssa.Return {
	var out []*ssa.Return
	for _, b := range fn.Blocks {
		if ret := returnOf(b); ret != nil {
			out = append(out, ret)
		}
	}
	return out
}

// limitsClamp checks result #idx of the limits function: >= 0 and <= max(0, <maxField>) on every return.
func limitsClamp(r *Run, rule string, fn *ssa.Function, idx int, maxField string) {
	ff := computeFacts(fn)
	bp := &bprover{ff: ff, descend: r.Prog.IsRuleSite}
	leaf := limitsLeaf(bp)
	for i, ret := range returnsOf(fn) {
		if idx >= len(ret.Results) {
			continue
		}
		v := ret.Results[idx]
		pos := r.Prog.Pos(instrPos(ret))
		fs := ff.At(ret.Block())
		up := bp.le(v, bp.root(), fs, func(x ssa.Value, fr *bframe) bool { n, ok := leaf(x, fr); return ok && n == maxField }, true, 0)
		r.Check(rule, fmt.Sprintf("result #%d <= max(0,%s) at return-%d", idx, maxField, i+1), pos, shortFunc(fn),
			fmt.Sprintf("result #%d is clamped to at most max(0, %s) on every path", idx, maxField), up,
			"proved from the clamp conditions / min-max structure of "+v.Name())
		lo := bp.ge0(v, bp.root(), fs, 0)
		r.Check(rule, fmt.Sprintf("result #%d >= 0 at return-%d", idx, i+1), pos, shortFunc(fn),
			fmt.Sprintf("result #%d is never negative (it is used as a slice bound)", idx), lo, "proved from the clamp conditions of "+v.Name())
	}
}

var c03NonNeg = map[string]bool{
	"NbNodes": true, "NbPods": true, "NbAvailablesPod": true, "NbOldAvailablesPod": true,
	"NbCreatedPod": true, "NbUnresponsiveNodes": true, "NbOldUnavailablePods": true,
}

func c03Reference() linForm {
	return linForm{coef: map[string]int64{
		"MaxUnavailablePod": 1,
		"NbNodes":           -1,
		minmaxName("min", "NbUnresponsiveNodes", "MaxUnschedulablePod"): 1,
		"NbAvailablesPod":      1,
		"NbOldAvailablesPod":   1,
		"NbOldUnavailablePods": 1,
	}}
}

// c03Dominance checks R2 and reports whether the budget credits NbOldUnavailablePods.
func c03Dominance(r *Run, fn *ssa.Function, idx int) (credits bool) {
	ff := computeFacts(fn)
	bp := &bprover{ff: ff, descend: r.Prog.IsRuleSite}
	leaf := limitsLeaf(bp)
	ref := c03Reference()
	for i, ret := range returnsOf(fn) {
		if idx >= len(ret.Results) {
			continue
		}
		v := ret.Results[idx]
		var forms, why []string
		goal := func(x ssa.Value, fr *bframe) bool {
			if n, ok := leaf(x, fr); ok && n == "NbOldUnavailablePods" {
				forms = append(forms, n)
				credits = true
				return true
			}
			lc := &linCtx{bp: bp, leaf: leaf}
			f, ok := lc.form(x, fr, 0)
			if !ok {
				why = append(why, lc.why)
				return false
			}
			dom, msg := dominatedBy(f, ref, c03NonNeg)
			if !dom {
				why = append(why, "budget term "+f.String()+": "+msg)
				return false
			}
			forms = append(forms, f.String())
			if f.coef["NbOldUnavailablePods"] > 0 {
				credits = true
			}
			return true
		}
		ok := bp.le(v, bp.root(), ff.At(ret.Block()), goal, true, 0)
		detail := "bounded by: " + strings.Join(uniq(forms), " | ")
		if !ok {
			detail = strings.Join(uniq(why), "; ")
			if detail == "" {
				detail = "no upper bound of the result could be extracted"
			}
		}
		r.Check("C03.R2", fmt.Sprintf("budget dominated by the documented formula at return-%d", i+1), r.Prog.Pos(instrPos(ret)), shortFunc(fn),
			"deletion budget <= max(0, NbOldUnavailablePods, "+ref.String()+")", ok, detail)
	}
	return credits
}

func uniq(in []string) []string {
	seen := map[string]bool{}
	var out []string
	for _, s := range in {
		if !seen[s] {
			seen[s] = true
			out = append(out, s)
		}
	}
	sort.Strings(out)
	return out
}

// slotValues returns, for a call whose single argument is a struct built in a local composite
// literal, the value stored into each field (fields never stored are absent = zero value).
func slotValues(call *ssa.Call) (map[string]ssa.Value, string) {
	var arg ssa.Value
	for _, a := range call.Call.Args {
		if _, ok := a.Type().Underlying().(interface{ NumFields() int }); ok {
			arg = a
		}
	}
	if arg == nil {
		return nil, "the limits function does not take a struct argument"
	}
	ld, ok := arg.(*ssa.UnOp)
	if !ok {
		return nil, "the struct argument is not a local composite literal"
	}
	al, ok := ld.X.(*ssa.Alloc)
	if !ok {
		return nil, "the struct argument is not a local composite literal"
	}
	out := map[string]ssa.Value{}
	for _, rf := range refs(al) {
		switch x := rf.(type) {
		case *ssa.FieldAddr:
			for _, r2 := range refs(x) {
				switch y := r2.(type) {
				case *ssa.Store:
					if y.Addr != ssa.Value(x) {
						return nil, "the address of the struct argument escapes"
					}
					if _, dup := out[fieldName(x)]; dup {
						return nil, "field " + fieldName(x) + " is assigned more than once"
					}
					out[fieldName(x)] = y.Val
				case *ssa.UnOp, *ssa.DebugRef:
				default:
					return nil, "the address of field " + fieldName(x) + " escapes"
				}
			}
		case *ssa.UnOp, *ssa.DebugRef:
		case *ssa.Store:
			if x.Addr == ssa.Value(al) {
				return nil, "the struct argument is assigned as a whole"
			}
			return nil, "the struct argument escapes"
		default:
			return nil, "the struct argument escapes"
		}
	}
	return out, ""
}

// nodeLoop finds the planner's loop over a map (node -> pod) that carries the counter behind v.
func counterLoop(loops []*loopB, v ssa.Value) (*loopB, *ssa.Phi) {
	if v == nil {
		return nil, nil
	}
	return loopWithHeaderPhi(loops, v)
}

func isValueMatcher(want ssa.Value) func(ssa.Value) bool {
	return func(v ssa.Value) bool { return want != nil && unwrap(v) == want }
}

// intOrPercentSlot checks that slot value v is GetValueFromIntOrPercent(<params>.Strategy.RollingUpdate.<field>, total, true).
// intOrPct is one way a value is computed by intstr.GetValueFromIntOrPercent, expressed in the
// planner's terms: the access path of the IntOrString argument, the total and the round-up flag.
type intOrPct struct {
	call   *ssa.Call
	root   ssa.Value
	fields []string
	total  ssa.Value // nil when it cannot be expressed in the planner
	round  ssa.Value
}

// resolveIntOrPercent follows v to the GetValueFromIntOrPercent call(s) that produce it, directly or
// through repository helpers that return its result (constants returned next to an error are
// skipped); the helper's parameters are replaced by the call's arguments. ok=false when some way v
// is produced is not such a call.
func resolveIntOrPercent(r *Run, v ssa.Value, depth int) ([]intOrPct, bool) {
	v = stripIntConv(v)
	c, idx := callResult(v)
	if c == nil || idx != 0 || depth > 3 {
		return nil, false
	}
	if calleeName(&c.Call) == fnGetValueFromIntOrPct && len(c.Call.Args) == 3 {
		root, fields := accessPath(c.Call.Args[0])
		return []intOrPct{{call: c, root: root, fields: fields, total: c.Call.Args[1], round: c.Call.Args[2]}}, true
	}
	cal := staticCallee(&c.Call)
	if cal == nil || len(cal.Blocks) == 0 || !r.Prog.IsRuleSite(cal) {
		return nil, false
	}
	var out []intOrPct
	for _, rv := range calleeResults(cal, 0) {
		if _, isC := constInt(stripIntConv(rv)); isC {
			continue // the value returned together with an error
		}
		sub, ok := resolveIntOrPercent(r, rv, depth+1)
		if !ok {
			return nil, false
		}
		arg := func(x ssa.Value) ssa.Value {
			if x == nil {
				return nil
			}
			if _, isC := x.(*ssa.Const); isC {
				return x
			}
			if p, isP := stripIntConv(x).(*ssa.Parameter); isP && p.Parent() == cal {
				if i := paramIndex(p); i >= 0 && i < len(c.Call.Args) {
					return c.Call.Args[i]
				}
			}
			return nil
		}
		for _, s := range sub {
			if p, isP := s.root.(*ssa.Parameter); isP && p.Parent() == cal {
				i := paramIndex(p)
				if i < 0 || i >= len(c.Call.Args) {
					return nil, false
				}
				r2, f2 := accessPath(c.Call.Args[i])
				s.root, s.fields = r2, append(append([]string{}, f2...), s.fields...)
			}
			s.total, s.round = arg(s.total), arg(s.round)
			out = append(out, s)
		}
	}
	return out, len(out) > 0
}

// intOrPercentSlot checks that slot value v is GetValueFromIntOrPercent(<params>.Strategy.RollingUpdate.<field>, total, true),
// computed in the planner or in a helper it calls.
func intOrPercentSlot(r *Run, rule, slot, field string, site *cutSite, v ssa.Value, total ssa.Value) {
	pos := r.Prog.Pos(site.call.Pos())
	need := fmt.Sprintf("%s = GetValueFromIntOrPercent(RollingUpdate.%s, number of targeted nodes, round up)", slot, field)
	construct := "slot " + slot
	if v == nil {
		r.Check(rule, construct, pos, shortFunc(site.planner), need, false, "the field is left at zero")
		return
	}
	ways, ok := resolveIntOrPercent(r, v, 0)
	if !ok {
		r.Check(rule, construct, pos, shortFunc(site.planner), need, false, "filled from "+v.String())
		return
	}
	var miss []string
	for _, w := range ways {
		pos = r.Prog.Pos(w.call.Pos())
		_, rootIsParam := w.root.(*ssa.Parameter)
		n := len(w.fields)
		if !(rootIsParam && w.root.(*ssa.Parameter).Parent() == site.planner && n >= 2 && w.fields[n-1] == field && w.fields[n-2] == "RollingUpdate") {
			miss = append(miss, "value read from "+strings.Join(w.fields, "."))
		}
		if !(total != nil && w.total != nil && site.ff.K.key(stripIntConv(w.total)) == site.ff.K.key(stripIntConv(total))) {
			miss = append(miss, "percentage not resolved against the NbNodes value")
		}
		if w.round == nil {
			miss = append(miss, "not rounded up")
		} else if up, isB := constBool(w.round); !isB || !up {
			miss = append(miss, "not rounded up")
		}
	}
	r.Check(rule, construct, pos, shortFunc(site.planner), need, len(miss) == 0, strings.Join(uniq(miss), "; "))
}

// liftAccessPath expresses the access path of v (a value of fn) in terms of the planner: when fn is a
// helper reached from the planner through a single chain of single call sites, a path rooted at a
// parameter of the helper is re-rooted at the corresponding argument.
func liftAccessPath(p *Prog, v ssa.Value, fn, planner *ssa.Function) (ssa.Value, []string, []ssa.CallInstruction, bool) {
	root, fields := accessPath(v)
	var chain []ssa.CallInstruction
	within := p.reachableFuncs(planner)
	for i := 0; fn != planner; i++ {
		par, isP := root.(*ssa.Parameter)
		if !isP || i > 4 {
			return nil, nil, nil, false
		}
		sites := callSitesOf(fn, within)
		if len(sites) != 1 {
			return nil, nil, nil, false
		}
		idx := paramIndex(par)
		if idx < 0 || idx >= len(sites[0].Common().Args) {
			return nil, nil, nil, false
		}
		r2, f2 := accessPath(sites[0].Common().Args[idx])
		root, fields = r2, append(append([]string{}, f2...), fields...)
		chain = append(chain, sites[0])
		fn = sites[0].Parent()
	}
	return root, fields, chain, true
}

func c03SamePath(r1 ssa.Value, f1 []string, r2 ssa.Value, f2 []string) bool {
	return r1 == r2 && strings.Join(f1, ".") == strings.Join(f2, ".")
}

// c03InputsFilled: every field of the limits parameter struct that the limits function (or a helper it
// calls) reads is assigned by the planner. A field that is read but left at its zero value silently
// drops a term of the documented formula (e.g. without NbOldUnavailablePods already-unavailable
// outdated pods are charged to the budget instead of being replaced first).
func c03InputsFilled(r *Run, rule string, site *cutSite, slots map[string]ssa.Value) {
	var named *types.Named
	for _, a := range site.call.Call.Args {
		if n, ok := a.Type().(*types.Named); ok {
			if _, isS := n.Underlying().(*types.Struct); isS {
				named = n
			}
		}
	}
	pos := r.Prog.Pos(site.call.Pos())
	if named == nil {
		return
	}
	isT := func(t types.Type) bool {
		if p, ok := t.(*types.Pointer); ok {
			t = p.Elem()
		}
		return types.Identical(t, named)
	}
	read := map[string]bool{}
	for _, fn := range sortedFuncs(r.Prog.reachableFuncs(site.limits)) {
		for _, b := range fn.Blocks {
			for _, in := range b.Instrs {
				switch x := in.(type) {
				case *ssa.FieldAddr:
					if !isT(x.X.Type()) {
						continue
					}
					for _, rf := range refs(x) {
						if u, isU := rf.(*ssa.UnOp); isU && u.Op == token.MUL {
							read[fieldName(x)] = true
						}
					}
				case *ssa.Field:
					if isT(x.X.Type()) {
						read[fieldName(x)] = true
					}
				}
			}
		}
	}
	var names, missing []string
	for f := range read {
		names = append(names, f)
	}
	sort.Strings(names)
	for _, f := range names {
		if _, ok := slots[f]; !ok {
			missing = append(missing, f)
		}
	}
	detail := fmt.Sprintf("%d field(s) read by the limits function, all assigned", len(names))
	if len(missing) > 0 {
		detail = "read by " + shortFunc(site.limits) + " but never assigned by the planner (left at zero): " + strings.Join(missing, ", ")
	}
	r.Check(rule, "limits inputs filled", pos, shortFunc(site.planner),
		"every field of the limits parameters that the limits function reads is assigned by the planner", len(missing) == 0 && len(names) > 0, detail)
}

// c03Slots checks R3 and returns the main loop, the counter cell feeding NbOldUnavailablePods, the
// iteration paths and the resolver (cells may live in a helper that collects the counts).
func c03Slots(r *Run, site *cutSite) (*loopB, *ccell, []*Path, *cellResolver) {
	fn := site.planner
	pos := r.Prog.Pos(site.call.Pos())
	cr := &cellResolver{prog: r.Prog}
	slots, why := slotValues(site.call)
	if slots == nil {
		r.Undecided("C03.R3", "limits arguments", pos, shortFunc(fn), why)
		return nil, nil, nil, cr
	}

	c03InputsFilled(r, "C03.R3", site, slots)

	// the main loop: the one carrying the available counter
	var main *loopB
	var mainFn *ssa.Function
	whyNot := ""
	for _, s := range []string{"NbAvailablesPod", "NbOldAvailablesPod"} {
		if v := slots[s]; v != nil && main == nil {
			if c, w := cr.resolve(v, fn); c != nil {
				main, mainFn = c.loop, c.fn
			} else {
				whyNot = w
			}
		}
	}
	if main == nil || main.val == nil || main.key == nil {
		r.Undecided("C03.R3", "node loop", pos, shortFunc(fn), "NbAvailablesPod/NbOldAvailablesPod are not counters of a `for node, pod := range <map>` loop: "+whyNot)
		return nil, nil, nil, cr
	}
	if main.innerExit || main.nested {
		r.Undecided("C03.R3", "node loop", r.Prog.Pos(main.header.Instrs[0].Pos()), shortFunc(mainFn), "the node loop has a break/return or a nested loop; per-node counts cannot be read off its paths")
		return nil, nil, nil, cr
	}
	k := site.ff.K
	if mainFn != fn {
		k = newKeyer(mainFn)
	}
	paths, ok := main.iterPaths(k, 5000)
	if ok {
		// helpers that update the counters through the address of a counter struct are inlined
		paths, ok = cr.expand(paths, 5000)
	}
	r.paths += len(paths)
	if !ok {
		r.Undecided("C03.R3", "node loop", pos, shortFunc(fn), "path cap exceeded")
		return nil, nil, nil, cr
	}
	isPod := isValueMatcher(main.val)
	isZero := func(v ssa.Value) bool { c, isC := constInt(stripIntConv(v)); return isC && c == 0 }

	type ctr struct {
		slot string
		phi  *ccell
	}
	var ctrs []ctr
	for _, s := range []string{"NbAvailablesPod", "NbOldAvailablesPod", "NbUnresponsiveNodes", "NbOldUnavailablePods"} {
		v, present := slots[s]
		if !present {
			ctrs = append(ctrs, ctr{s, nil}) // zero: counts nothing
			continue
		}
		if c, isC := constInt(v); isC && c == 0 {
			ctrs = append(ctrs, ctr{s, nil})
			continue
		}
		cell, w := cr.resolve(v, fn)
		if cell == nil || cell.loop != main {
			if cell != nil {
				w = "it is built in another loop"
			}
			r.Check("C03.R3", "slot "+s, pos, shortFunc(fn), s+" is a per-node counter of the node loop", false, "filled from "+v.String()+": "+w)
			ctrs = append(ctrs, ctr{s, nil})
			continue
		}
		if !cell.startsFrom(isZero, true) {
			r.Check("C03.R3", "slot "+s, pos, shortFunc(fn), s+" starts from zero", false, "counter has a non-zero initial value or is assigned outside the loop")
		}
		ctrs = append(ctrs, ctr{s, cell})
	}
	delta := func(p *Path, c *ccell) (int64, bool) {
		if c == nil {
			return 0, true
		}
		return c.delta(p)
	}
	type verdict struct {
		ok     bool
		detail string
		n      int
	}
	res := map[string]*verdict{}
	for _, c := range ctrs {
		res[c.slot] = &verdict{ok: true}
	}
	once := &verdict{ok: true}
	var availKeys = map[string]bool{}
	for _, p := range paths {
		d := map[string]int64{}
		bad := false
		for _, c := range ctrs {
			x, okd := delta(p, c.phi)
			if !okd || x < 0 {
				res[c.slot].ok = false
				res[c.slot].detail = "the counter is not a simple per-node increment on path [" + shortFacts(p) + "]"
				bad = true
			}
			d[c.slot] = x
		}
		if bad {
			continue
		}
		availPol, availFound, availCall := cr.pathCallFact(p, fnIsPodAvailable, 0, isPod)
		stuckPol, stuckFound, _ := cr.pathCallFact(p, fnHasPodSchedulerIssue, 0, isPod)
		if availCall != nil {
			// with minReadySeconds == 0 the time argument is irrelevant (availability == readiness)
			if c, isC := constInt(availCall.Call.Args[1]); isC && c == 0 && len(availCall.Call.Args) == 3 {
				availKeys["minReadySeconds=0"] = true
			} else {
				availKeys[k.key(availCall)] = true
			}
		}
		for _, s := range []string{"NbAvailablesPod", "NbOldAvailablesPod"} {
			if d[s] > 0 {
				res[s].n++
				if !(availFound && availPol) {
					res[s].ok = false
					res[s].detail = "incremented on a path without IsPodAvailable(pod)==true: [" + shortFacts(p) + "]"
				}
				// an outdated pod that is already terminating is on its way out: it must not be
				// credited as an available pod of its node (the budget would then allow deleting
				// further available pods while this node is about to lose its own).
				if s == "NbOldAvailablesPod" && !p.Has(true, func(v ssa.Value, _ string) bool {
					return isNilCompareOf(v, loadOfPath(isPod, "DeletionTimestamp"))
				}) {
					res[s].ok = false
					res[s].detail = "an outdated pod is counted as available on a path without pod.DeletionTimestamp==nil (terminating pods must not be credited): [" + shortFacts(p) + "]"
				}
			}
		}
		if d["NbUnresponsiveNodes"] > 0 {
			res["NbUnresponsiveNodes"].n++
			if !(stuckFound && stuckPol) {
				res["NbUnresponsiveNodes"].ok = false
				res["NbUnresponsiveNodes"].detail = "incremented on a path without HasPodSchedulerIssue(pod)==true: [" + shortFacts(p) + "]"
			}
		}
		if d["NbOldUnavailablePods"] > 0 {
			res["NbOldUnavailablePods"].n++
		}
		if d["NbAvailablesPod"]+d["NbOldAvailablesPod"]+d["NbUnresponsiveNodes"] > 1 {
			once.ok = false
			once.detail = fmt.Sprintf("one node adds %d to available + old-available + unresponsive on path [%s]", d["NbAvailablesPod"]+d["NbOldAvailablesPod"]+d["NbUnresponsiveNodes"], shortFacts(p))
		}
	}
	lpos := r.Prog.Pos(instrPos(main.val.(ssa.Instruction)))
	needs := map[string]string{
		"NbAvailablesPod":      "NbAvailablesPod counts a node only when IsPodAvailable(pod) holds",
		"NbOldAvailablesPod":   "NbOldAvailablesPod counts a node only when IsPodAvailable(pod) holds and the pod is not terminating",
		"NbUnresponsiveNodes":  "NbUnresponsiveNodes counts a node only when HasPodSchedulerIssue(pod) holds",
		"NbOldUnavailablePods": "NbOldUnavailablePods is a per-node counter of the node loop (its link to the candidate list is C03.R4)",
	}
	for _, c := range ctrs {
		v := res[c.slot]
		det := v.detail
		if v.ok {
			det = fmt.Sprintf("%d incrementing path(s) of %d", v.n, len(paths))
		}
		o := r.Check("C03.R3", "slot "+c.slot+" guard", lpos, shortFunc(fn), needs[c.slot], v.ok, det)
		o.Trivial = c.phi == nil
	}
	r.Check("C03.R3", "one count per node", lpos, shortFunc(fn), "a node adds at most 1 to NbAvailablesPod + NbOldAvailablesPod + NbUnresponsiveNodes", once.ok, once.detail)
	r.Check("C03.R3", "one availability notion", lpos, shortFunc(fn), "every availability test of the node loop uses the same notion: IsPodAvailable(pod, 0, _) or identical arguments", len(availKeys) <= 1,
		fmt.Sprintf("%d distinct call shapes", len(availKeys)))

	// NbNodes = len(ranged map), nothing removed afterwards (the loop may live in a helper: the map is
	// compared by its access path lifted to the planner, and the helper's own map writes count as
	// happening at its call site)
	nb := slots["NbNodes"]
	okLen := false
	detail := "NbNodes is not len() of the ranged map"
	mroot, mfields, chain, liftOK := liftAccessPath(r.Prog, main.rangeOver, mainFn, fn)
	if nb != nil && liftOK {
		if lc := builtinCall(stripIntConv(nb), "len"); lc != nil {
			lroot, lfields := accessPath(lc.Call.Args[0])
			if c03SamePath(lroot, lfields, mroot, mfields) {
				okLen = true
				detail = ""
				sameMap := func(v ssa.Value, in *ssa.Function) bool {
					r2, f2, _, ok2 := liftAccessPath(r.Prog, v, in, fn)
					return ok2 && c03SamePath(r2, f2, mroot, mfields)
				}
				scan := func(in *ssa.Function, at ssa.Instruction) {
					for _, b := range in.Blocks {
						for _, ins := range b.Instrs {
							where := at
							if where == nil {
								where = ins
							}
							if c, isCall := ins.(*ssa.Call); isCall && builtinCall(c, "delete") != nil && sameMap(c.Call.Args[0], in) && canExecuteAfter(lc, where) {
								okLen = false
								detail = "an entry is removed from the map at " + r.Prog.Pos(c.Pos()) + " after its size was taken"
							}
							if mu, isMU := ins.(*ssa.MapUpdate); isMU && sameMap(mu.Map, in) && canExecuteAfter(lc, where) {
								okLen = false
								detail = "the map is written at " + r.Prog.Pos(mu.Pos()) + " after its size was taken"
							}
						}
					}
				}
				scan(fn, nil)
				if mainFn != fn && len(chain) > 0 {
					scan(mainFn, chain[len(chain)-1])
				}
			}
		}
	}
	r.Check("C03.R3", "slot NbNodes", pos, shortFunc(fn), "NbNodes = len(the ranged node map), taken after canary nodes were removed", okLen, detail)
	intOrPercentSlot(r, "C03.R3", "MaxUnavailablePod", "MaxUnavailable", site, slots["MaxUnavailablePod"], nb)
	intOrPercentSlot(r, "C03.R3", "MaxUnschedulablePod", "MaxPodSchedulerFailure", site, slots["MaxUnschedulablePod"], nb)

	var ou *ccell
	for _, c := range ctrs {
		if c.slot == "NbOldUnavailablePods" {
			ou = c.phi
		}
	}
	return main, ou, paths, cr
}

// concatParts splits a slice value built by append(a, b...) into the lists concatenated, in order.
func concatParts(v ssa.Value) []ssa.Value {
	if c := builtinCall(v, "append"); c != nil && len(c.Call.Args) == 2 {
		if sl, ok := c.Call.Args[1].(*ssa.Slice); ok {
			if a, isA := sl.X.(*ssa.Alloc); isA && a.Comment == "varargs" {
				return []ssa.Value{v} // append of literal elements: opaque part
			}
		}
		return append(concatParts(c.Call.Args[0]), concatParts(c.Call.Args[1])...)
	}
	return []ssa.Value{v}
}

// c03Shape checks R4.
func c03Shape(r *Run, site *cutSite, main *loopB, ou *ccell, paths []*Path, credits bool, cr *cellResolver) {
	fn := site.planner
	pos := r.Prog.Pos(instrPos(site.store))
	need := "the leading lists of the cut candidate list receive only nodes appended under IsPodAvailable(pod)==false, and each increment of NbOldUnavailablePods is matched by such an append"
	if !credits {
		o := r.Check("C03.R4", "candidate list order", pos, shortFunc(fn), need, true, "the budget does not credit NbOldUnavailablePods: the order of the candidates does not matter")
		o.Trivial = true
		return
	}
	if main == nil {
		r.Undecided("C03.R4", "candidate list order", pos, shortFunc(fn), "node loop not identified (see C03.R3)")
		return
	}
	isPod := isValueMatcher(main.val)
	parts := concatParts(site.cand)
	var prefix []*ccell
	var why string
	for _, part := range parts {
		ph, w := cr.resolve(part, fn)
		if ph == nil || ph.loop != main {
			why = "part " + part.Name() + " of the candidate list is not a list built in the node loop"
			if w != "" {
				why += " (" + w + ")"
			}
			break
		}
		empty := ph.startsFrom(isEmptySlice, true)
		allN := empty
		for _, p := range paths {
			elems, ok := ph.appends(p)
			if !ok {
				allN = false
				why = "list " + ph.String() + " is modified other than by append(list, node)"
				break
			}
			if len(elems) == 0 {
				continue
			}
			pol, found, _ := cr.pathCallFact(p, fnIsPodAvailable, 0, isPod)
			for _, e := range elems {
				if unwrap(e) != main.key {
					allN = false
					why = "list " + ph.String() + " receives a value that is not the node of the current iteration"
				}
			}
			if !(found && !pol) {
				allN = false
				if why == "" {
					why = "list " + ph.String() + " receives nodes on a path without IsPodAvailable(pod)==false: [" + shortFacts(p) + "]"
				}
			}
		}
		if !allN {
			break
		}
		prefix = append(prefix, ph)
	}
	if len(prefix) == len(parts) {
		why = ""
	}
	// every increment of the credited counter is matched by appends into the unavailable prefix
	ok := true
	detail := fmt.Sprintf("%d of %d concatenated list(s) hold only unavailable pods and come first", len(prefix), len(parts))
	if ou == nil {
		// C03.R3 has either accepted the slot as constant zero (nothing is credited) or reported it
		detail = "NbOldUnavailablePods is not incremented in the node loop (see C03.R3 slot NbOldUnavailablePods)"
	} else {
		for _, p := range paths {
			d, okd := ou.delta(p)
			if !okd {
				ok = false
				detail = "NbOldUnavailablePods counter not a simple increment"
				break
			}
			if d <= 0 {
				continue
			}
			var n int64
			for _, ph := range prefix {
				elems, _ := ph.appends(p)
				n += int64(len(elems))
			}
			if d > n {
				ok = false
				detail = fmt.Sprintf("NbOldUnavailablePods grows by %d on path [%s] but only %d node(s) are appended to the unavailable-first part of the candidate list", d, shortFacts(p), n)
				if why != "" {
					detail += " (" + why + ")"
				}
				break
			}
		}
	}
	r.Check("C03.R4", "candidate list order", pos, shortFunc(fn), need, ok, detail)
}

// c03DeleteChain checks the part of R5 outside the planner.
func c03DeleteChain(r *Run, site *cutSite) {
	rec := r.Prog.Method(pkgERS, "Reconciler", "Reconcile")
	if rec == nil {
		r.Fatal("anchor (%s.Reconciler).Reconcile not found", pkgERS)
		return
	}
	reach := r.Prog.reachableFuncs(rec)
	if !reach[site.planner] {
		r.Check("C03.R5", "planner reachable", r.Prog.Pos(site.planner.Pos()), shortFunc(site.planner), "the rolling-update planner is reachable from the replica-set Reconcile", false, "not reachable through static calls")
		return
	}
	tr := &ipTracer{reach: reach, depth: 8}
	isSuffix := func(ls []ipLeaf, typ, field string, elem int) bool {
		if len(ls) == 0 {
			return false
		}
		for _, l := range ls {
			if l.elem != elem {
				return false
			}
			ld, ok := l.v.(*ssa.UnOp)
			if !ok {
				return false
			}
			fa, ok := ld.X.(*ssa.FieldAddr)
			if !ok || fieldName(fa) != field || !isPtrToNamed(fa.X.Type(), pkgStrategy, typ) {
				return false
			}
		}
		return true
	}
	nBudget := 0
	for _, e := range effectsOf(reach) {
		if e.Verb != "Delete" || e.Kind != pkgCoreV1+".Pod" {
			continue
		}
		pos := r.Prog.Pos(e.Call.Pos())
		construct := "Delete(*Pod)"
		obj := unwrap(e.Obj)
		if ex, ok := obj.(*ssa.Extract); ok {
			if lk, ok := ex.Tuple.(*ssa.Lookup); ok && ex.Index == 0 {
				obj = lk
			}
		}
		if lk, ok := obj.(*ssa.Lookup); ok {
			mapLeaves := tr.trace(lk.X, e.Fn)
			keyLeaves := tr.trace(lk.Index, e.Fn)
			okMap := isSuffix(mapLeaves, "Parameters", "PodByNodeName", 0)
			okKey := isSuffix(keyLeaves, "Result", "PodsToDelete", 1)
			same := false
			if okMap && okKey {
				// the list comes from the result of the call that received the parameters holding the map
				same = true
				for _, kl := range keyLeaves {
					root, _ := accessPath(kl.v)
					ex, isEx := root.(*ssa.Extract)
					if !isEx {
						same = false
						continue
					}
					call, isCall := ex.Tuple.(*ssa.Call)
					if !isCall {
						same = false
						continue
					}
					for _, ml := range mapLeaves {
						mroot, _ := accessPath(ml.v)
						found := false
						for _, a := range call.Call.Args {
							if a == mroot {
								found = true
							}
						}
						if !found || ml.fn != kl.fn {
							same = false
						}
					}
				}
			}
			ok := okMap && okKey && same
			r.Check("C03.R5", construct+" budgeted", pos, shortFunc(e.Fn),
				"the pod deleted for updating is <per-node map>[n] with n an element of the planner's Result.PodsToDelete and the map the one the planner saw", ok,
				"map from "+describeLeaves(mapLeaves)+"; key from "+describeLeaves(keyLeaves))
			if ok {
				nBudget++
				c03OnePerElement(r, e, reach)
			}
			continue
		}
		ls := tr.trace(obj, e.Fn)
		ok := isSuffix(ls, "Parameters", "PodToCleanUp", 1)
		r.Check("C03.R5", construct+" clean-up", pos, shortFunc(e.Fn),
			"any other Delete(*Pod) reachable from the replica-set Reconcile takes an element of Parameters.PodToCleanUp (duplicates, ineligible nodes, failed pods)", ok,
			"object from "+describeLeaves(ls))
	}
	if nBudget == 0 {
		r.Check("C03.R5", "Delete(*Pod) budgeted", "-", "-", "a Delete(*Pod) fed from Result.PodsToDelete exists", false, "none found")
	}
	// nobody rewrites Result.PodsToDelete between the planner and the deleter
	var strat *ssa.Function
	for _, c := range callsIn(rec) {
		if cal := staticCallee(c.Common()); cal != nil && r.Prog.reachableFuncs(cal)[site.planner] {
			strat = cal
		}
	}
	var outside []string
	if strat != nil {
		inner := r.Prog.reachableFuncs(strat)
		for _, fn := range sortedFuncs(reach) {
			if inner[fn] {
				continue
			}
			for _, st := range fieldStoresIn(fn, pkgStrategy, "Result", "PodsToDelete") {
				outside = append(outside, r.Prog.Pos(instrPos(st)))
			}
		}
	}
	r.Check("C03.R5", "list passed unmodified", r.Prog.Pos(rec.Pos()), shortFunc(rec), "Result.PodsToDelete is written only by the strategy planners", strat != nil && len(outside) == 0, strings.Join(outside, ", "))
	// the planners do not extend the clean-up list (which is deleted outside the budget)
	var extended []string
	if strat != nil {
		for _, fn := range sortedFuncs(r.Prog.reachableFuncs(strat)) {
			for _, st := range fieldStoresIn(fn, pkgStrategy, "Parameters", "PodToCleanUp") {
				extended = append(extended, r.Prog.Pos(instrPos(st)))
			}
		}
	}
	r.Check("C03.R5", "clean-up list not extended by the planners", r.Prog.Pos(rec.Pos()), shortFunc(rec),
		"Parameters.PodToCleanUp (deleted outside the budget) is not written by the strategy planners", strat != nil && len(extended) == 0, strings.Join(extended, ", "))
}

// c03OnePerElement: the Delete call executes once per element of the list.
func c03OnePerElement(r *Run, e *Effect, reach map[*ssa.Function]bool) {
	pos := r.Prog.Pos(e.Call.Pos())
	need := "one Delete per element: the call is outside any loop of its function, and its function is started once per iteration of a single range over the list"
	inLoop := loopOfBlock(findLoops(e.Fn), e.Call.Block()) != nil
	fn := e.Fn
	ok := !inLoop
	detail := ""
	if fn.Parent() != nil {
		// closure: its single start site must be in exactly one (non-nested) loop of the parent
		sites := callSitesOf(fn, map[*ssa.Function]bool{fn.Parent(): true})
		if len(sites) != 1 {
			ok = false
			detail = fmt.Sprintf("%d start sites", len(sites))
		} else {
			loops := findLoops(fn.Parent())
			n := 0
			var lp *loopB
			for _, l := range loops {
				if l.blocks[sites[0].Block()] {
					n++
					lp = l
				}
			}
			if n != 1 || lp.rangeOver == nil {
				ok = false
				detail = fmt.Sprintf("start site is inside %d loops", n)
			} else if _, isParam := unwrap(lp.rangeOver).(*ssa.Parameter); !isParam {
				ok = false
				detail = "the loop does not range over the list parameter"
			}
		}
	} else if inLoop {
		lp := loopOfBlock(findLoops(fn), e.Call.Block())
		if lp != nil && !lp.nested && lp.rangeOver != nil {
			if _, isParam := unwrap(lp.rangeOver).(*ssa.Parameter); isParam {
				ok = true
			}
		}
	}
	r.Check("C03.R5", "Delete(*Pod) once per element", pos, shortFunc(e.Fn), need, ok, detail)
}

// availableImpliesReady checks that every path of IsPodAvailable that can return true carries
// IsPodReady(pod)==true (or the readiness of pod.Status).
func availableImpliesReady(r *Run, rule string) bool {
	fn := r.Prog.Func(pkgPodUtils, "IsPodAvailable")
	if fn == nil {
		r.Fatal("anchor %s.IsPodAvailable not found", pkgPodUtils)
		return false
	}
	paths, ok := truePaths(fn, 0, 5000)
	r.paths += len(paths)
	if !ok || len(fn.Params) == 0 {
		r.Undecided(rule, "available implies ready", r.Prog.Pos(fn.Pos()), shortFunc(fn), "path cap exceeded")
		return false
	}
	pod := fn.Params[0]
	isPodStatus := func(v ssa.Value) bool {
		root, p := accessPath(v)
		return root == ssa.Value(pod) && len(p) == 1 && p[0] == "Status"
	}
	// the pod's Ready condition looked up by hand: GetPodReadyCondition(pod.Status) or
	// GetPodCondition(&pod.Status, PodReady)#1
	isReadyCond := func(v ssa.Value) bool {
		if c, ok := isCallTo(v, pkgPodUtils+".GetPodReadyCondition"); ok && len(c.Call.Args) == 1 {
			return isPodStatus(c.Call.Args[0])
		}
		if c, ok := isResultOf(v, pkgPodUtils+".GetPodCondition", 1); ok && len(c.Call.Args) == 2 {
			s, isS := constString(c.Call.Args[1])
			return isS && s == "Ready" && isPodStatus(c.Call.Args[0])
		}
		return false
	}
	isReadyCall := func(v ssa.Value) bool {
		c, isCall := v.(*ssa.Call)
		if !isCall || len(c.Call.Args) == 0 {
			return false
		}
		switch calleeName(&c.Call) {
		case fnIsPodReady:
			return unwrap(c.Call.Args[0]) == ssa.Value(pod)
		case pkgPodUtils + ".IsPodReadyConditionTrue":
			root, p := accessPath(c.Call.Args[0])
			return root == ssa.Value(pod) && len(p) == 1 && p[0] == "Status"
		}
		return false
	}
	all := true
	n := 0
	for _, p := range paths {
		ret := returnOf(p.Blocks[len(p.Blocks)-1])
		n++
		ready := p.Has(true, func(v ssa.Value, _ string) bool {
			if isReadyCall(v) {
				return true
			}
			return isEqCompare(v, func(x ssa.Value) bool {
				rt, fp := accessPath(x)
				return len(fp) == 1 && fp[0] == "Status" && isReadyCond(rt)
			}, isConstStringVal("True"))
		})
		if !ready {
			all = false
		}
		r.Check(rule, fmt.Sprintf("available implies ready on path [%s]", shortFacts(p)), r.Prog.Pos(instrPos(ret)), shortFunc(fn),
			"IsPodAvailable returns true only when IsPodReady(pod) holds", ready, "path facts: "+shortFacts(p))
	}
	if n == 0 {
		r.Check(rule, "available implies ready", r.Prog.Pos(fn.Pos()), shortFunc(fn), "IsPodAvailable has a path returning true", false, "no such path")
		return false
	}
	return all
}

// c03StuckPredicate (R3): HasPodSchedulerIssue - the test under which a node is counted as unresponsive
// and tolerated instead of consuming the budget - is true only for a pod that is not scheduled
// (IsPodScheduled reports false) or that is terminating (DeletionTimestamp set). A pod that is bound to
// its node and merely not running yet is an unavailable node, not a tolerated one.
func c03StuckPredicate(r *Run, rule string) {
	fn := r.Prog.Func(pkgPodUtils, "HasPodSchedulerIssue")
	if fn == nil || len(fn.Params) == 0 {
		r.Fatal("anchor %s not found", fnHasPodSchedulerIssue)
		return
	}
	pod := fn.Params[0]
	paths, ok := truePaths(fn, 0, 5000)
	r.paths += len(paths)
	good := ok && len(paths) > 0
	detail := fmt.Sprintf("%d path(s) returning true", len(paths))
	for _, p := range paths {
		unscheduled := p.Has(false, func(v ssa.Value, _ string) bool {
			c, isRes := isResultOf(v, pkgPodUtils+".IsPodScheduled", 1)
			return isRes && len(c.Call.Args) == 1 && unwrap(c.Call.Args[0]) == ssa.Value(pod)
		})
		terminating := p.Has(false, func(v ssa.Value, _ string) bool {
			return isNilCompareOf(v, func(x ssa.Value) bool {
				root, pth := accessPath(x)
				return root == ssa.Value(pod) && len(pth) >= 1 && pth[len(pth)-1] == "DeletionTimestamp"
			})
		})
		if !unscheduled && !terminating {
			good = false
			detail = "returns true on a path that knows neither IsPodScheduled(pod)==false nor pod.DeletionTimestamp!=nil: [" + shortFacts(p) + "]"
		}
	}
	r.Check(rule, "stuck predicate", r.Prog.Pos(fn.Pos()), shortFunc(fn),
		"HasPodSchedulerIssue is true only for an unscheduled pod or a terminating pod", good, detail)
}

func runC03(r *Run) {
	r.RuleDoc("C03.R1", "deletion budget of the limits function is >= 0 and <= max(0, MaxUnavailablePod) on every return")
	r.RuleDoc("C03.R2", "deletion budget is one-sidedly dominated by the documented linear formula over limits.Parameters")
	r.RuleDoc("C03.R3", "limits.Parameters fields are filled from the matching counters / spec values in the planner")
	r.RuleDoc("C03.R4", "candidate list is unavailable-first whenever the budget credits already-unavailable pods")
	r.RuleDoc("C03.R5", "only the budget-bounded prefix is deleted: cut in the planner, passed unmodified, one Delete per element; other pod deletions come from PodToCleanUp")
	r.RuleDoc("C03.R6", "IsPodAvailable implies IsPodReady")
	r.Floor("C03.R1", 2)
	r.Floor("C03.R2", 1)
	r.Floor("C03.R3", 9)
	r.Floor("C03.R4", 1)
	r.Floor("C03.R5", 6)
	r.Floor("C03.R6", 1)
	r.NotCovered("the numeric result for each concrete layout (it follows from R1-R6 but is not evaluated); which pods FilterAndMapPodsByNode places in PodToCleanUp and in the per-node map (C01); deletions by the canary planner, whose list is not budgeted by maxUnavailable (C04); pods becoming unavailable on their own between two syncs; the anchor names are the fields of limits.Parameters and the exported ManageDeployment")

	planner := r.Prog.Func(pkgStrategy, "ManageDeployment")
	if planner == nil {
		r.Fatal("anchor %s.ManageDeployment not found", pkgStrategy)
		return
	}
	site := plannerCut(r, "C03.R5", planner, "PodsToDelete")
	availableImpliesReady(r, "C03.R6")
	c03StuckPredicate(r, "C03.R3")
	if site == nil {
		// the failure is already reported under C03.R5; the dependent rules have no site to look at
		relaxFloors(r, "C03.R1", "C03.R2", "C03.R3", "C03.R4", "C03.R5")
		return
	}
	limitsClamp(r, "C03.R1", site.limits, site.idx, "MaxUnavailablePod")
	credits := c03Dominance(r, site.limits, site.idx)
	main, ou, paths, cr := c03Slots(r, site)
	if main == nil {
		relaxFloors(r, "C03.R3")
	}
	c03Shape(r, site, main, ou, paths, credits, cr)
	c03DeleteChain(r, site)
	c03SecondsUnit(r)
}
