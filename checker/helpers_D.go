package main

// Generic helpers added for C11, C16 and C17: pointer-chasing roots of addresses and values,
// "writes through parameter" summaries, CFG reachability, and the shared-state (STATE) index.

import (
	"go/token"
	"go/types"
	"strings"

	"golang.org/x/tools/go/ssa"
)

// dChain is one way a value/address is reached: Root is where the chase stops (parameter, free
// variable, global, allocation, call result, constant …); Loads counts the pointer loads between
// the root and the value; Via lists every intermediate value (root first … value last); Path lists
// the field names crossed ("[]" for element-of); Index lists the index operands of IndexAddr/Index.
type dChain struct {
	Root  ssa.Value
	Loads int
	Via   []ssa.Value
	Path  []string
	Index []ssa.Value
}

// dChains chases v backwards through field/index addressing, loads, slicing, conversions, tuple
// extraction of lookups/receives/range steps and phis (one chain per phi alternative).
// With throughCells, loads of function-local variable cells (Alloc of a non-aggregate that only
// receives plain stores) continue into the stored values.
func dChains(v ssa.Value, throughCells bool) []dChain {
	var out []dChain
	seen := map[ssa.Value]bool{}
	var rec func(v ssa.Value, c dChain, depth int)
	rec = func(v ssa.Value, c dChain, depth int) {
		if v == nil {
			return
		}
		c.Via = append(append([]ssa.Value{}, c.Via...), v)
		if depth > 60 {
			c.Root = v
			out = append(out, c)
			return
		}
		switch x := v.(type) {
		case *ssa.FieldAddr:
			c.Path = append(append([]string{}, c.Path...), fieldName(x))
			rec(x.X, c, depth+1)
		case *ssa.Field:
			c.Path = append(append([]string{}, c.Path...), fieldName(x))
			rec(x.X, c, depth+1)
		case *ssa.IndexAddr:
			c.Path = append(append([]string{}, c.Path...), "[]")
			c.Index = append(append([]ssa.Value{}, c.Index...), x.Index)
			rec(x.X, c, depth+1)
		case *ssa.Index:
			c.Path = append(append([]string{}, c.Path...), "[]")
			c.Index = append(append([]ssa.Value{}, c.Index...), x.Index)
			rec(x.X, c, depth+1)
		case *ssa.Lookup:
			c.Path = append(append([]string{}, c.Path...), "[]")
			rec(x.X, c, depth+1)
		case *ssa.UnOp:
			switch x.Op {
			case token.MUL:
				if a, ok := x.X.(*ssa.Alloc); ok && throughCells && dIsVarCell(a) {
					n := 0
					c2 := c
					c2.Via = c.Via[:len(c.Via)-1] // the load of a private variable cell is not a pointer step
					for _, rf := range refs(a) {
						if st, ok := rf.(*ssa.Store); ok && st.Addr == ssa.Value(a) {
							rec(st.Val, c2, depth+1)
							n++
						}
					}
					if n > 0 {
						return
					}
				}
				c.Loads++
				rec(x.X, c, depth+1)
			case token.ARROW:
				c.Path = append(append([]string{}, c.Path...), "<-")
				rec(x.X, c, depth+1)
			default:
				c.Root = v
				out = append(out, c)
			}
		case *ssa.Slice:
			rec(x.X, c, depth+1)
		case *ssa.ChangeType:
			rec(x.X, c, depth+1)
		case *ssa.Convert:
			rec(x.X, c, depth+1)
		case *ssa.MakeInterface:
			rec(x.X, c, depth+1)
		case *ssa.ChangeInterface:
			rec(x.X, c, depth+1)
		case *ssa.TypeAssert:
			rec(x.X, c, depth+1)
		case *ssa.Extract:
			switch t := x.Tuple.(type) {
			case *ssa.Lookup:
				rec(t, c, depth+1)
			case *ssa.UnOp:
				rec(t, c, depth+1)
			case *ssa.TypeAssert:
				rec(t, c, depth+1)
			case *ssa.Next:
				if rg, ok := t.Iter.(*ssa.Range); ok {
					c.Path = append(append([]string{}, c.Path...), "[]")
					rec(rg.X, c, depth+1)
					return
				}
				c.Root = v
				out = append(out, c)
			default:
				c.Root = v
				out = append(out, c)
			}
		case *ssa.Phi:
			if seen[v] {
				return
			}
			seen[v] = true
			for _, e := range x.Edges {
				rec(e, c, depth+1)
			}
		default:
			c.Root = v
			out = append(out, c)
		}
	}
	rec(v, dChain{}, 0)
	return out
}

// dIsVarCell reports whether an Alloc is the cell of a local variable that is only loaded and
// stored as a whole (no field/index addressing, not captured, not passed anywhere).
func dIsVarCell(a *ssa.Alloc) bool {
	for _, rf := range refs(a) {
		switch x := rf.(type) {
		case *ssa.Store:
			if x.Addr != ssa.Value(a) {
				return false
			}
		case *ssa.UnOp:
			if x.Op != token.MUL {
				return false
			}
		case *ssa.DebugRef:
		default:
			return false
		}
	}
	return true
}

// dPointerLike reports whether values of t can give access to shared memory.
func dPointerLike(t types.Type) bool {
	switch u := t.Underlying().(type) {
	case *types.Basic:
		return u.Kind() == types.UnsafePointer
	case *types.Struct:
		for i := 0; i < u.NumFields(); i++ {
			if dPointerLike(u.Field(i).Type()) {
				return true
			}
		}
		return false
	case *types.Array:
		return dPointerLike(u.Elem())
	}
	return true
}

// dReaches reports whether block `to` is reachable from block `from` by at least one CFG edge.
func dReaches(from, to *ssa.BasicBlock) bool {
	seen := map[*ssa.BasicBlock]bool{}
	work := append([]*ssa.BasicBlock{}, from.Succs...)
	for len(work) > 0 {
		b := work[len(work)-1]
		work = work[:len(work)-1]
		if seen[b] {
			continue
		}
		seen[b] = true
		if b == to {
			return true
		}
		work = append(work, b.Succs...)
	}
	return false
}

// dInLoop reports whether block b belongs to the natural loop with header h.
func dInLoop(h, b *ssa.BasicBlock) bool {
	if !h.Dominates(b) {
		return false
	}
	for _, n := range h.Preds {
		if !h.Dominates(n) {
			continue
		}
		seen := map[*ssa.BasicBlock]bool{h: true}
		work := []*ssa.BasicBlock{n}
		for len(work) > 0 {
			x := work[len(work)-1]
			work = work[:len(work)-1]
			if seen[x] {
				continue
			}
			seen[x] = true
			if x == b {
				return true
			}
			work = append(work, x.Preds...)
		}
	}
	return b == h
}

// dInstrIndex returns the index of an instruction in its block (-1 if absent).
func dInstrIndex(in ssa.Instruction) int {
	for i, x := range in.Block().Instrs {
		if x == in {
			return i
		}
	}
	return -1
}

// dDominatesInstr reports whether instruction a is executed before instruction b on every path
// reaching b (same block: earlier position; otherwise block dominance).
func dDominatesInstr(a, b ssa.Instruction) bool {
	if a.Block() == b.Block() {
		return dInstrIndex(a) < dInstrIndex(b)
	}
	return a.Block().Dominates(b.Block())
}

// dCalleePkg returns the package path of a static callee ("" if unknown).
func dCalleePkg(c *ssa.CallCommon) string {
	if c.IsInvoke() {
		if c.Method.Pkg() != nil {
			return c.Method.Pkg().Path()
		}
		return ""
	}
	if f := staticCallee(c); f != nil {
		if f.Pkg != nil {
			return f.Pkg.Pkg.Path()
		}
		if o := f.Object(); o != nil && o.Pkg() != nil {
			return o.Pkg().Path()
		}
	}
	return ""
}

// dIsSyncCall reports whether the call is a method/function of package sync or sync/atomic and
// returns its name ("Lock", "Unlock", "Done", …).
func dIsSyncCall(c *ssa.CallCommon) (string, bool) {
	p := dCalleePkg(c)
	if p != "sync" && p != "sync/atomic" {
		return "", false
	}
	if c.IsInvoke() {
		return c.Method.Name(), true
	}
	if f := staticCallee(c); f != nil {
		return f.Name(), true
	}
	return "", false
}

// dBuiltin returns the builtin name of a call ("" if it is not a builtin).
func dBuiltin(c *ssa.CallCommon) string {
	if b, ok := c.Value.(*ssa.Builtin); ok {
		return b.Name()
	}
	return ""
}

// ---------------------------------------------------------------------------------------------
// "writes through parameter" summaries

// dWriteSummary answers whether a repository function may write memory reachable from one of its
// parameters (directly, or through repository callees it hands the parameter to). Functions
// outside the repository are assumed not to write through their arguments (stated assumption).
type dWriteSummary struct {
	prog *Prog
	memo map[*ssa.Function]map[int]int // 1 = no, 2 = yes, 3 = in progress
	Why  map[*ssa.Function]map[int]string
}

func newWriteSummary(p *Prog) *dWriteSummary {
	return &dWriteSummary{prog: p, memo: map[*ssa.Function]map[int]int{}, Why: map[*ssa.Function]map[int]string{}}
}

// dMemWrites lists, for one instruction, the addresses/containers it writes:
// Store → address; MapUpdate → map; append/copy/delete/clear → first argument (content).
// content=true means "the memory the value points to" rather than "the memory at the address".
type dMemWrite struct {
	V       ssa.Value
	Content bool
}

func dMemWrites(in ssa.Instruction) []dMemWrite {
	switch x := in.(type) {
	case *ssa.Store:
		return []dMemWrite{{x.Addr, false}}
	case *ssa.MapUpdate:
		return []dMemWrite{{x.Map, true}}
	case ssa.CallInstruction:
		switch dBuiltin(x.Common()) {
		case "append", "copy", "delete", "clear":
			if len(x.Common().Args) > 0 {
				return []dMemWrite{{x.Common().Args[0], true}}
			}
		}
	}
	return nil
}

func (s *dWriteSummary) set(fn *ssa.Function, i, v int, why string) {
	if s.memo[fn] == nil {
		s.memo[fn] = map[int]int{}
		s.Why[fn] = map[int]string{}
	}
	s.memo[fn][i] = v
	if why != "" {
		s.Why[fn][i] = why
	}
}

// Writes reports whether fn may write through its i-th parameter.
func (s *dWriteSummary) Writes(fn *ssa.Function, i int) bool {
	if fn == nil || len(fn.Blocks) == 0 || i < 0 || i >= len(fn.Params) {
		return false
	}
	if !s.prog.IsRepoFunc(fn) {
		return false
	}
	if m := s.memo[fn]; m != nil {
		switch m[i] {
		case 1, 3:
			return false
		case 2:
			return true
		}
	}
	s.set(fn, i, 3, "")
	p := fn.Params[i]
	rootedAtParam := func(v ssa.Value) bool {
		for _, c := range dChains(v, true) {
			if c.Root == ssa.Value(p) {
				return true
			}
		}
		return false
	}
	res := false
	why := ""
	for _, b := range fn.Blocks {
		for _, in := range b.Instrs {
			for _, w := range dMemWrites(in) {
				if rootedAtParam(w.V) {
					res = true
					why = "write at " + s.prog.Pos(instrPos(in))
				}
			}
			switch x := in.(type) {
			case ssa.CallInstruction:
				c := x.Common()
				if dBuiltin(c) != "" {
					continue
				}
				callee := staticCallee(c)
				for j, a := range c.Args {
					if !dPointerLike(a.Type()) || !rootedAtParam(a) {
						continue
					}
					if callee != nil && s.Writes(callee, j) {
						res = true
						why = "passed to " + shortFunc(callee) + " which writes through it (" + s.Why[callee][j] + ")"
					}
				}
			case *ssa.MakeClosure:
				for _, bnd := range x.Bindings {
					if rootedAtParam(bnd) {
						// captured by a closure: look for writes through the captured variable
						if f, ok := x.Fn.(*ssa.Function); ok && dClosureWritesThroughBindings(f) {
							res = true
							why = "captured by a closure that writes captured memory at " + s.prog.Pos(x.Pos())
						}
					}
				}
			}
		}
	}
	if res {
		s.set(fn, i, 2, why)
	} else {
		s.set(fn, i, 1, "")
	}
	return res
}

func dClosureWritesThroughBindings(f *ssa.Function) bool {
	for _, b := range f.Blocks {
		for _, in := range b.Instrs {
			for _, w := range dMemWrites(in) {
				for _, c := range dChains(w.V, true) {
					if _, ok := c.Root.(*ssa.FreeVar); ok && c.Loads > 0 {
						return true
					}
				}
			}
		}
	}
	return false
}

// IsRepoFunc reports whether fn (or its outermost enclosing function) is defined in a repository
// package.
func (p *Prog) IsRepoFunc(fn *ssa.Function) bool {
	for fn != nil && fn.Parent() != nil {
		fn = fn.Parent()
	}
	if fn == nil {
		return false
	}
	if fn.Pkg != nil {
		return p.IsRepoPkg(fn.Pkg.Pkg.Path())
	}
	if o := fn.Object(); o != nil && o.Pkg() != nil {
		return p.IsRepoPkg(o.Pkg().Path())
	}
	return false
}

// ---------------------------------------------------------------------------------------------
// STATE: writes to package-level variables and to reconciler objects in a set of functions.

// dStateWrite is one write (or opaque use) touching process-wide state.
type dStateWrite struct {
	Fn    *ssa.Function
	Instr ssa.Instruction
	What  string // "global pkg.Name", "reconciler field (T).f"
	How   string // "store", "map update", "passed to F which writes through it", "method M of external type T"
	Kind  string // "write" | "external-call"
	Type  string // for external calls: the receiver/argument type
	Sel   string // for external calls: the method or function name
}

// dReconcilerTypes returns the named types of the four Reconciler structs.
func dReconcilerTypes(p *Prog) map[*types.Named]string {
	out := map[*types.Named]string{}
	for name, pkg := range reconcilerPkgs {
		if n := p.Named(pkg, "Reconciler"); n != nil {
			out[n] = name
		}
	}
	return out
}

func dNamedOf(t types.Type) *types.Named {
	if p, ok := t.(*types.Pointer); ok {
		t = p.Elem()
	}
	n, _ := t.(*types.Named)
	return n
}

// dSharedRoot classifies the root of a chain as process-wide state: a package-level variable, or
// a value of one of the Reconciler types (receiver, parameter, free variable).
func dSharedRoot(p *Prog, recTypes map[*types.Named]string, c dChain) (what string, ok bool) {
	switch x := c.Root.(type) {
	case *ssa.Global:
		if x.Pkg != nil && p.IsRepoPkg(x.Pkg.Pkg.Path()) {
			return "package variable " + strings.TrimPrefix(x.Pkg.Pkg.Path(), repoMod+"/") + "." + x.Name(), true
		}
		if x.Pkg != nil {
			return "package variable " + x.Pkg.Pkg.Path() + "." + x.Name(), true
		}
	case *ssa.Parameter, *ssa.FreeVar:
		t := c.Root.Type()
		if fv, isFV := c.Root.(*ssa.FreeVar); isFV {
			// a free variable is the address of the captured variable
			if pt, ok := fv.Type().(*types.Pointer); ok {
				t = pt.Elem()
			}
		}
		if n := dNamedOf(t); n != nil {
			if name, isRec := recTypes[n]; isRec {
				f := ""
				// first field crossed after the root
				if len(c.Path) > 0 {
					f = "." + c.Path[len(c.Path)-1]
				}
				return name + " reconciler" + f, true
			}
		}
	}
	return "", false
}

// dStateWrites lists the writes to shared roots in the given functions: direct stores / map
// updates / append-copy-delete on memory rooted at a shared root, calls handing such memory to a
// repository function that writes through it, and calls of functions outside the repository
// that receive a pointer-like value rooted at a shared root (Kind "external-call": the caller
// decides with an allow-list whether the type is internally synchronised / stateless).
func dStateWrites(p *Prog, fns map[*ssa.Function]bool, ws *dWriteSummary) []dStateWrite {
	recTypes := dReconcilerTypes(p)
	var out []dStateWrite
	for _, fn := range sortedFuncs(fns) {
		if !p.IsRuleSite(fn) {
			continue
		}
		for _, b := range fn.Blocks {
			for _, in := range b.Instrs {
				for _, w := range dMemWrites(in) {
					for _, c := range dChains(w.V, true) {
						if what, ok := dSharedRoot(p, recTypes, c); ok {
							// a FreeVar root with zero loads and Content=false is the captured
							// variable itself only if the variable is the reconciler struct value
							how := "store"
							if _, isMU := in.(*ssa.MapUpdate); isMU {
								how = "map update"
							} else if _, isCall := in.(ssa.CallInstruction); isCall {
								how = "builtin " + dBuiltin(in.(ssa.CallInstruction).Common())
							}
							out = append(out, dStateWrite{Fn: fn, Instr: in, What: what, How: how, Kind: "write"})
						}
					}
				}
				ci, ok := in.(ssa.CallInstruction)
				if !ok {
					continue
				}
				c := ci.Common()
				if dBuiltin(c) != "" {
					continue
				}
				callee := staticCallee(c)
				args := c.Args
				var recv ssa.Value
				if c.IsInvoke() {
					recv = c.Value
				}
				check := func(a ssa.Value, j int, isRecv bool) {
					if a == nil || !dPointerLike(a.Type()) {
						return
					}
					for _, ch := range dChains(a, true) {
						what, ok := dSharedRoot(p, recTypes, ch)
						if !ok {
							continue
						}
						// the reconciler itself handed on as receiver/argument of a repository
						// function is followed by the caller through reachability, not here
						if _, isG := ch.Root.(*ssa.Global); !isG && len(ch.Path) == 0 {
							continue
						}
						if callee != nil && p.IsRepoFunc(callee) {
							if ws.Writes(callee, j) {
								out = append(out, dStateWrite{Fn: fn, Instr: in, What: what, Kind: "write",
									How: "passed to " + shortFunc(callee) + " which writes through it (" + ws.Why[callee][j] + ")"})
							}
							continue
						}
						sel := calleeName(c)
						out = append(out, dStateWrite{Fn: fn, Instr: in, What: what, Kind: "external-call",
							Type: types.TypeString(a.Type(), nil), Sel: sel, How: "handed to " + sel})
					}
				}
				if recv != nil {
					check(recv, -1, true)
				}
				for j, a := range args {
					check(a, j, false)
				}
			}
		}
	}
	return out
}

// dNormalReturns lists the reachable return instructions of fn (the unreachable recover block is skipped).
func dNormalReturns(fn *ssa.Function) []*ssa.Return {
	var out []*ssa.Return
	for _, b := range fn.Blocks {
		if rt := returnOf(b); rt != nil && (len(b.Preds) > 0 || b == fn.Blocks[0]) {
			out = append(out, rt)
		}
	}
	return out
}

// dCellValue returns the single value ever stored into a local variable cell — counting the
// function itself and the closures that capture the cell — or nil if the cell is assigned more than
// once, never, or its address is used for anything but loads, stores and closure capture.
func dCellValue(a *ssa.Alloc) ssa.Value {
	var val ssa.Value
	n := 0
	var scan func(cell ssa.Value, depth int) bool
	scan = func(cell ssa.Value, depth int) bool {
		if depth > 3 {
			return false
		}
		for _, rf := range refs(cell) {
			switch x := rf.(type) {
			case *ssa.Store:
				if x.Addr != cell {
					return false
				}
				n++
				val = x.Val
			case *ssa.UnOp:
				if x.Op != token.MUL {
					return false
				}
			case *ssa.DebugRef:
			case *ssa.MakeClosure:
				f, ok := x.Fn.(*ssa.Function)
				if !ok {
					return false
				}
				for i, b := range x.Bindings {
					if b == cell && i < len(f.FreeVars) {
						if !scan(f.FreeVars[i], depth+1) {
							return false
						}
					}
				}
			default:
				return false
			}
		}
		return true
	}
	if !scan(a, 0) || n != 1 {
		return nil
	}
	return val
}

// ---------------------------------------------------------------------------------------------
// calls through function values: tables of functions and function-typed parameters

type dDynIndex struct {
	tables map[*ssa.Global][]*ssa.Function // nil entry = not a constant table
	calls  map[ssa.CallInstruction][]*ssa.Function
}

var dDynCache = map[*Prog]*dDynIndex{}

func dDyn(p *Prog) *dDynIndex {
	if d := dDynCache[p]; d != nil {
		return d
	}
	d := &dDynIndex{tables: map[*ssa.Global][]*ssa.Function{}, calls: map[ssa.CallInstruction][]*ssa.Function{}}
	dDynCache[p] = d
	return d
}

func dFuncOf(v ssa.Value) *ssa.Function {
	switch x := unwrap(v).(type) {
	case *ssa.Function:
		return dUnwrapThunk(x)
	case *ssa.MakeClosure:
		if f, ok := x.Fn.(*ssa.Function); ok && len(x.Bindings) == 0 {
			return dUnwrapThunk(f)
		}
	}
	return nil
}

// dUnwrapThunk sees through a synthetic wrapper (method expression thunk, promoted-method wrapper)
// that only forwards its parameters, in order, to one statically known function and returns its
// results: the wrapper and the target have the same parameter positions.
func dUnwrapThunk(f *ssa.Function) *ssa.Function {
	for depth := 0; depth < 3 && f != nil && f.Synthetic != "" && f.Parent() == nil && len(f.Blocks) > 0; depth++ {
		var target *ssa.Function
		n := 0
		for _, ci := range callsIn(f) {
			n++
			c := ci.Common()
			callee := staticCallee(c)
			if callee == nil || len(c.Args) != len(f.Params) {
				return f
			}
			for i, a := range c.Args {
				if unwrap(a) != ssa.Value(f.Params[i]) {
					return f
				}
			}
			target = callee
		}
		if n != 1 || target == nil {
			return f
		}
		f = target
	}
	return f
}

// dTableKeys returns the constant string keys of a package-level map that is a constant table in
// the sense of dTableElements (assigned once by the package initialiser, never written elsewhere).
func dTableKeys(p *Prog, g *ssa.Global) ([]string, bool) {
	if _, ok := dTableElements(p, g); !ok || g.Pkg == nil {
		return nil, false
	}
	initFn := g.Pkg.Func("init")
	if initFn == nil {
		return nil, false
	}
	var keys []string
	for _, b := range initFn.Blocks {
		for _, in := range b.Instrs {
			st, ok := in.(*ssa.Store)
			if !ok || st.Addr != ssa.Value(g) {
				continue
			}
			mm, ok := unwrap(st.Val).(*ssa.MakeMap)
			if !ok {
				return nil, false
			}
			for _, rf := range refs(mm) {
				if mu, ok := rf.(*ssa.MapUpdate); ok {
					k, isC := constString(mu.Key)
					if !isC {
						return nil, false
					}
					keys = append(keys, k)
				}
			}
		}
	}
	return keys, len(keys) > 0
}

// dTableElements returns the functions held by a package-level slice/array/map of functions that
// is assigned only by its package initialiser with a literal of statically known functions and is
// never written anywhere else in the repository. ok=false if it is not such a constant table.
func dTableElements(p *Prog, g *ssa.Global) ([]*ssa.Function, bool) {
	d := dDyn(p)
	if fs, seen := d.tables[g]; seen {
		return fs, fs != nil
	}
	d.tables[g] = nil
	if g.Pkg == nil || !p.IsRepoPkg(g.Pkg.Pkg.Path()) {
		return nil, false
	}
	fns := append([]*ssa.Function{}, p.RepoFuncs()...)
	initFn := g.Pkg.Func("init")
	if initFn != nil {
		fns = append(fns, initFn)
	}
	var elems []*ssa.Function
	nInit := 0
	for _, fn := range fns {
		for _, b := range fn.Blocks {
			for _, in := range b.Instrs {
				uses := false
				for _, op := range in.Operands(nil) {
					if *op == ssa.Value(g) {
						uses = true
					}
				}
				if uses {
					switch x := in.(type) {
					case *ssa.UnOp:
						if x.Op != token.MUL {
							return nil, false
						}
					case *ssa.Store:
						if x.Addr != ssa.Value(g) || fn != initFn {
							return nil, false
						}
						nInit++
						// the literal: a slice of a local array, or a map literal
						var vals []ssa.Value
						switch lit := unwrap(x.Val).(type) {
						case *ssa.Slice:
							a, ok := lit.X.(*ssa.Alloc)
							if !ok {
								return nil, false
							}
							for _, rf := range refs(a) {
								switch y := rf.(type) {
								case *ssa.IndexAddr:
									for _, r2 := range refs(y) {
										st, ok := r2.(*ssa.Store)
										if !ok || st.Addr != ssa.Value(y) {
											return nil, false
										}
										vals = append(vals, st.Val)
									}
								case *ssa.Slice:
								default:
									return nil, false
								}
							}
						case *ssa.MakeMap:
							for _, rf := range refs(lit) {
								switch y := rf.(type) {
								case *ssa.MapUpdate:
									vals = append(vals, y.Value)
								case *ssa.Store:
								default:
									return nil, false
								}
							}
						default:
							return nil, false
						}
						for _, v := range vals {
							f := dFuncOf(v)
							if f == nil {
								return nil, false
							}
							elems = append(elems, f)
						}
					default:
						return nil, false
					}
					continue
				}
				// writes into the table's elements
				for _, w := range dMemWrites(in) {
					if w.V == ssa.Value(g) {
						continue
					}
					for _, c := range dChains(w.V, true) {
						if c.Root == ssa.Value(g) {
							return nil, false
						}
					}
				}
			}
		}
	}
	if nInit != 1 || len(elems) == 0 {
		return nil, false
	}
	d.tables[g] = elems
	return elems, true
}

// dDynCallees resolves the possible callees of a call instruction: the static callee, the elements
// of a constant function table the called value is taken from, or — for a function-typed parameter —
// the functions passed at every call site. ok=false when the callee set is not known.
func dDynCallees(p *Prog, ci ssa.CallInstruction) ([]*ssa.Function, bool) {
	c := ci.Common()
	if c.IsInvoke() {
		return nil, false
	}
	if f := staticCallee(c); f != nil {
		return []*ssa.Function{f}, true
	}
	if _, isB := c.Value.(*ssa.Builtin); isB {
		return nil, false
	}
	d := dDyn(p)
	if fs, seen := d.calls[ci]; seen {
		return fs, fs != nil
	}
	d.calls[ci] = nil
	var out []*ssa.Function
	seen := map[*ssa.Function]bool{}
	var resolve func(v ssa.Value, depth int) bool
	resolve = func(v ssa.Value, depth int) bool {
		if depth > 3 {
			return false
		}
		if f := dFuncOf(v); f != nil {
			if !seen[f] {
				seen[f] = true
				out = append(out, f)
			}
			return true
		}
		chains := dChains(v, true)
		if len(chains) == 0 {
			return false
		}
		for _, ch := range chains {
			switch r := ch.Root.(type) {
			case *ssa.Global:
				fs, ok := dTableElements(p, r)
				if !ok {
					return false
				}
				for _, f := range fs {
					if !seen[f] {
						seen[f] = true
						out = append(out, f)
					}
				}
			case *ssa.Parameter:
				if len(ch.Path) != 0 || ch.Loads != 0 {
					return false
				}
				sites := p.callSitesAll(r.Parent())
				if len(sites) == 0 {
					return false
				}
				for _, cs := range sites {
					idx := paramIndex(r)
					if idx >= len(cs.Common().Args) || !resolve(cs.Common().Args[idx], depth+1) {
						return false
					}
				}
			case *ssa.Function, *ssa.MakeClosure:
				if !resolve(r, depth+1) {
					return false
				}
			default:
				return false
			}
		}
		return true
	}
	if !resolve(c.Value, 0) || len(out) == 0 {
		return nil, false
	}
	d.calls[ci] = out
	return out, true
}

// dReachable is reachableFuncs closed under calls through constant function tables and
// function-typed parameters.
func dReachable(p *Prog, roots ...*ssa.Function) map[*ssa.Function]bool {
	seen := p.reachableFuncs(roots...)
	if !fullSSABodies {
		return seen // reachableFuncs is already closed under these calls
	}
	for changed := true; changed; {
		changed = false
		for _, fn := range sortedFuncs(seen) {
			if !p.IsRepoFunc(fn) {
				continue
			}
			for _, ci := range callsIn(fn) {
				if ci.Common().IsInvoke() || staticCallee(ci.Common()) != nil {
					continue
				}
				fs, ok := dDynCallees(p, ci)
				if !ok {
					continue
				}
				for _, f := range fs {
					if !seen[f] && p.IsRepoFunc(f) {
						for g := range p.reachableFuncs(f) {
							if !seen[g] {
								seen[g] = true
								changed = true
							}
						}
					}
				}
			}
		}
	}
	return seen
}

// dCallSitesIn lists the call sites of fn inside the given functions, including calls through
// function values resolved by dDynCallees.
func dCallSitesIn(p *Prog, fn *ssa.Function, in map[*ssa.Function]bool) []ssa.CallInstruction {
	out := callSitesOf(fn, in)
	for _, f := range sortedFuncs(in) {
		if !p.IsRepoFunc(f) {
			continue
		}
		for _, ci := range callsIn(f) {
			if ci.Common().IsInvoke() || staticCallee(ci.Common()) != nil {
				continue
			}
			if fs, ok := dDynCallees(p, ci); ok {
				for _, g := range fs {
					if g == fn {
						out = append(out, ci)
					}
				}
			}
		}
	}
	return out
}
